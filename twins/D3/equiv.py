"""Differential script for refactoring 3 (comprehensions -> explicit loops):
ProvRecord.attributes / args / formal_attributes / extra_attributes."""
import os
import sys

if os.environ.get("PYTHONHASHSEED") != "0":
    env = dict(os.environ, PYTHONHASHSEED="0")
    os.execve(sys.executable, [sys.executable] + sys.argv, env)

import datetime
import hashlib

from prov.model import ProvDocument, ProvRecord, ProvEntity, Literal, Identifier, PROV
from prov.constants import XSD_INT
from prov.tests import examples

out = []


def emit(tag, value):
    out.append("%s: %r" % (tag, value))


def show(v):
    return (type(v).__name__, str(v))


def keys(rec):
    return [str(k) for k in rec._attributes]


def dump(tag, rec):
    emit(tag + " keys-before", keys(rec))
    attrs = rec.attributes
    emit(tag + " attributes", (type(attrs).__name__, [(show(k), show(v)) for k, v in attrs]))
    emit(tag + " keys-after-attributes", keys(rec))
    extra = rec.extra_attributes
    emit(tag + " extra", (type(extra).__name__, [(show(k), show(v)) for k, v in extra]))
    emit(tag + " keys-after-extra", keys(rec))
    args = rec.args
    emit(tag + " args", (type(args).__name__, [show(v) for v in args]))
    emit(tag + " keys-after-args", keys(rec))
    formal = rec.formal_attributes
    emit(tag + " formal", (type(formal).__name__, [(show(k), show(v)) for k, v in formal]))
    emit(tag + " keys-after-formal", keys(rec))
    # fresh objects each time?
    emit(tag + " fresh", (rec.attributes is rec.attributes, rec.attributes == attrs,
                          rec.args == args, rec.formal_attributes == formal,
                          rec.extra_attributes == extra))
    emit(tag + " repr", repr(rec))
    emit(tag + " provn", rec.get_provn())
    cp = rec.copy()
    emit(tag + " copy", (cp == rec, hash(cp) == hash(rec), cp is rec, cp.get_provn(),
                         keys(cp)))


d = ProvDocument()
d.add_namespace("ex", "http://example.org/")
d.set_default_namespace("http://default.example/")

e0 = d.entity("ex:e0")
e1 = d.entity(
    "ex:e1",
    [
        ("prov:type", "ex:T1"),
        ("prov:type", PROV["Plan"]),
        ("ex:rep", 1),
        ("ex:rep", 2),
        ("ex:rep", 1),
        ("ex:rep", 1.0),
        ("ex:rep", True),
        ("prov:label", "label"),
        ("prov:label", Literal("étiquette", langtag="fr")),
        ("prov:value", Literal("10", XSD_INT)),
        ("ex:empty", ""),
        ("ex:none", None),
        ("ex:uri", Identifier("http://example.org/x")),
    ],
)
a0 = d.activity("ex:a0")
a1 = d.activity("ex:a1", "2011-11-16T16:05:00", None, {"ex:k": "v"})
a2 = d.activity("a2", None, datetime.datetime(2000, 1, 2, 3, 4, 5), [("ex:k", "v"), ("ex:k", "w")])
ag = d.agent("ex:ag", {"prov:type": PROV["Person"]})
recs = [
    e0, e1, a0, a1, a2, ag,
    d.generation(e1),
    d.generation(e1, a1, "2012-01-01T00:00:00", "ex:gen1", {"ex:role": "out"}),
    d.usage(a1, e0, identifier="ex:use1"),
    d.communication(a2, a1),
    d.start(a1, e0, a2, datetime.datetime(1999, 12, 31, 23, 59, 59)),
    d.end(a1, other_attributes=[("ex:x", "1"), ("ex:x", "2")]),
    d.invalidation(e1, time="2013-03-03"),
    d.attribution(e1, ag),
    d.association(a1, ag, e0, "ex:assoc", {"prov:role": "boss"}),
    d.association(a1),
    d.delegation(ag, "ex:other", a1),
    d.influence(e1, e0),
    d.derivation(e1, e0, a1, "ex:gen1", "ex:use1", "ex:der", {"ex:w": 0.5}),
    d.revision(e1, e0),
    d.specialization(e1, e0),
    d.alternate(e1, e0),
    d.membership(e0, e1),
    d.mention("ex:e1", "ex:inner", "ex:bundle1"),
    d.collection("ex:c", {"ex:n": 3}),
]
b = d.bundle("ex:bundle1")
recs.append(b.entity("ex:inner", {"ex:a": "b"}))
recs.append(b.usage("ex:a1", "ex:inner"))

for i, rec in enumerate(recs):
    dump("rec%02d" % i, rec)

# after set_time on an activity without times
a0.set_time(endTime="2020-01-01T00:00:00")
dump("a0-after-set_time", a0)

# equality / hashing / add_record / unified / serialisation all go through the properties
d2 = ProvDocument()
for rec in d.get_records():
    d2.add_record(rec)
emit("d2 provn", d2.get_provn())
emit("d2 records eq", [r1 == r2 for r1, r2 in zip(d.get_records(), d2.get_records())])
emit("hash eq", [hash(r1) == hash(r2) for r1, r2 in zip(d.get_records(), d2.get_records())])
emit("cross eq", [[int(r1 == r2) for r2 in recs[:8]] for r1 in recs[:8]])
emit("unified", d.unified().get_provn())
emit("flattened", d.flattened().get_provn())
emit("json", d.serialize(format="json", indent=None, sort_keys=True))
emit("xml", d.serialize(format="xml"))

for name, fn in sorted(examples.tests):
    doc = fn()
    for j, rec in enumerate(doc.get_records()):
        emit("ex %s %d" % (name, j), (
            [(show(k), show(v)) for k, v in rec.attributes],
            [show(v) for v in rec.args],
            [(show(k), show(v)) for k, v in rec.formal_attributes],
            [(show(k), show(v)) for k, v in rec.extra_attributes],
            keys(rec),
        ))


# a bare ProvRecord / custom FORMAL_ATTRIBUTES given as a generator-unfriendly list
class R(ProvEntity):
    FORMAL_ATTRIBUTES = [PROV["label"], PROV["value"], PROV["label"]]


r = R(d, d.valid_qualified_name("ex:r"), {"prov:label": "L", "ex:z": 1})
emit("R", (r.attributes, r.args, r.formal_attributes, r.extra_attributes, keys(r)))
bare = ProvRecord(d, None)
emit("bare", (bare.attributes, bare.args, bare.formal_attributes, bare.extra_attributes, keys(bare)))

text = "\n".join(out)
print(text)
print("DIGEST", hashlib.sha256(text.encode("utf-8")).hexdigest())
