"""Differential script for refactoring 3: ProvBundle.__eq__ / ProvDocument.__eq__."""
import os, sys
if os.environ.get("PYTHONHASHSEED") != "0":
    os.environ["PYTHONHASHSEED"] = "0"
    os.execv(sys.executable, [sys.executable] + sys.argv)

import datetime, hashlib, glob, logging
import prov.model as pm
from prov.model import ProvDocument, ProvBundle, ProvRecord, Literal, Identifier
from prov.identifier import Namespace
# Harness-only: make Identifier hashing reproducible between runs (it mixes in hash(cls)).
Identifier.__hash__ = lambda self: hash((self.uri, self.__class__.__name__))

out = []
def emit(*a):
    out.append(" ".join(str(x) for x in a))

class Capture(logging.Handler):
    def emit(self, record):
        out.append("   LOG %s %s %s" % (record.name, record.levelname, record.getMessage()))
pm.logger.setLevel(logging.DEBUG)
pm.logger.addHandler(Capture())
pm.logger.propagate = False

EX = Namespace("ex", "http://example.org/")
t = datetime.datetime(2020, 1, 2, 3, 4, 5)

def base(doc=None):
    d = doc if doc is not None else ProvDocument()
    d.add_namespace(EX)
    d.entity("ex:e1", {"prov:label": "é \"q\"\n"})
    d.entity("ex:e2")
    d.activity("ex:a1", t)
    d.generation("ex:e1", "ex:a1", t)
    d.usage("ex:a1", "ex:e2")
    return d

docs = {}
docs["empty"] = ProvDocument()
docs["empty2"] = ProvDocument()
docs["base"] = base()
docs["base_again"] = base()
d = base(); d.entity("ex:e3"); docs["extra_rec"] = d
d = base(); d.entity("ex:e1", {"prov:label": "é \"q\"\n"}); docs["dup_rec"] = d          # duplicate record
d = base(); d.entity("ex:e1", {"prov:label": "other"}); docs["same_id_diff_attr"] = d
d = ProvDocument(); d.add_namespace(EX)                                                 # same records, other order
d.usage("ex:a1", "ex:e2"); d.generation("ex:e1", "ex:a1", t); d.activity("ex:a1", t)
d.entity("ex:e2"); d.entity("ex:e1", {"prov:label": "é \"q\"\n"}); docs["reordered"] = d
d = ProvDocument(); d.add_namespace("other", "http://example.org/")                    # same URIs, other prefix
d.entity("other:e1", {"prov:label": "é \"q\"\n"}); d.entity("other:e2"); d.activity("other:a1", t)
d.generation("other:e1", "other:a1", t); d.usage("other:a1", "other:e2"); docs["other_prefix"] = d
d = base(); d.bundle("ex:b1"); docs["empty_bundle"] = d
d = base(); base(d.bundle("ex:b1")); docs["bundle_b1"] = d
d = base(); base(d.bundle("ex:b1")); docs["bundle_b1_again"] = d
d = base(); base(d.bundle("ex:b2")); docs["bundle_b2"] = d
d = base(); b = base(d.bundle("ex:b1")); b.entity("ex:in_bundle"); docs["bundle_b1_more"] = d
d = base(); base(d.bundle("ex:b1")); base(d.bundle("ex:b2")); docs["two_bundles"] = d
d = base(); base(d.bundle("ex:b2")); base(d.bundle("ex:b1")); docs["two_bundles_rev"] = d
d = base(); base(d.bundle("ex:b1")); d.bundle("ex:b3"); docs["two_bundles_other"] = d
d = ProvDocument(); d.add_namespace(EX); d.bundle("ex:b1"); docs["only_empty_bundle"] = d
d = ProvDocument(); d.add_namespace(EX); base(d.bundle("ex:b1")); docs["only_bundle"] = d
d = ProvDocument(); d.add_namespace(EX); d.entity("ex:e1"); d.entity("ex:e1"); docs["two_same"] = d
d = ProvDocument(); d.add_namespace(EX); d.entity("ex:e1"); d.entity("ex:e2"); docs["two_diff"] = d
d = ProvDocument(); d.add_namespace(EX); d.entity("ex:e1"); docs["one"] = d

names = list(docs)
emit("DOC x DOC")
for a in names:
    emit(a)
    emit("  ==", "".join("1" if docs[a] == docs[b] else "0" for b in names))
    emit("  !=", "".join("1" if docs[a] != docs[b] else "0" for b in names))

# plain bundles (stand-alone and the ones owned by documents)
bundles = {}
bundles["free_empty"] = ProvBundle()
bundles["free_named_empty"] = ProvBundle(identifier=EX["b1"])
bundles["free_base"] = base(ProvBundle(identifier=EX["b1"]))
bundles["free_base_other_id"] = base(ProvBundle(identifier=EX["zzz"]))
bundles["free_from_records"] = ProvBundle(records=docs["base"].get_records())
for k in ("bundle_b1", "bundle_b2", "bundle_b1_more", "empty_bundle", "two_bundles"):
    for bb in docs[k].bundles:
        bundles["%s/%s" % (k, bb.identifier)] = bb
bnames = list(bundles)
emit("BUNDLE x BUNDLE")
for a in bnames:
    emit(a)
    emit("  ==", "".join("1" if bundles[a] == bundles[b] else "0" for b in bnames))
    emit("  !=", "".join("1" if bundles[a] != bundles[b] else "0" for b in bnames))

emit("BUNDLE x DOC and DOC x BUNDLE")
for a in bnames:
    emit(a, "".join("1" if bundles[a] == docs[b] else "0" for b in names),
         "".join("1" if docs[b] == bundles[a] else "0" for b in names),
         "".join("1" if docs[b] != bundles[a] else "0" for b in names))

emit("FOREIGN OPERANDS")
for o in (None, 0, "document", [], (), object(), ProvRecord, docs["base"].get_records()[0]):
    for k in ("empty", "base", "bundle_b1"):
        emit(type(o).__name__, k, docs[k] == o, docs[k] != o, o == docs[k], o != docs[k])
    emit(type(o).__name__, "bundle", bundles["free_base"] == o, bundles["free_base"] != o)

# operands are not modified by a comparison; bundles are unhashable
before = [r.get_provn() for r in docs["base"].get_records()], [r.get_provn() for r in docs["extra_rec"].get_records()]
docs["base"] == docs["extra_rec"]; docs["extra_rec"] == docs["base"]
after = [r.get_provn() for r in docs["base"].get_records()], [r.get_provn() for r in docs["extra_rec"].get_records()]
emit("unmodified", before == after, len(docs["base"]._id_map), len(docs["extra_rec"]._id_map))
for obj in (docs["base"], bundles["free_base"]):
    try:
        hash(obj); emit("hashable")
    except TypeError as ex:
        emit("unhashable", ex)

# a subclass overriding ProvBundle.__eq__ is still reached through super()
class TracingDoc(ProvDocument):
    pass
td = base(TracingDoc()); base(td.bundle("ex:b1"))
emit("subclass", td == docs["bundle_b1"], docs["bundle_b1"] == td, td != docs["bundle_b2"], td == td)

# a record whose __eq__ raises: the exception escapes at the same point
class Boom(Exception): pass
d1 = base(); d2 = base()
orig = pm.ProvUsage.__eq__
def raising(self, other): raise Boom("usage compared")
pm.ProvUsage.__eq__ = raising
pm.ProvUsage.__hash__ = ProvRecord.__hash__
try:
    emit("raising", d1 == d2)
except Boom as ex:
    emit("raising exc", ex)
del pm.ProvUsage.__eq__, pm.ProvUsage.__hash__

# fixtures: every JSON test document compared with itself re-read and with its neighbour
paths = sorted(glob.glob("src/prov/tests/json/*.json"))[:80]
loaded = [ProvDocument.deserialize(p) for p in paths]
again = [ProvDocument.deserialize(p) for p in paths]
emit("fixtures self", "".join("1" if a == b else "0" for a, b in zip(loaded, again)))
emit("fixtures next", "".join("1" if a == b else "0" for a, b in zip(loaded, again[1:])))
import prov.tests.examples as examples
ex_docs = [fn() for _, fn in examples.tests]
ex_docs2 = [fn() for _, fn in examples.tests]
emit("examples self", "".join("1" if a == b else "0" for a, b in zip(ex_docs, ex_docs2)))
emit("examples cross", "".join("1" if a == b else "0" for a in ex_docs for b in ex_docs2))
emit("examples unified/flattened", "".join("1" if a.unified() == a else "0" for a in ex_docs),
     "".join("1" if a.flattened() == a else "0" for a in ex_docs))

text = "\n".join(out)
print(text)
print("DIGEST", hashlib.sha256(text.encode("utf-8")).hexdigest())
