# Differential script for refactoring 6 (decode_json_container split: prefix block and
# PROV-attribute value selection moved to helpers, error text hoisted to a constant).
import copy
import io
import json
import logging
import os
import sys

sys.path.insert(0, os.path.dirname(os.path.abspath(__file__)))
import corpus  # noqa: E402
from prov.serializers import provjson  # noqa: E402
from prov.model import ProvDocument, ProvBundle  # noqa: E402

logging.basicConfig(stream=sys.stdout, format="LOG %(levelname)s %(name)s | %(message)s")

EX = {"ex": "http://example.org/"}
CASES = {name: json.loads(text) for name, text in corpus.JSON_INPUTS.items()}
CASES.update({
    "prefix_default_only": {"prefix": {"default": "http://d/"}, "entity": {"e": {}}},
    "prefix_empty": {"prefix": {}, "entity": {}},
    "prefix_order": {"prefix": {"default": "http://d1/", "a": "http://a/", "b": "http://a/", "a2": "http://a2/"},
                     "entity": {"a:x": {}, "b:y": {}, "z": {}}},
    "prefix_not_dict": {"prefix": ["ex"]},
    "prefix_bad_uri": {"prefix": {"ex": None}},
    "prefix_redefine_prov": {"prefix": {"prov": "http://not-prov/", "xsd": "http://not-xsd/"},
                             "entity": {"prov:e": {"prov:type": {"$": "5", "type": "xsd:int"}}}},
    "membership_two": {"prefix": EX, "hadMember": {"_:m": {"prov:collection": "ex:c", "prov:entity": ["ex:a", "ex:b"]}}},
    "membership_no_collection": {"prefix": EX, "hadMember": {"_:m": {"prov:entity": ["ex:a", "ex:b"]}}},
    "membership_entity_before_collection": {"prefix": EX, "hadMember": {"ex:m": {"prov:entity": ["ex:a", "ex:b", "ex:a"], "prov:collection": "ex:c", "ex:o": [1, 2]}}},
    "membership_bad_member": {"prefix": EX, "hadMember": {"_:m": {"prov:collection": "ex:c", "prov:entity": ["ex:a", "zz:b", None, "ex:d"]}}},
    "membership_single_list": {"prefix": EX, "hadMember": {"_:m": {"prov:collection": ["ex:c"], "prov:entity": ["ex:a"]}}},
    "membership_alias_then_plain": {"prefix": {"ex": "http://example.org/", "p": "http://www.w3.org/ns/prov#"},
                                    "hadMember": {"_:m": {"p:entity": ["ex:m4", "ex:m5"], "prov:collection": "ex:c", "prov:entity": "ex:m1"}}},
    "membership_alias_then_single_list": {"prefix": {"ex": "http://example.org/", "p": "http://www.w3.org/ns/prov#"},
                                          "hadMember": {"_:m": {"p:entity": ["ex:m4", "ex:m5"], "prov:collection": "ex:c", "prov:entity": ["ex:m1"]}}},
    "entity_attr_on_other_record": {"prefix": EX, "used": {"_:u": {"prov:activity": "ex:a", "prov:entity": ["ex:e1", "ex:e2"]}}},
    "time_list": {"prefix": EX, "activity": {"ex:a": {"prov:startTime": ["2011-01-01T00:00:00"], "prov:endTime": ["2011-01-01T00:00:00", "2012-01-01T00:00:00"]}}},
    "time_bad": {"prefix": EX, "activity": {"ex:a": {"prov:startTime": "not a time"}}},
    "time_number": {"prefix": EX, "activity": {"ex:a": {"prov:startTime": 5}}},
    "qname_dict_value": {"prefix": EX, "used": {"_:u": {"prov:activity": {"$": "ex:a", "type": "prov:QUALIFIED_NAME"}}}},
    "qname_none": {"prefix": EX, "used": {"_:u": {"prov:activity": None, "prov:entity": [None]}}},
    "qname_tuple_like": {"prefix": EX, "used": {"_:u": {"prov:activity": "ex:a", "prov:entity": [["ex:e"]]}}},
    "record_list_empty": {"prefix": EX, "entity": {"ex:e": []}},
    "record_not_mapping": {"prefix": EX, "entity": {"ex:e": "oops"}},
    "record_list_of_non_dict": {"prefix": EX, "entity": {"ex:e": [1]}},
    "rec_type_not_mapping": {"prefix": EX, "entity": ["ex:e"]},
    "other_attr_unknown_prefix": {"prefix": EX, "entity": {"ex:e": {"zz:k": 1, "ex:k": [{"$": "1", "type": "zz:t"}]}}},
    "other_attr_bad_literal": {"prefix": EX, "entity": {"ex:e": {"ex:k": [1, {"type": "xsd:int"}]}}},
    "all_relations": json.loads(corpus.doc_rich().serialize(format="json")),
})


def run(tag, content, target_factory):
    content = copy.deepcopy(content)
    target = target_factory()
    r = corpus.attempt(provjson.decode_json_container, content, target)
    print("##", tag, r if r[0] == "exc" else ("ok", r[1]))
    # state of the target even after a failure (records added before the error stay)
    print(corpus.describe_doc(target) if isinstance(target, ProvDocument) else
          "\n".join("%r %r %r" % (x.get_type(), x.identifier, x.attributes) for x in target.get_records()))
    print("left in container:", json.dumps(content))


def new_doc():
    return ProvDocument()


def new_bundle():
    d = ProvDocument()
    d.add_namespace("ex", "http://example.org/")
    return d.bundle("ex:bundle")


for name, content in CASES.items():
    sub = content.pop("bundle", None)
    run(name + " @doc", content, new_doc)
    run(name + " @bundle", content, new_bundle)
    if sub:
        for bid, bc in sub.items():
            run(name + " sub " + bid + " @bundle", bc, new_bundle)

# front door, incl. bundles and the order of log/exception
for name, text in corpus.JSON_INPUTS.items():
    r = corpus.attempt(ProvDocument.deserialize, content=text, format="json")
    if r[0] == "ok":
        print("== input", name)
        print(corpus.describe_doc(r[1]))
        print(r[1].serialize(format="json"))
    else:
        print("input", name, r)
d = corpus.doc_rich()
d2 = ProvDocument.deserialize(content=d.serialize(format="json"), format="json")
print("roundtrip equal", d == d2)
print(corpus.describe_doc(d2))

# the exception object
try:
    provjson.decode_json_container(copy.deepcopy(CASES["multi_value_error"]), ProvDocument())
except provjson.ProvJSONException as e:
    print(type(e).__mro__[1].__name__, e.args, e.__context__, e.__cause__)
