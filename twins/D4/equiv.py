"""Differential script for refactoring 4 (consistent renaming of local variables):
ProvRecord.add_attributes and ProvRecord._auto_literal_conversion."""
import os
import sys

if os.environ.get("PYTHONHASHSEED") != "0":
    env = dict(os.environ, PYTHONHASHSEED="0")
    os.execve(sys.executable, [sys.executable] + sys.argv, env)

import datetime
import hashlib

from prov.model import (
    ProvDocument,
    ProvRecord,
    Literal,
    Identifier,
    Namespace,
    PROV,
)
from prov.constants import (
    XSD_INT,
    XSD_DOUBLE,
    XSD_BOOLEAN,
    XSD_DATETIME,
    XSD_ANYURI,
    XSD_STRING,
    XSD_QNAME,
    PROV_ATTR_COLLECTION,
    PROV_ATTR_ENTITY,
    PROV_ATTR_TIME,
    PROV_TYPE,
)

out = []


def emit(tag, value):
    out.append("%s: %r" % (tag, value))


def show(v):
    return (type(v).__name__, str(v))


def state(rec):
    return [(str(k), sorted(show(v) for v in vs)) for k, vs in rec._attributes.items()]


d = ProvDocument()
d.add_namespace("ex", "http://example.org/")
other_ns = Namespace("zz", "http://unregistered.example/")
counter = [0]


def fresh(kind="entity"):
    counter[0] += 1
    return getattr(d, kind)("ex:%s%d" % (kind, counter[0]))


def try_add(tag, attrs, rec=None, kind="entity"):
    rec = rec if rec is not None else fresh(kind)
    try:
        res = rec.add_attributes(attrs)
        emit(tag + " ok", (res, state(rec)))
    except Exception as exc:  # noqa
        emit(tag + " !exc", (type(exc).__name__, str(exc), state(rec)))
    return rec


class Cmp(object):
    """A value whose != raises TypeError."""

    def __init__(self, n):
        self.n = n

    def __ne__(self, other):
        raise TypeError("incomparable")

    def __eq__(self, other):
        raise TypeError("incomparable")

    def __hash__(self):
        return self.n

    def __str__(self):
        return "Cmp%d" % self.n


e_target = d.entity("ex:target")
a_target = d.activity("ex:act")

# --- _auto_literal_conversion directly
rec = fresh()
conv_inputs = [
    "plain", "", "ex:looks-like-qname", 1, 1.5, True, None,
    PROV["Entity"], other_ns["thing"], Identifier("http://example.org/id"),
    e_target, a_target,
    Literal("10", XSD_INT), Literal("1e3", XSD_DOUBLE),
    Literal("true", XSD_BOOLEAN), Literal("maybe", XSD_BOOLEAN),
    Literal("2012-01-01T00:00:00", XSD_DATETIME), Literal("not a date", XSD_DATETIME),
    Literal("http://x", XSD_ANYURI), Literal("s", XSD_STRING), Literal("", XSD_STRING),
    Literal("ex:q", XSD_QNAME), Literal("v", "ex:custom"),
    Literal("no type"), Literal(""), Literal("hello", langtag="en"),
    Literal("hello", langtag=""),
    datetime.datetime(2001, 2, 3), (1, 2), b"bytes",
]
for i, v in enumerate(conv_inputs):
    try:
        r = rec._auto_literal_conversion(v)
        emit("conv %d" % i, (show(r), r is v))
    except Exception as exc:  # noqa
        emit("conv %d !exc" % i, (type(exc).__name__, str(exc)))
try:
    emit("conv bad int", rec._auto_literal_conversion(Literal("x10", XSD_INT)))
except Exception as exc:  # noqa
    emit("conv bad int !exc", (type(exc).__name__, str(exc)))

# --- add_attributes
try_add("empty dict", {})
try_add("empty list", [])
try_add("None", None)
try_add("dict", {"ex:a": 1, "ex:b": "two", "prov:label": "L", "ex:none": None})
try_add("list dup", [("ex:a", 1), ("ex:a", 1), ("ex:a", 2), ("ex:a", "1"), ("ex:a", 1.0), ("ex:a", True)])
try_add("tuple of lists", (["ex:a", 1], ["ex:b", None]))
try_add("generator (consumed by collection check)", (p for p in [("ex:a", 1)]))
try_add("iterator of dict items", iter({"ex:a": 1}.items()))
try_add("qname keys", [(PROV["label"], "x"), (other_ns["k"], "v"), (PROV_TYPE, PROV["Plan"])])
try_add("invalid attr name", [("ex:ok", 1), ("nope:bad", 2), ("ex:never", 3)])
try_add("invalid attr name none-valued", [("nope:bad", None), ("ex:ok", 1)])
try_add("attr name not str", [(42, 1)])
try_add("conversions", [("ex:v%d" % i, v) for i, v in enumerate(conv_inputs)])
try_add("bad literal", [("ex:first", 1), ("ex:v", Literal("x10", XSD_INT)), ("ex:last", 2)])
try_add("unusual chars", {"ex:s": 'q"uote\\ \n nl', "ex:u": "é☃", "prov:label": Literal("l\n", langtag="x-y")})

# PROV qname-valued attributes
try_add("prov:entity str", [("prov:entity", "ex:target")])
g = d.generation("ex:target")
try_add("gen same entity again (str)", [("prov:entity", "ex:target")], rec=g)
try_add("gen same entity again (record)", [(PROV_ATTR_ENTITY, e_target)], rec=g)
try_add("gen different entity", [("prov:entity", "ex:else")], rec=g)
try_add("gen invalid entity qname", [("prov:activity", "bad:prefix")], rec=g)
try_add("gen invalid entity value int", [("prov:activity", 5)], rec=g)
try_add("gen activity record", [("prov:activity", a_target), ("ex:x", e_target)], rec=g)
try_add("gen time str", [("prov:time", "2012-05-05T05:05:05")], rec=g)
try_add("gen time same dt", [(PROV_ATTR_TIME, datetime.datetime(2012, 5, 5, 5, 5, 5))], rec=g)
try_add("gen time aware dt", [(PROV_ATTR_TIME, datetime.datetime(2012, 5, 5, 5, 5, 5, tzinfo=datetime.timezone.utc))], rec=g)
try_add("gen time garbage", [("prov:time", "garbage")], rec=g)
try_add("gen time int", [("prov:time", 7)], rec=g)
try_add("gen time empty", [("prov:time", "")], rec=g)

act = d.activity("ex:timed")
try_add("act start", {"prov:startTime": "2000-01-01", "prov:endTime": None}, rec=act)
try_add("act start dup same", {"prov:startTime": datetime.datetime(2000, 1, 1)}, rec=act)
try_add("act start dup other", {"prov:startTime": "2000-01-02"}, rec=act)

# collection: several values allowed for formal attributes
m = d.membership("ex:coll", "ex:m1")
try_add("membership add with collection", [(PROV_ATTR_COLLECTION, "ex:coll"), ("prov:entity", "ex:m2"), ("prov:entity", "ex:m3")], rec=m)
try_add("membership add without collection", [("prov:entity", "ex:m4")], rec=m)
try_add("collection key as str is not detected", [("prov:collection", "ex:coll"), ("prov:entity", "ex:m5")], rec=d.membership("ex:coll", "ex:m1"))
try_add("dict with collection", {PROV_ATTR_COLLECTION: "ex:coll2", PROV_ATTR_ENTITY: "ex:m6"}, rec=d.membership("ex:coll", "ex:m1"))

# incomparable values (TypeError in !=)
r = ProvRecord(d, None)
r._attributes[PROV_ATTR_ENTITY].add(Cmp(1))
try_add("incomparable", [("prov:entity", "ex:target")], rec=r)

# malformed pairs
try_add("pair too short", [("ex:a",)])
try_add("pair too long", [("ex:a", 1, 2)])
try_add("not pairs", [5])
try_add("string", "ab")
try_add("strings of len 2", ["ab"])

# bundle-scoped namespaces
b = d.bundle("ex:b")
b.add_namespace("in", "http://inner.example/")
be = b.entity("in:e")
try_add("bundle inner ns", {"in:k": "in:v", "ex:k": PROV["Role"], "prov:type": "in:T"}, rec=be)
try_add("outer cannot see inner ns", {"in:k": 1})

emit("doc", d.get_provn())
add_record_doc = ProvDocument()
for rec in d.get_records():
    add_record_doc.add_record(rec)
emit("doc2", add_record_doc.get_provn())
try:
    emit("json", d.serialize(format="json", sort_keys=True))
except BaseException as exc:  # the odd python values above are not serialisable
    emit("json !exc", type(exc).__name__)
clean = ProvDocument()
clean.add_namespace("ex", "http://example.org/")
ce = clean.entity("ex:e", {"ex:a": 1, "ex:l": Literal("10", XSD_INT), "prov:type": PROV["Plan"]})
clean.generation(ce, "ex:a", "2012-01-01T00:00:00", other_attributes={"ex:r": Literal("x", langtag="en")})
emit("json clean", clean.serialize(format="json", sort_keys=True))
emit("xml clean", clean.serialize(format="xml"))

text = "\n".join(out)
print(text)
print("DIGEST", hashlib.sha256(text.encode("utf-8")).hexdigest())
