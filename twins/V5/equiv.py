# Differential script for refactoring 5 (ProvBundle.update, ProvDocument.update)
import os, sys
if "PYTHONHASHSEED" not in os.environ:
    os.environ["PYTHONHASHSEED"] = "0"
    os.execv(sys.executable, [sys.executable] + sys.argv)
import hashlib, collections
from prov.model import ProvDocument, ProvBundle, Namespace

out = []
def show(label, fn):
    try:
        out.append("%s: OK %r" % (label, fn()))
    except Exception as e:
        out.append("%s: EXC %s %s" % (label, type(e).__name__, e))

EX = Namespace("ex", "http://example.org/ex/")
def state(d):
    return (d.get_provn(), sorted((n.prefix, n.uri) for n in d.namespaces), d.default_ns_uri,
            [(repr(b.identifier), b.document is d, len(b.records)) for b in d.bundles])

def target_doc():
    d = ProvDocument(); d.add_namespace(EX)
    d.entity("ex:t")
    d.bundle("ex:b1").entity("ex:t1")
    return d

def src_doc(with_bundles=True):
    s = ProvDocument(); s.add_namespace("sx", "http://example.org/sx/"); s.set_default_namespace("http://sdef/")
    s.add_namespace(EX)
    s.entity("sx:é", {"sx:v": "ü\n"}); s.entity("plain"); s.entity("ex:t")
    if with_bundles:
        s.bundle("ex:b1").agent("sx:ag")          # same name as in the target
        s.bundle("sx:new").activity("sx:act")     # new bundle
        s.bundle("ex:empty")
    return s

def src_bundle():
    b = ProvBundle(identifier="whatever", namespaces=[Namespace("bb", "http://bb/")])
    b.entity("bb:e"); b.entity("bb:e", {"bb:k": 1}); b.wasDerivedFrom("bb:e", "bb:f")
    return b

class Weird(type):
    def __str__(cls): return "WEIRD<%s>" % cls.__name__
    def __format__(cls, spec): return "FORMATTED"
class WithMeta(metaclass=Weird):
    pass
Pt = collections.namedtuple("Pt", "x y")
non_bundles = [None, 1, "doc", [], (), (1, 2), {"a": 1}, Pt(1, 2), WithMeta(), ProvDocument, object()]

# ProvDocument.update
def doc_update(make_other):
    d = target_doc(); o = make_other()
    try:
        r = ("ok", d.update(o))
    except Exception as e:
        r = ("exc", type(e).__name__, str(e).replace(hex(id(o)), "ID"))
    return r, state(d), (state(o) if isinstance(o, ProvDocument) else None)
show("doc.update(doc with bundles)", lambda: doc_update(src_doc))
show("doc.update(doc without bundles)", lambda: doc_update(lambda: src_doc(False)))
show("doc.update(bundle)", lambda: doc_update(src_bundle))
show("doc.update(empty doc)", lambda: doc_update(ProvDocument))
show("doc.update(empty bundle)", lambda: doc_update(ProvBundle))
show("doc.update(attached bundle)", lambda: doc_update(lambda: list(src_doc().bundles)[0]))
def self_update():
    d = target_doc()
    try:
        r = d.update(d)
    except Exception as e:
        r = (type(e).__name__, str(e))
    return r, state(d)
show("doc.update(self)", self_update)
for nb in non_bundles:
    show("doc.update(%s)" % type(nb).__name__, lambda: doc_update(lambda: nb))

# a source whose bundle identifier is not resolvable in the target
def unresolvable():
    s = ProvDocument(); s.add_namespace("zz", "http://zz/"); s.entity("zz:e"); s.bundle("zz:b").entity("zz:inb")
    d = ProvDocument()
    try:
        r = d.update(s)
    except Exception as e:
        r = (type(e).__name__, str(e))
    return r, state(d)
show("doc.update(foreign ns bundles)", unresolvable)

# ProvBundle.update
def bundle_update(make_other, attached=False):
    if attached:
        d = target_doc(); b = list(d.bundles)[0]
    else:
        d = None; b = ProvBundle(identifier="free"); b.add_namespace(EX); b.entity("ex:own")
    o = make_other()
    try:
        r = ("ok", b.update(o))
    except Exception as e:
        r = ("exc", type(e).__name__, str(e).replace(hex(id(o)), "ID"))
    return r, b.get_provn(), sorted((n.prefix, n.uri) for n in b.namespaces), (state(d) if d else None)
for att in (False, True):
    show("bundle.update(doc with bundles) att=%s" % att, lambda: bundle_update(src_doc, att))
    show("bundle.update(doc without bundles) att=%s" % att, lambda: bundle_update(lambda: src_doc(False), att))
    show("bundle.update(bundle) att=%s" % att, lambda: bundle_update(src_bundle, att))
    show("bundle.update(empty doc) att=%s" % att, lambda: bundle_update(ProvDocument, att))
    for nb in non_bundles:
        show("bundle.update(%s) att=%s" % (type(nb).__name__, att), lambda: bundle_update(lambda: nb, att))

# subclass overriding has_bundles / is_document: call protocol is unchanged
calls = []
class Spy(ProvDocument):
    def is_document(self): calls.append("is_document"); return super().is_document()
    def has_bundles(self): calls.append("has_bundles"); return super().has_bundles()
    def get_records(self, *a): calls.append("get_records"); return super().get_records(*a)
    @property
    def bundles(self): calls.append("bundles"); return super().bundles
def spy_run():
    s = Spy(); s.add_namespace(EX); s.entity("ex:s"); s.bundle("ex:sb").entity("ex:q")
    del calls[:]
    r = []
    target_doc().update(s); r.append(list(calls)); del calls[:]
    try: ProvBundle().update(s)
    except Exception as e: r.append(str(e))
    r.append(list(calls)); del calls[:]
    e = Spy(); del calls[:]
    target_doc().update(e); r.append(list(calls)); del calls[:]
    ProvBundle().update(e); r.append(list(calls))
    return r
show("call protocol", spy_run)

text = "\n".join(out)
print(text)
print("DIGEST", hashlib.sha256(text.encode("utf-8")).hexdigest())
