"""Differential script for change 4 (f-string, zero-argument super(), conditional expression, literals)."""
import os
import sys

if os.environ.get("PYTHONHASHSEED") != "0":
    os.environ["PYTHONHASHSEED"] = "0"
    os.execv(sys.executable, [sys.executable] + sys.argv)

import copy
import hashlib
import io
import json

from prov.model import ProvDocument, ProvBundle, Literal, Identifier, QualifiedName, Namespace
from prov.serializers import Serializer, get
from prov.serializers import provjson
from prov.serializers.provjson import (
    AnonymousIDGenerator,
    ProvJSONEncoder,
    ProvJSONDecoder,
    ProvJSONSerializer,
    valid_qualified_name,
    decode_json_document,
    decode_json_container,
)
from prov.tests import examples

out = []


def h(x):
    return hashlib.sha256(x.encode("utf-8")).hexdigest()[:16]


def attempt(label, fn):
    try:
        out.append("%s -> %r" % (label, fn()))
    except BaseException as e:  # noqa
        msg = str(e) if not isinstance(e, RecursionError) else "<recursion>"
        out.append("%s !! %s: %s | ctx=%s" % (label, type(e).__name__, msg, type(e.__context__).__name__))


# --- AnonymousIDGenerator.get_anon_id ---------------------------------------
class Fancy:
    """__format__ differs from __str__: %s and !s must both use __str__"""

    def __str__(self):
        return "STR"

    def __format__(self, spec):
        return "FORMAT"

    def __repr__(self):
        return "REPR"


class StrSub(str):
    def __str__(self):
        return "sub-str"


g = AnonymousIDGenerator()
objs = ["a", "b", ("t", 1), 7, None, "a", frozenset([1]), "é", 1.0, True]
prefixes = ["id", "", "é中", 5, None, ("x",), ("x", "y"), Fancy(), StrSub("raw"), b"by", 2.5, "%s", "{}", "{0}"]
for i, o in enumerate(objs):
    p = prefixes[i % len(prefixes)]
    r = g.get_anon_id(o, p)
    out.append("anon %r prefix=%r -> %s %r uri=%r count=%d" % (o, p, type(r).__name__, str(r), r.uri, g._count))
for i, p in enumerate(prefixes):
    r = g.get_anon_id(("fresh", i), p)
    out.append("anon fresh prefix=%r -> %r count=%d" % (p, r.uri, g._count))
r1 = g.get_anon_id("a")
r2 = g.get_anon_id("a", "other")
out.append("cached same object: %r %r count=%d" % (r1 is r2, r1.uri, g._count))
out.append("default prefix: %r" % g.get_anon_id("new-default").uri)
attempt("unhashable", lambda: g.get_anon_id([]))
out.append("count after failure: %d cache=%d" % (g._count, len(g._cache)))
g2 = AnonymousIDGenerator()
out.append("independent generators: %r %r" % (g2.get_anon_id("a").uri, g2._count))

# --- valid_qualified_name ------------------------------------------------------
d = ProvDocument()
d.set_default_namespace("http://example.org/d/")
d.add_namespace("ex", "http://example.org/")
b = d.bundle("ex:b")
b.add_namespace("bx", "http://example.org/bx/")
for target, tname in ((d, "doc"), (b, "bundle"), (ProvDocument(), "bare-doc")):
    for v in [None, "", "ex:a", "bx:a", "plain", "unknown:a", "é:ü", "ex:é", "http://example.org/zz", 0, False,
              QualifiedName(Namespace("ex", "http://example.org/"), "q"), Identifier("http://example.org/i")]:
        attempt("vqn %s %r" % (tname, v), lambda: (lambda r: (type(r).__name__, str(r), getattr(r, "uri", None)))(valid_qualified_name(target, v)))
attempt("vqn no bundle None", lambda: valid_qualified_name(None, None))
attempt("vqn no bundle value", lambda: valid_qualified_name(None, "ex:a"))

# --- Encoder / Decoder (incl. subclasses: zero-argument super in a subclass instance) ----
class SubEncoder(ProvJSONEncoder):
    def default(self, o):
        return super().default(o)


class SubDecoder(ProvJSONDecoder):
    def decode(self, s, *a, **kw):
        return super().decode(s, *a, **kw)


def docs():
    yield "empty", ProvDocument()
    x = ProvDocument()
    x.set_default_namespace("http://example.org/d/")
    x.add_namespace("ex", "http://example.org/")
    x.entity("ex:é", {"ex:k": "värde 中文", "ex:l": Literal("salut", langtag="fr")})
    x.entity("ex:é", {"ex:k": ""})
    x.wasDerivedFrom("ex:é", "other")
    x.wasDerivedFrom("ex:é", "other")
    x.used("ex:act", "ex:é")
    x.hadMember("ex:c", "ex:é")
    bb = x.bundle("ex:b")
    bb.set_default_namespace("http://example.org/b/")
    bb.entity("local", {"ex:n": 3})
    bb.wasGeneratedBy("local", None)
    yield "rich", x
    for name, fn in sorted(examples.tests):
        yield "example:" + name, fn()


for name, doc in docs():
    for enc in (ProvJSONEncoder, SubEncoder):
        t1 = json.dumps(doc, cls=enc)
        t2 = enc().encode(doc)
        t3 = enc(indent=1, sort_keys=True).encode(doc)
        out.append("%s %s dumps=%s encode=%s indent=%s" % (name, enc.__name__, h(t1), h(t2), h(t3)))
    text = doc.serialize(format="json")
    for dec in (ProvJSONDecoder, SubDecoder):
        r = json.loads(text, cls=dec)
        r2 = dec().decode(text)
        out.append("%s %s eq=%r/%r type=%s reser=%s" % (name, dec.__name__, r == doc, r2 == doc, type(r).__name__, h(r.serialize(format="json"))))
    # decode_json_document on a plain container: mutation of the input is part of the behaviour
    content = json.loads(text)
    before = json.dumps(content, sort_keys=True)
    target = ProvDocument()
    ret = decode_json_document(content, target)
    out.append("%s decode_json_document ret=%r eq=%r left_keys=%r bundles=%r provn=%s" % (
        name, ret, target == doc, sorted(content), sorted(str(x.identifier) for x in target.bundles), h(target.get_provn())))

attempt("encode non-document set", lambda: json.dumps({1, 2}, cls=ProvJSONEncoder))
attempt("encode non-document nested", lambda: json.dumps({"a": object()}, cls=ProvJSONEncoder))
attempt("encode bundle", lambda: json.dumps(b, cls=ProvJSONEncoder))
attempt("encode plain", lambda: json.dumps({"a": [1, "é", None]}, cls=ProvJSONEncoder))
attempt("default() direct doc", lambda: sorted(ProvJSONEncoder().default(d)))
attempt("default() direct str", lambda: ProvJSONEncoder().default("x"))
attempt("decode list", lambda: json.loads("[]", cls=ProvJSONDecoder) == ProvDocument())
attempt("decode number", lambda: json.loads("1", cls=ProvJSONDecoder))
attempt("decode bad", lambda: json.loads("{", cls=ProvJSONDecoder))
attempt("decode no bundle key", lambda: h(json.loads('{"entity": {"e": {}}}', cls=ProvJSONDecoder).get_provn()))
attempt("decode empty bundle dict", lambda: h(json.loads('{"bundle": {}}', cls=ProvJSONDecoder).get_provn()))
attempt("decode bundle same id twice as doc record", lambda: h(json.loads(
    '{"prefix": {"ex": "http://e/"}, "entity": {"ex:b": [{}, {"ex:k": ["a", "b", {"$": "c", "lang": "en"}]}]}, "bundle": {"ex:b": {"entity": {"ex:b": {}}}}}',
    cls=ProvJSONDecoder).get_provn()))
attempt("decode membership hack", lambda: h(json.loads(
    '{"prefix": {"default": "http://e/"}, "hadMember": {"_:m": {"prov:collection": "c", "prov:entity": ["e1", "e2", "e3"]}}}',
    cls=ProvJSONDecoder).get_provn()))
attempt("decode multi-valued prov attr", lambda: json.loads(
    '{"prefix": {"default": "http://e/"}, "used": {"_:u": {"prov:activity": ["a1", "a2"]}}}', cls=ProvJSONDecoder))
attempt("decode single-element list prov attr", lambda: h(json.loads(
    '{"prefix": {"default": "http://e/"}, "used": {"_:u": {"prov:activity": ["a1"], "prov:time": "2012-01-01T00:00:00"}}}', cls=ProvJSONDecoder).get_provn()))
attempt("decode unknown record type", lambda: json.loads('{"nope": {}}', cls=ProvJSONDecoder))
# decode_json_container directly: two records must not share the attributes dict
bx = ProvBundle(document=ProvDocument())
jc = {"prefix": {"default": "http://e/"}, "entity": {"e": [{"k": 1}, {"k": 2}], "f": {}}}
decode_json_container(jc, bx)
out.append("container direct: left=%r recs=%r" % (sorted(jc), [(str(r.identifier), sorted((str(k), sorted(map(str, v))) for k, v in r._attributes.items())) for r in bx._records]))

# --- Serializer base class -------------------------------------------------------
out.append("Serializer: bases=%r mro=%r type=%s doc=%r document=%r" % (
    Serializer.__bases__, [c.__name__ for c in Serializer.__mro__], type(Serializer).__name__, Serializer.__doc__, Serializer.document))
out.append("subclasses mro: %r" % ([[c.__name__ for c in get(f).__mro__] for f in ("json", "provn", "xml", "rdf")],))
s = Serializer(d)
out.append("Serializer inst: %r %r %r %r" % (s.document is d, Serializer().document, hasattr(s, "__dict__"), s.serialize(io.StringIO())))

print("\n".join(out))
print("DIGEST", hashlib.sha256("\n".join(out).encode("utf-8")).hexdigest())
