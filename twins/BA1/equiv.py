"""Differential script for change 1 (ProvRecord.get_provn: one lookup per attribute)."""
import os
import sys

if os.environ.get("PYTHONHASHSEED") != "0":
    os.environ["PYTHONHASHSEED"] = "0"
    os.execv(sys.executable, [sys.executable] + sys.argv)

import datetime
import hashlib

from prov.model import (
    ProvDocument,
    ProvActivity,
    ProvEntity,
    Literal,
    Namespace,
    PROV_ATTR_STARTTIME,
    PROV_ATTR_ENDTIME,
    PROV_ATTR_TIME,
    PROV_ATTR_ENTITY,
    PROV_TYPE,
    PROV_LABEL,
    PROV,
    XSD_INT,
)
from prov.identifier import Identifier
from prov.tests import examples

out = []


def emit(*parts):
    out.append(" | ".join(str(p) for p in parts))


def keys_state(rec):
    # the exact key sequence (and emptiness) of the underlying defaultdict
    return [(str(k), len(v)) for k, v in rec._attributes.items()]


def show(tag, rec):
    before = keys_state(rec)
    s1 = rec.get_provn()
    s2 = str(rec)
    after = keys_state(rec)
    emit(tag, s1)
    emit(tag, "str-same", s1 == s2, "keys-unchanged", before == after, after)


def build():
    d = ProvDocument()
    d.set_default_namespace("http://default.example/")
    d.add_namespace("ex", "http://example.org/")
    d.add_namespace("ü", "http://example.org/unicode/")
    return d


d = build()
ex = d.get_default_namespace()
e1 = d.entity("ex:e1")
e2 = d.entity(
    "e2",
    {
        "prov:label": "héllo wörld ✓",
        "ex:multi": "line one\nline \"two\"",
        "ex:f": 1.5,
        "ex:b": True,
        "ex:i": 42,
        "ex:dt": datetime.datetime(2020, 1, 2, 3, 4, 5),
        "ex:uri": Identifier("http://example.org/some#uri"),
        "ex:q": d.valid_qualified_name("ex:qq"),
        "ex:lit": Literal("bonjour", langtag="fr"),
        "ex:lit2": Literal("x", datatype=d.valid_qualified_name("ex:custom")),
        "ex:empty": "",
        "prov:type": PROV["Collection"],
    },
)
e3 = d.entity(
    "ex:e3",
    [("ex:tag", "a"), ("ex:tag", "b"), ("ex:tag", "ç"), ("ex:tag", 3), ("prov:type", "t")],
)
show("e1", e1)
show("e2", e2)
show("e3", e3)

a1 = d.activity("ex:a1")
show("a1-none", a1)
a2 = d.activity("ex:a2", "2011-11-16T16:05:00", None, {"ex:k": "v"})
show("a2-start", a2)
a3 = d.activity("ex:a3", None, datetime.datetime(2012, 1, 1, 0, 0, 1, 250))
show("a3-end", a3)
a4 = d.activity("ex:a4", "2011-11-16T16:05:00+01:00", "2011-11-16T17:00:00Z")
show("a4-both", a4)

# reading an attribute through the defaultdict leaves an empty entry behind:
# a formal one must still print as "-", an extra one must print nothing
a5 = d.activity("ex:a5")
a5.get_startTime()
a5.get_attribute("ex:nothing")
a5.get_attribute("prov:label")
show("a5-empty-entries", a5)
a5.set_time(endTime="2000-01-01")
show("a5-set_time-end", a5)
a5.set_time(startTime=datetime.datetime(1999, 12, 31, 23, 59, 59))
show("a5-set_time-start", a5)
a5.add_attributes({"ex:later": "added"})
show("a5-add-after", a5)
a5.add_asserted_type("ex:Type")
show("a5-type", a5)

ag = d.agent("ex:ag", {"prov:type": PROV["Person"], "ex:name": "Zoë"})
show("ag", ag)

# relations: with / without identifier, with missing formal attributes
show("gen", d.generation(e1, a1))
show("gen-id", d.generation(e1, a2, "2001-10-26T21:32:52", "ex:g1", {"ex:p": "q"}))
show("gen-noact", d.generation(e1, time="2001-10-26T21:32:52"))
show("use", d.usage(a1, e1, identifier="u1", other_attributes=[("ex:r", 1), ("ex:r", 2)]))
show("use-noent", d.usage(a1))
show("comm", d.communication(a1, a2))
show("start", d.start(a1, e1, a2, "2002-01-01"))
show("start-min", d.start(a1))
show("end", d.end(a1, None, None, None, "ex:end1", {"prov:role": "r"}))
show("inv", d.invalidation(e1, a1, None, None, {"ex:why": "because"}))
show("der", d.derivation(e2, e1, a1, None, None, "ex:d1"))
show("der-full", d.derivation(e2, e1, a1, "ex:g1", "u1"))
show("rev", d.revision(e2, e1))
show("quo", d.quotation(e2, e1))
show("prim", d.primary_source(e2, e1))
show("attr", d.attribution(e1, ag))
show("assoc", d.association(a1, ag, e3))
show("assoc-noagent", d.association(a1, None, e3))
show("deleg", d.delegation(ag, "ex:ag2", a1))
show("infl", d.influence(e1, e2))
show("spec", d.specialization(e1, e2))
show("alt", d.alternate(e1, e2))
show("mention", d.mention(e1, e2, "ex:bundle1"))
show("member", d.membership(e3, e1))
c = d.collection("ex:c")
c.hadMember(e1).hadMember(e2)
show("coll", c)

# a collection-typed attribute list may repeat a formal attribute; only the
# first value of the set is printed
m = d.membership("ex:c", "ex:m1")
m.add_attributes([("prov:collection", "ex:c"), ("prov:entity", "ex:m1")])
show("member-again", m)

# bundles (own namespaces, same identifiers as the document)
b = d.bundle("ex:bundle1")
b.add_namespace("ex", "http://example.org/")
be = b.entity("ex:e1", {"ex:in": "bundle", "prov:label": Literal("étiquette", langtag="fr")})
show("b-e1", be)
ba = b.activity("ex:a1", "2011-11-16T16:05:00")
show("b-a1", ba)
show("b-gen", b.generation(be, ba, identifier="ex:g1"))
b2 = d.bundle("ex:bundle2")
b2.set_default_namespace("http://other-default.example/")
show("b2-e", b2.entity("e2", {"x": "default-ns attribute name"}))
show("b2-e-foreign", b2.entity(e2.identifier, {"ex:v": e2}))

# records used as hash keys / compared after get_provn: unaffected
emit("eq", e1 == be, e1 == e1.copy(), hash(e1) == hash(e1.copy()))
emit("doc-provn", d.get_provn())

# copies print the same
for r in d.get_records():
    cp = r.copy()
    emit("copy-same", r.get_provn() == cp.get_provn())

# the library's own example documents
for name, fn in sorted(examples.tests):
    doc = fn()
    text = doc.get_provn()
    recs = list(doc.get_records())
    for bb in doc.bundles:
        recs.extend(bb.get_records())
    per = "\n".join(r.get_provn() for r in recs)
    emit(
        "example",
        name,
        len(recs),
        hashlib.sha256(text.encode("utf-8")).hexdigest(),
        hashlib.sha256(per.encode("utf-8")).hexdigest(),
    )

text = "\n".join(out)
print(text)
print("DIGEST", hashlib.sha256(text.encode("utf-8")).hexdigest())
