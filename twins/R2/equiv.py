# The library keeps attribute values in sets, so output order depends on string
# hashing: the script re-runs itself under fixed PYTHONHASHSEED values (0, 1, 2).
import os, subprocess, sys
if "--child" not in sys.argv:
    for seed in ("0", "1", "2"):
        env = dict(os.environ, PYTHONHASHSEED=seed)
        r = subprocess.run([sys.executable, os.path.abspath(__file__), "--child"], env=env,
                           stdout=subprocess.PIPE, stderr=subprocess.STDOUT)
        sys.stdout.write("==== PYTHONHASHSEED=%s rc=%d\n" % (seed, r.returncode))
        sys.stdout.write(r.stdout.decode("utf-8"))
    sys.exit(0)
# shared fixture builders / digest helpers (copied verbatim into each equiv.py)
import datetime, hashlib, sys
from prov.model import (ProvDocument, ProvBundle, ProvException, ProvEntity, ProvActivity,
                        ProvAgent, ProvElement, ProvRelation, ProvRecord, Namespace,
                        PROV_ENTITY, PROV_ACTIVITY, PROV_GENERATION, PROV, Literal,
                        PROV_ATTR_ENTITY, PROV_ATTR_ACTIVITY, PROV_TYPE, PROV_LABEL)
from prov.identifier import QualifiedName, Identifier

EX = Namespace("ex", "http://example.org/")
OT = Namespace("other", "http://other.example/ns#")
LINES = []


def out(*parts):
    LINES.append(" ".join(str(p) for p in parts))


def attempt(label, fn):
    try:
        res = fn()
    except BaseException as e:  # noqa
        out(label, "RAISED", type(e).__name__, str(e))
        return None
    out(label, "OK", describe(res))
    return res


def describe(x):
    if isinstance(x, ProvDocument):
        return "DOC<<\n%s\n>> ns=%s default=%s bundles=%s" % (
            x.get_provn(), sorted((n.prefix, n.uri) for n in x.namespaces), x.default_ns_uri,
            [str(b.identifier) for b in x.bundles])
    if isinstance(x, ProvBundle):
        return "BUNDLE<<\n%s\n>> ns=%s default=%s doc=%s" % (
            x.get_provn(), sorted((n.prefix, n.uri) for n in x.namespaces), x.default_ns_uri,
            type(x.document).__name__)
    if isinstance(x, ProvRecord):
        return "REC %s | %s | bundle=%r | attrs=%r" % (type(x).__name__, x.get_provn(), x.bundle, x.attributes)
    if isinstance(x, (list, tuple)):
        return type(x).__name__ + "[" + "; ".join(describe(i) for i in x) + "]"
    return "%s:%r" % (type(x).__name__, x)


def doc_plain():
    d = ProvDocument()
    d.add_namespace(EX)
    d.entity("ex:e1", {"ex:k": "v1"})
    d.activity("ex:a1", datetime.datetime(2020, 1, 2, 3, 4, 5))
    d.wasGeneratedBy("ex:e1", "ex:a1", identifier="ex:g1")
    d.agent("ex:ag1")
    d.wasAttributedTo("ex:e1", "ex:ag1")
    return d


def doc_repeated():
    d = ProvDocument()
    d.add_namespace(EX)
    d.add_namespace(OT)
    d.set_default_namespace("http://default.example/")
    d.entity("ex:e1", {"ex:k": "v1", PROV_TYPE: EX["T1"]})
    d.entity("ex:e1", {"ex:k": "v2", "other:z": 3})
    d.entity("ex:e1", {"ex:k": "v1"})
    d.entity("ex:e1", {"ex:k": "v1"})  # equal to the previous one
    d.activity("ex:e1")  # same id, other type
    d.activity("ex:a1", datetime.datetime(2020, 1, 2, 3, 4, 5))
    d.activity("ex:a1", None, datetime.datetime(2021, 1, 2, 3, 4, 5), {"ex:x": 1.5})
    d.entity("plain")
    d.entity("plain", {PROV_LABEL: Literal("café \"q\" \\ \n", langtag="fr")})
    d.wasGeneratedBy("ex:e1", "ex:a1", identifier="ex:g1")
    d.wasGeneratedBy("ex:e1", "ex:a1", time=datetime.datetime(2019, 5, 5), identifier="ex:g1")
    d.wasGeneratedBy("ex:e1", "ex:a1")
    d.used("ex:a1", "ex:e1")
    d.used("ex:a1", None)
    d.wasDerivedFrom("ex:e2", "ex:e1", "ex:a1")
    d.specializationOf("ex:e2", "ex:e1")
    d.hadMember("ex:c", "ex:e1")
    d.mentionOf("ex:e3", "ex:e1", "ex:b1")
    d.actedOnBehalfOf("ex:ag2", "ex:ag1", "ex:a1")
    d.wasAssociatedWith("ex:a1", "ex:ag1", "ex:plan")
    d.wasStartedBy("ex:a1", "ex:trig", "ex:starter")
    d.wasEndedBy("ex:a1", None, "ex:ender")
    d.wasInformedBy("ex:a2", "ex:a1")
    d.wasInfluencedBy("ex:x", "ex:y")
    d.alternateOf("ex:e4", "ex:e1")
    return d


def doc_bundles():
    d = doc_repeated()
    b1 = d.bundle("ex:b1")
    b1.add_namespace("bns", "http://bundle.example/")
    b1.entity("bns:e", {"bns:p": 1})
    b1.entity("bns:e", {"bns:p": 2})
    b1.entity("ex:e1")
    b1.wasDerivedFrom("bns:e", "ex:e1")
    b2 = d.bundle("ex:b2")
    b2.set_default_namespace("http://b2.default/")
    b2.activity("act")
    b2.activity("act", datetime.datetime(2000, 1, 1))
    d.bundle("ex:empty")
    return d


def doc_empty():
    return ProvDocument()


def all_docs():
    return [("plain", doc_plain), ("repeated", doc_repeated), ("bundles", doc_bundles), ("empty", doc_empty)]


def finish():
    text = "\n".join(LINES) + "\n"
    sys.stdout.write(text)
    sys.stdout.write("DIGEST " + hashlib.sha256(text.encode("utf-8")).hexdigest() + "\n")

# ---- refactoring 2: private field ProvBundle._id_map renamed (+ locals) :
# __init__, get_record, _unified_records, _add_record and everything built on them
import copy, pickle
from collections import defaultdict


def id_index(bundle):
    """the identifier index, found without naming the private attribute"""
    maps = [v for v in vars(bundle).values() if isinstance(v, defaultdict)]
    assert len(maps) == 1
    return [(str(k), [r.get_provn() for r in v]) for k, v in maps[0].items()]


for name, mk in all_docs():
    d = mk()
    out(name, "n-private-attrs", len(vars(d)), sorted(type(v).__name__ for v in vars(d).values()))
    out(name, "index", id_index(d))
    for ident in [None, "ex:e1", EX["e1"], "ex:a1", "ex:missing", "plain", "nosuch", "zz:undeclared",
                  "ex:g1", Identifier("http://example.org/e1"), "", "ex:b1"]:
        attempt("%s.get_record(%r)" % (name, ident), lambda: d.get_record(ident))
    out(name, "index after lookups", id_index(d))
    for b in d.bundles:
        out(name, "bundle index", str(b.identifier), id_index(b))
        for ident in [None, "ex:e1", "bns:e", "act", "ex:a1", "ex:missing", "zz:q"]:
            attempt("%s.bundle %s.get_record(%r)" % (name, b.identifier, ident), lambda: b.get_record(ident))
        out(name, "bundle index after", str(b.identifier), id_index(b))
        attempt("bundle.unified", b.unified)
    attempt(name + ".unified", d.unified)
    attempt(name + "._unified_records", d._unified_records)
    # _add_record directly (bypassing new_record), with and without identifier
    e = ProvEntity(d, EX["direct"], [("ex:k", 1)])
    attempt(name + "._add_record(entity)", lambda: d._add_record(e))
    attempt(name + "._add_record(entity) again", lambda: d._add_record(e))
    u = d.used("ex:a9", "ex:e9")
    attempt(name + "._add_record(no id)", lambda: d._add_record(u))
    out(name, "index after _add_record", id_index(d))
    attempt(name + ".get_record(direct)", lambda: d.get_record("ex:direct"))
    attempt(name + ".unified after", d.unified)
    attempt(name + " deepcopy equal", lambda: copy.deepcopy(d) == d)
    attempt(name + " deepcopy index", lambda: id_index(copy.deepcopy(d)))
    attempt(name + " pickle index", lambda: id_index(pickle.loads(pickle.dumps(d))))
    attempt(name + " flattened unified", lambda: d.flattened().unified())
    attempt(name + " records ctor", lambda: id_index(ProvBundle(records=d.get_records(), identifier=EX["cp"], namespaces=[EX])))
finish()
