"""Differential script: PROV-XML serialize / serialize_bundle / deserialize,
_extract_attributes, xml_qname_to_QualifiedName, _derive_record_label, _ns*
helpers and prov.model.sorted_attributes.  Prints a deterministic digest."""
import os
import sys

# The library iterates over sets of attribute values; pin the hash seed so the
# digest is reproducible between runs.
if os.environ.get("PYTHONHASHSEED") != "0":
    os.environ["PYTHONHASHSEED"] = "0"
    os.execv(sys.executable, [sys.executable] + sys.argv)

import datetime
import hashlib
import io
import warnings

from lxml import etree

import prov.model as pm
from prov.constants import *  # NOQA
from prov.identifier import Identifier, Namespace, QualifiedName
from prov.serializers import provxml
from prov.serializers.provxml import ProvXMLSerializer

EX = Namespace("ex", "http://example.org/")
OTHER = Namespace("other", "http://other.example/ns#")


def show(label, value):
    if isinstance(value, bytes):
        value = value.decode("utf-8")
    value = str(value)
    print(
        "%-44s %s len=%d" % (label, hashlib.sha256(value.encode("utf-8")).hexdigest()[:16], len(value))
    )


def attempt(label, fn):
    with warnings.catch_warnings(record=True) as w:
        warnings.simplefilter("always")
        try:
            res = fn()
        except Exception as exc:  # noqa
            res = "EXC %s: %s" % (type(exc).__name__, exc)
        warns = [(x.category.__name__, str(x.message)) for x in w]
    show(label, "%s\nWARN=%r" % (res, warns))
    if isinstance(res, str) and res.startswith("EXC "):
        print("    " + res[:150].replace("\n", " "))
    if warns:
        print("    warnings=%d" % len(warns))
    return res


# --------------------------------------------------------------------------
# corpus of documents
# --------------------------------------------------------------------------
def doc_empty():
    return pm.ProvDocument()


def doc_basic():
    d = pm.ProvDocument()
    d.add_namespace(EX)
    d.add_namespace("dcterms", "http://purl.org/dc/terms/")
    e1 = d.entity("ex:e1", {"prov:label": "entity one", "ex:count": 3})
    e2 = d.entity(
        "ex:e2",
        [
            (PROV_TYPE, PROV["Plan"]),
            (PROV_TYPE, "plain string type"),
            (PROV_TYPE, EX["CustomType"]),
            (PROV_LOCATION, "London"),
            (PROV_VALUE, 4.5),
            ("ex:flag", True),
            ("ex:neg", False),
            ("ex:when", datetime.datetime(2020, 2, 29, 12, 30, 15, 250)),
            ("ex:uri", Identifier("http://example.org/some/uri?x=1&y=<2>")),
            ("ex:qn", EX["value-qn"]),
            ("ex:empty", ""),
            ("ex:lang", pm.Literal("bonjour", langtag="fr")),
            ("ex:lit", pm.Literal("12", datatype=XSD_SHORT)),
            ("ex:istr", pm.Literal("intl", datatype=PROV["InternationalizedString"], langtag="en")),
            ("dcterms:title", "A <title> & “quotes” éè 中文"),
        ],
    )
    a = d.activity(
        "ex:a1",
        datetime.datetime(2011, 11, 16, 16, 5, 0),
        datetime.datetime(2011, 11, 16, 16, 6, 0, 123456),
        {PROV_TYPE: EX["edit"], "ex:host": "server.example.org"},
    )
    ag = d.agent("ex:ag1", {PROV_TYPE: PROV["Person"], "ex:name": "Bob"})
    d.agent("ex:org", {PROV_TYPE: PROV["Organization"]})
    d.agent("ex:soft", {PROV_TYPE: pm.Literal(PROV["SoftwareAgent"], datatype=XSD_QNAME)})
    d.wasGeneratedBy(e2, a, datetime.datetime(2011, 11, 16, 16, 5, 30), "ex:gen1", {PROV_ROLE: "writer"})
    d.used(a, e1, None, None, {PROV_ROLE: EX["reader"], "ex:z": 1, "ex:b": 2, "ex:a": "x"})
    d.wasDerivedFrom(e2, e1, a, None, None, "ex:der1", {PROV_TYPE: PROV["Revision"]})
    d.wasDerivedFrom(e2, e1, other_attributes={PROV_TYPE: PROV["Quotation"]})
    d.wasDerivedFrom(e2, e1, other_attributes={PROV_TYPE: PROV["PrimarySource"], "ex:k": "v"})
    d.wasDerivedFrom(e2, e1)
    d.wasAssociatedWith(a, ag, "ex:e2", "ex:assoc", {PROV_ROLE: "editor"})
    d.wasAttributedTo(e2, ag)
    d.actedOnBehalfOf(ag, "ex:org", a)
    d.wasInformedBy(a, "ex:a0")
    d.wasStartedBy(a, e1, None, datetime.datetime(2011, 11, 16, 16, 5, 0))
    d.wasEndedBy(a, e1, "ex:a0", None)
    d.wasInvalidatedBy(e1, a, None, None, {"ex:reason": "obsolete"})
    d.specializationOf(e2, e1)
    d.alternateOf(e2, e1)
    d.hadMember("ex:coll", e1)
    d.collection("ex:coll", {PROV_TYPE: PROV["EmptyCollection"]})
    d.mentionOf("ex:e2", "ex:e1", "ex:bundle1")
    d.influence(e2, e1, "ex:inf", {"ex:w": 0.25})
    # repeated identifiers
    d.entity("ex:e1", {"ex:count": 4, "prov:label": pm.Literal("eins", langtag="de")})
    d.entity("ex:e1")
    return d


def doc_default_ns():
    d = pm.ProvDocument()
    d.set_default_namespace("http://default.example/")
    d.add_namespace(EX)
    d.entity("plain", {"attr": "v", "ex:t": pm.Literal("1", datatype=XSD_INT)})
    d.entity("ex:x", {PROV_TYPE: QualifiedName(Namespace("", "http://default.example/"), "T")})
    d.activity("act")
    d.used("act", "plain")
    return d


def doc_bundles():
    d = doc_basic()
    b1 = d.bundle("ex:bundle1")
    b1.add_namespace(OTHER)
    b1.entity("other:thing", {"other:p": "q", PROV_TYPE: PROV["Bundle"]})
    b1.entity("ex:e1", {"ex:in": "bundle"})
    b1.wasDerivedFrom("other:thing", "ex:e1", other_attributes={PROV_TYPE: PROV["Revision"]})
    b2 = d.bundle("ex:bundle2")
    b2.add_namespace("ex", "http://example.org/2/")
    b2.entity("ex:e1")
    b2.agent("ex:p", {PROV_TYPE: PROV["Person"], "ex:age": 33})
    d.bundle("ex:emptybundle")
    d.entity("ex:bundle1", {PROV_TYPE: PROV["Bundle"]})
    return d


def doc_weird():
    d = pm.ProvDocument()
    d.add_namespace("w", "urn:weird:")
    d.add_namespace("xsd2", "http://www.w3.org/2001/XMLSchema")
    d.entity(
        "w:a.b-c_d",
        {
            "w:text": "  leading and trailing  ",
            "w:nl": "line1\nline2\ttab",
            "w:provlike": "prov:notreally",
            "w:big": 2 ** 40,
            "w:negf": -0.0,
            "w:inf": float("inf"),
            "w:date": datetime.datetime(1999, 12, 31, 23, 59, 59, tzinfo=datetime.timezone.utc),
            PROV_LABEL: "prov:label-looking",
            PROV_VALUE: "prov:value-looking",
            PROV_LOCATION: Identifier("urn:loc:1"),
        },
    )
    d.entity("w:v", {PROV_VALUE: 10, PROV_LOCATION: 1.5, PROV_TYPE: True})
    d.entity("w:q", {PROV_VALUE: d.valid_qualified_name("w:val"), PROV_LOCATION: pm.Literal("here", langtag="en-GB")})
    d.activity("w:act", None, datetime.datetime(2000, 1, 1), {"w:time": datetime.datetime(2000, 1, 2), "prov:atTime2": "x"})
    return d


CORPUS = [
    ("empty", doc_empty),
    ("basic", doc_basic),
    ("defaultns", doc_default_ns),
    ("bundles", doc_bundles),
    ("weird", doc_weird),
]


def ser_bytes(doc, **kw):
    buf = io.BytesIO()
    ProvXMLSerializer(doc).serialize(buf, **kw)
    return buf.getvalue()


def ser_text(doc, **kw):
    buf = io.StringIO()
    ProvXMLSerializer(doc).serialize(buf, **kw)
    return buf.getvalue()


def main():
    xml_texts = {}
    for name, mk in CORPUS:
        for ft in (False, True):
            r = attempt("serialize bytes %s ft=%s" % (name, ft), lambda: ser_bytes(mk(), force_types=ft))
            if isinstance(r, bytes):
                xml_texts[(name, ft)] = r
            attempt("serialize text  %s ft=%s" % (name, ft), lambda: ser_text(mk(), force_types=ft))
        # serialize_bundle directly
        def direct():
            doc = mk()
            s = ProvXMLSerializer(doc)
            root = s.serialize_bundle(doc)
            out = [etree.tostring(root, pretty_print=True).decode()]
            out.append(repr(sorted((str(k), v) for k, v in root.nsmap.items())))
            for b in doc.bundles:
                sub = s.serialize_bundle(b, element=root, force_types=True)
                out.append(sub.tag)
                out.append(repr(sorted((str(k), v) for k, v in sub.nsmap.items())))
                out.append(repr(dict(sub.attrib)))
            out.append(etree.tostring(root).decode())
            return "\n".join(out)
        attempt("serialize_bundle direct %s" % name, direct)
        # helper on a bundle serialised standalone (element None, bundle != doc)
        def standalone():
            doc = mk()
            s = ProvXMLSerializer(doc)
            return "\n".join(
                etree.tostring(s.serialize_bundle(b), pretty_print=True).decode() for b in doc.bundles
            )
        attempt("serialize_bundle standalone %s" % name, standalone)
        # writing to a file path-like target and a non-text stream
        def tofile():
            import os, tempfile
            fd, path = tempfile.mkstemp(suffix=".xml")
            os.close(fd)
            try:
                ProvXMLSerializer(mk()).serialize(path)
                with open(path, "rb") as fh:
                    return fh.read()
            finally:
                os.unlink(path)
        attempt("serialize to filename %s" % name, tofile)

    # error paths of serialize
    attempt("serialize to None stream", lambda: ProvXMLSerializer(doc_basic()).serialize(None))
    attempt("serialize to int stream", lambda: ProvXMLSerializer(doc_basic()).serialize(5))

    # round trips
    for (name, ft), data in sorted(xml_texts.items()):
        def rt():
            d2 = ProvXMLSerializer().deserialize(io.BytesIO(data))
            d3 = ProvXMLSerializer().deserialize(io.StringIO(data.decode("utf-8").split("?>", 1)[1]))
            return "%s\n----\n%s\n%s" % (d2.get_provn(), d3.get_provn(), d2 == d3)
        attempt("roundtrip %s ft=%s" % (name, ft), rt)
        attempt(
            "reserialize %s ft=%s" % (name, ft),
            lambda: ser_bytes(ProvXMLSerializer().deserialize(io.BytesIO(data)), force_types=ft),
        )


if __name__ == "__main__":
    main()
