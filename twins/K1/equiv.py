"""Differential check for refactoring 1 (ProvDocument.serialize)."""
import sys, os, io, tempfile, shutil, contextlib, glob
sys.path.insert(0, "/tmp/twin/out/K")
from common import digest, docs, call
from prov.model import ProvDocument
import prov.model as pm

work = tempfile.mkdtemp(prefix="equivK1_")
tmpdir = os.path.join(work, "tmp"); os.mkdir(tmpdir)
tempfile.tempdir = tmpdir
outdir = os.path.join(work, "out"); os.mkdir(outdir)
os.chdir(outdir)

def leftovers():
    return sorted(os.listdir(tmpdir))

def show(label, res):
    kind, val = res
    if kind == "ok":
        if isinstance(val, (str, bytes)):
            val = "%s len=%d %s" % (type(val).__name__, len(val), digest(val))
        print(label, "->", kind, val)
    else:
        print(label, "->", kind, val.replace(work, "<W>"))

for name, d in docs():
    for fmt, kw in (("json", {}), ("json", {"indent": 2}), ("xml", {}), ("xml", {"force_types": True}),
                    ("provn", {}), ("rdf", {}), ("rdf", {"rdf_format": "turtle"}), ("nosuch", {}), ("JSON", {})):
        tag = "%s/%s/%s" % (name, fmt, sorted(kw))
        show(tag + " str", call(d.serialize, format=fmt, **kw))
        if fmt == "rdf" and name not in ("empty", "custom", "bundles1"):
            continue
        s = io.StringIO(); r = call(d.serialize, s, format=fmt, **kw)
        show(tag + " StringIO", r); print("   content", digest(s.getvalue()), len(s.getvalue()))
        b = io.BytesIO(); r = call(d.serialize, b, format=fmt, **kw)
        show(tag + " BytesIO", r); print("   content", digest(b.getvalue()), len(b.getvalue()))

name, d = docs()[-1]
targets = ["plain.json", "with#hash?and;semi.json", "sp ace é.json", "sub/missing/dir.json", "",
           "file://" + outdir + "/viaurl.json", "file://" + outdir + "/pct%20enc.json",
           "file:relative.json", "http://example.org/x.json", "//host/share/x.json", "ftp://h/x",
           b"bytes.json", b"http://h/x", 42, outdir, "http://[bad"]
for fmt in ("json", "xml", "provn", "rdf", "nosuch"):
    for t in targets:
        buf = io.StringIO()
        with contextlib.redirect_stdout(buf):
            r = call(d.serialize, t, format=fmt)
        show("file %s %r" % (fmt, t if not isinstance(t, str) else t.replace(work, "<W>")), r)
        print("   stdout=%r leftovers=%d" % (buf.getvalue(), len(leftovers())))
        for f in leftovers():
            os.remove(os.path.join(tmpdir, f))
    listing = []
    for root, dirs, files in os.walk(outdir):
        for f in sorted(files):
            p = os.path.join(root, f)
            rel = os.path.relpath(p, outdir)
            if rel.startswith('tmp') and '.' not in rel: rel = '<tmpname>'
            listing.append((rel, digest(open(p, "rb").read()), oct(os.stat(p).st_mode & 0o777)))
    for l in sorted(listing): print("   produced", l)
    for root, dirs, files in os.walk(outdir):
        for f in files: os.remove(os.path.join(root, f))

# the hasattr(shutil, "move") fallback
mv = shutil.move
del shutil.move
try:
    show("nomove", call(d.serialize, "nomove.json"))
    print("   produced", sorted(os.listdir(outdir)), digest(open("nomove.json", "rb").read()), "leftovers", leftovers())
finally:
    shutil.move = mv
# serializer failing midway: temp file handling
class Boom(Exception): pass
import prov.serializers.provjson as pj
orig = pj.ProvJSONSerializer.serialize
def boom(self, stream, **kw):
    stream.write(b"partial"); raise Boom("x")
pj.ProvJSONSerializer.serialize = boom
show("boom", call(d.serialize, "boom.json"))
print("   produced", sorted(os.listdir(outdir)), "leftovers", len(leftovers()))
pj.ProvJSONSerializer.serialize = orig
os.chdir("/")
shutil.rmtree(work)
