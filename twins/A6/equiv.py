# Differential script for refactoring 6: positional -> keyword arguments at the call sites inside decode_json_representation
# Exercises the PROV-JSON encoder/decoder functions and the prov.constants tables; prints a deterministic transcript + digest.
import os, sys

if os.environ.get("PYTHONHASHSEED") != "0":
    # set/dict-of-QualifiedName iteration order depends on the hash seed:
    # pin it so that the digest (which includes orders) is deterministic.
    env = dict(os.environ, PYTHONHASHSEED="0")
    os.execve(sys.executable, [sys.executable] + sys.argv, env)

import datetime, hashlib, io, json, logging



class _Capture(logging.Handler):
    def emit(self, record):
        LINES.append("LOG %s %s %s" % (record.name, record.levelname, record.getMessage()))


logging.getLogger().addHandler(_Capture())
logging.getLogger().setLevel(logging.DEBUG)

import prov.constants as C
import prov.model as pm
from prov.model import ProvDocument, Literal, Identifier, Namespace
from prov.serializers import provjson as pj

LINES = []


def emit(tag, value):
    LINES.append("%s: %s" % (tag, value))


def show(obj):
    """Deterministic, type-revealing rendering (keeps order of dicts/lists)."""
    if isinstance(obj, dict):
        return "%s{%s}" % (
            type(obj).__name__,
            ", ".join("%s=>%s" % (show(k), show(v)) for k, v in obj.items()),
        )
    if isinstance(obj, (list, tuple)):
        return "%s[%s]" % (type(obj).__name__, ", ".join(show(v) for v in obj))
    if isinstance(obj, (set, frozenset)):
        return "%s<%s>" % (type(obj).__name__, ", ".join(sorted(show(v) for v in obj)))
    if isinstance(obj, Literal):
        return "Literal(%r,%s,%r)" % (obj.value, show(obj.datatype), obj.langtag)
    if isinstance(obj, pm.QualifiedName):
        return "QName(%s|%s)" % (obj.namespace.prefix, obj.uri)
    if isinstance(obj, Identifier):
        return "Identifier(%s)" % obj.uri
    return "%s:%r" % (type(obj).__name__, obj)


def attempt(tag, fn, *args, **kwargs):
    try:
        emit(tag, show(fn(*args, **kwargs)))
    except Exception as e:  # exceptions are part of the behaviour
        emit(tag, "RAISED %s %r" % (type(e).__name__, e.args))


def doc_state(doc):
    out = []
    for b in [doc] + sorted(doc.bundles, key=lambda b: str(b.identifier)):
        out.append("BUNDLE %s" % (b.identifier,))
        out.append(
            "  ns=%s default=%s"
            % (
                [(n.prefix, n.uri) for n in b.namespaces],
                b._namespaces._default.uri if b._namespaces._default else None,
            )
        )
        for r in b._records:
            out.append(
                "  %s id=%s attrs=%s"
                % (
                    r.get_type(),
                    show(r.identifier),
                    [(show(k), show(v)) for k, v in r.attributes],
                )
            )
    return "\n".join(out)


def build_documents():
    docs = {}

    d = ProvDocument()
    docs["empty"] = d

    d = ProvDocument()
    d.set_default_namespace("http://example.org/default/")
    d.add_namespace("ex", "http://example.org/")
    d.add_namespace("weiße", "http://example.org/unicode/é#")
    e1 = d.entity(
        "ex:e1",
        {
            "prov:label": Literal("café \"q\" <&> \n", langtag="fr"),
            "ex:int": 5,
            "ex:float": 2.5,
            "ex:bool": True,
            "ex:str": "",
            "ex:date": datetime.datetime(2012, 3, 4, 5, 6, 7, 890000),
            "ex:uri": Identifier("http://example.org/some uri?x=1&y=2"),
            "ex:qn": d.valid_qualified_name("ex:other"),
            "ex:lit": Literal("10", C.XSD["unsignedByte"]),
        },
    )
    e1.add_attributes([("prov:type", C.PROV["Plan"]), ("prov:type", "string-type"), ("prov:type", 7)])
    d.entity("ex:e1", {"ex:second": "again"})  # repeated identifier
    d.entity("ex:e1")  # third one, no attributes
    d.entity("e-default")
    a1 = d.activity(
        "ex:a1",
        datetime.datetime(2011, 1, 1, 0, 0, 0),
        datetime.datetime(2011, 1, 2, 12, 30, 0, tzinfo=datetime.timezone.utc),
        [("ex:multi", 1), ("ex:multi", 2), ("ex:multi", 3)],
    )
    d.agent("ex:ag", {"prov:type": C.PROV["Person"]})
    d.wasGeneratedBy(e1, a1, time=datetime.datetime(2011, 1, 1, 6))
    d.wasGeneratedBy(e1, a1, identifier="ex:gen1", other_attributes={"ex:r": "x"})
    d.used(a1, e1)
    d.used(a1, None)
    d.wasAssociatedWith(a1, "ex:ag", plan="ex:plan")
    d.wasDerivedFrom("ex:e2", e1, activity=a1)
    d.hadMember("ex:coll", "ex:e1")
    d.hadMember("ex:coll", "ex:e2")
    d.specializationOf("ex:e2", e1)
    d.alternateOf("ex:e2", e1)
    d.mentionOf("ex:e2", e1, "ex:bundle1")
    d.wasInfluencedBy("ex:e2", "ex:ag")
    b = d.bundle("ex:bundle1")
    b.add_namespace("other", "http://other.example.org/#")
    b.entity("other:be", {"ex:v": Literal("x", langtag="en-GB")})
    b.entity("other:be", {"ex:v": 2})
    b.wasAttributedTo("other:be", "ex:ag")
    b.wasAttributedTo("other:be", "ex:ag")
    b2 = d.bundle("ex:bundle2")  # empty bundle
    docs["rich"] = d
    return docs


JSON_INPUTS = {
    "empty": "{}",
    "only_prefix": '{"prefix": {"ex": "http://example.org/", "default": "http://d.example/"}}',
    "simple": """{
      "prefix": {"ex": "http://example.org/", "default": "http://d.example/"},
      "entity": {
        "ex:e1": {"prov:label": {"$": "bonjour", "lang": "fr"}, "ex:n": {"$": 5, "type": "xsd:int"},
                  "ex:u": {"$": "http://x.org/a b", "type": "xsd:anyURI"},
                  "ex:q": {"$": "ex:other", "type": "prov:QUALIFIED_NAME"},
                  "ex:plain": "text", "ex:empty": "", "ex:b": true, "ex:f": 1.5, "ex:nolangtype": {"$": "v"},
                  "ex:list": ["a", {"$": "2", "type": "xsd:unsignedByte"}, 3], "ex:emptylist": []},
        "ex:e2": [{"ex:k": 1}, {"ex:k": 2}, {}],
        "nodefault": {}
      },
      "activity": {"ex:a1": {"prov:startTime": "2011-01-01T00:00:00", "prov:endTime": ["2011-01-02T00:00:00+01:00"]}},
      "wasGeneratedBy": {"_:id1": {"prov:entity": "ex:e1", "prov:activity": "ex:a1", "prov:time": "2012-03-04T05:06:07.890000"},
                         "_:id2": {"prov:entity": ["ex:e2"], "ex:x": "y"}},
      "used": {"_:u1": {"prov:activity": "ex:a1"}},
      "hadMember": {"_:m1": {"prov:collection": "ex:c", "prov:entity": ["ex:e1", "ex:e2", "ex:e3"]},
                    "ex:m2": {"prov:collection": "ex:c", "prov:entity": "ex:e4"}},
      "bundle": {"ex:b1": {"prefix": {"in": "http://inner.example/"},
                           "entity": {"in:x": {"ex:v": {"$": "w", "lang": "en"}}, "ex:e1": [{}, {}]},
                           "wasAttributedTo": {"_:id1": {"prov:entity": "in:x", "prov:agent": "ex:ag"}}},
                 "ex:b2": {}}
    }""",
    "multi_value_error": '{"prefix": {"ex": "http://example.org/"}, "used": {"_:u": {"prov:activity": ["ex:a", "ex:b"]}}}',
    "membership_activity_error": '{"prefix": {"ex": "http://example.org/"}, "hadMember": {"_:u": {"prov:collection": ["ex:a", "ex:b"], "prov:entity": "ex:e"}}}',
    "unknown_record_type": '{"prefix": {"ex": "http://example.org/"}, "nonsense": {"ex:a": {}}}',
    "bad_time": '{"prefix": {"ex": "http://example.org/"}, "entity": {"ex:e": {}}, "wasGeneratedBy": {"_:g": {"prov:entity": "ex:e", "prov:time": "not a time"}}}',
    "missing_dollar": '{"prefix": {"ex": "http://example.org/"}, "entity": {"ex:e": {"ex:a": {"type": "xsd:int"}}}}',
    "unknown_prefix": '{"entity": {"zz:e": {"zz:a": "v"}}}',
    "empty_value_list": '{"prefix": {"ex": "http://example.org/"}, "used": {"_:u": {"prov:activity": []}}}',
    "unicode": '{"prefix": {"ex": "http://example.org/\\u00e9/"}, "entity": {"ex:\\u00fc": {"ex:k\\u00e9y": {"$": "\\u4e2d\\u6587 \\"x\\"", "lang": "zh"}}}}',
}


def roundtrip_all():
    for name, doc in build_documents().items():
        attempt("encode_document[%s]" % name, pj.encode_json_document, doc)
        attempt("encode_container[%s]" % name, pj.encode_json_container, doc)
        for b in doc.bundles:
            attempt("encode_container[%s/%s]" % (name, b.identifier), pj.encode_json_container, b)
        attempt("serialize[%s]" % name, lambda: doc.serialize(format="json", sort_keys=True))
        attempt("serialize_indent[%s]" % name, lambda: doc.serialize(format="json", indent=2))
    for name, text in JSON_INPUTS.items():
        def run():
            return doc_state(ProvDocument.deserialize(content=text, format="json"))
        attempt("deserialize[%s]" % name, run)
        def run2():
            d = ProvDocument.deserialize(content=text, format="json")
            return d.serialize(format="json")
        attempt("reserialize[%s]" % name, run2)


def direct_calls():
    import collections, decimal

    class MyInt(int):
        pass

    class MyDict(dict):
        pass

    doc = ProvDocument()
    doc.add_namespace("ex", "http://example.org/")
    doc.set_default_namespace("http://d.example/")
    qn = doc.valid_qualified_name("ex:q")

    # --- encode_json_representation / literal_json_representation
    values = [
        Literal("plain"),
        Literal("", C.XSD_STRING),
        Literal("hello", langtag="en"),
        Literal("hello", C.XSD_STRING, "en"),
        Literal("5", C.XSD["unsignedByte"]),
        Literal("x", qn),
        Literal("x", langtag=""),
        datetime.datetime(2000, 1, 1),
        datetime.datetime(2000, 1, 1, 1, 2, 3, 4, tzinfo=datetime.timezone(datetime.timedelta(hours=-5))),
        datetime.date(2000, 1, 1),
        qn,
        C.PROV_ENTITY,
        Identifier("http://example.org/a b"),
        Identifier(""),
        0,
        -7,
        10 ** 30,
        1.5,
        float("inf"),
        True,
        False,
        MyInt(3),
        "",
        "text \u00e9",
        None,
        [1, 2],
        decimal.Decimal("1.10"),
        b"bytes",
    ]
    for i, v in enumerate(values):
        attempt("encode_repr[%d %s]" % (i, type(v).__name__), pj.encode_json_representation, v)
        if isinstance(v, Literal):
            attempt("literal_repr[%d]" % i, pj.literal_json_representation, v)
    attempt("literal_repr[non-literal]", pj.literal_json_representation, "str")
    attempt("encode_repr[identity]", lambda: pj.encode_json_representation(values[-3]) is values[-3])

    # --- decode_json_representation
    literals = [
        "simple",
        "",
        5,
        None,
        True,
        [1, 2],
        {"$": "v"},
        {"$": "v", "type": "xsd:string"},
        {"$": "5", "type": "xsd:int"},
        {"$": 5, "type": "xsd:int"},
        {"$": "v", "lang": "en"},
        {"$": "v", "lang": "en", "type": "xsd:string"},
        {"$": "v", "lang": ""},
        {"$": "http://x/y z", "type": "xsd:anyURI"},
        {"$": "ex:name", "type": "prov:QUALIFIED_NAME"},
        {"$": "name", "type": "prov:QUALIFIED_NAME"},
        {"$": "zz:name", "type": "prov:QUALIFIED_NAME"},
        {"$": None, "type": "prov:QUALIFIED_NAME"},
        {"$": "v", "type": "zz:unknown"},
        {"$": "v", "type": ""},
        {"$": "v", "type": None},
        {"$": "v", "type": "ex:custom"},
        {"type": "xsd:int"},
        {},
        MyDict({"$": "v", "type": "xsd:anyURI"}),
        collections.OrderedDict([("$", "v"), ("lang", "fr")]),
    ]
    for i, lit in enumerate(literals):
        attempt("decode_repr[%d]" % i, pj.decode_json_representation, lit, doc)
    attempt("decode_repr[kw]", lambda: pj.decode_json_representation(literal={"$": "v"}, bundle=doc))
    attempt("decode_repr[no bundle]", pj.decode_json_representation, {"$": "v", "type": "xsd:int"}, None)
    attempt("decode_repr[no bundle simple]", pj.decode_json_representation, "s", None)
    emit("doc namespaces after decode", [(n.prefix, n.uri) for n in doc.namespaces])

    # --- AnonymousIDGenerator
    g = pj.AnonymousIDGenerator()
    o1, o2 = object(), object()
    seq = [
        g.get_anon_id(o1),
        g.get_anon_id(o2),
        g.get_anon_id(o1),
        g.get_anon_id("s", "b"),
        g.get_anon_id("s"),
        g.get_anon_id(1),
        g.get_anon_id(1.0),
        g.get_anon_id(True, local_prefix="t"),
        g.get_anon_id(None),
        g.get_anon_id((1, 2), local_prefix=""),
        g.get_anon_id(obj=o2, local_prefix="zz"),
        g.get_anon_id(2, "%"),
    ]
    emit("anon ids", show(seq))
    emit("anon same object", g.get_anon_id(o1) is g.get_anon_id(o1))
    attempt("anon unhashable", g.get_anon_id, [])
    attempt("anon after failure", g.get_anon_id, "next")
    attempt("anon bad prefix type", g.get_anon_id, "another", 5)
    g2 = pj.AnonymousIDGenerator()
    emit("anon independent", show([g2.get_anon_id(o2), g.get_anon_id(o2)]))
    emit("anon public attrs", sorted(a for a in dir(g) if not a.startswith("_")))

    # --- decode_json_container / encode_json_container called directly
    containers = {
        "dictsubclass": MyDict(
            prefix=MyDict(ex="http://example.org/", default="http://d/"),
            entity=MyDict({"ex:e": MyDict({"ex:a": [1, "two", {"$": "3", "lang": "en"}]})}),
        ),
        "list_content": {"prefix": {"ex": "http://example.org/"}, "entity": {"ex:e": [{"ex:a": 1}, {"ex:a": 1}]}},
        "tuple_content": {"prefix": {"ex": "http://example.org/"}, "entity": {"ex:e": ({"ex:a": 1},)}},
        "empty_list_content": {"prefix": {"ex": "http://example.org/"}, "entity": {"ex:e": []}},
        "string_content": {"prefix": {"ex": "http://example.org/"}, "entity": {"ex:e": "oops"}},
        "none_content": {"prefix": {"ex": "http://example.org/"}, "entity": {"ex:e": None}},
        "prefix_only_default": {"prefix": {"default": "http://only.default/"}, "entity": {"e": {}}},
        "empty_prefix": {"prefix": {}, "agent": {}},
        "prov_attr_none": {"prefix": {"ex": "http://example.org/"}, "used": {"_:u": {"prov:activity": "ex:a", "prov:entity": None, "prov:time": None}}},
        "prov_attr_single_list": {"prefix": {"ex": "http://example.org/"}, "hadMember": {"_:m": {"prov:collection": ["ex:c"], "prov:entity": ["ex:e"]}}},
        "member_no_collection": {"prefix": {"ex": "http://example.org/"}, "hadMember": {"_:m": {"prov:entity": ["ex:e", "ex:f"]}}},
        "member_entity_first": {"prefix": {"ex": "http://example.org/"}, "hadMember": {"_:m": {"prov:entity": ["ex:e", "ex:f", "ex:e"], "prov:collection": "ex:c", "ex:x": [1, 2]}}},
        "member_many_elements": {"prefix": {"ex": "http://example.org/"}, "hadMember": {"_:m": [{"prov:entity": ["ex:e", "ex:f"], "prov:collection": "ex:c"}, {"prov:entity": "ex:g", "prov:collection": "ex:d"}]}},
        "full_uri_attr": {"prefix": {"ex": "http://example.org/"}, "entity": {"ex:e": {"http://www.w3.org/ns/prov#label": "l", "prov:entity": "ex:z"}}},
        "bundle_type": {"prefix": {"ex": "http://example.org/"}, "bundle": {"ex:b": {}}},
        "record_before_prefix": collections.OrderedDict([("entity", {"ex:e": {}}), ("prefix", {"ex": "http://example.org/"})]),
        "non_dict_prefix": {"prefix": [("ex", "http://example.org/")]},
    }
    for name, jc in containers.items():
        def run(jc=jc):
            d = ProvDocument()
            try:
                pj.decode_json_container(jc, d)
            finally:
                emit("  jc after[%s]" % name, show(jc))
                emit("  state after[%s]" % name, repr(doc_state(d)))
            return pj.encode_json_container(d)
        attempt("decode_container[%s]" % name, run)
    attempt("decode_container[kw]", lambda: pj.decode_json_container(jc={}, bundle=ProvDocument()))

    # a document with an unnamed default namespace only, blank-node-like and odd identifiers
    d = ProvDocument()
    d.set_default_namespace("http://d/")
    d.entity("a b")
    d.entity("a b")
    d.activity("act", None, None)
    d.wasStartedBy("act", None, None, None)
    d.wasEndedBy("act", time=datetime.datetime(1999, 12, 31, 23, 59, 59))
    d.actedOnBehalfOf("x", "y")
    d.wasInformedBy("act", "act")
    d.wasInvalidatedBy("a b", "act", identifier="inv")
    d.wasInvalidatedBy("a b", "act", identifier="inv")
    d.wasInvalidatedBy("a b", "act", identifier="inv")
    attempt("encode_container[default-only]", pj.encode_json_container, d)
    attempt("encode_container[kw]", lambda: pj.encode_json_container(bundle=d))
    r1 = pj.encode_json_container(d)
    emit("container type", "%s %r" % (type(r1).__name__, r1.default_factory))
    emit("container missing key", show(r1["nokey"]))
    attempt("encode_container[not a bundle]", pj.encode_json_container, object())

    # --- constants tables
    emit("PROV_N_MAP", show(C.PROV_N_MAP))
    emit("PROV_RECORD_IDS_MAP", show(C.PROV_RECORD_IDS_MAP))
    emit("PROV_ATTRIBUTES_ID_MAP", show(C.PROV_ATTRIBUTES_ID_MAP))
    emit("PROV_ID_ATTRIBUTES_MAP", show(C.PROV_ID_ATTRIBUTES_MAP))
    emit("PROV_RECORD_ATTRIBUTES", show(C.PROV_RECORD_ATTRIBUTES))
    emit("PROV_ATTRIBUTE_QNAMES(iteration order)", show(list(C.PROV_ATTRIBUTE_QNAMES)))
    emit("PROV_ATTRIBUTE_LITERALS(iteration order)", show(list(C.PROV_ATTRIBUTE_LITERALS)))
    emit("PROV_ATTRIBUTES(iteration order)", show(list(C.PROV_ATTRIBUTES)))
    emit("ADDITIONAL_N_MAP", show(C.ADDITIONAL_N_MAP))
    emit("table types", [type(getattr(C, n)).__name__ for n in (
        "PROV_N_MAP", "PROV_RECORD_IDS_MAP", "PROV_ATTRIBUTES_ID_MAP", "PROV_ID_ATTRIBUTES_MAP",
        "PROV_RECORD_ATTRIBUTES", "PROV_ATTRIBUTE_QNAMES", "PROV_ATTRIBUTE_LITERALS", "PROV_ATTRIBUTES")])
    emit("constants public names", sorted(n for n in vars(C) if not n.startswith("_")))
    emit("provjson public names", sorted(n for n in vars(pj) if not n.startswith("_")))
    import prov.serializers.provxml as px
    emit("provxml FULL_NAMES_MAP", show(px.FULL_NAMES_MAP))
    emit("provxml FULL_PROV_RECORD_IDS_MAP", show(px.FULL_PROV_RECORD_IDS_MAP))


def finish():
    text = "\n".join(LINES)
    print(text)
    print("DIGEST", hashlib.sha256(text.encode("utf-8")).hexdigest())


if __name__ == "__main__":
    roundtrip_all()
    direct_calls()
    finish()
