# The library keeps attribute values in sets, so output order depends on string
# hashing: the script re-runs itself under fixed PYTHONHASHSEED values (0, 1, 2).
import os, subprocess, sys
if "--child" not in sys.argv:
    for seed in ("0", "1", "2"):
        env = dict(os.environ, PYTHONHASHSEED=seed)
        r = subprocess.run([sys.executable, os.path.abspath(__file__), "--child"], env=env,
                           stdout=subprocess.PIPE, stderr=subprocess.STDOUT)
        sys.stdout.write("==== PYTHONHASHSEED=%s rc=%d\n" % (seed, r.returncode))
        sys.stdout.write(r.stdout.decode("utf-8"))
    sys.exit(0)
# shared fixture builders / digest helpers (copied verbatim into each equiv.py)
import datetime, hashlib, sys
from prov.model import (ProvDocument, ProvBundle, ProvException, ProvEntity, ProvActivity,
                        ProvAgent, ProvElement, ProvRelation, ProvRecord, Namespace,
                        PROV_ENTITY, PROV_ACTIVITY, PROV_GENERATION, PROV, Literal,
                        PROV_ATTR_ENTITY, PROV_ATTR_ACTIVITY, PROV_TYPE, PROV_LABEL)
from prov.identifier import QualifiedName, Identifier

EX = Namespace("ex", "http://example.org/")
OT = Namespace("other", "http://other.example/ns#")
LINES = []


def out(*parts):
    LINES.append(" ".join(str(p) for p in parts))


def attempt(label, fn):
    try:
        res = fn()
    except BaseException as e:  # noqa
        out(label, "RAISED", type(e).__name__, str(e))
        return None
    out(label, "OK", describe(res))
    return res


def describe(x):
    if isinstance(x, ProvDocument):
        return "DOC<<\n%s\n>> ns=%s default=%s bundles=%s" % (
            x.get_provn(), sorted((n.prefix, n.uri) for n in x.namespaces), x.default_ns_uri,
            [str(b.identifier) for b in x.bundles])
    if isinstance(x, ProvBundle):
        return "BUNDLE<<\n%s\n>> ns=%s default=%s doc=%s" % (
            x.get_provn(), sorted((n.prefix, n.uri) for n in x.namespaces), x.default_ns_uri,
            type(x.document).__name__)
    if isinstance(x, ProvRecord):
        return "REC %s | %s | bundle=%r | attrs=%r" % (type(x).__name__, x.get_provn(), x.bundle, x.attributes)
    if isinstance(x, (list, tuple)):
        return type(x).__name__ + "[" + "; ".join(describe(i) for i in x) + "]"
    return "%s:%r" % (type(x).__name__, x)


def doc_plain():
    d = ProvDocument()
    d.add_namespace(EX)
    d.entity("ex:e1", {"ex:k": "v1"})
    d.activity("ex:a1", datetime.datetime(2020, 1, 2, 3, 4, 5))
    d.wasGeneratedBy("ex:e1", "ex:a1", identifier="ex:g1")
    d.agent("ex:ag1")
    d.wasAttributedTo("ex:e1", "ex:ag1")
    return d


def doc_repeated():
    d = ProvDocument()
    d.add_namespace(EX)
    d.add_namespace(OT)
    d.set_default_namespace("http://default.example/")
    d.entity("ex:e1", {"ex:k": "v1", PROV_TYPE: EX["T1"]})
    d.entity("ex:e1", {"ex:k": "v2", "other:z": 3})
    d.entity("ex:e1", {"ex:k": "v1"})
    d.entity("ex:e1", {"ex:k": "v1"})  # equal to the previous one
    d.activity("ex:e1")  # same id, other type
    d.activity("ex:a1", datetime.datetime(2020, 1, 2, 3, 4, 5))
    d.activity("ex:a1", None, datetime.datetime(2021, 1, 2, 3, 4, 5), {"ex:x": 1.5})
    d.entity("plain")
    d.entity("plain", {PROV_LABEL: Literal("café \"q\" \\ \n", langtag="fr")})
    d.wasGeneratedBy("ex:e1", "ex:a1", identifier="ex:g1")
    d.wasGeneratedBy("ex:e1", "ex:a1", time=datetime.datetime(2019, 5, 5), identifier="ex:g1")
    d.wasGeneratedBy("ex:e1", "ex:a1")
    d.used("ex:a1", "ex:e1")
    d.used("ex:a1", None)
    d.wasDerivedFrom("ex:e2", "ex:e1", "ex:a1")
    d.specializationOf("ex:e2", "ex:e1")
    d.hadMember("ex:c", "ex:e1")
    d.mentionOf("ex:e3", "ex:e1", "ex:b1")
    d.actedOnBehalfOf("ex:ag2", "ex:ag1", "ex:a1")
    d.wasAssociatedWith("ex:a1", "ex:ag1", "ex:plan")
    d.wasStartedBy("ex:a1", "ex:trig", "ex:starter")
    d.wasEndedBy("ex:a1", None, "ex:ender")
    d.wasInformedBy("ex:a2", "ex:a1")
    d.wasInfluencedBy("ex:x", "ex:y")
    d.alternateOf("ex:e4", "ex:e1")
    return d


def doc_bundles():
    d = doc_repeated()
    b1 = d.bundle("ex:b1")
    b1.add_namespace("bns", "http://bundle.example/")
    b1.entity("bns:e", {"bns:p": 1})
    b1.entity("bns:e", {"bns:p": 2})
    b1.entity("ex:e1")
    b1.wasDerivedFrom("bns:e", "ex:e1")
    b2 = d.bundle("ex:b2")
    b2.set_default_namespace("http://b2.default/")
    b2.activity("act")
    b2.activity("act", datetime.datetime(2000, 1, 1))
    d.bundle("ex:empty")
    return d


def doc_empty():
    return ProvDocument()


def all_docs():
    return [("plain", doc_plain), ("repeated", doc_repeated), ("bundles", doc_bundles), ("empty", doc_empty)]


def finish():
    text = "\n".join(LINES) + "\n"
    sys.stdout.write(text)
    sys.stdout.write("DIGEST " + hashlib.sha256(text.encode("utf-8")).hexdigest() + "\n")

# ---- refactoring 1: ProvBundle._unified_records / ProvBundle.unified (and callers)
for name, mk in all_docs():
    d = mk()
    before = d.get_provn()
    ns_before = sorted((n.prefix, n.uri) for n in d.namespaces)
    recs = attempt(name + "._unified_records", d._unified_records)
    if recs is not None:
        out(name, "identity-kept", [r in d._records and any(r is o for o in d._records) for r in recs])
        out(name, "bundles-of-results", [repr(r.bundle) for r in recs])
    attempt(name + ".ProvBundle.unified", lambda: ProvBundle.unified(d))
    attempt(name + ".unified", d.unified)
    for b in d.bundles:
        recs = attempt(name + ".bundle._unified_records " + str(b.identifier), b._unified_records)
        u = attempt(name + ".bundle.unified " + str(b.identifier), b.unified)
        out("bundle-ns-after", sorted((n.prefix, n.uri) for n in b.namespaces))
    out(name, "source unchanged", before == d.get_provn(), ns_before == sorted((n.prefix, n.uri) for n in d.namespaces))
    out(name, "helpers-private", sorted(k for k in vars(ProvBundle) if "unified" in k))

# stand-alone bundle with repeated ids, and one with unresolvable prefix in the scratch bundle
sb = ProvBundle(identifier=EX["solo"], namespaces=[EX])
sb.entity("ex:a", {"ex:p": 1})
sb.entity("ex:a", {"ex:p": 2})
attempt("solo raw uri 1", lambda: sb.entity(Identifier("http://example.org/raw")))
attempt("solo raw uri 2", lambda: sb.entity(Identifier("http://example.org/raw"), {"ex:q": "s"}))
attempt("solo raw uri 3", lambda: sb.entity(Identifier("http://nowhere.example/raw")))
attempt("solo undeclared", lambda: sb.entity("zz:undeclared"))
attempt("solo._unified_records", sb._unified_records)
attempt("solo.unified", sb.unified)
attempt("solo.unified twice equal", lambda: sb.unified() == sb.unified())
# record without identifier never merged
nb = ProvBundle(namespaces=[EX])
nb.used("ex:a", "ex:e")
nb.used("ex:a", "ex:e")
attempt("noid.unified", nb.unified)
attempt("noid same list object?", lambda: nb._unified_records() is nb._records)
finish()
