# Shared corpus builder (copied verbatim into every equiv.py so each is self-contained)
import datetime, hashlib, io, os, sys, tempfile, traceback, contextlib

# -- determinism: fixed string hashing (attribute sets) and counted rdflib blank nodes
if os.environ.get("PYTHONHASHSEED") != "0":
    os.environ["PYTHONHASHSEED"] = "0"
    os.execv(sys.executable, [sys.executable] + sys.argv)
import rdflib.term as _rt


class _CountedUUID:
    n = 0

    def __call__(self):
        type(self).n += 1
        return self

    @property
    def hex(self):
        return "%032x" % type(self).n


_rt.uuid4 = _CountedUUID()

from prov.model import ProvDocument, Namespace, Literal, PROV, Identifier, QualifiedName
from prov.tests import examples


def edge_doc(odd_ns=False):
    d = ProvDocument()
    d.set_default_namespace("http://default.example/")
    ex = d.add_namespace("ex", "http://example.org/")
    if odd_ns:
        d.add_namespace("odd", "http://example.org/odd path/#")
    e1 = d.entity("ex:e1", {"prov:label": "café ☃ <&> \"q\" 'a'", "ex:n": 1, "ex:f": 2.5,
                            "ex:b": True, "ex:s": "", "ex:uri": Identifier("http://x.org/a?b=c&d"),
                            "ex:q": ex["qn"], "ex:t": datetime.datetime(2020, 1, 2, 3, 4, 5, 678)})
    # repeated identifier, several values for one attribute
    d.entity("ex:e1", {"ex:n": 2, "prov:type": ex["T"]})
    d.entity("ex:e1", [("ex:tag", "a"), ("ex:tag", "b"), ("ex:tag", Literal("c", langtag="en"))])
    d.entity("noprefix")
    a = d.activity("ex:a1", datetime.datetime(2012, 3, 4, 5, 6, 7), None, {"prov:type": "ex:edit"})
    ag = d.agent("ex:ag", {"prov:type": PROV["Person"], "prov:location": "Paris",
                           "prov:value": Literal("10", datatype=ex["dt"])})
    d.wasGeneratedBy(e1, a, datetime.datetime(2012, 3, 4, 5, 6, 8), identifier="ex:g1",
                     other_attributes={"prov:role": "writer"})
    d.wasGeneratedBy(e1, a)
    d.used(a, e1)
    d.used(a, None, None, {"ex:why": "unknown"})
    d.wasAssociatedWith(a, ag, "ex:plan")
    d.actedOnBehalfOf(ag, "ex:boss", a)
    d.wasDerivedFrom("ex:e2", e1, other_attributes={"prov:type": PROV["Revision"]})
    d.alternateOf("ex:e2", e1)
    d.specializationOf("ex:e2", e1)
    d.hadMember("ex:coll", e1)
    d.hadMember("ex:coll", "ex:e2")
    d.wasStartedBy(a, e1, None, datetime.datetime(2012, 1, 1))
    d.wasEndedBy(a, None, None, None)
    d.wasInvalidatedBy(e1, a, identifier="ex:inv")
    d.wasInformedBy("ex:a2", a)
    d.wasAttributedTo(e1, ag)
    d.wasInfluencedBy(e1, ag, identifier="ex:infl")
    b = d.bundle("ex:bundle1")
    b.add_namespace("bx", "http://bundle.example/ns#")
    b.entity("bx:inner", {"prov:label": Literal("hallo", langtag="de")})
    b.entity("ex:e1")
    b.mentionOf("bx:inner", "ex:e1", "ex:bundle1") if hasattr(b, "mentionOf") else None
    d.bundle("ex:emptybundle")
    return d


def corpus():
    docs = [("empty", ProvDocument())]
    only_ns = ProvDocument()
    only_ns.add_namespace("ex", "http://example.org/")
    docs.append(("only_ns", only_ns))
    for name, fn in examples.tests:
        docs.append((name, fn()))
    docs.append(("edge", edge_doc()))
    docs.append(("edge_oddns", edge_doc(odd_ns=True)))
    return docs


def digest(data):
    if isinstance(data, str):
        data = data.encode("utf-8")
    return hashlib.sha256(data).hexdigest()[:16]


def attempt(label, fn):
    """Run fn, print a deterministic line for its result or its exception."""
    out = io.StringIO()
    try:
        with contextlib.redirect_stdout(out):
            res = fn()
        if isinstance(res, (bytes, str)):
            shown = "%s len=%d sha=%s" % (type(res).__name__, len(res), digest(res))
        else:
            shown = repr(res)
        print("%-60s OK  %s  stdout=%r" % (label, shown, out.getvalue()))
    except BaseException as exc:  # noqa
        ctx = type(exc.__context__).__name__ if exc.__context__ is not None else None
        print("%-60s EXC %s: %s  ctx=%s  stdout=%r" % (label, type(exc).__name__, exc, ctx, out.getvalue()))


# ---- refactoring 2: ProvRDFSerializer.serialize / encode_document / AnonymousIDGenerator (provrdf)
from prov.serializers import provrdf
from prov.serializers.provrdf import ProvRDFSerializer, AnonymousIDGenerator
from prov.constants import PROV_N_MAP


class NoWrite:
    pass


class Recorder:
    def __init__(self):
        self.calls = []

    def write(self, data):
        self.calls.append((type(data).__name__, len(data), digest(data)))


def run(doc, make_stream, *args, **kw):
    stream = make_stream()
    res = ProvRDFSerializer(doc).serialize(stream, *args, **kw)
    if isinstance(stream, Recorder):
        return "ret=%r calls=%r" % (res, stream.calls)
    if hasattr(stream, "getvalue"):
        v = stream.getvalue()
        return "ret=%r %s len=%d sha=%s closed=%s" % (res, type(v).__name__, len(v), digest(v), stream.closed)
    return "ret=%r" % (res,)


docs = corpus()
for name, doc in docs:
    for sname, mk in (("StringIO", io.StringIO), ("BytesIO", io.BytesIO), ("Recorder", Recorder),
                      ("None", lambda: None), ("NoWrite", NoWrite)):
        attempt("%s rdf %s" % (name, sname), lambda: run(doc, mk))
    for fmt in ("turtle", "nt", "xml", "nquads", "trig", "no-such-format"):
        attempt("%s rdf_format=%s" % (name, fmt), lambda: run(doc, io.StringIO, fmt))
        attempt("%s format-kw=%s" % (name, fmt), lambda: run(doc, io.StringIO, format=fmt))
    # encode_document directly: sorted quads
    def quads():
        g = ProvRDFSerializer(doc).encode_document(doc)
        return "\n".join(sorted(repr(q) for q in g.quads()))
    attempt("%s encode_document quads" % name, quads)

edge = dict(docs)["edge"]
attempt("edge custom PROV_N_MAP", lambda: run(edge, io.StringIO, "trig", dict(PROV_N_MAP)))
attempt("edge empty PROV_N_MAP", lambda: run(edge, io.StringIO, "trig", {}))
attempt("edge kwargs encoding", lambda: run(edge, io.BytesIO, encoding="latin-1"))
attempt("edge kwargs bogus", lambda: run(edge, io.BytesIO, bogus=True))
attempt("edge default stream", lambda: ProvRDFSerializer(edge).serialize())
attempt("no document", lambda: run(None, io.StringIO))
attempt("doc api", lambda: edge.serialize(format="rdf", rdf_format="turtle"))

# the anonymous id generator
gen = AnonymousIDGenerator()
objs = ["a", "b", "a", ("t", 1), "b", 3, 3.0, True, 1]
print("anon ids", [str(gen.get_anon_id(o)) for o in objs], [str(gen.get_anon_id(o, "x")) for o in ["n1", "a", "n2"]])
attempt("anon unhashable", lambda: gen.get_anon_id([]))
print("anon after failure", str(gen.get_anon_id("fresh")))
print("public attrs", sorted(a for a in dir(gen) if not a.startswith("_")))
