"""Differential script: NamespaceManager / ProvBundle / ProvDocument behaviour digest."""
import hashlib
import logging
import os
import sys

# The order of multi-valued attributes in PROV-N/JSON output follows set order,
# i.e. the string hash seed: pin it so that the digest is deterministic.
if os.environ.get("PYTHONHASHSEED") != "0":
    os.environ["PYTHONHASHSEED"] = "0"
    os.execv(sys.executable, [sys.executable] + sys.argv)

from prov.identifier import Identifier, Namespace, QualifiedName
from prov.model import (
    NamespaceManager,
    ProvBundle,
    ProvDocument,
    ProvException,
    PROV_ENTITY,
    ProvEntity,
    ProvActivity,
    ProvElement,
    ProvRelation,
    ProvUsage,
)

logging.disable(logging.CRITICAL)
LINES = []


def emit(*parts):
    LINES.append(" | ".join(str(p) for p in parts))


def d_ns(ns):
    if ns is None:
        return "None"
    return "NS(%r,%r)" % (ns.prefix, ns.uri)


def d_qn(q):
    if q is None:
        return "None"
    if isinstance(q, QualifiedName):
        return "QN(%s;%r;%r)" % (d_ns(q.namespace), q.localpart, q.uri)
    if isinstance(q, Identifier):
        return "ID(%r)" % q.uri
    return "OTHER(%r)" % (q,)


def d_mgr(m):
    items = ["%r=>%s" % (k, d_ns(v)) for k, v in m.items()]  # insertion order matters
    reg = [d_ns(n) for n in m.get_registered_namespaces()]
    return "items=[%s] reg=[%s] default=%s parent=%s" % (
        ", ".join(items),
        ", ".join(reg),
        d_ns(m.get_default_namespace()),
        "yes" if m.parent is not None else "no",
    )


def d_rec(r):
    attrs = sorted("%s=%r" % (d_qn(a), v if not isinstance(v, Identifier) else d_qn(v)) for a, v in r.attributes)
    return "%s[%s](%s){%s}" % (
        type(r).__name__,
        d_qn(r.identifier),
        "bundle:%s" % d_qn(r.bundle.identifier),
        "; ".join(attrs),
    )


def d_bundle(b, tag=""):
    out = ["%s%s id=%s doc=%s" % (tag, type(b).__name__, d_qn(b.identifier), "yes" if b.document is not None else "no")]
    out.append("  ns: " + d_mgr(b._namespaces))
    out.append("  namespaces-prop: " + ", ".join(sorted(d_ns(n) for n in b.namespaces)))
    for r in b.records:
        out.append("  rec: " + d_rec(r))
    out.append("  provn: " + repr(b.get_provn()))
    if b.is_document():
        for sub in b.bundles:
            out.extend("    " + l for l in d_bundle(sub, "sub:"))
    return out


def call(label, fn, *a, **k):
    try:
        res = fn(*a, **k)
    except Exception as e:  # noqa
        emit(label, "EXC", type(e).__name__, str(e))
        return None
    return res


# ----------------------------------------------------------------- NamespaceManager
EX = Namespace("ex", "http://example.org/")
EX2 = Namespace("ex", "http://example.org/2/")
EX3 = Namespace("ex", "http://example.org/3/")
OTHER = Namespace("other", "http://example.org/")
DEF1 = Namespace("", "http://default.org/")
DEF2 = Namespace("", "http://default2.org/")
DEF1B = Namespace("", "http://default.org/")
WEIRD = Namespace("w-é.1", "urn:weird:é#")
PROVDUP = Namespace("prov", "http://not-prov.org/")

QNAME_INPUTS = [
    None, "", 0, 5, 3.2, ("ex", "a"), ["ex:a"], b"ex:a",
    "ex:a", "ex:", ":a", "ex:a:b", "ex_1:z", "ex_2:z", "other:q", "unknown:x",
    "_:b1", "_:", "plain", "pl ain", "été", "prov:Entity", "xsd:string", "xsi:type", "dn:q", "dn_1:q",
    "http://example.org/thing", "http://example.org/2/thing", "http://example.org/",
    "http://www.w3.org/ns/prov#Person", "urn:weird:é#x y", "w-é.1:loc",
    "http://default.org/zzz", "http://default2.org/zzz", "mailto:someone@example.org",
    Identifier("http://example.org/idthing"), Identifier("ex:viaid"), Identifier("_:blank"),
    Identifier("noColon"), Identifier("http://nowhere.org/x"),
    EX["a"], EX2["a"], EX3["c"], OTHER["o"], DEF1["d"], DEF2["d2"], DEF1B["d3"],
    Namespace("ex", "http://example.org/")["copy"], WEIRD["q"], PROVDUP["Entity"],
    Namespace("prov", "http://www.w3.org/ns/prov#")["Agent"],
    QualifiedName(Namespace("dn", "http://dn.org/"), "x"),
]


def mgr_variants():
    yield "empty", lambda: NamespaceManager()
    yield "ex", lambda: NamespaceManager([EX])
    yield "dict", lambda: NamespaceManager({"ex": "http://example.org/", "b": "http://b.org/#"})
    yield "default", lambda: NamespaceManager([EX], default="http://default.org/")
    yield "conflict", lambda: NamespaceManager([EX, EX2, EX3, OTHER, WEIRD, PROVDUP])
    yield "child", lambda: NamespaceManager([EX2], parent=NamespaceManager([EX, WEIRD], default="http://default2.org/"))
    yield "childdef", lambda: NamespaceManager(None, default="http://default.org/", parent=NamespaceManager([EX]))


for name, mk in mgr_variants():
    m = call("mk " + name, mk)
    if m is None:
        continue
    emit("MGR", name, d_mgr(m))
    # each input on a fresh manager
    for i, q in enumerate(QNAME_INPUTS):
        fresh = mk()
        res = call("vqn %s #%d" % (name, i), fresh.valid_qualified_name, q)
        same = res is q
        emit("vqn-fresh", name, i, d_qn(res), "same" if same else "new", d_mgr(fresh))
        if fresh.parent is not None:
            emit("  parent", d_mgr(fresh.parent))
    # all inputs in sequence on one manager (state accumulates)
    for i, q in enumerate(QNAME_INPUTS):
        res = call("vqn-seq %s #%d" % (name, i), m.valid_qualified_name, q)
        emit("vqn-seq", name, i, d_qn(res), "same" if res is q else "new")
    emit("MGR-after", name, d_mgr(m))
    # repeated resolution gives cached identical objects
    a = m.valid_qualified_name("ex:a")
    b = m.valid_qualified_name("ex:a")
    emit("cache", name, a is b)

# add_namespace / _get_unused_prefix / set_default_namespace
m = NamespaceManager()
seq = [EX, EX, EX2, EX2, EX3, OTHER, Namespace("ex_1", "http://clash.org/"), Namespace("ex", "http://example.org/4/"),
       Namespace("ex_1", "http://example.org/2/"), PROVDUP, Namespace("prov", "http://www.w3.org/ns/prov#"),
       Namespace("", "http://empty-prefix.org/"), Namespace("", "http://empty-prefix2.org/"), WEIRD,
       Namespace("xsd", "http://www.w3.org/2001/XMLSchema#"), Namespace("xsd2", "http://www.w3.org/2001/XMLSchema#")]
for i, ns in enumerate(seq):
    r = call("add_ns #%d" % i, m.add_namespace, ns)
    emit("add_ns", i, d_ns(ns), "->", d_ns(r), "same" if r is ns else "new")
emit("after add", d_mgr(m))
for p in ["ex", "ex_1", "nope", "", "prov", "xsd", "w-é.1", "ex_2", "ex_3"]:
    emit("unused", repr(p), repr(call("unused", m._get_unused_prefix, p)))
for bad in [None, 3, ("a",)]:
    emit("unused-bad", repr(bad), repr(call("unused-bad %r" % (bad,), m._get_unused_prefix, bad)))
for bad in [None, "ex", 3, EX["a"]]:
    call("add_ns bad %r" % (bad,), m.add_namespace, bad)
for uri in ["http://d1.org/", "http://d2.org/", "", "   ", None, "http://d1.org/"]:
    call("set_default %r" % (uri,), m.set_default_namespace, uri)
    emit("set_default", repr(uri), d_ns(m.get_default_namespace()), d_ns(m.get("")))
emit("final", d_mgr(m))
for q in ["ex:1", "ex_1:1", "ex_2:1", "ex_3:1", "other:1", "prov_1:1", ":x", "local", "xsd2:int"]:
    emit("resolve", q, d_qn(m.valid_qualified_name(q)))

# ----------------------------------------------------------------- bundles / documents
def build_doc():
    d = ProvDocument()
    d.add_namespace("ex", "http://example.org/")
    d.set_default_namespace("http://default.org/")
    e1 = d.entity("ex:e1", {"prov:label": "one", "ex:k": 1})
    d.entity("ex:e1", {"prov:label": "uno", "ex:k": 2})
    d.entity("ex:e1")
    d.activity("ex:a1", "2020-01-01T00:00:00", None, {"ex:x": "y"})
    d.activity("ex:a1", None, "2020-01-02T00:00:00")
    d.agent("ex:e1", {"ex:agentattr": True})  # same id, different type
    d.entity("noprefix")
    d.wasGeneratedBy("ex:e1", "ex:a1", identifier="ex:g1")
    d.wasGeneratedBy("ex:e1", "ex:a1", identifier="ex:g1", other_attributes={"ex:role": "r"})
    d.wasGeneratedBy("ex:e1", "ex:a1")
    d.used("ex:a1", "ex:e1")
    d.used("ex:a1", "ex:e1")
    b1 = d.bundle("ex:b1")
    b1.add_namespace("ex", "http://example.org/bundle/")
    b1.entity("ex:e1", {"prov:label": "in-bundle"})
    b1.entity("ex:e1", {"prov:label": "in-bundle-2", "prov:type": "ex:T"})
    b1.entity("ex:é x")
    b1.wasDerivedFrom("ex:e1", "ex:e0")
    b2 = d.bundle("b2")
    b2.set_default_namespace("http://bundle-default.org/")
    b2.entity("loc")
    b2.entity("loc", {"ex:a": "b"})
    b2.agent("ex:ag")
    d.bundle("ex:empty")
    return d


doc = build_doc()
for l in d_bundle(doc, "DOC "):
    emit(l)

for l in d_bundle(doc.unified(), "UNIFIED "):
    emit(l)
emit("unified is new", doc.unified() is not doc)
for sub in doc.bundles:
    u = sub.unified()
    for l in d_bundle(u, "SUB-UNIFIED "):
        emit(l)
    emit("sub._unified_records", [d_rec(r) for r in sub._unified_records()])
emit("doc._unified_records", [d_rec(r) for r in doc._unified_records()])
# no-merge case returns the original records (new list)
nm = ProvDocument(namespaces=[Namespace("x", "http://x.org/")])
nm.entity("http://x.org/a")
nm.activity("http://x.org/b")
ur = nm._unified_records()
emit("nomerge", [a is b for a, b in zip(ur, nm._records)], ur is not nm._records, len(ur))
emit("empty unified", ProvDocument().unified().get_provn(), ProvBundle().unified().get_provn(), ProvBundle()._unified_records())
for l in d_bundle(doc, "DOC-after-unified "):
    emit(l)

fl = doc.flattened()
for l in d_bundle(fl, "FLAT "):
    emit(l)
emit("flattened new", fl is not doc)
nb = ProvDocument(namespaces=[Namespace("x", "http://x.org/")])
nb.entity("http://x.org/a")
emit("flattened same", nb.flattened() is nb)
e = ProvDocument(namespaces={"x": "http://x.org/"})
emit("flattened empty", e.flattened() is e)
e.bundle("http://x.org/b")
emit("flattened only-empty-bundle", e.flattened() is e, e.flattened().get_provn())

# records / get_records / get_record / _add_record
emit("records copy", doc.records is not doc._records, doc.records == doc._records, len(doc.records))
emit("get_records", type(doc.get_records()).__name__, len(doc.get_records()))
for flt in [ProvEntity, ProvActivity, ProvElement, ProvRelation, (ProvEntity, ProvActivity), (), None, 0]:
    r = call("get_records %r" % (flt,), doc.get_records, flt)
    emit("get_records", getattr(flt, "__name__", flt), type(r).__name__, [d_rec(x) for x in r] if r is not None else None)
call("get_records bad", lambda: list(doc.get_records("notatype")))
for ident in [None, "ex:e1", "ex:a1", "ex:nothing", "noprefix", "_:x", EX["e1"], Identifier("http://example.org/e1"), 5, "unknown:zz"]:
    r = call("get_record %r" % (ident,), doc.get_record, ident)
    emit("get_record", d_qn(ident) if isinstance(ident, Identifier) else repr(ident), None if r is None else [d_rec(x) for x in r])
for sub in doc.bundles:
    for ident in ["ex:e1", "loc", "ex:a1", "zzz"]:
        r = call("sub get_record", sub.get_record, ident)
        emit("sub.get_record", d_qn(sub.identifier), ident, None if r is None else [d_rec(x) for x in r])
emit("id_map keys after lookups", [sorted(d_qn(k) for k in b._id_map) for b in [doc] + list(doc.bundles)])
for l in d_bundle(doc.unified(), "UNIFIED-after-lookups "):
    emit(l)
tb = ProvBundle()
anon = ProvUsage(tb, None)
named = ProvEntity(tb, EX["n"])
tb._add_record(anon)
tb._add_record(named)
tb._add_record(named)
emit("_add_record", len(tb._records), {d_qn(k): len(v) for k, v in tb._id_map.items()})

# ProvBundle.add_namespace / set_default_namespace
b = ProvBundle()
emit("b.add_ns", d_ns(call("x", b.add_namespace, "p", "http://p.org/")))
emit("b.add_ns", d_ns(call("x", b.add_namespace, Namespace("p", "http://p2.org/"))))
emit("b.add_ns", d_ns(call("x", b.add_namespace, Namespace("q", "http://q.org/"), None)))
emit("b.add_ns", d_ns(call("b.add_ns prefix-only", b.add_namespace, "p")))
emit("b.add_ns", d_ns(call("b.add_ns empty uri", b.add_namespace, "p", "")))
emit("b.add_ns", d_ns(call("b.add_ns ns+uri", b.add_namespace, Namespace("r", "http://r.org/"), "http://r2.org/")))
emit("b.add_ns", d_ns(call("b.add_ns kw", b.add_namespace, namespace_or_prefix="s", uri="http://s.org/")))
call("b.set_default None", b.set_default_namespace, None)
emit("b.set_default ret", b.set_default_namespace("http://bd.org/"), d_ns(b.get_default_namespace()), b.default_ns_uri)
emit("b state", d_mgr(b._namespaces))

# update / add_bundle / bundle
def fresh_targets():
    t = ProvDocument()
    t.add_namespace("ex", "http://target.org/")
    t.entity("ex:t")
    t.bundle("ex:b1").entity("ex:inb1")
    return t


others = {
    "doc": lambda: build_doc(),
    "doc-nobundles": lambda: (lambda d: (d.entity("http://o.org/x"), d)[1])(ProvDocument(namespaces={"o": "http://o.org/"})),
    "bundle": lambda: ProvBundle(records=list(build_doc().get_records()), identifier=EX["ob"]),
    "sub-bundle": lambda: list(build_doc().bundles)[0],
    "none": lambda: None,
    "str": lambda: "a string",
    "dict": lambda: {"a": 1},
    "tuple": lambda: (1, 2),
    "tuple1": lambda: ("x",),
    "record": lambda: build_doc().records[0],
    "mgr": lambda: NamespaceManager(),
}
for name, mk in others.items():
    t = fresh_targets()
    r = call("doc.update " + name, t.update, mk())
    emit("doc.update", name, "ret", r)
    for l in d_bundle(t, "  T "):
        emit(l)
    tbn = ProvBundle(identifier=EX["tb"])
    r = call("bundle.update " + name, tbn.update, mk())
    emit("bundle.update", name, "ret", r)
    for l in d_bundle(tbn, "  TB "):
        emit(l)
    sub = list(fresh_targets().bundles)[0]
    r = call("subbundle.update " + name, sub.update, mk())
    for l in d_bundle(sub, "  SB "):
        emit(l)

t = fresh_targets()
t2 = fresh_targets()
t.update(t2)
t.update(t2)
for l in d_bundle(t, "DOUBLE-UPDATE "):
    emit(l)
self_upd = fresh_targets()
call("self update", self_upd.update, self_upd)
for l in d_bundle(self_upd, "SELF-UPDATE "):
    emit(l)

add_cases = [
    ("notbundle", lambda: "x", None),
    ("none", lambda: None, None),
    ("noid", lambda: ProvBundle(), None),
    ("noid-given", lambda: ProvBundle(), "ex:given"),
    ("noid-given-invalid", lambda: ProvBundle(), "_:blank"),
    ("given-tuple1", lambda: ProvBundle(), ("x",)),
    ("given-tuple2", lambda: ProvBundle(), ("x", "y")),
    ("given-int", lambda: ProvBundle(), 7),
    ("given-dict", lambda: ProvBundle(), {"a": 1}),
    ("given-empty", lambda: ProvBundle(identifier=EX["has"]), ""),
    ("id-qname", lambda: ProvBundle(identifier=EX["nb"]), None),
    ("id-qname-override", lambda: ProvBundle(identifier=EX["nb"]), "ex:override"),
    ("id-str-unresolvable", lambda: ProvBundle(identifier="nocolon"), None),
    ("id-uri", lambda: ProvBundle(identifier="http://example.org/full"), None),
    ("dup", lambda: ProvBundle(identifier=Namespace("ex", "http://target.org/")["b1"]), None),
    ("dup-str", lambda: ProvBundle(), "ex:b1"),
    ("doc-with-bundles", build_doc, "ex:d"),
    ("doc-no-bundles", lambda: others["doc-nobundles"](), "ex:d"),
    ("doc-no-bundles-noid", lambda: others["doc-nobundles"](), None),
    ("with-records", lambda: ProvBundle(records=list(build_doc().get_records()), identifier=EX2["wr"], namespaces=[EX2, WEIRD]), None),
    ("own-default", lambda: (lambda b: (b.set_default_namespace("http://own.org/"), b)[1])(ProvBundle()), "localname"),
]
for name, mk, ident in add_cases:
    t = fresh_targets()
    bobj = call("mk", mk)
    r = call("add_bundle " + name, t.add_bundle, bobj, ident)
    emit("add_bundle", name, "ret", r)
    for l in d_bundle(t, "  AB "):
        emit(l)
    if isinstance(bobj, ProvBundle):
        emit("  bobj", d_qn(bobj.identifier), "doc is t" if bobj.document is t else "doc other/none",
             "parent linked" if bobj._namespaces.parent is t._namespaces else "parent not linked")
t = fresh_targets()
bb = ProvBundle(identifier=EX["twice"])
t.add_bundle(bb)
call("add_bundle twice", t.add_bundle, bb)
call("add_bundle kw", t.add_bundle, bundle=ProvBundle(), identifier="ex:kw")
emit("bundle keys", [d_qn(k) for k in t._bundles])

for ident in [None, "", 0, "ex:new", "ex:b1", "_:blank", "nocolon", ("a",), ("a", "b"), 12, {"k": 1}, EX["q"], DEF1["dd"],
              Identifier("http://target.org/viaid"), "http://target.org/compact", "unknown:pfx", "ex:é \"quoted\""]:
    t = fresh_targets()
    r = call("bundle(%r)" % (ident,), t.bundle, ident)
    if r is not None:
        emit("bundle()", repr(ident) if not isinstance(ident, Identifier) else d_qn(ident), d_qn(r.identifier),
             r.document is t, r._namespaces.parent is t._namespaces, [d_qn(k) for k in t._bundles], d_mgr(t._namespaces))
t = fresh_targets()
t.set_default_namespace("http://tdef.org/")
emit("bundle nocolon w/ default", d_qn(t.bundle("nocolon").identifier))
call("bundle dup default", t.bundle, "nocolon")
call("bundle kw", t.bundle, identifier="ex:kw")
emit("bundle keys", [d_qn(k) for k in t._bundles])

# serializations of everything as a last cross-check
for fmt in ["json", "provn", "xml"]:
    for nm_, d in [("doc", doc), ("unified", doc.unified()), ("flat", doc.flattened())]:
        s = call("ser %s %s" % (fmt, nm_), d.serialize, None, fmt)
        emit("ser", fmt, nm_, hashlib.sha256(s.encode("utf-8")).hexdigest() if s is not None else None)

text = "\n".join(LINES) + "\n"
sys.stdout.write(text)
sys.stdout.write("DIGEST %s lines=%d\n" % (hashlib.sha256(text.encode("utf-8")).hexdigest(), len(LINES)))
