import os, sys
if os.environ.get("PYTHONHASHSEED") != "0":
    os.environ["PYTHONHASHSEED"] = "0"
    os.execv(sys.executable, [sys.executable] + sys.argv)

# The change only adds ProvDocument.get_bundle(); this script exercises the
# existing bundle operations around it (bundle(), add_bundle(), bundles,
# has_bundles(), update(), flattened(), unified(), serialisation round trips)
# and must print the same with and without the change. It does not call the
# new helper.
import io
from prov.model import ProvDocument, ProvBundle, Namespace, Identifier, QualifiedName
from prov.tests import examples

EX = Namespace("ex", "http://example.org/")
OT = Namespace("ot", "http://example.org/")
EX2 = Namespace("ex", "http://other.example/")


def ns(b):
    return sorted((n.prefix, n.uri) for n in b.namespaces), b.default_ns_uri


def dump(title, d):
    print("--", title, ns(d), d.has_bundles(), [r.get_provn() for r in d.get_records()])
    for key, b in d._bundles.items():
        print("   ", repr(key), repr(b), b.identifier is key, b.document is d, ns(b),
              [r.get_provn() for r in b.get_records()])
    print(d.get_provn())


def attempt(title, fn):
    try:
        r = fn()
        print("==", title, "->", repr(r))
        return r
    except Exception as e:  # noqa
        print("==", title, "EXC", type(e).__name__, "|", e)


d = ProvDocument()
d.add_namespace(EX)
for ident in ("ex:b1", EX["b2"], OT["b3"], EX2["b4"], "ex:bündel ☃", Identifier("http://example.org/b5"),
              "http://example.org/b6", "ex:b1", OT["b1"], "nodefault", "unknown:b", "_:blank", "", None, 0, 5,
              ("ex", "b"), Identifier("nodefault")):
    attempt("bundle(%r)" % (ident,), lambda: d.bundle(ident))
dump("after bundle()", d)
d.set_default_namespace("http://default.example/")
for ident in ("indefault", "indefault", "ex:b1", Namespace("", "http://default.example/")["indefault2"],
              Namespace("", "http://second.default/")["x"]):
    attempt("bundle(%r) with default ns" % (ident,), lambda: d.bundle(ident))
dump("after bundle() with default namespace", d)

# add_bundle: free bundles, documents, identifier overrides, errors
d2 = ProvDocument()
d2.add_namespace(EX)
fb = ProvBundle(identifier=EX2["fb"], namespaces=[EX2])
fb.entity(EX2["e"], {EX2["k"]: "v"})
attempt("add_bundle(free)", lambda: d2.add_bundle(fb))
attempt("add_bundle(free) again", lambda: d2.add_bundle(fb))
attempt("add_bundle(free, other id)", lambda: d2.add_bundle(fb, "ex:alias"))
noid = ProvBundle()
noid.entity(EX["n"])
attempt("add_bundle(no id)", lambda: d2.add_bundle(noid))
attempt("add_bundle(no id, '')", lambda: d2.add_bundle(noid, ""))
attempt("add_bundle(no id, 'ex:given')", lambda: d2.add_bundle(noid, "ex:given"))
attempt("add_bundle(no id, tuple)", lambda: d2.add_bundle(ProvBundle(), ("ex:t",)))
attempt("add_bundle(no id, 'unknown:x')", lambda: d2.add_bundle(ProvBundle(), "unknown:x"))
attempt("add_bundle(no id, Identifier)", lambda: d2.add_bundle(ProvBundle(), Identifier("http://example.org/byuri")))
attempt("add_bundle('text')", lambda: d2.add_bundle("text"))
attempt("add_bundle(None)", lambda: d2.add_bundle(None))
inner = ProvDocument()
inner.add_namespace(OT)
inner.set_default_namespace("http://inner.default/")
inner.entity("ot:x")
inner.entity("y")
attempt("add_bundle(doc)", lambda: d2.add_bundle(inner))
attempt("add_bundle(doc, id)", lambda: d2.add_bundle(inner, "ot:fromdoc"))
attempt("add_bundle(doc with bundles)", lambda: d2.add_bundle(d, "ex:no"))
dump("after add_bundle()", d2)
dump("inner unchanged", inner)

# bundles / update / flattened / unified
print(sorted(repr(b) for b in d2.bundles), type(d2.bundles).__name__, type(fb.bundles).__name__)
d2.update(d)
dump("after update", d2)
dump("flattened", d2.flattened())
u = attempt("d2.unified()", d2.unified)
if u is not None:
    dump("unified", u)
dump("unified d", d.unified())

# round trips
for name, fn in sorted(examples.tests):
    doc = fn()
    for fmt in ("json", "xml", "rdf"):
        try:
            text = doc.serialize(format=fmt)
            back = ProvDocument.deserialize(content=text, format=fmt)
            print(name, fmt, back == doc, sorted(repr(k) for k in back._bundles))
        except Exception as e:  # noqa
            print(name, fmt, "EXC", type(e).__name__, e)
    print(doc.get_provn())

# public surface apart from the added helper
print(sorted(n for n in dir(ProvDocument) if n != "get_bundle"))
print(sorted(n for n in dir(ProvBundle)))
