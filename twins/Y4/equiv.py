# differential script for refactoring 4: parse_xsd_datetime, parse_boolean, parse_xsd_types, XSD_DATATYPE_PARSERS
import datetime, hashlib, io
import prov.model as m
from prov.model import (parse_xsd_datetime, parse_boolean, parse_xsd_types, XSD_DATATYPE_PARSERS,
                        DATATYPE_PARSERS, Literal, ProvDocument, Namespace, PROV)
from prov.identifier import Identifier
from prov.constants import *

def show(v):
    if isinstance(v, Identifier):
        return (type(v).__name__, v.uri)
    if isinstance(v, datetime.datetime):
        return ("datetime", v.isoformat())
    return (type(v).__name__, repr(v))

def call(f, *a):
    try:
        return ("ok", show(f(*a)))
    except Exception as ex:
        return ("EXC", type(ex).__name__, str(ex))

class LowerCounter(str):
    calls = 0
    def lower(self):
        LowerCounter.calls += 1
        return str.lower(self)

out = []
for v in ["2012-01-02T03:04:05", "2012-01-02T03:04:05.25+01:00", "2012-01-02", "Jan 5 2001",
          "", " ", "garbage", "2012-13-45", "99999999999999999999", None, 5, b"2012-01-02", 1.5,
          datetime.datetime(2001, 1, 1), io.StringIO("2001-02-03")]:
    out.append(("datetime", type(v).__name__, repr(v)[:12], call(parse_xsd_datetime, v)))
for v in ["false", "0", "true", "1", "FALSE", "True", "tRuE", " true", "", "yes", "no", "00", "01", "١",
          b"true", b"0", None, 0, 1, True, ["true"], LowerCounter("TRUE"), LowerCounter("False"), LowerCounter("x")]:
    out.append(("boolean", repr(v), call(parse_boolean, v)))
out.append(("lower-calls", LowerCounter.calls))
EX = Namespace("ex", "http://example.org/")
dts = [XSD_STRING, XSD_DOUBLE, XSD_LONG, XSD_INT, XSD_BOOLEAN, XSD_DATETIME, XSD_ANYURI,
       XSD["int"], XSD_FLOAT, XSD_QNAME, PROV["InternationalizedString"], EX["T"], None, "xsd:int",
       Identifier(XSD_INT.uri), 5, [], {}]
for dt in dts:
    for v in ["1", "1.5", "true", "2012-01-02T03:04:05", "x", "", None, 7]:
        res = call(parse_xsd_types, v, dt)
        if dt == XSD_DATETIME and v in ("1", "1.5"):
            res = res[:1] + (res[1][0],)   # dateutil fills in today's date: keep only the kind
        out.append(("types", str(dt), repr(v), res))
out.append(("table", [(str(k), getattr(f, "__name__", repr(f))) for k, f in XSD_DATATYPE_PARSERS.items()]))
out.append(("table2", [(k.__name__, f.__name__) for k, f in DATATYPE_PARSERS.items()]))
out.append(("identity", XSD_DATATYPE_PARSERS[XSD_BOOLEAN] is parse_boolean,
            XSD_DATATYPE_PARSERS[XSD_DATETIME] is parse_xsd_datetime, m.XSD_DATATYPE_PARSERS is XSD_DATATYPE_PARSERS))
# table is looked up at call time: a user extension is honoured, a removal too
XSD_DATATYPE_PARSERS[XSD_FLOAT] = float
out.append(("extended", call(parse_xsd_types, "2.5", XSD_FLOAT)))
del XSD_DATATYPE_PARSERS[XSD_FLOAT]
out.append(("removed", call(parse_xsd_types, "2.5", XSD_FLOAT)))
XSD_DATATYPE_PARSERS[XSD_FLOAT] = None
out.append(("none-parser", call(parse_xsd_types, "2.5", XSD_FLOAT)))
del XSD_DATATYPE_PARSERS[XSD_FLOAT]
# through records
d = ProvDocument(); d.add_namespace(EX)
e = d.entity("ex:e", [("ex:b", Literal("TRUE", XSD_BOOLEAN)), ("ex:b2", Literal("perhaps", XSD_BOOLEAN)),
                      ("ex:t", Literal("2001-01-01T00:00:00", XSD_DATETIME)), ("ex:t2", Literal("never", XSD_DATETIME)),
                      ("ex:i", Literal("12", XSD_INT)), ("ex:u", Literal("http://u/", XSD_ANYURI))])
out.append(("record", sorted((str(k), show(v) if not isinstance(v, Literal) else ("Literal", v.value, str(v.datatype))) for k, v in e.attributes)))
out.append(("activity", call(lambda: d.activity("ex:a", "2001-01-01", "junk"))))
for o in out:
    print(o)
print(hashlib.sha256(repr(out).encode()).hexdigest())
