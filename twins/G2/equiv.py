import os
import sys

# Hash randomisation changes set iteration order (multi-valued attributes);
# pin it so that the digest is deterministic and order sensitive.
if os.environ.get("PYTHONHASHSEED") != "0":
    os.environ["PYTHONHASHSEED"] = "0"
    os.execv(sys.executable, [sys.executable] + sys.argv)

import datetime
import glob
import hashlib
import io
import json
import logging

logging.disable(logging.CRITICAL)

import prov
import prov.constants as C
import prov.model as M
from prov.model import (
    ProvDocument,
    ProvBundle,
    Literal,
    Identifier,
    QualifiedName,
    Namespace,
    ProvException,
)
from prov.serializers import provjson as PJ
from prov.tests import examples

SRC = os.path.dirname(os.path.dirname(os.path.abspath(prov.__file__)))
JSON_DIR = os.path.join(SRC, "prov", "tests", "json")


def sha(text):
    if not isinstance(text, bytes):
        text = text.encode("utf-8")
    return hashlib.sha256(text).hexdigest()[:16]


def show(label, fn, *args, **kwargs):
    """Print the result (or the exception) of a call in a stable way."""
    try:
        res = fn(*args, **kwargs)
        text = res if isinstance(res, str) else repr(res)
        print("%s -> OK %s len=%d %s" % (label, sha(text), len(text), text[:300]))
    except BaseException as e:  # noqa
        print("%s -> EXC %s: %s" % (label, type(e).__name__, e))


def handmade_documents():
    docs = []

    docs.append(("empty", ProvDocument()))

    d = ProvDocument()
    d.set_default_namespace("http://default.example/")
    d.add_namespace("ex", "http://example.org/")
    d.add_namespace("o-dd", "http://odd.example/a#b?c=")
    EX = Namespace("ex", "http://example.org/")
    e1 = d.entity(
        "ex:e1",
        [
            ("prov:label", "plain"),
            ("prov:label", Literal("bonjour", langtag="fr")),
            ("ex:int", 42),
            ("ex:neg", -7),
            ("ex:float", 1.5),
            ("ex:bool", True),
            ("ex:boolf", False),
            ("ex:empty", ""),
            ("ex:uni", "café ☃ \"quoted\" \\ back\nnewline\ttab"),
            ("ex:dt", datetime.datetime(2012, 3, 4, 5, 6, 7, 890000)),
            ("ex:uri", Identifier("http://example.org/some thing?x=1&y=<2>")),
            ("ex:qn", EX["other"]),
            ("ex:lit_int", Literal("12", C.XSD_INT)),
            ("ex:lit_dbl", Literal("1e3", C.XSD_DOUBLE)),
            ("ex:lit_bool", Literal("TRUE", C.XSD_BOOLEAN)),
            ("ex:lit_badbool", Literal("maybe", C.XSD_BOOLEAN)),
            ("ex:lit_dt", Literal("2001-02-03T04:05:06", C.XSD_DATETIME)),
            ("ex:lit_str", Literal("s", C.XSD_STRING)),
            ("ex:lit_any", Literal("http://a/b", C.XSD_ANYURI)),
            ("ex:lit_custom", Literal("zzz", EX["customType"])),
            ("ex:lit_untyped", Literal("untyped")),
            ("ex:multi", 1),
            ("ex:multi", 2),
            ("ex:multi", "three"),
            ("prov:type", EX["Thing"]),
            ("prov:type", C.PROV["Plan"]),
            ("prov:location", "here"),
            ("prov:value", 3.25),
        ],
    )
    d.entity("ex:e1", {"ex:again": "second record with same id"})
    d.entity("ex:e1", {"ex:again": "third record with same id"})
    d.entity("e-default")
    a1 = d.activity(
        "ex:a1",
        datetime.datetime(2011, 1, 1, 0, 0, 0),
        "2011-01-02T03:04:05.678+01:00",
        {"prov:type": "ex:edit", "ex:n": 0},
    )
    ag = d.agent("ex:ag", {"prov:type": C.PROV["Person"], "ex:name": "Alïce"})
    d.wasGeneratedBy(e1, a1, time=datetime.datetime(2011, 1, 1, 12, 0, 0))
    d.wasGeneratedBy(e1, a1, identifier="ex:gen1", other_attributes={"ex:k": "v"})
    d.used(a1, "ex:e0")
    d.used(a1, "ex:e0", identifier="ex:u1")
    d.used(a1, "ex:e0", identifier="ex:u1", other_attributes={"prov:role": "r"})
    d.wasAssociatedWith(a1, ag, plan="ex:plan")
    d.wasAssociatedWith(a1, None, plan="ex:plan")
    d.wasAttributedTo(e1, ag)
    d.actedOnBehalfOf(ag, "ex:boss", a1)
    d.wasDerivedFrom("ex:e2", e1, a1, None, None, {"prov:type": C.PROV["Revision"]})
    d.wasInformedBy("ex:a2", a1)
    d.wasStartedBy(a1, "ex:trig", "ex:starter", "2012-01-01T00:00:00")
    d.wasEndedBy(a1, None, None, None)
    d.wasInvalidatedBy(e1, a1, datetime.datetime(2013, 1, 1))
    d.wasInfluencedBy(e1, ag)
    d.alternateOf(e1, "ex:e2")
    d.specializationOf(e1, "ex:e2")
    d.mentionOf("ex:e3", e1, "ex:b1")
    c = d.collection("ex:c1")
    d.hadMember(c, e1)
    d.hadMember(c, "ex:e2")
    d.hadMember("ex:c2", "ex:e3")
    b = d.bundle("ex:b1")
    b.add_namespace("bn", "http://bundle.example/ns#")
    b.entity("bn:x", {"bn:attr": Literal("hi", langtag="en-GB"), "ex:n": 5})
    b.entity("bn:x", {"bn:attr": "dup id in bundle"})
    b.activity("ex:a1")
    b.wasGeneratedBy("bn:x", "ex:a1")
    b.wasGeneratedBy("bn:x", "ex:a1")
    d.bundle("ex:b-empty")
    docs.append(("rich", d))

    return docs


def example_documents():
    return [(name, fn()) for name, fn in examples.tests]


def all_documents():
    return handmade_documents() + example_documents()


def json_fixture_files(step=1):
    files = sorted(glob.glob(os.path.join(JSON_DIR, "*.json")))
    return files[::step]


# NOTE: Identifier.__hash__ involves hash(class), i.e. a memory address, so the
# iteration order of value sets holding Identifier/Literal objects can differ
# from run to run even for identical code.  All digests below are therefore
# taken over a canonical form in which the members of multi-valued attributes
# are sorted; everything else (record order, key order, text) is kept as is.
def _canon_record(rec):
    if not isinstance(rec, dict):
        return rec
    out = {}
    for k, v in rec.items():
        if isinstance(v, list):
            v = sorted(v, key=lambda x: json.dumps(x, sort_keys=True))
        out[k] = v
    return out


def canon_container(c):
    if not isinstance(c, dict):
        return c
    out = {}
    for label, records in c.items():
        if label == "prefix" or not isinstance(records, dict):
            out[label] = records
        elif label == "bundle":
            out[label] = {k: canon_container(v) for k, v in records.items()}
        else:
            out[label] = {
                k: [_canon_record(r) for r in v]
                if isinstance(v, list)
                else _canon_record(v)
                for k, v in records.items()
            }
    return out


def canon_json_text(text, **kw):
    return "rawlen=%d " % len(text) + json.dumps(canon_container(json.loads(text)), **kw)


def to_json(doc, **kw):
    return canon_json_text(doc.serialize(format="json", **kw), **kw)


def raw_json(doc, **kw):
    return doc.serialize(format="json", **kw)


def from_json(text):
    return ProvDocument.deserialize(content=text, format="json")


def _canon_value(v):
    return "%s:%r" % (type(v).__name__, v)


def canon_records(bundle):
    lines = []
    for ns in bundle.get_registered_namespaces():
        lines.append("ns %s=%s" % (ns.prefix, ns.uri))
    dns = bundle.get_default_namespace()
    lines.append("default %s" % (dns.uri if dns else None))
    for rec in bundle.get_records():
        attrs = [
            "%s=%s" % (a, sorted(_canon_value(v) for v in vs))
            for a, vs in rec._attributes.items()
            if vs
        ]
        lines.append(
            "%s id=%r args=%d attrs=%s"
            % (rec.get_type(), rec.identifier, len(rec.args), attrs)
        )
    return lines


def canon_doc(doc):
    lines = canon_records(doc)
    for b in doc.bundles:
        lines.append("bundle %r" % (b.identifier,))
        lines.extend("  " + line for line in canon_records(b))
    provn = doc.get_provn()
    lines.append("provn len=%d lines=%d" % (len(provn), provn.count("\n")))
    return "\n".join(lines)


# ---- refactoring 2: decode_json_container split into helpers ----
def decode(text):
    doc = from_json(text)
    return canon_doc(doc) + "\n#####\n" + to_json(doc, sort_keys=True)


def decode_container(obj, into_bundle=False):
    doc = ProvDocument()
    doc.add_namespace("bb", "urn:bb:")
    target = doc.bundle("bb:b") if into_bundle else doc
    PJ.decode_json_container(obj, target)
    return repr(sorted(obj.keys())) + "\n" + canon_doc(doc)


# 1. every PROV-JSON fixture shipped with the tests
for path in json_fixture_files():
    with open(path, encoding="utf-8") as f:
        text = f.read()
    show("fixture[%s]" % os.path.basename(path), decode, text)

# 2. round trip of handmade and example documents
for name, doc in all_documents():
    show("roundtrip[%s]" % name, lambda: decode(raw_json(doc)))
    show("roundtrip-eq[%s]" % name, lambda: from_json(raw_json(doc)) == doc)

# 3. handmade PROV-JSON edge cases
P = {"ex": "http://example.org/", "default": "http://default/"}
CASES = {
    "empty": {},
    "prefix-only": {"prefix": P},
    "prefix-empty": {"prefix": {}},
    "prefix-bad-uri": {"prefix": {"ex": ""}, "entity": {"ex:e": {}}},
    "single-dict": {"prefix": P, "entity": {"ex:e": {"ex:a": 1}, "d": {}}},
    "list-of-dicts": {
        "prefix": P,
        "entity": {"ex:e": [{"ex:a": 1}, {}, {"ex:a": [1, 2, "x"], "prov:label": []}]},
    },
    "empty-list-of-dicts": {"prefix": P, "entity": {"ex:e": []}},
    "formal-single": {
        "prefix": P,
        "used": {"_:u1": {"prov:activity": "ex:a", "prov:entity": ["ex:e"], "prov:time": "2012-01-02T03:04:05"}},
    },
    "formal-null": {"prefix": P, "used": {"_:u1": {"prov:activity": "ex:a", "prov:entity": None}}},
    "formal-empty-list": {"prefix": P, "used": {"_:u1": {"prov:activity": []}}},
    "formal-multi-error": {"prefix": P, "used": {"_:u1": {"prov:activity": ["ex:a", "ex:b"]}}},
    "formal-multi-time-error": {"prefix": P, "used": {"_:u1": {"prov:time": ["2012-01-01", "2013-01-01"]}}},
    "member-multi-collection-error": {
        "prefix": P,
        "hadMember": {"_:m": {"prov:collection": ["ex:c", "ex:c2"], "prov:entity": "ex:e"}},
    },
    "membership-hack": {
        "prefix": P,
        "hadMember": {
            "_:m1": {"prov:collection": "ex:c", "prov:entity": ["ex:e1", "ex:e2", "ex:e3"]},
            "ex:m2": {"prov:entity": ["ex:e4", "ex:e5"], "prov:collection": "ex:c2", "ex:x": "y"},
            "_:m3": [{"prov:collection": "ex:c3", "prov:entity": ["ex:e6"]},
                     {"prov:collection": "ex:c3", "prov:entity": ["ex:e7", "ex:e7"]}],
        },
    },
    "membership-hack-no-collection": {"prefix": P, "hadMember": {"_:m1": {"prov:entity": ["ex:e1", "ex:e2"]}}},
    "entity-attr-on-other-type-multi": {"prefix": P, "used": {"_:u": {"prov:entity": ["ex:e1", "ex:e2"]}}},
    "bad-time": {"prefix": P, "used": {"_:u1": {"prov:activity": "ex:a", "prov:time": "not a date"}}},
    "unknown-record-type": {"prefix": P, "thing": {"ex:e": {}}},
    "unknown-prefix-attr": {"prefix": P, "entity": {"ex:e": {"zz:a": 1}}},
    "unknown-prefix-id": {"entity": {"zz:e": {}}},
    "typed-literals": {
        "prefix": P,
        "entity": {
            "ex:e": {
                "ex:i": {"$": "10", "type": "xsd:int"},
                "ex:l": {"$": "hé \"q\"\n", "lang": "fr"},
                "ex:u": {"$": "http://x/y z", "type": "xsd:anyURI"},
                "ex:q": {"$": "ex:qq", "type": "prov:QUALIFIED_NAME"},
                "ex:n": {"$": "nothing"},
                "ex:many": [{"$": "1.5", "type": "xsd:double"}, True, None, 2, "s", {"$": "t", "type": "ex:T"}],
                "prov:type": [{"$": "ex:T1", "type": "prov:QUALIFIED_NAME"}, "plain"],
                "prov:label": "lbl",
            }
        },
    },
    "bundle": {
        "prefix": P,
        "entity": {"ex:e": {}},
        "bundle": {
            "ex:b1": {"prefix": {"b": "http://b/"}, "entity": {"b:e": {"b:a": "v"}, "ex:e": [{}, {}]}},
            "ex:b2": {},
        },
    },
    "bundle-bad-id": {"bundle": {"zz:b": {}}},
    "content-not-dict-or-list": {"prefix": P, "entity": {"ex:e": "oops"}},
    "element-not-dict": {"prefix": P, "entity": {"ex:e": ["oops"]}},
    "records-not-dict": {"prefix": P, "entity": ["ex:e"]},
    "prefix-not-dict": {"prefix": ["ex"]},
    "activity-times": {
        "prefix": P,
        "activity": {"ex:a": {"prov:startTime": "2011-11-16T16:05:00", "prov:endTime": ["2011-11-16T16:06:00.5+02:00"], "prov:type": "x"}},
    },
}
for name, obj in CASES.items():
    show("case[%s]" % name, decode, json.dumps(obj))
    if "bundle" not in obj:
        show("case-container[%s]" % name, decode_container, json.loads(json.dumps(obj)))
        show("case-into-bundle[%s]" % name, decode_container, json.loads(json.dumps(obj)), True)

# 4. bytes / text streams through the serializer class
ser = PJ.ProvJSONSerializer()
show("deserialize-bytes", lambda: canon_doc(ser.deserialize(io.BytesIO(json.dumps(CASES["membership-hack"]).encode("utf-8")))))
show("deserialize-text", lambda: canon_doc(ser.deserialize(io.StringIO(json.dumps(CASES["typed-literals"])))))
show("deserialize-invalid-json", lambda: ser.deserialize(io.StringIO("{not json")))
