"""Differential script for change 1 (encode_json_container: one bucket lookup per record)."""
import os
import sys

if os.environ.get("PYTHONHASHSEED") != "0":
    os.environ["PYTHONHASHSEED"] = "0"
    os.execv(sys.executable, [sys.executable] + sys.argv)

import datetime
import hashlib
import io
import json
from collections import defaultdict

from prov.model import ProvDocument, Literal, Identifier, Namespace
from prov.constants import XSD_STRING, PROV_TYPE, PROV, XSD_INT
from prov.serializers import provjson
from prov.tests import examples


def build_docs():
    docs = []

    d = ProvDocument()
    docs.append(("empty", d))

    d = ProvDocument()
    d.set_default_namespace("http://example.org/default/")
    d.add_namespace("ex", "http://example.org/")
    d.add_namespace("café", "http://example.org/café#")
    e1 = d.entity("ex:e1", {"ex:label": "naïve 中文", "ex:n": 1, "ex:f": 1.5})
    # repeated identifiers: twice, three times, across types
    d.entity("ex:e1", {"ex:other": "second"})
    d.entity("ex:e1")
    d.entity("ex:e2", {"ex:v": ""})
    d.entity("ex:e2", {"ex:v": Literal("bonjour", langtag="fr")})
    d.activity("ex:e1", "2020-01-01T00:00:00", None, {"ex:t": datetime.datetime(2011, 1, 2, 3, 4, 5)})
    d.activity("ex:a1")
    d.agent("ex:ag", {PROV_TYPE: PROV["Person"], "ex:uri": Identifier("http://x.org/é")})
    d.entity("e-default", [("ex:multi", v) for v in (1, 2, 3, "x", Literal("5", XSD_INT), 2.5, True)])
    d.entity("café:crème", [("café:k", "a"), ("café:k", "b")])
    # anonymous relations (several of the same type, anon id generator)
    d.wasGeneratedBy("ex:e1", "ex:a1")
    d.wasGeneratedBy("ex:e1", "ex:a1", "2012-03-04T05:06:07")
    d.wasGeneratedBy("ex:e2", "ex:a1", identifier="ex:g1")
    d.wasGeneratedBy("ex:e2", "ex:a1", identifier="ex:g1", other_attributes={"ex:r": "again"})
    d.wasGeneratedBy("ex:e2", "ex:a1", identifier="ex:g1", other_attributes={"ex:r": "third"})
    d.used("ex:a1", "ex:e2")
    d.used("ex:a1", "ex:e2")  # identical anonymous statement twice
    d.wasAssociatedWith("ex:a1", "ex:ag", None)
    d.hadMember("ex:e1", "ex:e2")
    d.hadMember("ex:e1", "e-default")
    d.mentionOf("ex:e1", "ex:e2", "ex:b1")
    b = d.bundle("ex:b1")
    b.set_default_namespace("http://example.org/bundle-default/")
    b.add_namespace("ex", "http://example.org/")
    b.entity("ex:e1", {"ex:in": "bundle"})
    b.entity("ex:e1", {"ex:in": "bundle again"})
    b.entity("local")
    b.wasDerivedFrom("local", "ex:e1")
    b.wasDerivedFrom("local", "ex:e1")
    b2 = d.bundle("ex:b2")  # empty bundle
    docs.append(("rich", d))

    d = ProvDocument()
    d.set_default_namespace("http://only.default/")
    d.entity("x")
    d.entity("x")
    docs.append(("default-only", d))

    for name, fn in sorted(examples.tests):
        docs.append(("example:" + name, fn()))
    return docs


def shape(obj):
    """type-annotated structure, so that dict-vs-list-vs-defaultdict matters"""
    if isinstance(obj, dict):
        return [type(obj).__name__, [[k, shape(v)] for k, v in obj.items()]]
    if isinstance(obj, list):
        return ["list", [shape(v) for v in obj]]
    return [type(obj).__name__, repr(obj)]


def main():
    out = []
    for name, doc in build_docs():
        n_before = [len(doc._records)] + [len(b._records) for b in doc.bundles]
        container = provjson.encode_json_document(doc)
        again = provjson.encode_json_document(doc)
        s = json.dumps(shape(container), ensure_ascii=True)
        s2 = json.dumps(shape(again), ensure_ascii=True)
        assert s == s2
        # no sharing between two calls
        for k in container:
            if k != "prefix" or True:
                assert container[k] is not again[k]
        n_after = [len(doc._records)] + [len(b._records) for b in doc.bundles]
        assert n_before == n_after
        text = doc.serialize(format="json")
        text_i = doc.serialize(format="json", indent=2, sort_keys=True)
        buf = io.BytesIO()
        doc.serialize(buf, format="json")
        rt = ProvDocument.deserialize(content=text, format="json")
        out.append(
            "%s | default=%s keys=%s | shape=%s | text=%s | indent=%s | bytes=%s | rt_eq=%s rt_text=%s"
            % (
                name,
                type(container).__name__ + ":" + repr(container.default_factory),
                list(container.keys()),
                hashlib.sha256(s.encode()).hexdigest()[:16],
                hashlib.sha256(text.encode("utf-8")).hexdigest()[:16],
                hashlib.sha256(text_i.encode("utf-8")).hexdigest()[:16],
                hashlib.sha256(buf.getvalue()).hexdigest()[:16],
                rt == doc,
                hashlib.sha256(rt.serialize(format="json").encode("utf-8")).hexdigest()[:16],
            )
        )
        if name in ("rich", "default-only", "empty"):
            out.append("  full: " + s)
            # every container of a bundle separately
            for b in doc.bundles:
                c = provjson.encode_json_container(b)
                out.append("  bundle %s: %s" % (b.identifier, json.dumps(shape(c))))
    print("\n".join(out))
    print("DIGEST", hashlib.sha256("\n".join(out).encode("utf-8")).hexdigest())


main()
