"""Differential script for change 3 (with-statement / tidy-up in ProvJSONSerializer, docs+hints in ProvNSerializer)."""
import os
import sys

if os.environ.get("PYTHONHASHSEED") != "0":
    os.environ["PYTHONHASHSEED"] = "0"
    os.execv(sys.executable, [sys.executable] + sys.argv)

import hashlib
import io
import tempfile

from prov.model import ProvDocument, Literal, Identifier
from prov.serializers.provjson import ProvJSONSerializer
from prov.serializers.provn import ProvNSerializer
from prov.tests import examples

out = []


def h(x):
    if isinstance(x, str):
        x = b"S" + x.encode("utf-8")
    else:
        x = b"B" + bytes(x)
    return hashlib.sha256(x).hexdigest()[:16]


def attempt(label, fn):
    try:
        out.append("%s -> %r" % (label, fn()))
    except BaseException as e:  # noqa
        out.append("%s !! %s: %s | ctx=%s" % (label, type(e).__name__, e, type(e.__context__).__name__))


class Sink:
    """a writer that is not an io.TextIOBase"""

    def __init__(self):
        self.calls = []

    def write(self, data):
        self.calls.append((type(data).__name__, h(data)))


class FailingText(io.StringIO):
    def write(self, data):
        raise OSError("disk full")


class Reader:
    def __init__(self, data):
        self.data = data
        self.reads = 0

    def read(self, *a):
        self.reads += 1
        return self.data


def docs():
    d = ProvDocument()
    yield "empty", d
    d = ProvDocument()
    d.set_default_namespace("http://example.org/d/")
    d.add_namespace("ex", "http://example.org/")
    d.entity("ex:é", {"ex:k": "värde 中文", "ex:l": Literal("salut", langtag="fr"), "ex:u": Identifier("http://x/ü")})
    d.entity("ex:é", {"ex:k": ""})
    d.wasDerivedFrom("ex:é", "other")
    d.wasDerivedFrom("ex:é", "other")
    b = d.bundle("ex:b")
    b.set_default_namespace("http://example.org/b/")
    b.entity("local", {"ex:n": 3})
    yield "rich", d
    for name, fn in sorted(examples.tests):
        yield "example:" + name, fn()


for name, d in docs():
    for Ser, tag in ((ProvJSONSerializer, "json"), (ProvNSerializer, "provn")):
        ser = Ser(d)
        s = io.StringIO()
        r = ser.serialize(s)
        text = s.getvalue()
        b = io.BytesIO()
        r2 = ser.serialize(b)
        k = Sink()
        ser.serialize(k)
        out.append(
            "%s %s text=%s ret=%r bytes=%s ret=%r same=%r sink=%r closed=%r/%r pos=%r/%r"
            % (name, tag, h(text), r, h(b.getvalue()), r2, b.getvalue() == text.encode("utf-8"), k.calls, s.closed, b.closed, s.tell(), b.tell())
        )
        # real files, text and binary
        with tempfile.TemporaryDirectory() as tmp:
            p = os.path.join(tmp, "o.txt")
            with open(p, "w", encoding="utf-8") as f:
                ser.serialize(f)
            with open(p, "rb") as f:
                out.append("  textfile %s" % h(f.read()))
            with open(p, "wb") as f:
                ser.serialize(f)
            with open(p, "rb") as f:
                out.append("  binfile %s" % h(f.read()))
            d.serialize(p, format=tag)
            with open(p, "rb") as f:
                out.append("  via document %s" % h(f.read()))
        attempt("  failing stream " + tag, lambda: ser.serialize(FailingText()))
        # appending to a stream that already has content and position
        s = io.StringIO("HEAD")
        s.seek(0, 2)
        ser.serialize(s)
        out.append("  appended %s" % h(s.getvalue()))
    ser = ProvJSONSerializer(d)
    # json.dump options and errors; nothing may be written when encoding fails
    for kw in ({"indent": 2}, {"sort_keys": True, "indent": 1}, {"ensure_ascii": False}, {"separators": (",", ":")}):
        s = io.StringIO()
        ser.serialize(s, **kw)
        b = io.BytesIO()
        ser.serialize(b, **kw)
        out.append("  kw %r text=%s bytes=%s" % (sorted(kw), h(s.getvalue()), h(b.getvalue())))
    for kw in ({"bogus": 1}, {"cls": None}, {"indent": object()}):
        k = Sink()
        attempt("  bad kw %r" % sorted(kw), lambda: ser.serialize(k, **kw))
        out.append("  written on failure: %r" % (k.calls,))
    # deserialize: text stream, bytes stream, duck-typed readers
    text = d.serialize(format="json")
    data = text.encode("utf-8")
    de = ProvJSONSerializer()
    attempt("  de StringIO", lambda: de.deserialize(io.StringIO(text)) == d)
    attempt("  de BytesIO", lambda: de.deserialize(io.BytesIO(data)) == d)
    rd = Reader(data)
    attempt("  de Reader(bytes)", lambda: de.deserialize(rd) == d)
    out.append("  reads=%d" % rd.reads)
    attempt("  de Reader(str)", lambda: de.deserialize(Reader(text)))
    attempt("  de Reader(bytearray)", lambda: de.deserialize(Reader(bytearray(data))) == d)
    attempt("  de bad utf8", lambda: de.deserialize(io.BytesIO(b"\xff\xfe{}")))
    attempt("  de bad json", lambda: de.deserialize(io.StringIO("{not json")))
    attempt("  de list json", lambda: de.deserialize(io.StringIO("[1]")))
    attempt("  de empty", lambda: de.deserialize(io.BytesIO(b"")))
    attempt("  de no read", lambda: de.deserialize(data))
    attempt("  de kw strict", lambda: de.deserialize(io.BytesIO(data), strict=False) == d)
    attempt("  de bad kw", lambda: de.deserialize(io.BytesIO(data), bogus=1))
    bs = io.BytesIO(data)
    ts = io.StringIO(text)
    de.deserialize(bs)
    de.deserialize(ts)
    out.append("  input streams closed=%r/%r pos_at_end=%r/%r" % (bs.closed, ts.closed, bs.tell() == len(data), ts.tell() == len(text)))
    attempt("  provn de", lambda: ProvNSerializer().deserialize(io.StringIO(d.get_provn())))
    attempt("  provn de kw", lambda: ProvNSerializer(d).deserialize(None, x=1))
    # provn ignores keyword arguments
    s = io.StringIO()
    ProvNSerializer(d).serialize(s, indent=2, bogus=1)
    out.append("  provn kwargs ignored %s" % h(s.getvalue()))
    attempt("  doc-level json", lambda: h(d.serialize(format="json", indent=1)))
    attempt("  doc-level roundtrip", lambda: ProvDocument.deserialize(content=data, format="json") == d)

attempt("no document json", lambda: ProvJSONSerializer().serialize(io.StringIO()))
attempt("no document provn", lambda: ProvNSerializer().serialize(io.StringIO()))

print("\n".join(out))
print("DIGEST", hashlib.sha256("\n".join(out).encode("utf-8")).hexdigest())
