# Differential script for refactoring 1:
# ProvRDFSerializer.encode_rdf_representation, literal_rdf_representation
import datetime, os, sys
sys.path.insert(0, os.path.join(os.path.dirname(os.path.abspath(__file__)), ".."))
from harness import *
from rdflib.term import URIRef, BNode, Literal as RDFLiteral
from prov.serializers.provrdf import ProvRDFSerializer, literal_rdf_representation
import prov.serializers.provrdf as R


def show(t):
    if isinstance(t, RDFLiteral):
        return "RDFLiteral(%r, dt=%r, lang=%r, cls=%s)" % (str(t), t.datatype, t.language, type(t).__name__)
    return "%s(%r)" % (type(t).__name__, t)


class MyInt(int):
    pass


class MyStr(str):
    pass


ex = Namespace("ex", "http://example.org/")
ser = ProvRDFSerializer(ProvDocument())
values = [
    URIRef("http://x/y"), BNode("abc"), RDFLiteral("x"),
    Literal("a", datatype=pm.XSD_STRING), Literal("", datatype=pm.XSD_STRING),
    Literal("hello", langtag="en"), Literal("", langtag="en"),
    Literal("aGVsbG8=", datatype=pm.XSD["base64Binary"]),
    Literal(0, datatype=pm.XSD_INT), Literal(12, datatype=pm.XSD_LONG),
    Literal("2012", datatype=pm.XSD["gYear"]), Literal("ex:q", datatype=pm.XSD_QNAME),
    Literal(1.5, datatype=pm.XSD_DOUBLE), Literal(False, datatype=pm.XSD_BOOLEAN),
    Literal("x", datatype=ex["custom type"]),
    datetime.datetime(2012, 1, 2, 3, 4, 5), datetime.datetime(2012, 1, 2, 3, 4, 5, 66, tzinfo=datetime.timezone.utc),
    datetime.date(2012, 1, 2),
    ex["qn"], PROV["Entity"], Identifier("http://id/1"), Identifier(""),
    1, 0, -7, 2 ** 40, 1.25, float("inf"), "", "text", "café", True, False, None,
    MyInt(3), MyStr("sub"), b"bytes", (1, 2), 3 + 4j,
]
print("== encode_rdf_representation")
for v in values:
    kind, res = outcome(ser.encode_rdf_representation, v)
    print(repr(v)[:70], "->", kind, show(res) if kind == "ok" else res)

print("== literal_rdf_representation")
for v in values:
    if isinstance(v, pm.Literal):
        kind, res = outcome(literal_rdf_representation, v)
        print(repr(v)[:70], "->", kind, show(res) if kind == "ok" else res)


class Fake:
    def __init__(self, value, datatype=None, langtag=None):
        self.value, self.datatype, self.langtag = value, datatype, langtag
    def __str__(self):
        return "FAKE"

for f in [Fake(0, pm.XSD_INT), Fake("", pm.XSD_STRING), Fake(None, pm.XSD_STRING), Fake("x", None), Fake("x", pm.XSD["base64Binary"], "en"), Fake(5, pm.XSD["base64Binary"])]:
    kind, res = outcome(literal_rdf_representation, f)
    print("fake", f.value, f.datatype, f.langtag, "->", kind, show(res) if kind == "ok" else res)

# late binding of the module-level helper is kept
orig = R.literal_rdf_representation
R.literal_rdf_representation = lambda lit: RDFLiteral("patched")
print("patched:", show(ser.encode_rdf_representation(Literal("a", datatype=pm.XSD_STRING))))
R.literal_rdf_representation = orig
saved = dict(R.LITERAL_XSDTYPE_MAP)
R.LITERAL_XSDTYPE_MAP[bytes] = R.XSD["hexBinary"]
print("map-extended:", show(ser.encode_rdf_representation(b"ab")))
R.LITERAL_XSDTYPE_MAP.clear(); R.LITERAL_XSDTYPE_MAP.update(saved)

print("== whole documents")
for name, fn in all_docs():
    doc = fn()
    for fmt in ("trig", "nquads"):
        kind, res = outcome(doc.serialize, format="rdf", rdf_format=fmt)
        print(name, fmt, kind, rdig(res, fmt) if kind == "ok" else res)
