"""Shared helpers for the equiv scripts (copied next to every equiv.py as _h.py)."""
import os as _os, sys as _sys
if _os.environ.get("PYTHONHASHSEED") != "0":
    # make set/dict-of-str orders reproducible: restart with a fixed hash seed
    _os.environ["PYTHONHASHSEED"] = "0"
    _os.execv(_sys.executable, [_sys.executable] + _sys.argv)
import uuid as _uuid
import random as _random
_rng = _random.Random(12345)
# rdflib labels blank nodes with uuid4(): make the labels reproducible
_uuid.uuid4 = lambda: _uuid.UUID(int=_rng.getrandbits(128), version=4)

import logging as _logging, warnings as _warnings
_logging.disable(_logging.CRITICAL)  # rdflib logs messages with memory addresses
_warnings.simplefilter("ignore")

import datetime
import glob
import hashlib
import io
import os
import re
import sys
import traceback

import prov
import prov.model as pm
from prov.model import ProvDocument, Namespace, Literal, PROV, Identifier
from prov.tests import examples

BN = re.compile(r"_:[A-Za-z][A-Za-z0-9]*|\bN[0-9a-f]{32}\b|\bub\d+bL\d+C\d+\b")


def canon(text):
    if isinstance(text, bytes):
        text = text.decode("utf-8")
    lines = [BN.sub("_:B", ln.rstrip()) for ln in text.splitlines()]
    return "\n".join(sorted(lines))


def dig(text):
    if isinstance(text, str):
        text = text.encode("utf-8")
    return hashlib.sha256(text).hexdigest()[:16]


def outcome(fn, *a, **k):
    try:
        return ("ok", fn(*a, **k))
    except BaseException as e:  # noqa
        return ("exc", "%s: %s" % (type(e).__name__, e))


def edge_doc():
    d = ProvDocument()
    ex = Namespace("ex", "http://example.org/")
    d.add_namespace(ex)
    d.add_namespace("o", "http://other.org/ns#")
    d.set_default_namespace("http://default.example/")
    e1 = d.entity("ex:e1", {
        "prov:label": "",
        "ex:empty": "",
        "ex:uni": "café 中文 \"quoted\" <tag> & \\ back",
        "ex:int": 5,
        "ex:float": 1.5,
        "ex:bool": True,
        "ex:boolf": False,
        "ex:zero": 0,
        "ex:lang": Literal("bonjour", langtag="fr"),
        "ex:b64": Literal("aGVsbG8=", datatype=pm.XSD["base64Binary"]),
        "ex:long": Literal("12345678901", datatype=pm.XSD_LONG),
        "ex:uri": Identifier("http://example.org/some#thing"),
        "ex:qn": ex["other-thing"],
        "ex:dt": datetime.datetime(2012, 3, 4, 5, 6, 7, 890),
        "ex:gyear": Literal("2012", datatype=pm.XSD["gYear"]),
        "ex:gym": Literal("2012-03", datatype=pm.XSD["gYearMonth"]),
        "ex:qnlit": Literal("ex:zz", datatype=pm.XSD_QNAME),
        "ex:xml": Literal("<a>b</a>", datatype=pm.PROV["XMLLiteral"]) if False else "plain",
        "prov:type": PROV["Plan"],
        "prov:location": "somewhere",
        "prov:value": 3,
    })
    d.entity("ex:e1", {"ex:again": "second statement"})
    e2 = d.entity("e2")
    a1 = d.activity("ex:a1", datetime.datetime(2011, 1, 1), None, {"prov:type": "ex:edit", "prov:location": ex["loc"]})
    a2 = d.activity("ex:a2", None, "2011-11-16T16:06:00")
    ag = d.agent("ex:ag", {"prov:type": PROV["Person"], "ex:name": "Bob"})
    ag2 = d.agent("ex:ag2")
    d.wasGeneratedBy(e1, a1, datetime.datetime(2011, 1, 2), "ex:g1", {"prov:role": "writer", "ex:x": 1})
    d.wasGeneratedBy(e2, a1)
    d.wasGeneratedBy(e2, None, "2001-10-26T21:32:52")
    d.used(a1, e2, None, None, {"prov:role": "input"})
    d.used(a1, e1, "2011-11-16T16:00:00", "ex:u1")
    d.used(a1, None, None, "ex:u2")
    d.wasInformedBy(a2, a1)
    d.wasInformedBy(a2, a1, "ex:inf1", {"ex:k": "v"})
    d.wasStartedBy(a1, e1, a2, "2011-11-16T16:00:00", "ex:s1", {"prov:location": "here"})
    d.wasStartedBy(a1, None, a2)
    d.wasEndedBy(a1, e1, a2, None, None, {"ex:why": "done"})
    d.wasEndedBy(a1, e2)
    d.wasInvalidatedBy(e1, a1, "2011-11-16T16:00:00", None, {"prov:role": "destroyer"})
    d.wasInvalidatedBy(e2, a2)
    d.wasDerivedFrom(e1, e2, a1, "ex:g1", "ex:u1", "ex:d1", {"prov:type": PROV["Revision"]})
    d.wasDerivedFrom(e1, e2)
    d.wasDerivedFrom(e1, e2, None, None, None, None, {"prov:type": PROV["Quotation"]})
    d.wasDerivedFrom(e1, e2, a1, None, None, None, {"prov:type": PROV["PrimarySource"], "ex:z": 2})
    d.wasAttributedTo(e1, ag)
    d.wasAttributedTo(e1, ag, "ex:attr1", {"ex:k": 1})
    d.wasAssociatedWith(a1, ag, e2, "ex:assoc1", {"prov:role": "operator"})
    d.wasAssociatedWith(a1, ag)
    d.wasAssociatedWith(a2, None, e2)
    d.actedOnBehalfOf(ag, ag2, a1, None, {"prov:type": "ex:contract"})
    d.actedOnBehalfOf(ag, ag2)
    d.wasInfluencedBy(e1, ag2, "ex:infl", {"ex:k": "v"})
    d.wasInfluencedBy(e1, ag2)
    d.alternateOf(e1, e2)
    d.specializationOf(e1, e2)
    d.hadMember(e1, e2)
    d.mentionOf(e1, e2, "ex:b1")
    d.collection("ex:c1")
    b1 = d.bundle("ex:b1")
    b1.entity("ex:e1", {"ex:in": "bundle"})
    b1.activity("ex:ab")
    b1.wasGeneratedBy("ex:e1", "ex:ab", None, None, {"ex:q": "r"})
    b1.add_namespace("bb", "http://bundle.org/")
    b1.entity("bb:thing")
    b2 = d.bundle("o:b2")
    return d


def empty_doc():
    return ProvDocument()


def ns_only_doc():
    d = ProvDocument()
    d.add_namespace("ex", "http://example.org/")
    return d


def all_docs():
    out = []
    for name, fn in examples.tests:
        out.append((name, fn))
    out.append(("edge", edge_doc))
    out.append(("empty", empty_doc))
    out.append(("ns_only", ns_only_doc))
    return out


def provn_sorted(doc):
    # record order and the order of the extra attributes of a record depend on
    # id()-based hashes: compare lines as sorted bags of ", "-separated tokens
    lines = []
    for ln in canon(doc.get_provn()).splitlines():
        lines.append(", ".join(sorted(ln.replace("[", ", [, ").replace("]", ", ], ").split(", "))))
    return "\n".join(sorted(lines))


def rdf_files(limit=None, step=1):
    base = os.path.join(os.path.dirname(examples.__file__), "rdf")
    files = sorted(glob.glob(os.path.join(base, "*.ttl")))[::step]
    return files[:limit] if limit else files


def canon_rdf(text, fmt):
    """Order- and bnode-label-independent rendering of serialized RDF."""
    from rdflib.graph import ConjunctiveGraph
    from rdflib.term import BNode as _BNode

    if isinstance(text, bytes):
        text = text.decode("utf-8")
    g = ConjunctiveGraph()
    g.parse(data=text, format=fmt)

    def t(x):
        return "_:B" if isinstance(x, _BNode) else x.n3()

    lines = []
    for s, p, o, c in g.quads((None, None, None, None)):
        cid = c.identifier if hasattr(c, "identifier") else c
        lines.append(" ".join((t(s), t(p), t(o), t(cid))))
    ns = sorted("%s=%s" % (a, b) for a, b in g.namespaces())
    return "\n".join(sorted(lines) + ns)


def rdig(text, fmt):
    try:
        return "%s/%d" % (dig(canon_rdf(text, fmt)), len(text))
    except Exception as e:  # noqa
        return "unparsable(%s)/%d" % (type(e).__name__, len(text))
