"""Differential check for refactoring 2 (helper extracted from prov_to_graph)."""
import hashlib
from docs_common import all_docs, EX
from prov.model import ProvDocument, ProvRecord
from prov.graph import prov_to_graph, graph_to_prov, INFERRED_ELEMENT_CLASS


def rec_repr(r):
    return "%s|%s|bundle=%s" % (type(r).__name__, r.get_provn(), None if r.bundle is None else type(r.bundle).__name__)


def describe(g):
    nodes = [rec_repr(n) for n in g.nodes()]
    edges = ["%s -> %s [%s] key=%s" % (rec_repr(u), rec_repr(v), d["relation"].get_provn(), k)
             for u, v, k, d in g.edges(keys=True, data=True)]
    return nodes, edges


print("INFERRED", [(str(k), v.__name__) for k, v in INFERRED_ELEMENT_CLASS.items()])
docs = all_docs()
# extra: relation whose first two formal attributes cannot be inferred / partially inferred
extra = ProvDocument()
extra.add_namespace(EX)
extra.entity("ex:e1")
extra.wasGeneratedBy("ex:e1", "ex:a_missing")
extra.wasGeneratedBy("ex:e_missing", "ex:a_missing")
extra.wasGeneratedBy("ex:e_missing2", None)
extra.wasDerivedFrom("ex:d1", "ex:d2")
extra.mentionOf("ex:m1", "ex:m2", "ex:b")
extra.hadMember("ex:c", "ex:m1")
extra.wasInfluencedBy("ex:i1", "ex:i2")  # influencee/influencer are not in INFERRED_ELEMENT_CLASS
extra.wasInfluencedBy("ex:e1", "ex:i3")
extra.wasInfluencedBy("ex:i4", "ex:e1")
docs.append(("extra", extra))
for name, doc in docs:
    try:
        g = prov_to_graph(doc)
        nodes, edges = describe(g)
        print("==", name, "nodes=%d edges=%d" % (len(nodes), len(edges)))
        for n in nodes:
            print("  N", n)
        for e in edges:
            print("  E", e)
        back = graph_to_prov(g)
        provn = back.get_provn()
        print("  back", hashlib.sha256(provn.encode()).hexdigest()[:16], back == doc.unified() if not doc.has_bundles() else "n/a")
        print(provn)
    except Exception as e:  # noqa
        print("==", name, "EXC", type(e).__name__, e)
