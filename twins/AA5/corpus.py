# Shared corpus used by the equiv scripts (copied next to each of them).
import datetime
import hashlib
import io
import json
import os
import sys

# Attribute values are kept in sets: pin the string hash seed so that the
# iteration order (which the output text depends on) is the same in every run.
if os.environ.get("PYTHONHASHSEED") != "0":
    os.environ["PYTHONHASHSEED"] = "0"
    os.execv(sys.executable, [sys.executable] + sys.argv)

from prov.model import (
    ProvDocument, Namespace, Literal, Identifier, QualifiedName,
    PROV, XSD_INT, XSD_STRING,
)
from prov.constants import *  # noqa


def digest(text):
    if isinstance(text, str):
        text = text.encode("utf-8")
    return hashlib.sha256(text).hexdigest()[:16]


def doc_empty():
    return ProvDocument()


def doc_default_ns_only():
    d = ProvDocument()
    d.set_default_namespace("http://example.org/default/")
    d.entity("plain")
    return d


def doc_rich():
    d = ProvDocument()
    d.add_namespace("ex", "http://example.org/")
    d.add_namespace("éx", "http://example.org/é/")
    d.set_default_namespace("http://example.org/def#")
    ex = d._namespaces["ex"]
    e1 = d.entity("ex:e1", {
        "prov:label": "an entity",
        "ex:int": 5,
        "ex:float": 1.5,
        "ex:bool": True,
        "ex:str": 'quo"te \\ back\nnewline ☃',
        "ex:lit": Literal("typed", XSD_STRING),
        "ex:litint": Literal("7", XSD_INT),
        "ex:lang": Literal("bonjour", langtag="fr"),
        "ex:date": datetime.datetime(2020, 1, 2, 3, 4, 5, 678),
        "ex:uri": Identifier("http://example.org/some/uri"),
        "ex:qn": ex["qualified"],
        "prov:type": ex["Thing"],
    })
    d.entity("ex:e1", {"ex:second": "same id again"})
    d.entity("ex:e1", {"ex:third": 3})
    d.entity("ex:multi", [("ex:tag", "a"), ("ex:tag", "b"), ("ex:tag", 3),
                          ("prov:type", ex["T1"]), ("prov:type", "T2")])
    d.entity("e-default")
    a = d.activity("ex:a1", datetime.datetime(2011, 11, 16, 16, 5),
                   datetime.datetime(2011, 11, 16, 16, 6, 0, 12))
    d.activity("ex:a2", None, None, {"ex:empty": ""})
    ag = d.agent("ex:ag", {"prov:type": PROV["Person"]})
    d.wasGeneratedBy(e1, a, datetime.datetime(2012, 1, 1), identifier="ex:gen1",
                     other_attributes={"ex:role": "writer"})
    d.wasGeneratedBy("ex:e2", None)
    d.wasGeneratedBy("ex:e3", "ex:a2")
    d.used(a, e1)
    d.used(a, "ex:e2", identifier="ex:u1")
    d.used(a, "ex:e3", identifier="ex:u1")
    d.wasAssociatedWith(a, ag, "ex:plan")
    d.wasAttributedTo(e1, ag)
    d.wasDerivedFrom("ex:e2", e1, a, "ex:gen1", "ex:u1")
    d.actedOnBehalfOf(ag, "ex:boss", a)
    d.specializationOf("ex:e2", e1)
    d.alternateOf("ex:e2", e1)
    d.mentionOf("ex:e2", e1, "ex:b1")
    d.collection("ex:c1")
    d.hadMember("ex:c1", "ex:e1")
    d.hadMember("ex:c1", "ex:e2")
    d.wasInvalidatedBy(e1, None, datetime.datetime(2030, 5, 6, 7, 8, 9))
    d.wasInformedBy("ex:a2", a)
    d.wasStartedBy(a, e1, "ex:a2", datetime.datetime(2011, 1, 1))
    d.wasEndedBy(a, None, None, None)
    d.wasInfluencedBy("ex:e2", ag)
    b1 = d.bundle("ex:b1")
    b1.add_namespace("other", "http://other.example.org/")
    b1.entity("ex:e1", {"other:x": 1})
    b1.entity("ex:e1", {"other:x": 2})
    b1.activity("other:act")
    b1.wasGeneratedBy("ex:e1", "other:act")
    b2 = d.bundle("ex:b2")
    b2.set_default_namespace("http://bundle.default/")
    b2.entity("inbundle", {"ex:v": Literal("x", langtag="en-GB")})
    d.bundle("ex:emptybundle")
    return d


DOCS = [("empty", doc_empty), ("defaultns", doc_default_ns_only), ("rich", doc_rich)]


JSON_INPUTS = {
    "empty": "{}",
    "prefix_only": '{"prefix": {"ex": "http://example.org/", "default": "http://d.example/"}}',
    "membership_multi": json.dumps({
        "prefix": {"ex": "http://example.org/"},
        "entity": {"ex:c": {}, "ex:m1": {}, "ex:m2": {}, "ex:m3": {}},
        "hadMember": {
            "_:id1": {"prov:collection": "ex:c", "prov:entity": ["ex:m1", "ex:m2", "ex:m3"]},
            "ex:hm2": {"prov:collection": "ex:c", "prov:entity": ["ex:m1"]},
            "_:id3": [{"prov:collection": "ex:c", "prov:entity": "ex:m2"},
                      {"prov:collection": "ex:c", "prov:entity": ["ex:m3", "ex:m1"], "ex:k": "v"}],
        },
    }),
    "membership_alias_prefix": json.dumps({
        "prefix": {"ex": "http://example.org/", "p": "http://www.w3.org/ns/prov#"},
        "hadMember": {
            "_:id1": {"prov:collection": "ex:c", "prov:entity": ["ex:m1", "ex:m2"],
                      "p:entity": ["ex:m4", "ex:m5", "ex:m6"]},
        },
    }),
    "multi_value_error": json.dumps({
        "prefix": {"ex": "http://example.org/"},
        "wasGeneratedBy": {"_:g": {"prov:entity": ["ex:a", "ex:b"], "prov:activity": "ex:act"}},
    }),
    "multi_value_error_membership_collection": json.dumps({
        "prefix": {"ex": "http://example.org/"},
        "hadMember": {"_:g": {"prov:collection": ["ex:a", "ex:b"], "prov:entity": "ex:e"}},
    }),
    "empty_list_value": json.dumps({
        "prefix": {"ex": "http://example.org/"},
        "entity": {"ex:e": {"prov:label": []}},
        "used": {"_:u": {"prov:activity": [], "prov:entity": "ex:e"}},
    }),
    "unknown_record_type": json.dumps({"nonsense": {"ex:e": {}}}),
    "unknown_prefix": json.dumps({"entity": {"nope:e": {}}}),
    "values": json.dumps({
        "prefix": {"ex": "http://example.org/", "default": "http://d.example/"},
        "entity": {
            "ex:e": {
                "ex:a": [1, 2.5, "s", True, None, {"$": "5", "type": "xsd:int"},
                         {"$": "x", "lang": "en"},
                         {"$": "ex:q", "type": "prov:QUALIFIED_NAME"}, {"$": "untyped"}],
                # Identifier hashes depend on id(class): never put one in a set with other values
                "ex:u": {"$": "http://u/", "type": "xsd:anyURI"},
                "ex:ulist": [{"$": "http://u2/", "type": "xsd:anyURI"}],
                "ex:b": {"$": "2012-01-01T00:00:00", "type": "xsd:dateTime"},
                "ex:c": "plain", "prov:label": ["only one"], "prov:type": ["A", {"$": "ex:T", "type": "prov:QUALIFIED_NAME"}],
                "local": 1,
            },
            "ex:dup": [{"ex:a": 1}, {"ex:a": 2}, {}],
        },
        "activity": {"ex:act": {"prov:startTime": "2011-11-16T16:05:00", "prov:endTime": ["2011-11-16T16:06:00.000012"]}},
        "used": {"_:u1": {"prov:activity": "ex:act", "prov:entity": "ex:e", "prov:time": "2014-06-23T12:28:53.843000+01:00"}},
        "bundle": {
            "ex:b": {"prefix": {"o": "http://o/"}, "entity": {"o:x": {"o:y": [1, 1]}}},
            "ex:b0": {},
        },
    }),
}


def attempt(fn, *args, **kwargs):
    try:
        return ("ok", fn(*args, **kwargs))
    except Exception as e:  # noqa
        ctx = type(e.__context__).__name__ if e.__context__ is not None else None
        return ("exc", type(e).__module__ + "." + type(e).__name__, str(e), ctx)


def describe_doc(d):
    """Deterministic description of a document: PROV-N + record-by-record dump."""
    lines = [d.get_provn()]

    def dump(b, tag):
        lines.append("%s default=%r" % (tag, b._namespaces._default))
        for ns in b._namespaces.get_registered_namespaces():
            lines.append("%s ns %r %r" % (tag, ns.prefix, ns.uri))
        for r in b._records:
            lines.append("%s rec %r %r" % (tag, r.get_type(), r.identifier))
            for k, v in r.attributes:
                lines.append("%s    %r = %r (%s)" % (tag, k, v, type(v).__name__))

    dump(d, "doc")
    for b in d.bundles:
        dump(b, "bundle %s" % b.identifier)
    return "\n".join(lines)
