# Differential script for refactoring 5 (Registry.load_serializers -> module function
# plus thin wrapper; lazy-load check of get() moved into a helper).
import io
import os
import sys

sys.path.insert(0, os.path.dirname(os.path.abspath(__file__)))
import corpus  # noqa: E402
import prov  # noqa: E402
import prov.serializers as S  # noqa: E402
from prov.serializers import Registry, get, DoNotExist, Serializer  # noqa: E402


def clsname(c):
    return c.__module__ + "." + c.__qualname__


def state():
    reg = Registry.serializers
    if reg is None:
        return None
    return [(k, clsname(v)) for k, v in reg.items()]


print("__all__", S.__all__)
print("public names", sorted(n for n in vars(S) if not n.startswith("_")))
print("initial", state())
print("is staticmethod", isinstance(vars(Registry)["load_serializers"], staticmethod))
print("doc", Registry.load_serializers.__doc__, "|", get.__doc__, "|", Registry.__doc__)

# first get() loads lazily
r = corpus.attempt(get, "json")
print("get json", r[0], clsname(r[1]))
print("after first get", state())
first_table = Registry.serializers

for name in ["json", "rdf", "provn", "xml", "JSON", "", "ttl", "trig", " json", None, 5, 1.5, True,
             ("json",), ("a", "b"), (), frozenset(["json"]), b"json"]:
    r = corpus.attempt(get, name)
    if r[0] == "ok":
        r = ("ok", clsname(r[1]), issubclass(r[1], Serializer))
    print("get", repr(name), r)
for name in [["json"], {"json": 1}, {"json"}]:
    print("get unhashable", repr(name), corpus.attempt(get, name))
try:
    get("nope")
except DoNotExist as e:
    print("DoNotExist", e.args, type(e.__context__).__name__, e.__context__.args, e.__cause__, e.__suppress_context__)
    print("is prov.Error", isinstance(e, prov.Error))

print("table unchanged by get:", Registry.serializers is first_table)

# explicit reload: a new dict each time, same content and order
print("load returns", Registry.load_serializers())
print("new table object:", Registry.serializers is not first_table, Registry.serializers == first_table)
print("via instance", Registry().load_serializers(), state())

# a pre-populated registry is respected (no reload), including an empty one
class Dummy(Serializer):
    pass


Registry.serializers = {"dummy": Dummy}
print("custom", corpus.attempt(get, "dummy")[1] is Dummy, corpus.attempt(get, "json"))
Registry.serializers = {}
print("empty", corpus.attempt(get, "json"), state())
Registry.serializers = None
print("reset", clsname(get("xml")), state())

# a replaced load_serializers is what get() calls when the registry is not loaded
calls = []
orig = Registry.load_serializers


def fake():
    calls.append("fake")
    Registry.serializers = {"only": Dummy}


Registry.load_serializers = staticmethod(fake)
Registry.serializers = None
print("patched", corpus.attempt(get, "only")[1] is Dummy, corpus.attempt(get, "json"), calls)
Registry.load_serializers = staticmethod(orig)
Registry.serializers = None

# a registry that is not a dict
Registry.serializers = ["json"]
print("list registry", corpus.attempt(get, "json"), corpus.attempt(get, 0))
Registry.serializers = None

# front doors
from prov.model import ProvDocument  # noqa: E402

d = corpus.doc_rich()
for fmt in ["json", "provn", "xml", "rdf", "nope", None, "JSON"]:
    r = corpus.attempt(d.serialize, format=fmt)
    if r[0] == "ok":
        r = ("ok", type(r[1]).__name__, len(r[1]), corpus.digest(r[1]) if fmt != "rdf" else "-")
    print("serialize", fmt, r)
text = d.serialize(format="json")
for fmt in ["json", "nope", "provn"]:
    r = corpus.attempt(ProvDocument.deserialize, content=text, format=fmt)
    print("deserialize", fmt, r[0] if r[0] == "ok" else r)
Registry.serializers = None
r = corpus.attempt(prov.read, io.StringIO(text))
print("read", r[0], r[1] == d if r[0] == "ok" else r, state())
print("read fmt", corpus.attempt(prov.read, io.StringIO(text), "JSON")[0])
print("read garbage", corpus.attempt(prov.read, io.StringIO("garbage")))
