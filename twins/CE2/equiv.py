import os, sys
if os.environ.get("PYTHONHASHSEED") != "0":
    os.environ["PYTHONHASHSEED"] = "0"
    os.execv(sys.executable, [sys.executable] + sys.argv)

import datetime
from prov.model import ProvDocument, ProvBundle, Namespace, ProvException, Literal
from prov.tests import examples

EX = Namespace("ex", "http://example.org/")
EX2 = Namespace("ex", "http://other.example/")  # same prefix, other URI
OT = Namespace("ot", "http://example.org/")  # other prefix, same URI


def dump(title, obj):
    print("--", title, repr(obj))
    print("   ns", sorted((n.prefix, n.uri) for n in obj.namespaces), "default", obj.default_ns_uri)
    print("   records", [r.get_provn() for r in obj.get_records()])
    print("   id_map", sorted((str(k), len(v)) for k, v in obj._id_map.items()))
    if obj.is_document():
        for b in obj.bundles:
            print("   bundle", repr(b.identifier), b.document is obj,
                  sorted((n.prefix, n.uri) for n in b.namespaces),
                  [r.get_provn() for r in b.get_records()])
        print(obj.get_provn())
        for fmt in ("json", "xml"):
            try:
                print(obj.serialize(format=fmt))
            except Exception as e:  # noqa
                print("   serialize", fmt, "EXC", type(e).__name__, e)


def attempt(title, target, other, others_to_dump=()):
    print("==", title)
    try:
        r = target.update(other)
        print("   returned", repr(r))
    except Exception as e:  # noqa
        print("   EXC", type(e).__name__, "|", e, "|", e.args)
    dump("target", target)
    for o in others_to_dump:
        dump("other", o)


def doc_a():
    d = ProvDocument()
    d.add_namespace(EX)
    d.set_default_namespace("http://default.example/a#")
    d.entity("ex:e1", {"prov:label": "naïve ☃", "ex:v": Literal("x", langtag="fr")})
    d.entity("plain")
    d.activity("ex:a1", datetime.datetime(2021, 5, 6, 7, 8, 9))
    d.wasGeneratedBy("ex:e1", "ex:a1")
    b = d.bundle("ex:b1")
    b.entity("ex:e1", {"ex:in": "b1 of A"})
    b.wasDerivedFrom("ex:e1", "ex:e0")
    b2 = d.bundle("ex:onlyA")
    b2.agent("ex:ag")
    return d


def doc_b():
    d = ProvDocument()
    d.add_namespace(EX2)
    d.add_namespace(OT)
    d.set_default_namespace("http://default.example/b#")
    d.entity("ot:e1", {"ot:w": 2})  # same URI as ex:e1 of A
    d.entity("ex:e1", {"ex:other": ""})  # ex -> other.example
    d.entity("plain")  # other default namespace
    d.used("ot:a1", "ot:e1", identifier="ot:u")
    b = d.bundle("ot:b1")  # equals ex:b1 of A
    b.entity("ot:e1", {"ot:in": "b1 of B"})
    b.entity("ot:e1")
    b3 = d.bundle("ex:b1")  # http://other.example/b1 : new for A
    b3.set_default_namespace("http://default.example/b3#")
    b3.entity("inb3", {"prov:value": ""})
    d.bundle("ot:emptybundle")
    return d


# Document <- document with bundles (merge + new bundles, prefix clashes)
a, b = doc_a(), doc_b()
attempt("A.update(B)", a, b, [b])
a, b = doc_a(), doc_b()
attempt("B.update(A)", b, a, [a])
# twice
a, b = doc_a(), doc_b()
a.update(b)
attempt("A.update(B) twice", a, b)
# self update
a = doc_a()
attempt("A.update(A)", a, a)
# Document <- document without bundles, <- empty document
a = doc_a()
flat = doc_b().flattened()
attempt("A.update(flattened B)", a, flat)
attempt("A.update(empty doc)", doc_a(), ProvDocument())
attempt("empty doc.update(A)", ProvDocument(), doc_a())
# Document <- bundle (attached and free standing)
a, b = doc_a(), doc_b()
attempt("A.update(bundle of B)", a, list(b.bundles)[0], [b])
free = ProvBundle(identifier=EX["free"], namespaces=[EX2])
free.entity("ex:f1")
free.entity("ex:f1", {"ex:k": 1})
attempt("A.update(free bundle)", doc_a(), free, [free])
# Bundle <- bundle, <- document without bundles, <- document with bundles
a, b = doc_a(), doc_b()
ba = list(a.bundles)[0]
attempt("bundleA.update(bundleB)", ba, list(b.bundles)[0], [a])
attempt("bundleA.update(bundleA)", ba, ba, [a])
a = doc_a()
ba = list(a.bundles)[1]
attempt("bundleA.update(flattened B)", ba, doc_b().flattened(), [a])
a = doc_a()
ba = list(a.bundles)[0]
attempt("bundleA.update(doc with bundles)", ba, doc_b(), [a])
attempt("bundleA.update(own document)", ba, a, [a])
attempt("free.update(empty doc)", free, ProvDocument())
attempt("free.update(A)", free, doc_a())
# not a bundle at all
for bad in (None, "text", 5, 0, (), (1, 2), [doc_a()], {"a": 1}, ProvDocument, object()):
    shown = "object()" if type(bad) is object else repr(bad)
    attempt("doc.update(%s)" % shown, ProvDocument(), bad)
    fb = ProvBundle(identifier=EX["fb"])
    attempt("bundle.update(%s)" % shown, fb, bad)


class OddBundles(ProvDocument):
    """has bundles but says it has none / vice versa"""

    def __init__(self, answer):
        ProvDocument.__init__(self)
        self.answer = answer
        self.calls = []

    def has_bundles(self):
        self.calls.append("has_bundles")
        return self.answer

    def get_records(self, *a):
        self.calls.append("get_records")
        return ProvDocument.get_records(self, *a)

    @property
    def bundles(self):
        self.calls.append("bundles")
        return ProvDocument.bundles.fget(self)


for answer in (True, False, 0, 1, [], "x"):
    o = OddBundles(answer)
    o.add_namespace(EX)
    o.entity("ex:o1")
    o.bundle("ex:ob").entity("ex:o2")
    t = ProvDocument()
    attempt("doc.update(odd %r)" % (answer,), t, o)
    print("   calls", o.calls)
    o.calls = []
    t = ProvBundle(identifier=EX["t"])
    attempt("bundle.update(odd %r)" % (answer,), t, o)
    print("   calls", o.calls)

# examples of the test-suite merged pairwise into one document
acc = ProvDocument()
for name, fn in sorted(examples.tests):
    try:
        acc.update(fn())
        print("merged", name, len(acc.get_records()), len(list(acc.bundles)))
    except Exception as e:  # noqa
        print("merged", name, "EXC", type(e).__name__, e)
print(acc.get_provn())
