import os
import sys

if os.environ.get("PYTHONHASHSEED") != "0":
    # set iteration order must be reproducible between the two runs
    os.environ["PYTHONHASHSEED"] = "0"
    os.execv(sys.executable, [sys.executable] + sys.argv)

import datetime
import hashlib

from prov.constants import (
    PROV_ATTR_COLLECTION,
    PROV_ATTR_ENTITY,
    PROV_ATTR_STARTTIME,
    PROV_ATTR_ENDTIME,
    PROV_ATTR_ACTIVITY,
    PROV_ATTR_TIME,
    PROV_TYPE,
    PROV_LABEL,
    PROV,
    XSD_INT,
)
from prov.identifier import Namespace, QualifiedName, Identifier
from prov.model import Literal, ProvDocument, ProvRecord

out = []


def emit(*a):
    out.append(" | ".join(str(x) for x in a))


def state(rec):
    return [
        (str(k), sorted(repr(v) for v in vs)) for k, vs in rec._attributes.items()
    ]


def attempt(label, rec, attrs):
    try:
        r = rec.add_attributes(attrs)
        emit(label, "ok", repr(r), state(rec), rec.get_provn())
    except Exception as e:
        emit(label, "EXC", type(e).__name__, str(e), state(rec))


class Weird:
    """Comparison with anything raises TypeError."""

    def __init__(self, n):
        self.n = n

    def __eq__(self, other):
        raise TypeError("no eq")

    def __ne__(self, other):
        raise TypeError("no ne")

    def __hash__(self):
        return self.n

    def __repr__(self):
        return "Weird(%d)" % self.n


EX = Namespace("ex", "http://example.org/")
OTHER = Namespace("other", "http://other.org/")


def fresh():
    d = ProvDocument()
    d.add_namespace(EX)
    return d


d = fresh()
e = d.entity("ex:e")
attempt("empty-list", e, [])
attempt("empty-dict", e, {})
attempt("none", e, None)
attempt("dict", e, {"ex:a": 1, "ex:b": "two", EX["c"]: 3.5, "ex:d": True})
attempt("tuples", e, [("ex:a", 1), ("ex:a", 2), ("ex:a", 1)])
attempt("none-value", e, [("ex:n", None), ("ex:m", 0), ("ex:m", "")])
attempt("bad-name", e, [("ex:ok", 1), ("nope:zz", 2), ("ex:after", 3)])
attempt("bad-name-int", e, [(42, 2)])
attempt("undeclared-ns-qname", e, [(OTHER["attr"], OTHER["val"])])
attempt("literals", e, [
    ("ex:l", Literal("10", XSD_INT)),
    ("ex:l", Literal("x", None, "en")),
    ("ex:l", Literal("plain")),
    ("ex:l", Literal("q", OTHER["dt"])),
    ("ex:l", Literal("notint", XSD_INT)),
    ("ex:l", Identifier("http://x/y")),
    ("ex:l", datetime.datetime(2020, 1, 2, 3, 4, 5)),
])
attempt("type-label", e, [(PROV_TYPE, "ex:T"), (PROV_TYPE, EX["T2"]), (PROV_LABEL, "lab"),
                          ("prov:label", Literal("lab2", None, "fr"))])
attempt("record-as-value", e, [("ex:ref", d.entity("ex:e2"))])
attempt("generator", e, ((k, v) for k, v in [("ex:gen", 1)]))
attempt("unicode", e, [("ex:ü", "中\n\"q\"\\")])

a = d.activity("ex:act", "2020-01-01T00:00:00", None)
attempt("same-start", a, [(PROV_ATTR_STARTTIME, datetime.datetime(2020, 1, 1))])
attempt("same-start-str", a, {"prov:startTime": "2020-01-01"})
attempt("diff-start", a, [(PROV_ATTR_STARTTIME, "2021-01-01")])
attempt("bad-time", a, [(PROV_ATTR_ENDTIME, "not a time")])
attempt("bad-time-int", a, [(PROV_ATTR_ENDTIME, 5)])
attempt("aware-vs-naive", a, [(PROV_ATTR_STARTTIME, "2020-01-01T00:00:00+01:00")])
attempt("end-ok", a, [(PROV_ATTR_ENDTIME, "2020-01-02T00:00:00Z"), ("ex:x", 1)])

g = d.generation("ex:e", "ex:act", identifier="ex:g")
attempt("gen-same-activity", g, [(PROV_ATTR_ACTIVITY, a)])
attempt("gen-same-activity-str", g, [(PROV_ATTR_ACTIVITY, "ex:act")])
attempt("gen-other-activity", g, [(PROV_ATTR_ACTIVITY, "ex:act2")])
attempt("gen-invalid-qname", g, [(PROV_ATTR_ENTITY, 12)])
attempt("gen-undeclared", g, [(PROV_ATTR_TIME, "2020-05-05"), (PROV_ATTR_ENTITY, "zz:e")])

m = d.membership("ex:c", "ex:m1")
attempt("member-more-entities", m, [(PROV_ATTR_ENTITY, "ex:m2")])
attempt("member-collection", m, [(PROV_ATTR_COLLECTION, "ex:c"), (PROV_ATTR_ENTITY, "ex:m2"),
                                 (PROV_ATTR_ENTITY, "ex:m3")])
attempt("member-collection-dict", m, {PROV_ATTR_COLLECTION: "ex:c2", PROV_ATTR_ENTITY: "ex:m4"})
attempt("member-collection-str-key", m, [("prov:collection", "ex:c3")])

# incomparable values for a PROV attribute (bypassing normalisation is impossible,
# so store one directly and add another)
dw = fresh()
w = dw.usage("ex:act", "ex:e", identifier="ex:u")
w._attributes[PROV_ATTR_TIME].add(Weird(1))
attempt("incomparable", w, [(PROV_ATTR_TIME, "2020-01-01")])

# keys created in the defaultdict
d2 = fresh()
e3 = d2.entity("ex:k")
emit("keys-before", sorted(str(k) for k in e3._attributes))
e3.add_attributes([("ex:a", None), (PROV_ATTR_TIME, None)])
emit("keys-after-none", sorted(str(k) for k in e3._attributes))
gen = d2.generation("ex:k")
emit("gen-keys", sorted(str(k) for k in gen._attributes))
gen.add_attributes([(PROV_ATTR_ACTIVITY, "ex:a1")])
emit("gen-keys2", sorted(str(k) for k in gen._attributes), gen.get_provn())

# bundles and whole documents
b = d.bundle("ex:bundle")
b.add_namespace(OTHER)
be = b.entity("other:e", {"other:p": OTHER["v"], "ex:p": Literal("1", OTHER["t"])})
emit("bundle", state(be), be.get_provn())
emit("doc", d.get_provn())
emit("json", d.serialize(format="json", sort_keys=True))
emit("rt", ProvDocument.deserialize(content=d2.serialize(format="json"), format="json") == d2)

text = "\n".join(out)
print(text)
print("DIGEST", hashlib.sha256(text.encode("utf-8")).hexdigest())
