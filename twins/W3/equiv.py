import os
import sys

if os.environ.get("PYTHONHASHSEED") != "0":
    # set iteration order must be reproducible between the two runs
    os.environ["PYTHONHASHSEED"] = "0"
    os.execv(sys.executable, [sys.executable] + sys.argv)

import datetime
import hashlib

from prov.constants import (
    XSD_STRING, XSD_DOUBLE, XSD_LONG, XSD_INT, XSD_BOOLEAN, XSD_DATETIME,
    XSD_ANYURI, XSD_QNAME, XSD_FLOAT, PROV, XSD,
)
from prov.identifier import Namespace, Identifier, QualifiedName
from prov import model
from prov.model import (
    Literal, ProvDocument, parse_boolean, parse_xsd_types, parse_xsd_datetime,
    encoding_provn_value, XSD_DATATYPE_PARSERS, _ensure_datetime,
)

out = []


def emit(*a):
    out.append(" | ".join(str(x) for x in a))


def call(label, fn, *args):
    try:
        r = fn(*args)
        emit(label, [repr(a) for a in args], "->", type(r).__name__, repr(r))
    except Exception as e:
        emit(label, [repr(a) for a in args], "EXC", type(e).__name__, str(e))


class MyFloat(float):
    def __repr__(self):
        return "MyFloat!"

    def __str__(self):
        return "myfloat-str"


class MyStr(str):
    def __str__(self):
        return "mystr-str"


class Obj:
    def __str__(self):
        return "an obj"

    def __repr__(self):
        return "Obj()"


EX = Namespace("ex", "http://example.org/")

for v in ["false", "FALSE", "False", "0", "true", "TRUE", "tRuE", "1", "", "yes", "2",
          " true", "01", "١", None, 0, 1, True, b"true"]:
    call("parse_boolean", parse_boolean, v)

for v in ["2020-01-02T03:04:05", "2020-01-02T03:04:05.123456+02:00", "2020", "Jan 5 2011",
          "", "garbage", "99999-01-01", None, 5, datetime.datetime(2020, 1, 1)]:
    call("parse_xsd_datetime", parse_xsd_datetime, v)
    call("_ensure_datetime", _ensure_datetime, v)

datatypes = [XSD_STRING, XSD_DOUBLE, XSD_LONG, XSD_INT, XSD_BOOLEAN, XSD_DATETIME,
             XSD_ANYURI, XSD_QNAME, XSD_FLOAT, PROV["InternationalizedString"],
             EX["custom"], None, "xsd:int", QualifiedName(XSD, "int"), 5]
values = ["1", "1.5", "abc", "", "true", "2020-01-01", "http://x.org/a b", "1e400", "nan", "-0"]
for dt in datatypes:
    for v in values:
        call("parse_xsd_types", parse_xsd_types, v, dt)
call("parse_xsd_types", parse_xsd_types, 5, XSD_INT)
call("parse_xsd_types", parse_xsd_types, None, XSD_INT)
call("parse_xsd_types", parse_xsd_types, None, XSD_BOOLEAN)
call("parse_xsd_types", parse_xsd_types, None, XSD_STRING)
call("parse_xsd_types", parse_xsd_types, "x", [])
call("parse_xsd_types", parse_xsd_types, "x", {})
emit("parsers", sorted((str(k), v.__name__) for k, v in XSD_DATATYPE_PARSERS.items()))

for v in ["", "abc", "multi\nline", 'q"uote', "back\\slash", "tab\there", "中文 é", MyStr("sub"),
          datetime.datetime(2020, 1, 2, 3, 4, 5),
          datetime.datetime(2020, 1, 2, 3, 4, 5, 678, tzinfo=datetime.timezone.utc),
          datetime.date(2020, 1, 2),
          1.0, -0.0, 1e300, float("inf"), float("nan"), 1e-7, 0.1, MyFloat(2.5),
          True, False, 0, 1, -5, 10**30, None, 2 + 3j, b"bytes", (1, 2), [1.5], Obj(),
          EX["qn"], Identifier("http://x/y"), Literal("l", XSD_INT), {1.5}]:
    call("encoding_provn_value", encoding_provn_value, v)

# through records / documents
d = ProvDocument()
d.add_namespace(EX)
e = d.entity("ex:e", [
    ("ex:f", 1.5), ("ex:b", True), ("ex:b", False), ("ex:s", "a\nb"), ("ex:i", 7),
    ("ex:dt", datetime.datetime(2001, 2, 3, 4, 5, 6)), ("ex:id", Identifier("http://id/")),
    ("ex:lb", Literal("TRUE", XSD_BOOLEAN)), ("ex:lb", Literal("maybe", XSD_BOOLEAN)),
    ("ex:ld", Literal("2012-12-12T12:12:12", XSD_DATETIME)),
    ("ex:lf", Literal("2.50", XSD_DOUBLE)), ("ex:ll", Literal("12", XSD_LONG)),
    ("ex:lu", Literal("http://u/", XSD_ANYURI)), ("ex:ls", Literal("str", XSD_STRING)),
    ("ex:lq", Literal("ex:zz", XSD_QNAME)),
])
emit("provn", d.get_provn())
emit("attrs", sorted((str(k), repr(v)) for k, v in e.attributes))
emit("rt-json", ProvDocument.deserialize(content=d.serialize(format="json"), format="json").get_provn())
emit("rt-xml", ProvDocument.deserialize(content=d.serialize(format="xml"), format="xml").get_provn())

text = "\n".join(out)
print(text)
print("DIGEST", hashlib.sha256(text.encode("utf-8")).hexdigest())
