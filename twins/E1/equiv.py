import datetime
import hashlib
import io
import logging
import os
import sys
import tempfile
import traceback

# attribute sets iterate in hash order: pin the hash seed so that the
# order-sensitive dumps below are reproducible from run to run
if os.environ.get("PYTHONHASHSEED") != "0":
    os.environ["PYTHONHASHSEED"] = "0"
    os.execv(sys.executable, [sys.executable] + sys.argv)

import prov
from prov.model import (
    ProvBundle,
    ProvDocument,
    ProvException,
    ProvEntity,
    ProvActivity,
    ProvAgent,
    ProvRelation,
    ProvElement,
    Namespace,
    Literal,
    PROV_ENTITY,
    PROV_ACTIVITY,
    PROV_GENERATION,
    PROV_TYPE,
    PROV_LABEL,
)
from prov.tests import examples

logging.disable(logging.NOTSET)

_LINES = []


def emit(tag, value):
    text = "%s: %s" % (tag, value)
    _LINES.append(text)
    print(text)


def digest():
    h = hashlib.sha256("\n".join(_LINES).encode("utf-8")).hexdigest()
    print("DIGEST %s (%d lines)" % (h, len(_LINES)))


def attempt(tag, fn):
    """Run fn, emit result or exception type+message deterministically."""
    try:
        res = fn()
    except BaseException as e:  # noqa
        emit(tag, "EXC %s: %s" % (type(e).__name__, e))
        return None
    emit(tag, "OK %s" % (describe(res),))
    return res


def rec_key(r):
    return r.get_provn()


def describe(x):
    if isinstance(x, ProvDocument):
        return "DOC[%s]" % hashlib.sha256(x.get_provn().encode("utf-8")).hexdigest()[:16]
    if isinstance(x, ProvBundle):
        return "BUNDLE[%s|%s]" % (
            x.identifier,
            hashlib.sha256(x.get_provn().encode("utf-8")).hexdigest()[:16],
        )
    if isinstance(x, (list, tuple)):
        return "%s(%s)" % (type(x).__name__, ", ".join(describe(i) for i in x))
    if hasattr(x, "get_provn"):
        return "REC<%s>" % x.get_provn()
    if isinstance(x, (str, bytes, int, float, bool, type(None))):
        return repr(x)
    return "%s:%r" % (type(x).__name__, x)


def dump_bundle(tag, b):
    """Full structural dump of a bundle/document (order sensitive)."""
    emit(tag + ".repr", repr(b))
    emit(tag + ".identifier", repr(b.identifier))
    emit(tag + ".is_doc", (b.is_document(), b.is_bundle(), b.has_bundles()))
    emit(tag + ".default_ns", repr(b.default_ns_uri))
    emit(
        tag + ".registered_ns",
        [(n.prefix, n.uri) for n in b.get_registered_namespaces()],
    )
    emit(tag + ".namespaces_sorted", sorted((n.prefix, n.uri) for n in b.namespaces))
    emit(tag + ".records", [rec_key(r) for r in b.records])
    emit(tag + ".get_records", [rec_key(r) for r in b.get_records()])
    emit(
        tag + ".record_attrs",
        [
            (r.get_type().localpart, str(r.identifier), [(str(k), repr(v)) for k, v in r.attributes])
            for r in b._records
        ],
    )
    emit(
        tag + ".id_map",
        [(str(k), [rec_key(r) for r in v]) for k, v in b._id_map.items()],
    )
    emit(tag + ".record_bundle_is_self", all(r.bundle is b for r in b._records))
    emit(tag + ".provn", b.get_provn())
    if b.is_document():
        emit(tag + ".bundle_ids", [str(k) for k in b._bundles.keys()])
        for i, sub in enumerate(b.bundles):
            emit(tag + ".sub%d.doc_is_parent" % i, sub.document is b)
            emit(tag + ".sub%d.ns_parent" % i, sub._namespaces.parent is b._namespaces)
            dump_bundle(tag + ".sub%d" % i, sub)


EX = Namespace("ex", "http://example.org/")
OTHER = Namespace("other", "http://other.example/ns#")
WEIRD = Namespace("w", "http://weird.example/a b/é?x=1&y=<2>#")


def doc_empty():
    return ProvDocument()


def doc_simple():
    d = ProvDocument()
    d.add_namespace(EX)
    d.entity("ex:e1", {"prov:label": "hello", "ex:n": 1})
    d.activity("ex:a1", datetime.datetime(2020, 1, 2, 3, 4, 5), None, {"prov:type": EX["T"]})
    d.wasGeneratedBy("ex:e1", "ex:a1", datetime.datetime(2020, 1, 2, 3, 4, 6))
    d.agent("ex:ag", [("prov:type", PROV_TYPE), ("ex:s", "x"), ("ex:s", "y")])
    d.wasAssociatedWith("ex:a1", "ex:ag", identifier="ex:assoc1")
    return d


def doc_repeated_ids():
    d = ProvDocument()
    d.set_default_namespace("http://default.example/")
    d.add_namespace(EX)
    d.add_namespace(OTHER)
    d.entity("ex:e1", {"ex:a": 1})
    d.entity("ex:e1", {"ex:b": 2, "ex:a": 1})
    d.entity("ex:e1")
    d.activity("ex:e1")  # same identifier, different type
    d.entity("e-default", {"prov:label": Literal("bonjour", langtag="fr")})
    d.entity("e-default", {"prov:label": Literal("hello", langtag="en")})
    d.wasDerivedFrom("ex:e1", "e-default", identifier="ex:d1", other_attributes={"ex:x": "1"})
    d.wasDerivedFrom("ex:e1", "e-default", identifier="ex:d1", other_attributes={"ex:y": "2"})
    d.wasDerivedFrom("ex:e1", "e-default")
    d.wasDerivedFrom("ex:e1", "e-default")
    d.entity("other:z", {"other:q": "ünïcode \"quoted\" \\ back\nnewline"})
    return d


def doc_bundles():
    d = ProvDocument()
    d.add_namespace(EX)
    d.entity("ex:top", {"ex:v": 1.5})
    b1 = d.bundle("ex:b1")
    b1.add_namespace(OTHER)
    b1.entity("ex:e1", {"other:p": True})
    b1.entity("ex:e1", {"other:p": False})
    b1.activity("other:act")
    b1.used("other:act", "ex:e1")
    b2 = d.bundle("ex:b2")
    b2.set_default_namespace("http://b2.default/")
    b2.entity("in-default")
    b2.entity("ex:top", {"ex:v": 2})
    b3 = d.bundle("ex:empty")
    d.entity("ex:b1", {"prov:type": PROV["Bundle"]})
    return d


def doc_unusual():
    d = ProvDocument()
    d.add_namespace(WEIRD)
    d.add_namespace("ex", "http://example.org/")
    d.entity("w:a-b.c", {"w:k": "", "w:l": Literal("", langtag="en"), "w:m": "  spaces  "})
    d.entity("ex:e/with/slash")
    try:
        d.entity("http://full.uri.example/thing#frag")
    except ProvException as e:
        pass
    d.activity("ex:act", "2011-11-16T16:05:00", "2011-11-16T16:06:00.123456")
    d.specializationOf("w:a-b.c", "ex:e/with/slash")
    d.hadMember("ex:e/with/slash", "w:a-b.c")
    return d


PROV = Namespace("prov", "http://www.w3.org/ns/prov#")


def standalone_bundle():
    b = ProvBundle(identifier=EX["sb"], namespaces=[EX, OTHER])
    b.entity("ex:x", {"other:k": 3})
    b.entity("ex:x", {"other:k": 4})
    b.agent("other:ag")
    return b


def anonymous_bundle():
    b = ProvBundle()
    b.add_namespace(EX)
    b.entity("ex:anon")
    return b


BUILDERS = [
    ("empty", doc_empty),
    ("simple", doc_simple),
    ("repeated", doc_repeated_ids),
    ("bundles", doc_bundles),
    ("unusual", doc_unusual),
    ("primer", examples.primer_example),
    ("primer_alt", examples.primer_example_alternate),
    ("w3c_publication_1", examples.w3c_publication_1),
    ("w3c_publication_2", examples.w3c_publication_2),
    ("bundles1", examples.bundles1),
    ("bundles2", examples.bundles2),
    ("collections", examples.collections),
    ("datatypes", examples.datatypes),
    ("long_literals", examples.long_literals),
]

# ---------------------------------------------------------------------------
# Refactoring 1: renamed locals in ProvBundle._add_record / __eq__ /
# _unified_records and ProvDocument.__eq__ / unified
# ---------------------------------------------------------------------------
class _Capture(logging.Handler):
    def emit(self, record):
        emit("LOG", "%s %s %s" % (record.name, record.levelname, record.getMessage()))


_log = logging.getLogger("prov.model")
_log.setLevel(logging.DEBUG)
_log.addHandler(_Capture())
_log.propagate = False

docs = [(name, fn()) for name, fn in BUILDERS]
extra = [
    ("sb", standalone_bundle()),
    ("anon", anonymous_bundle()),
    ("sb_again", standalone_bundle()),
    ("simple_again", doc_simple()),
    ("bundles_again", doc_bundles()),
]
subs = []
for name, d in docs:
    for i, b in enumerate(d.bundles):
        subs.append(("%s/sub%d" % (name, i), b))
everything = docs + extra + subs

# _add_record: id map and record order
for name, x in everything:
    emit("idmap." + name, [(str(k), len(v)) for k, v in x._id_map.items()])
    emit("order." + name, [rec_key(r) for r in x._records])

# unified / _unified_records
for name, x in everything:
    before = x.get_provn()
    ns_before = [(n.prefix, n.uri) for n in x.get_registered_namespaces()]
    ur = x._unified_records()
    emit("unified_records." + name, [rec_key(r) for r in ur])
    emit("unified_records.identity." + name, [r in x._records for r in ur])
    emit("unified_records.fresh_list." + name, ur is not x._records)
    u = x.unified()
    dump_bundle("unified." + name, u)
    emit("unified.type." + name, type(u).__name__)
    emit("unified.src_unchanged." + name, before == x.get_provn())
    emit(
        "unified.src_ns_unchanged." + name,
        ns_before == [(n.prefix, n.uri) for n in x.get_registered_namespaces()],
    )
    uu = u.unified()
    emit("unified.idempotent." + name, uu.get_provn() == u.get_provn())

# equality matrix (with debug log side effects captured)
others = [None, 0, "document", object, [], {}]
for na, a in everything:
    row = []
    for nb, b in everything:
        row.append("%d%d" % (a == b, a != b))
    emit("eq." + na, " ".join(row))
    emit("eq.other." + na, [(a == o, a != o) for o in others])
    emit("eq.unified." + na, (a == a.unified(), a.unified() == a))
for name, x in everything:
    try:
        hash(x)
        emit("hash." + name, "hashable")
    except TypeError as e:
        emit("hash." + name, "TypeError %s" % e)

# documents differing only in bundles
d1 = doc_bundles()
d2 = doc_bundles()
emit("eqb.same", (d1 == d2, d2 == d1))
d2._bundles[next(iter(d2._bundles))].entity("ex:more")
emit("eqb.diff_record_in_bundle", (d1 == d2, d2 == d1))
d3 = doc_bundles()
d3.bundle("ex:b4")
emit("eqb.extra_bundle", (d1 == d3, d3 == d1))
d4 = ProvDocument()
d4.add_namespace(EX)
d4.entity("ex:top", {"ex:v": 1.5})
d4.entity("ex:b1", {"prov:type": PROV["Bundle"]})
for bid in ("ex:b1", "ex:b2", "ex:other"):
    d4.bundle(bid)
emit("eqb.renamed_bundle", (d1 == d4, d4 == d1))
digest()
