"""Differential script for change 3 (type hints, docstrings and two tidy-ups in
NamespaceManager / ProvBundle namespace methods)."""
import os
import sys

if os.environ.get("PYTHONHASHSEED") != "0":
    os.environ["PYTHONHASHSEED"] = "0"
    os.execv(sys.executable, [sys.executable] + sys.argv)

import hashlib

from prov.identifier import Identifier, Namespace, QualifiedName
from prov.model import NamespaceManager, ProvBundle, ProvDocument

OUT = []


def emit(*parts):
    OUT.append(" | ".join(str(p) for p in parts))


def d_ns(ns):
    if isinstance(ns, Namespace):
        return "NS(%r,%r)" % (ns.prefix, ns.uri)
    return repr(ns)


def d_mgr(m):
    return "keys=%s regs=%s default=%s uri_map=%s rename=%s renamed=%s" % (
        [(k, d_ns(v)) for k, v in m.items()],
        [(k, d_ns(v)) for k, v in m._namespaces.items()],
        d_ns(m._default),
        [(k, d_ns(v)) for k, v in m._uri_map.items()],
        [(d_ns(k), d_ns(v)) for k, v in m._rename_map.items()],
        [(k, d_ns(v)) for k, v in m._prefix_renamed_map.items()],
    )


def attempt(label, fn, show=d_ns):
    try:
        r = fn()
    except BaseException as e:  # noqa
        emit(label, "EXC", type(e).__name__, e)
        return None
    emit(label, show(r))
    return r


class LoudNamespace(Namespace):
    """Counts how often the manager reads the properties (a subclass a user could write)."""

    def __init__(self, prefix, uri):
        super().__init__(prefix, uri)
        self.log = []

    def __hash__(self):
        return super().__hash__()


# ------------------------------------------------------------- NamespaceManager
def scenario(label, mgr):
    ex = Namespace("ex", "http://example.org/")
    steps = [
        ("same obj", ex),
        ("same obj again", ex),
        ("equal copy", Namespace("ex", "http://example.org/")),
        ("alias of uri", Namespace("alias", "http://example.org/")),
        ("alias again", Namespace("alias", "http://example.org/")),
        ("conflict 1", Namespace("ex", "http://other.org/")),
        ("conflict 1 again", Namespace("ex", "http://other.org/")),
        ("conflict 2", Namespace("ex", "http://third.org/")),
        ("takes ex_3 directly", Namespace("ex_3", "http://ex3.org/")),
        ("conflict 3 skips ex_3", Namespace("ex", "http://fourth.org/")),
        ("prov prefix clash", Namespace("prov", "http://not-prov.org/")),
        ("prov itself", Namespace("prov", "http://www.w3.org/ns/prov#")),
        ("prov uri other prefix", Namespace("p", "http://www.w3.org/ns/prov#")),
        ("empty prefix", Namespace("", "urn:empty#")),
        ("empty prefix 2", Namespace("", "urn:empty2#")),
        ("none prefix", Namespace(None, "urn:none#")),
        ("non-ascii", Namespace("ü", "http://ü.example/é#")),
        ("non-ascii clash", Namespace("ü", "http://ü2.example/")),
        ("subclass", LoudNamespace("loud", "urn:loud#")),
        ("subclass clash", LoudNamespace("loud", "urn:loud2#")),
    ]
    for name, ns in steps:
        r = attempt("%s add %s %s" % (label, name, d_ns(ns)), lambda: mgr.add_namespace(ns))
        emit("   returned the given object", r is ns, "type", type(r).__name__)
    for bad in (None, "ex", 5, ("ex", "urn:x"), Identifier("urn:x"), Namespace("q", "urn:q#")["qn"]):
        attempt("%s add bad %r" % (label, bad), lambda: mgr.add_namespace(bad))
    emit(label, "state", d_mgr(mgr))
    for uri in ("http://example.org/", "http://other.org/", "http://www.w3.org/ns/prov#", "urn:empty#", "urn:nope", "", None, 5,
                Identifier("http://example.org/"), "http://ü.example/é#"):
        r = attempt("%s get_namespace %r" % (label, uri), lambda: mgr.get_namespace(uri))
        if r is not None:
            emit("   is the registered object", any(r is v for v in mgr.values()))
    regs = mgr.get_registered_namespaces()
    emit(label, "registered", type(regs).__name__, len(regs), [d_ns(n) for n in regs])
    mgr.add_namespace(Namespace("late", "urn:late#"))
    emit(label, "view is live", len(regs), d_ns(list(regs)[-1]), regs is not mgr.get_registered_namespaces())
    for p in ("ex", "ex_1", "free", "", "prov", "ü", "late", None):
        attempt("%s unused %r" % (label, p), lambda: mgr._get_unused_prefix(p), repr)
    for uri in ("urn:newdefault#", "urn:newdefault#", "http://example.org/", "é://ü", "", "  ", "\t\n", None, 0, 5):
        before = d_ns(mgr.get_default_namespace())
        r = attempt("%s set_default %r" % (label, uri), lambda: mgr.set_default_namespace(uri), repr)
        emit("   default", before, "->", d_ns(mgr.get_default_namespace()), "keyed", d_ns(mgr.get("")), mgr.get("") is mgr.get_default_namespace())
    emit(label, "final", d_mgr(mgr))


scenario("plain", NamespaceManager())
scenario("with-default", NamespaceManager(default="urn:d#"))
scenario("preloaded", NamespaceManager({"ex": "http://pre.org/", "alias": "urn:alias#"}))
scenario("child", NamespaceManager(parent=NamespaceManager({"ex": "http://example.org/"}, default="urn:pd#")))

# a user subclass whose uri property is read by the manager
loud_reads = []


class Counting(Namespace):
    @property
    def uri(self):
        loud_reads.append("uri")
        return self._uri


m = NamespaceManager({"c": "urn:taken#"})
r = m.add_namespace(Counting("c", "urn:counting#"))
emit("counting", d_ns(r), type(r).__name__, d_mgr(m))

# ------------------------------------------------------------- ProvBundle
def bundle_scenario(label, bundle):
    ex = Namespace("ex", "http://example.org/")
    calls = [
        ("ns object", lambda: bundle.add_namespace(ex)),
        ("ns object again", lambda: bundle.add_namespace(ex)),
        ("prefix+uri", lambda: bundle.add_namespace("ex2", "http://example.org/2/")),
        ("prefix+uri kw", lambda: bundle.add_namespace("ex3", uri="http://example.org/3/")),
        ("all kw", lambda: bundle.add_namespace(namespace_or_prefix="ex4", uri="http://example.org/4/")),
        ("same uri new prefix", lambda: bundle.add_namespace("other", "http://example.org/")),
        ("conflict", lambda: bundle.add_namespace("ex", "http://conflict.org/")),
        ("non-ascii", lambda: bundle.add_namespace("ü", "http://ü.example/é#")),
        ("ns + uri (prefix is a Namespace)", lambda: bundle.add_namespace(ex, "urn:weird#")),
        ("prefix only", lambda: bundle.add_namespace("lonely")),
        ("prefix + None", lambda: bundle.add_namespace("lonely", None)),
        ("empty uri", lambda: bundle.add_namespace("e", "")),
        ("blank uri", lambda: bundle.add_namespace("e", "   ")),
        ("zero uri", lambda: bundle.add_namespace("e", 0)),
        ("empty prefix", lambda: bundle.add_namespace("", "urn:emptyprefix#")),
        ("None", lambda: bundle.add_namespace(None)),
        ("no args", lambda: bundle.add_namespace()),
        ("3 args", lambda: bundle.add_namespace("a", "urn:a#", "x")),
    ]
    for name, fn in calls:
        r = attempt("%s add_namespace %s" % (label, name), fn)
        emit("   is given ex", r is ex)
    nss = bundle.namespaces
    emit(label, "namespaces", type(nss).__name__, sorted(d_ns(n) for n in nss), nss is not bundle.namespaces)
    nss.clear()
    emit(label, "namespaces copy independent", len(bundle.namespaces), type(bundle.get_registered_namespaces()).__name__)
    for uri in ("urn:bd#", "urn:bd2#", "", " ", None, "é"):
        r = attempt("%s set_default %r" % (label, uri), lambda: bundle.set_default_namespace(uri), repr)
        emit("   default", d_ns(bundle.get_default_namespace()), bundle.default_ns_uri)
    bundle.entity("ex:e", {"ü:k": "v"})
    bundle.entity("ex:e")
    bundle.entity("unprefixed")
    emit(label, "provn\n" + bundle.get_provn())
    emit(label, "state", d_mgr(bundle._namespaces))


doc = ProvDocument()
bundle_scenario("doc", doc)
b = doc.bundle("ex:b")
bundle_scenario("bundle", b)
bundle_scenario("free", ProvBundle(identifier=Namespace("f", "urn:f#")["free"]))
doc2 = ProvDocument(namespaces=[Namespace("ex", "http://pre.org/")])
doc2.set_default_namespace("urn:pre-default#")
bundle_scenario("doc-preloaded", doc2)
for d_label, d in (("doc", doc), ("doc2", doc2)):
    attempt(d_label + " provn", lambda: d.get_provn(), str)
    attempt(d_label + " json", lambda: d.serialize(format="json", indent=1), str)
    attempt(d_label + " xml", lambda: d.serialize(format="xml"), str)
    attempt(d_label + " rdf", lambda: d.serialize(format="rdf", rdf_format="nt"), lambda t: "\n".join(sorted(t.split("\n"))))

text = "\n".join(OUT)
print(text)
print("DIGEST", hashlib.sha256(text.encode("utf-8")).hexdigest())
