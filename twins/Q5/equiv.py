# Shared corpus builder (copied verbatim into every equiv.py so each is self-contained)
import datetime, hashlib, io, os, sys, tempfile, traceback, contextlib

# -- determinism: fixed string hashing (attribute sets) and counted rdflib blank nodes
if os.environ.get("PYTHONHASHSEED") != "0":
    os.environ["PYTHONHASHSEED"] = "0"
    os.execv(sys.executable, [sys.executable] + sys.argv)
import rdflib.term as _rt


class _CountedUUID:
    n = 0

    def __call__(self):
        type(self).n += 1
        return self

    @property
    def hex(self):
        return "%032x" % type(self).n


_rt.uuid4 = _CountedUUID()

from prov.model import ProvDocument, Namespace, Literal, PROV, Identifier, QualifiedName
from prov.tests import examples


def edge_doc(odd_ns=False):
    d = ProvDocument()
    d.set_default_namespace("http://default.example/")
    ex = d.add_namespace("ex", "http://example.org/")
    if odd_ns:
        d.add_namespace("odd", "http://example.org/odd path/#")
    e1 = d.entity("ex:e1", {"prov:label": "café ☃ <&> \"q\" 'a'", "ex:n": 1, "ex:f": 2.5,
                            "ex:b": True, "ex:s": "", "ex:uri": Identifier("http://x.org/a?b=c&d"),
                            "ex:q": ex["qn"], "ex:t": datetime.datetime(2020, 1, 2, 3, 4, 5, 678)})
    # repeated identifier, several values for one attribute
    d.entity("ex:e1", {"ex:n": 2, "prov:type": ex["T"]})
    d.entity("ex:e1", [("ex:tag", "a"), ("ex:tag", "b"), ("ex:tag", Literal("c", langtag="en"))])
    d.entity("noprefix")
    a = d.activity("ex:a1", datetime.datetime(2012, 3, 4, 5, 6, 7), None, {"prov:type": "ex:edit"})
    ag = d.agent("ex:ag", {"prov:type": PROV["Person"], "prov:location": "Paris",
                           "prov:value": Literal("10", datatype=ex["dt"])})
    d.wasGeneratedBy(e1, a, datetime.datetime(2012, 3, 4, 5, 6, 8), identifier="ex:g1",
                     other_attributes={"prov:role": "writer"})
    d.wasGeneratedBy(e1, a)
    d.used(a, e1)
    d.used(a, None, None, {"ex:why": "unknown"})
    d.wasAssociatedWith(a, ag, "ex:plan")
    d.actedOnBehalfOf(ag, "ex:boss", a)
    d.wasDerivedFrom("ex:e2", e1, other_attributes={"prov:type": PROV["Revision"]})
    d.alternateOf("ex:e2", e1)
    d.specializationOf("ex:e2", e1)
    d.hadMember("ex:coll", e1)
    d.hadMember("ex:coll", "ex:e2")
    d.wasStartedBy(a, e1, None, datetime.datetime(2012, 1, 1))
    d.wasEndedBy(a, None, None, None)
    d.wasInvalidatedBy(e1, a, identifier="ex:inv")
    d.wasInformedBy("ex:a2", a)
    d.wasAttributedTo(e1, ag)
    d.wasInfluencedBy(e1, ag, identifier="ex:infl")
    b = d.bundle("ex:bundle1")
    b.add_namespace("bx", "http://bundle.example/ns#")
    b.entity("bx:inner", {"prov:label": Literal("hallo", langtag="de")})
    b.entity("ex:e1")
    b.mentionOf("bx:inner", "ex:e1", "ex:bundle1") if hasattr(b, "mentionOf") else None
    d.bundle("ex:emptybundle")
    return d


def corpus():
    docs = [("empty", ProvDocument())]
    only_ns = ProvDocument()
    only_ns.add_namespace("ex", "http://example.org/")
    docs.append(("only_ns", only_ns))
    for name, fn in examples.tests:
        docs.append((name, fn()))
    docs.append(("edge", edge_doc()))
    docs.append(("edge_oddns", edge_doc(odd_ns=True)))
    return docs


def digest(data):
    if isinstance(data, str):
        data = data.encode("utf-8")
    return hashlib.sha256(data).hexdigest()[:16]


def attempt(label, fn):
    """Run fn, print a deterministic line for its result or its exception."""
    out = io.StringIO()
    try:
        with contextlib.redirect_stdout(out):
            res = fn()
        if isinstance(res, (bytes, str)):
            shown = "%s len=%d sha=%s" % (type(res).__name__, len(res), digest(res))
        else:
            shown = repr(res)
        print("%-60s OK  %s  stdout=%r" % (label, shown, out.getvalue()))
    except BaseException as exc:  # noqa
        ctx = type(exc.__context__).__name__ if exc.__context__ is not None else None
        print("%-60s EXC %s: %s  ctx=%s  stdout=%r" % (label, type(exc).__name__, exc, ctx, out.getvalue()))


# ---- refactoring 5: prov.read and prov.serializers.get / Registry
import prov
from prov import serializers
from prov.serializers import Registry, DoNotExist, get


class CountingStream:
    """wraps a stream and records how it is used"""

    def __init__(self, inner):
        self.inner = inner
        self.log = []

    def read(self, *a):
        self.log.append(("read", a))
        return self.inner.read(*a)


class ExplodingStream:
    def read(self, *a):
        raise RuntimeError("cannot read")


def canon_bundle(b):
    # reading RDF yields records and attributes in an unstable order, so compare order-insensitively
    recs = sorted(
        (str(r.get_type()), str(r.identifier), tuple(sorted((str(k), repr(v)) for k, v in r.attributes)))
        for r in b.get_records()
    )
    nss = sorted((ns.prefix, ns.uri) for ns in b.namespaces)
    return repr((str(b.identifier), nss, recs))


def show(doc):
    if isinstance(doc, ProvDocument):
        parts = [canon_bundle(doc)] + sorted(canon_bundle(b) for b in doc.bundles)
        return "doc records=%d bundles=%d canon=%s" % (len(doc.get_records()), len(list(doc.bundles)), digest("\n".join(parts)))
    return repr(doc)


docs = corpus()
import shutil
tmp = os.path.join(tempfile.gettempdir(), "twin3_Q_equiv5")  # fixed name: it shows up in error messages
shutil.rmtree(tmp, ignore_errors=True)
os.mkdir(tmp)
print("registry before anything:", Registry.serializers)
for name, doc in docs:
    for fmt in ("json", "xml", "rdf", "provn"):
        try:
            text = doc.serialize(format=fmt)
        except Exception as exc:
            print(name, fmt, "cannot serialise", type(exc).__name__)
            continue
        path = os.path.join(tmp, "%s.%s" % (name.replace(" ", "_"), fmt))
        with open(path, "w", encoding="utf-8") as fh:
            fh.write(text)
        tag = "%s/%s" % (name, fmt)
        before = Registry.serializers
        attempt(tag + " read(path)", lambda: show(prov.read(path)))
        print("   registry reloaded:", before is not Registry.serializers, list(Registry.serializers))
        attempt(tag + " read(path, fmt)", lambda: show(prov.read(path, fmt)))
        attempt(tag + " read(path, FMT upper)", lambda: show(prov.read(path, format=fmt.upper())))
        attempt(tag + " read(StringIO)", lambda: show(prov.read(io.StringIO(text))))
        attempt(tag + " read(BytesIO)", lambda: show(prov.read(io.BytesIO(text.encode("utf-8")))))
        attempt(tag + " read(BytesIO, fmt)", lambda: show(prov.read(io.BytesIO(text.encode("utf-8")), fmt)))
        def counted():
            s = CountingStream(io.StringIO(text))
            r = show(prov.read(s))
            return "%s log=%r" % (r, s.log)
        attempt(tag + " read(counting)", counted)
        def counted_fmt():
            s = CountingStream(io.BytesIO(text.encode("utf-8")))
            r = show(prov.read(s, format=fmt))
            return "%s log=%r" % (r, s.log)
        attempt(tag + " read(counting, fmt)", counted_fmt)
        with open(path, "rb") as fh:
            attempt(tag + " read(open rb)", lambda: show(prov.read(fh)))
            print("   position after:", fh.tell() == os.path.getsize(path))

garbage = os.path.join(tmp, "garbage.txt")
open(garbage, "w").write("this is not provenance {{{ <<<")
empty = os.path.join(tmp, "empty.txt")
open(empty, "w").close()
for label, src in (("garbage path", garbage), ("empty path", empty), ("missing path", os.path.join(tmp, "nope")),
                   ("None", None), ("int", 5), ("empty string", ""), ("dir", tmp),
                   ("garbage StringIO", io.StringIO("@@@")), ("empty BytesIO", io.BytesIO(b"")),
                   ("exploding", ExplodingStream()), ("json text as str", '{"entity": {"e": {}}}')):
    for fmt in (None, "", "json", "xml", "rdf", "provn", "nope", 0):
        if hasattr(src, "seek"):
            src.seek(0)
        attempt("read(%s, %r)" % (label, fmt), lambda: show(prov.read(src, fmt)))
attempt("read() keyword form", lambda: show(prov.read(source=io.StringIO('{"entity": {"e": {}}}'), format=None)))
attempt("read bad format type", lambda: show(prov.read(garbage, format=["json"])))

# --- get / Registry
Registry.serializers = None
print("reset:", Registry.serializers)
for key in ("json", "rdf", "provn", "xml", "JSON", " json", "", "yaml", None, 0, ("json",), ("a", "b"), (), b"json",
            frozenset(), 1.5):
    attempt("get(%r)" % (key,), lambda: "%s.%s" % (get(key).__module__, get(key).__name__))
for key in ([], {}, set()):
    attempt("get(unhashable %r)" % (key,), lambda: get(key))
print("loaded:", [(k, v.__name__) for k, v in Registry.serializers.items()])
same = Registry.serializers
get("json")
print("get does not reload:", same is Registry.serializers)
Registry.load_serializers()
print("explicit load replaces:", same is not Registry.serializers, list(Registry.serializers))
# a user-extended registry is honoured by get and by read
class Fake(serializers.Serializer):
    def deserialize(self, stream, **kw):
        return "FAKE(%r)" % stream.read()
Registry.serializers["fake"] = Fake
attempt("get(fake)", lambda: get("fake").__name__)
attempt("read with fake format", lambda: show(prov.read(io.StringIO("zzz"), "fake")))
attempt("read autodetect ignores additions (reload)", lambda: show(prov.read(io.StringIO("zzz"))))
Registry.serializers = {}
attempt("get on emptied registry", lambda: get("json"))
Registry.serializers = None
attempt("get after reset", lambda: get("json").__name__)
print("public names:", sorted(n for n in dir(serializers) if not n.startswith("_")), sorted(n for n in dir(prov) if not n.startswith("_")))
import shutil
shutil.rmtree(tmp)
