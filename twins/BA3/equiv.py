"""Differential script for change 3 (type hints, docstrings and tidy-ups in the
datatype parsing helpers: _ensure_datetime, parse_xsd_datetime, parse_boolean,
parse_xsd_types, first)."""
import os
import sys

if os.environ.get("PYTHONHASHSEED") != "0":
    os.environ["PYTHONHASHSEED"] = "0"
    os.execv(sys.executable, [sys.executable] + sys.argv)

import datetime
import hashlib
import inspect

import prov.model as pm
from prov.model import (
    ProvDocument,
    Literal,
    parse_xsd_datetime,
    parse_boolean,
    parse_xsd_types,
    first,
    _ensure_datetime,
)
from prov.constants import (
    XSD_STRING,
    XSD_DOUBLE,
    XSD_LONG,
    XSD_INT,
    XSD_BOOLEAN,
    XSD_DATETIME,
    XSD_ANYURI,
    XSD_FLOAT,
    XSD_QNAME,
    PROV,
)
from prov.identifier import Identifier

out = []


def emit(*parts):
    out.append(" | ".join(str(p) for p in parts))


def show(a):
    # iterators/generators print their address: show the type name only
    return type(a).__name__ if hasattr(a, "__next__") else repr(a)


def call(tag, fn, *args):
    shown = [show(a) for a in args]
    try:
        r = fn(*args)
        emit(tag, shown, "->", type(r).__name__, repr(r))
    except BaseException as exc:  # noqa: every kind of error must stay the same
        emit(tag, shown, "RAISES", type(exc).__name__, str(exc)[:120])


class Counting(str):
    """A str whose lower() is observable (result only, not the number of calls)."""

    def lower(self):
        return "true"


datetimes = [
    "2011-11-16T16:05:00",
    "2011-11-16T16:05:00.123456+01:00",
    "2011-11-16T16:05:00Z",
    "2011-11-16",
    "16 Nov 2011 4pm",
    "",
    " ",
    "not a date",
    "2011-13-45T25:61:61",
    "99999999999999999999",
    "٢٠١١-١١-١٦",
    "2011-11-16T16:05:00 héllo",
    "0",
    "1e400",
    None,
    42,
    4.2,
    b"2011-11-16",
    datetime.datetime(2011, 11, 16),
    ("2011", "11"),
    [],
]
for v in datetimes:
    call("parse_xsd_datetime", parse_xsd_datetime, v)
    call("_ensure_datetime", _ensure_datetime, v)

booleans = [
    "true", "True", "TRUE", "tRuE", "1", "false", "False", "FALSE", "0", "", " true", "true ",
    "yes", "no", "01", "１", "TRUEİ", "ﬁ", "ı", "İ", b"true", b"0", b"x", Counting("whatever"),
    None, 1, 0, True, 1.0, [], ("true",),
]
for v in booleans:
    call("parse_boolean", parse_boolean, v)

types = [XSD_STRING, XSD_DOUBLE, XSD_LONG, XSD_INT, XSD_BOOLEAN, XSD_DATETIME, XSD_ANYURI,
         XSD_FLOAT, XSD_QNAME, PROV["InternationalizedString"], None, "xsd:int",
         Identifier(XSD_INT.uri), 5, [], {}]
values = ["1", "1.5", "-0", "1e3", "nan", "INF", "true", "FALSE", "maybe", "", "héllo ✓",
          "2020-01-02T03:04:05", "http://example.org/ü", "12abc", " 7 ", "0x10", None, 3, 2.5, b"1"]
for t in types:
    for v in values:
        call("parse_xsd_types", parse_xsd_types, v, t)

for v in [set(), {1}, [], [3, 2, 1], (), (None, 1), "", "héllo", {}, {"k": "v"}, iter([5, 6]),
          frozenset(), range(0), range(3, 9), (x for x in "ab"), None, 5]:
    call("first", first, v)
g = iter([1, 2, 3])
emit("first-consumes-one", first(g), list(g))

# the table the functions are registered in still points at them
emit("tables", sorted((str(k), v.__name__) for k, v in pm.XSD_DATATYPE_PARSERS.items()),
     [(k.__name__, v.__name__) for k, v in pm.DATATYPE_PARSERS.items()])
for fn in (parse_xsd_datetime, parse_boolean, parse_xsd_types, first, _ensure_datetime):
    sig = inspect.signature(fn)
    emit("signature", fn.__name__, list(sig.parameters),
         [(p.kind.name, p.default is inspect.Parameter.empty) for p in sig.parameters.values()])

# through the callers: add_attributes / _auto_literal_conversion / set_time
d = ProvDocument()
d.set_default_namespace("http://default.example/")
d.add_namespace("ex", "http://example.org/")
lits = [
    Literal("true", XSD_BOOLEAN), Literal("0", XSD_BOOLEAN), Literal("maybe", XSD_BOOLEAN),
    Literal("12", XSD_INT), Literal("12.5", XSD_DOUBLE), Literal("x12", XSD_INT) if False else Literal("7", XSD_LONG),
    Literal("2020-01-02T03:04:05", XSD_DATETIME), Literal("never", XSD_DATETIME),
    Literal("http://example.org/ü", XSD_ANYURI), Literal("héllo", XSD_STRING), Literal("", XSD_STRING),
    Literal("1.5", XSD_FLOAT), Literal("x", d.valid_qualified_name("ex:t")), Literal("plain"),
    Literal("bonjour", langtag="fr"), Literal(5), Literal(True),
]
for i, lit in enumerate(lits):
    try:
        e = d.entity("ex:e%d" % i, {"ex:v": lit})
        (val,) = e.get_attribute("ex:v")
        emit("literal", repr(lit), "->", type(val).__name__, repr(val), e.get_provn())
    except Exception as exc:  # noqa
        emit("literal", repr(lit), "RAISES", type(exc).__name__, str(exc))
for bad in (Literal("x12", XSD_INT), Literal("abc", XSD_DOUBLE)):
    try:
        d.entity("ex:bad", {"ex:v": bad})
        emit("bad", repr(bad), "accepted")
    except Exception as exc:  # noqa
        emit("bad", repr(bad), "RAISES", type(exc).__name__, str(exc))

for t in ["2011-11-16T16:05:00", datetime.datetime(2012, 1, 1), "not a time", "", 5, None]:
    for maker in ("activity", "generation", "set_time"):
        try:
            if maker == "activity":
                r = d.activity("ex:a", t, t)
            elif maker == "generation":
                r = d.generation("ex:e", "ex:a", t)
            else:
                r = d.activity("ex:a2")
                r.set_time(t, t)
            emit(maker, repr(t), r.get_provn(), [repr(a) for a in r.args])
        except BaseException as exc:  # noqa
            emit(maker, repr(t), "RAISES", type(exc).__name__, str(exc)[:120])

text = "\n".join(out)
print(text)
print("DIGEST", hashlib.sha256(text.encode("utf-8")).hexdigest())
