"""Differential script for the PROV-XML reader: _extract_attributes,
xml_qname_to_QualifiedName, deserialize, deserialize_subtree (hand written XML
inputs incl. edge cases).  Prints a deterministic digest."""
import os
import sys

if os.environ.get("PYTHONHASHSEED") != "0":
    os.environ["PYTHONHASHSEED"] = "0"
    os.execv(sys.executable, [sys.executable] + sys.argv)

import hashlib
import io
import warnings

from lxml import etree

import prov.model as pm
from prov.serializers import provxml
from prov.serializers.provxml import ProvXMLSerializer

HEAD = (
    '<prov:document xmlns:prov="http://www.w3.org/ns/prov#" '
    'xmlns:xsi="http://www.w3.org/2001/XMLSchema-instance" '
    'xmlns:xsd="http://www.w3.org/2001/XMLSchema" '
    'xmlns:ex="http://example.org/" %s>'
)
TAIL = "</prov:document>"


def xml(body, extra=""):
    return (HEAD % extra) + body + TAIL


CASES = {
    "empty document": xml(""),
    "entity no attrs": xml('<prov:entity prov:id="ex:e"/>'),
    "entity no id": xml("<prov:entity><ex:a>1</ex:a></prov:entity>"),
    "plain text values": xml(
        '<prov:entity prov:id="ex:e"><ex:a>text</ex:a><ex:b/><ex:c></ex:c>'
        "<ex:d>  spaced  </ex:d><ex:a>text</ex:a><prov:label>l</prov:label></prov:entity>"
    ),
    "xsi types": xml(
        '<prov:entity prov:id="ex:e">'
        '<ex:i xsi:type="xsd:int">5</ex:i>'
        '<ex:f xsi:type="xsd:double">2.5</ex:f>'
        '<ex:b xsi:type="xsd:boolean">true</ex:b>'
        '<ex:dt xsi:type="xsd:dateTime">2012-03-04T05:06:07</ex:dt>'
        '<ex:u xsi:type="xsd:anyURI">http://x/y</ex:u>'
        '<ex:s xsi:type="xsd:string">str</ex:s>'
        '<ex:q xsi:type="xsd:QName">ex:qualified</ex:q>'
        '<ex:q2 xsi:type="xsd:QName">prov:Person</ex:q2>'
        '<ex:custom xsi:type="ex:mytype">payload</ex:custom>'
        '<ex:emptytyped xsi:type="xsd:string"/>'
        '<prov:type xsi:type="xsd:QName">prov:Plan</prov:type>'
        '<prov:value xsi:type="xsd:int">10</prov:value>'
        "</prov:entity>"
    ),
    "lang": xml(
        '<prov:entity prov:id="ex:e"><prov:label xml:lang="fr">bonjour</prov:label>'
        '<ex:l xml:lang="en-GB"/><ex:l xml:lang="">x</ex:l></prov:entity>'
    ),
    "refs": xml(
        '<prov:activity prov:id="ex:a"/><prov:entity prov:id="ex:e"/>'
        '<prov:used><prov:activity prov:ref="ex:a"/><prov:entity prov:ref="ex:e"/>'
        "<prov:time>2011-11-16T16:05:00</prov:time></prov:used>"
        '<prov:wasGeneratedBy prov:id="ex:g"><prov:entity prov:ref="ex:e"/>'
        '<prov:activity prov:ref="ex:a"/><prov:role xsi:type="xsd:QName">ex:writer</prov:role>'
        "</prov:wasGeneratedBy>"
    ),
    "several attributes on one element": xml(
        '<prov:entity prov:id="ex:e">'
        '<ex:a xsi:type="xsd:string" xml:lang="de">both</ex:a>'
        '<ex:b xml:lang="de" xsi:type="xsd:string">both reversed</ex:b>'
        '<ex:c prov:ref="ex:target" xsi:type="xsd:int">7</ex:c>'
        '<ex:d xsi:type="xsd:QName" prov:ref="ex:target">ex:text</ex:d>'
        '<ex:e xml:lang="it" prov:ref="ex:target" xsi:type="xsd:QName">ex:t</ex:e>'
        "</prov:entity>"
    ),
    "unknown attributes warn": xml(
        '<prov:entity prov:id="ex:e">'
        '<ex:a foo="bar">v</ex:a>'
        '<ex:b ex:foo="bar" xsi:type="xsd:int" other="&lt;x&gt;">3</ex:b>'
        '<ex:c xsi:type="xsd:int" ex:late="1">3</ex:c>'
        '<ex:d prov:id="ex:notanid">4</ex:d>'
        '<ex:e xsi:nil="true"/>'
        "</prov:entity>"
    ),
    "default namespace": xml(
        '<prov:entity prov:id="plainid"><attr>v</attr><attr2 xsi:type="xsd:QName">local</attr2>'
        '<ex:r prov:ref="noprefix"/><ex:u xsi:type="unknown:thing">x</ex:u></prov:entity>',
        'xmlns="http://default.example/"',
    ),
    "unknown prefix no default": xml(
        '<prov:entity prov:id="ex:e"><ex:u xsi:type="unknown:thing">x</ex:u></prov:entity>'
    ),
    "unprefixed ref no default": xml(
        '<prov:entity prov:id="ex:e"><ex:r prov:ref="noprefix"/></prov:entity>'
    ),
    "unprefixed qname text no default": xml(
        '<prov:entity prov:id="ex:e"><ex:r xsi:type="xsd:QName">noprefix</ex:r></prov:entity>'
    ),
    "unprefixed id no default": xml('<prov:entity prov:id="bare"/>'),
    "colons": xml(
        '<prov:entity prov:id="ex:a:b:c"><ex:r prov:ref="ex:x:y"/>'
        '<ex:q xsi:type="xsd:QName">ex::</ex:q></prov:entity>'
    ),
    "locally declared namespace": xml(
        '<prov:entity prov:id="ex:e"><loc:p xmlns:loc="urn:local:" prov:ref="loc:t">'
        "</loc:p><x xmlns=\"urn:dflt:\">v</x></prov:entity>"
    ),
    "xsd with hash and alt prefix": xml(
        '<prov:entity prov:id="ex:e" xmlns:xs="http://www.w3.org/2001/XMLSchema" '
        'xmlns:xh="http://www.w3.org/2001/XMLSchema#" xmlns:p2="http://www.w3.org/ns/prov#">'
        '<ex:a xsi:type="xs:int">1</ex:a><ex:b xsi:type="xh:int">2</ex:b>'
        '<ex:c xsi:type="xs:QName">p2:Person</ex:c><p2:type xsi:type="xs:QName">p2:Person</p2:type>'
        "</prov:entity>"
    ),
    "comments": xml(
        "<!-- top --><prov:entity prov:id=\"ex:e\"><!-- inner --><ex:a>v<!-- mid -->w</ex:a></prov:entity>"
    ),
    "other element": xml(
        '<prov:other><ex:foo>bar</ex:foo></prov:other><prov:entity prov:id="ex:e"/>'
        "<prov:other/>"
    ),
    "non prov element": xml('<prov:entity prov:id="ex:e"/><ex:alien/>'),
    "unknown prov element": xml('<prov:nonsense prov:id="ex:e"/>'),
    "record level xsi:type": xml(
        '<prov:entity prov:id="ex:e" xsi:type="ex:Special"><ex:a>1</ex:a></prov:entity>'
        '<prov:agent prov:id="ex:ag" xsi:type="prov:Person"/>'
    ),
    "subtype elements": xml(
        '<prov:person prov:id="ex:p"><ex:n>Bob</ex:n></prov:person>'
        '<prov:organization prov:id="ex:o"/><prov:softwareAgent prov:id="ex:s"/>'
        '<prov:plan prov:id="ex:pl"/><prov:collection prov:id="ex:c"/>'
        '<prov:emptyCollection prov:id="ex:ec"/><prov:bundle prov:id="ex:b"/>'
        '<prov:wasRevisionOf><prov:generatedEntity prov:ref="ex:pl"/>'
        '<prov:usedEntity prov:ref="ex:c"/></prov:wasRevisionOf>'
        '<prov:wasQuotedFrom prov:id="ex:q"><prov:generatedEntity prov:ref="ex:pl"/>'
        '<prov:usedEntity prov:ref="ex:c"/><prov:type xsi:type="xsd:QName">ex:T</prov:type>'
        "</prov:wasQuotedFrom>"
        '<prov:hadPrimarySource><prov:generatedEntity prov:ref="ex:pl"/>'
        '<prov:usedEntity prov:ref="ex:c"/></prov:hadPrimarySource>'
    ),
    "bundles": xml(
        '<prov:entity prov:id="ex:e"/>'
        '<prov:bundleContent prov:id="ex:b1"><prov:entity prov:id="ex:e"><ex:in>b1</ex:in></prov:entity>'
        '<prov:other>zzz</prov:other></prov:bundleContent>'
        '<prov:bundleContent prov:id="ex:b2" xmlns:ex="http://example.org/2/">'
        '<prov:entity prov:id="ex:e"/></prov:bundleContent>'
        '<prov:bundleContent prov:id="ex:b3"/>'
    ),
    "duplicate bundle id": xml(
        '<prov:bundleContent prov:id="ex:b1"/><prov:bundleContent prov:id="ex:b1"/>'
    ),
    "bundle without id": xml("<prov:bundleContent><prov:entity prov:id=\"ex:e\"/></prov:bundleContent>"),
    "nested bundle": xml(
        '<prov:bundleContent prov:id="ex:b1"><prov:bundleContent prov:id="ex:b2"/></prov:bundleContent>'
    ),
    "repeated ids": xml(
        '<prov:entity prov:id="ex:e"><ex:a>1</ex:a></prov:entity>'
        '<prov:entity prov:id="ex:e"><ex:a>2</ex:a></prov:entity>'
        '<prov:entity prov:id="ex:e"/>'
    ),
    "unusual characters": xml(
        '<prov:entity prov:id="ex:é-ü_1.2"><ex:t>&lt;tag&gt; &amp; “quotes” 中文 &#10;nl</ex:t>'
        '<ex:l xml:lang="zh">中文</ex:l><ex:c><![CDATA[<raw> & stuff]]></ex:c></prov:entity>'
    ),
    "child elements in attribute": xml(
        '<prov:entity prov:id="ex:e"><ex:a>head<ex:inner>x</ex:inner>tail</ex:a></prov:entity>'
    ),
    "not xml": "this is not xml",
    "wrong root": '<root xmlns:prov="http://www.w3.org/ns/prov#"><prov:entity prov:id="x"/></root>',
}


def show(label, value):
    value = str(value)
    print("%-46s %s len=%d" % (label, hashlib.sha256(value.encode("utf-8")).hexdigest()[:16], len(value)))


def attempt(label, fn):
    with warnings.catch_warnings(record=True) as w:
        warnings.simplefilter("always")
        try:
            res = fn()
        except Exception as exc:  # noqa
            res = "EXC %s: %s" % (type(exc).__name__, exc)
        warns = [(x.category.__name__, str(x.message)) for x in w]
    show(label, "%s\nWARN=%r" % (res, warns))
    if isinstance(res, str) and res.startswith("EXC "):
        print("    " + res[:160].replace("\n", " "))
    for cat, msg in warns:
        print("    %s: %s" % (cat, msg[:160]))
    return res


def describe_value(v):
    if isinstance(v, pm.Literal):
        return "Literal(%r, %s, %r)" % (v.value, v.datatype.uri if v.datatype else None, v.langtag)
    if isinstance(v, pm.QualifiedName):
        return "QN(%s|%s|%s)" % (v.namespace.prefix, v.namespace.uri, v.localpart)
    return "%s(%r)" % (type(v).__name__, v)


def describe_attrs(attrs):
    return "\n".join("%s = %s" % (describe_value(k), describe_value(v)) for k, v in attrs)


def describe_doc(doc):
    out = [doc.get_provn()]
    for bundle in [doc] + sorted(doc.bundles, key=lambda b: str(b.identifier)):
        out.append("BUNDLE %s" % (bundle.identifier,))
        out.append(repr(sorted((n.prefix, n.uri) for n in bundle.namespaces)))
        for rec in bundle.get_records():
            out.append(
                "%s %s %s"
                % (
                    rec.get_type(),
                    describe_value(rec.identifier) if rec.identifier else None,
                    sorted("%s = %s" % (describe_value(k), describe_value(v)) for k, v in rec.attributes),
                )
            )
    return "\n".join(out)


def main():
    for name, text in CASES.items():
        data = text.encode("utf-8")
        attempt("deserialize bytes: " + name, lambda: describe_doc(ProvXMLSerializer().deserialize(io.BytesIO(data))))
        attempt("deserialize text:  " + name, lambda: describe_doc(ProvXMLSerializer().deserialize(io.StringIO(text))))
        attempt("ProvDocument.deserialize: " + name, lambda: describe_doc(pm.ProvDocument.deserialize(content=text, format="xml")))

        # _extract_attributes / xml_qname_to_QualifiedName on every element
        def per_element():
            root = etree.fromstring(data)
            out = []
            for el in root.iter():
                if not isinstance(el.tag, str):
                    continue
                try:
                    out.append("%s ->\n%s" % (el.tag, describe_attrs(provxml._extract_attributes(el))))
                except Exception as exc:  # noqa
                    out.append("%s -> EXC %s: %s" % (el.tag, type(exc).__name__, exc))
                for probe in ("ex:x", "prov:Person", "xsd:int", "nope:x", "bare", "", ":", "ex:", ":x", "a:b:c", el.text or ""):
                    try:
                        out.append("  %r => %s" % (probe, describe_value(provxml.xml_qname_to_QualifiedName(el, probe))))
                    except Exception as exc:  # noqa
                        out.append("  %r => EXC %s: %s" % (probe, type(exc).__name__, exc))
            return "\n".join(out)

        attempt("per element helpers: " + name, per_element)

        # deserialize_subtree into an existing, pre-populated bundle
        def subtree():
            root = etree.fromstring(data)
            doc = pm.ProvDocument()
            doc.add_namespace("ex", "http://example.org/")
            doc.entity("ex:pre")
            target = doc.bundle("ex:target")
            ret = ProvXMLSerializer().deserialize_subtree(root, target)
            return "%s\n%s" % (ret is target, describe_doc(doc))

        attempt("deserialize_subtree: " + name, subtree)

        # re-serialise what was read
        def reser():
            doc = ProvXMLSerializer().deserialize(io.BytesIO(data))
            buf = io.BytesIO()
            ProvXMLSerializer(doc).serialize(buf, force_types=True)
            return buf.getvalue().decode("utf-8")

        attempt("reserialize: " + name, reser)

    # stream kinds
    good = CASES["xsi types"]
    attempt("deserialize from filename", lambda: _from_file(good))
    attempt("deserialize None", lambda: ProvXMLSerializer().deserialize(None))
    attempt("deserialize empty bytes", lambda: ProvXMLSerializer().deserialize(io.BytesIO(b"")))
    attempt("deserialize empty text", lambda: ProvXMLSerializer().deserialize(io.StringIO("")))
    attempt(
        "deserialize text with declaration",
        lambda: ProvXMLSerializer().deserialize(io.StringIO('<?xml version="1.0" encoding="UTF-8"?>' + good)),
    )
    # ns helpers
    for fn in ("_ns_prov", "_ns_xsi", "_ns_xml"):
        for tag in ("id", "", "a b", "{x}", "é"):
            show("%s(%r)" % (fn, tag), getattr(provxml, fn)(tag))
    import datetime, decimal
    from prov.constants import PROV, PROV_TYPE
    for ns, tag in (
        ("http://a/", "t"), ("", ""), ("{", "}"), ("%s", "%d"), ("{0}", "{ns}"), (None, None), (1, 2.50),
        (PROV, PROV_TYPE), (("a", "b"), ["c"]), (b"bytes", True), (decimal.Decimal("1.10"), datetime.date(2001, 2, 3)),
    ):
        show("_ns(%r, %r)" % (ns, tag), provxml._ns(ns, tag))


def _from_file(text):
    import tempfile

    fd, path = tempfile.mkstemp(suffix=".xml")
    os.close(fd)
    try:
        with open(path, "w", encoding="utf-8") as fh:
            fh.write(text)
        a = describe_doc(ProvXMLSerializer().deserialize(path))
        with open(path, "rb") as fh:
            b = describe_doc(ProvXMLSerializer().deserialize(fh))
        return a + "\n" + b
    finally:
        os.unlink(path)


if __name__ == "__main__":
    main()
