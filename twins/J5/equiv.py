"""Differential script for refactoring 5: ProvBundle.update / ProvDocument.update / new_record / get_record."""
import os, sys
if os.environ.get("PYTHONHASHSEED") != "0":
    os.environ["PYTHONHASHSEED"] = "0"
    os.execv(sys.executable, [sys.executable] + sys.argv)

import datetime, hashlib, glob, collections
import prov.model as pm
from prov.model import (ProvDocument, ProvBundle, ProvRecord, Literal, Identifier, ProvException,
                        PROV_ENTITY, PROV_ACTIVITY, PROV_GENERATION, PROV_USAGE, PROV_MEMBERSHIP,
                        PROV_ATTR_ENTITY, PROV_ATTR_ACTIVITY, PROV_ATTR_TIME, PROV_LABEL, PROV_TYPE)
from prov.identifier import Namespace
# Harness-only: make Identifier hashing reproducible between runs (it mixes in hash(cls)).
Identifier.__hash__ = lambda self: hash((self.uri, self.__class__.__name__))

out = []
def emit(*a):
    out.append(" ".join(str(x) for x in a))

EX = Namespace("ex", "http://example.org/")
t = datetime.datetime(2020, 1, 2, 3, 4, 5)

def ns_state(b):
    return (sorted((n.prefix, n.uri) for n in b.get_registered_namespaces()),
            getattr(b.get_default_namespace(), "uri", None))

def describe(tag, b):
    emit(tag, type(b).__name__, b.identifier, "n=%d" % len(b._records),
         sorted((str(k), len(v)) for k, v in b._id_map.items()), ns_state(b))
    for r in b._records:
        emit("   ", type(r).__name__, r.get_provn(), r.bundle is b)
    if b.is_document():
        for k, sub in b._bundles.items():
            describe("  sub[%s]" % k, sub)
            emit("  sub link", sub.document is b, sub._namespaces.parent is b._namespaces)

def attempt(tag, fn):
    try:
        res = fn()
        emit(tag, "->", res if not isinstance(res, ProvRecord) else res.get_provn())
        return res
    except Exception as ex:
        emit(tag, "EXC", type(ex).__name__, str(ex))

def sample(container, with_ns=True):
    if with_ns:
        container.add_namespace(EX)
    container.entity("ex:e1", {"prov:label": "é \"q\"\n%s"})
    container.entity("ex:e1", {"ex:k": 1})
    container.activity("ex:a1", t)
    container.generation("ex:e1", "ex:a1", t, "ex:g")
    container.usage("ex:a1", "ex:e1")
    return container

# ---------------------------------------------------------------- new_record
emit("##### new_record")
d = ProvDocument(); d.add_namespace(EX)
OD = collections.OrderedDict
cases = [
    ("no attrs", (PROV_ENTITY, "ex:e"), {}),
    ("None/None", (PROV_ENTITY, "ex:e", None, None), {}),
    ("empty dict/list", (PROV_ENTITY, "ex:e", {}, []), {}),
    ("dict attrs", (PROV_ENTITY, "ex:e", {"prov:label": "l", "ex:k": 1}), {}),
    ("list attrs", (PROV_ENTITY, "ex:e", [("prov:label", "l"), ("prov:label", "m")]), {}),
    ("tuple attrs", (PROV_ENTITY, "ex:e", (("ex:k", 1),)), {}),
    ("generator attrs", (PROV_ENTITY, "ex:e", (x for x in [("ex:k", 1), ("ex:j", 2)])), {}),
    ("dict other", (PROV_ENTITY, "ex:e", None, {"ex:o": "é"}), {}),
    ("list other", (PROV_ENTITY, "ex:e", None, [("ex:o", 1), ("ex:o", 2)]), {}),
    ("both dicts", (PROV_ACTIVITY, "ex:a", {PROV_ATTR_TIME: t, "prov:startTime": t}, {"ex:o": 1}), {}),
    ("both lists", (PROV_GENERATION, None, [(PROV_ATTR_ENTITY, "ex:e"), (PROV_ATTR_ACTIVITY, "ex:a")], [("prov:role", "r")]), {}),
    ("ordered dicts", (PROV_USAGE, "ex:u", OD([(PROV_ATTR_ACTIVITY, "ex:a"), (PROV_ATTR_ENTITY, "ex:e")]), OD([("ex:z", 1), ("ex:y", 2)])), {}),
    ("keywords", (), dict(record_type=PROV_ENTITY, identifier="ex:kw", attributes=None, other_attributes={"ex:k": "v"})),
    ("dict keys iter (not dict)", (PROV_ENTITY, "ex:e", {"ex:k": 1}.items()), {}),
    ("bad attrs: list of non-pairs", (PROV_ENTITY, "ex:e", ["abc"]), {}),
    ("bad attrs: int", (PROV_ENTITY, "ex:e", 5), {}),
    ("bad other: int", (PROV_ENTITY, "ex:e", None, 5), {}),
    ("bad other: str", (PROV_ENTITY, "ex:e", None, "xy"), {}),
    ("unknown type + new ns id", ("nonsense", "unk:e"), {}),
    ("unknown type None", (None, "ex:e"), {}),
    ("element without id", (PROV_ENTITY, None), {}),
    ("invalid qname id", (PROV_ENTITY, "nope:e"), {}),
    ("conflicting formal", (PROV_ACTIVITY, "ex:a", [("prov:startTime", t), ("prov:startTime", datetime.datetime(1999, 1, 1))]), {}),
    ("membership", (PROV_MEMBERSHIP, None, {"prov:collection": "ex:c", "prov:entity": "ex:e"}), {}),
    ("identifier object", (PROV_ENTITY, EX["obj"], {EX["k"]: Literal("1", pm.XSD_INT)}), {}),
    ("unregistered ns identifier", (PROV_ENTITY, Namespace("fresh", "urn:fresh:")["x"]), {}),
]
for tag, args, kw in cases:
    n_before = len(d._records)
    r = attempt(tag, lambda: d.new_record(*args, **kw))
    emit("    added", len(d._records) - n_before, "last is result", bool(d._records) and d._records[-1] is r,
         "in id_map", r is not None and r.identifier is not None and any(x is r for x in d._id_map[r.identifier]))
emit("ns after new_record", ns_state(d))

class ItemsDict(dict):
    """dict subclass with a custom items()"""
    def items(self):
        return [("ex:from_items", 1)]
attempt("dict subclass attrs", lambda: d.new_record(PROV_ENTITY, "ex:sub", ItemsDict(a=1)))
attempt("dict subclass other", lambda: d.new_record(PROV_ENTITY, "ex:sub", None, ItemsDict(a=1)))
class Triples(dict):
    def items(self):
        return [("ex:a", 1, 2)]
attempt("dict subclass triples attrs", lambda: d.new_record(PROV_ENTITY, "ex:sub3", Triples(a=1)))
attempt("dict subclass triples other", lambda: d.new_record(PROV_ENTITY, "ex:sub3", None, Triples(a=1)))
describe("doc after new_record", d)

# ---------------------------------------------------------------- add_record / get_record
emit("##### get_record")
d = sample(ProvDocument())
b = sample(d.bundle("ex:b1"), with_ns=False)
b.entity("ex:only_in_bundle")
d.entity("ex:only_in_doc")
free = sample(ProvBundle(identifier=EX["free"]))
def show(x):
    if x is None: return None
    return [r.get_provn() for r in x]
for cname, c in (("doc", d), ("bundle", b)):
    for ident in (None, "ex:e1", EX["e1"], "ex:a1", "ex:g", "ex:only_in_bundle", "ex:only_in_doc", "ex:missing",
                  "nope:e", "no_default_ns", "", Identifier("http://example.org/e1")):
        keys_before = len(c._id_map)
        attempt("%s.get_record(%r)" % (cname, ident), lambda: show(c.get_record(ident)))
        emit("    id_map keys", keys_before, "->", len(c._id_map), "doc keys", len(d._id_map))
for ident in (None, "ex:e1", "ex:missing"):
    attempt("free.get_record(%r)" % (ident,), lambda: show(free.get_record(ident)))
# a mapping that does raise KeyError exercises the except branch (parent lookup)
for cname, c in (("doc", d), ("bundle", b)):
    saved = c._id_map
    c._id_map = dict(saved)
    for ident in ("ex:e1", "ex:only_in_doc", "ex:missing"):
        attempt("plain-dict %s.get_record(%r)" % (cname, ident), lambda: show(c.get_record(ident)))
    c._id_map = saved
saved = free._id_map; free._id_map = dict(saved)
attempt("plain-dict free.get_record missing (document is None)", lambda: show(free.get_record("ex:missing")))
free._id_map = saved

# ---------------------------------------------------------------- ProvBundle.update
emit("##### ProvBundle.update")
class Weird(object):
    pass
for tag, make_other in (
        ("bundle <- bundle", lambda: sample(ProvBundle(identifier=EX["src"]))),
        ("bundle <- empty bundle", lambda: ProvBundle()),
        ("bundle <- doc without bundles", lambda: sample(ProvDocument())),
        ("bundle <- doc with bundles", lambda: (lambda x: (sample(x.bundle("ex:bb"), False), x)[1])(sample(ProvDocument()))),
        ("bundle <- doc with empty bundle", lambda: (lambda x: (x.bundle("ex:bb"), x)[1])(sample(ProvDocument()))),
        ("bundle <- None", lambda: None), ("bundle <- str", lambda: "abc"), ("bundle <- list", lambda: []),
        ("bundle <- tuple", lambda: (1, 2)), ("bundle <- object", lambda: Weird()), ("bundle <- record", lambda: d._records[0]),
        ("bundle <- class", lambda: ProvBundle)):
    target = ProvBundle(identifier=EX["target"]); target.add_namespace("t", "urn:t:"); target.entity("t:pre")
    other = make_other()
    attempt(tag, lambda: target.update(other))
    describe("   target", target)
    if isinstance(other, ProvBundle):
        describe("   other", other)
tb = sample(ProvBundle(identifier=EX["selfy"]))
attempt("bundle <- itself", lambda: tb.update(tb)); describe("   self-updated", tb)
docbundle = d.bundle("ex:owned"); attempt("owned bundle <- doc w/o bundles", lambda: docbundle.update(sample(ProvDocument())))
attempt("owned bundle <- its own doc (has bundles)", lambda: docbundle.update(d))
describe("   owned", docbundle)

# ---------------------------------------------------------------- ProvDocument.update
emit("##### ProvDocument.update")
def doc_with(*bundle_ids, **kw):
    x = sample(ProvDocument())
    for bid in bundle_ids:
        sub = x.bundle(bid); sample(sub, False); sub.entity("ex:in_" + bid.split(":")[1])
    return x
for tag, make_target, make_other in (
        ("doc <- doc no bundles", lambda: doc_with(), lambda: doc_with()),
        ("doc <- empty doc", lambda: doc_with("ex:b1"), lambda: ProvDocument()),
        ("empty doc <- doc with bundles", lambda: ProvDocument(), lambda: doc_with("ex:b1", "ex:b2")),
        ("doc <- doc same bundle ids", lambda: doc_with("ex:b1", "ex:b2"), lambda: doc_with("ex:b2", "ex:b1")),
        ("doc <- doc partially overlapping", lambda: doc_with("ex:b1"), lambda: doc_with("ex:b1", "ex:b3")),
        ("doc <- doc with empty bundle", lambda: doc_with(), lambda: (lambda x: (x.bundle("ex:empty"), x)[1])(doc_with())),
        ("doc <- free bundle", lambda: doc_with("ex:b1"), lambda: sample(ProvBundle(identifier=EX["b1"]))),
        ("doc <- other prefix same uri", lambda: doc_with("ex:b1"),
         lambda: (lambda x: (x.add_namespace("other", "http://example.org/"), x.bundle("other:b1").entity("other:zz"), x)[2])(ProvDocument())),
        ("doc <- None", lambda: doc_with(), lambda: None), ("doc <- str", lambda: doc_with(), lambda: "s"),
        ("doc <- dict", lambda: doc_with(), lambda: {}), ("doc <- object", lambda: doc_with(), lambda: Weird()),
        ("doc <- class", lambda: doc_with(), lambda: ProvDocument)):
    target = make_target(); other = make_other()
    attempt(tag, lambda: target.update(other))
    describe("   target", target)
    if isinstance(other, ProvBundle):
        describe("   other", other)
sd = doc_with("ex:b1")
attempt("doc <- itself", lambda: sd.update(sd)); describe("   self-updated", sd)

# fixtures: merge neighbouring JSON documents
paths = sorted(glob.glob("src/prov/tests/json/*.json"))
for p1, p2 in zip(paths[:60:2], paths[1:60:2]):
    try:
        a = ProvDocument.deserialize(p1); bdoc = ProvDocument.deserialize(p2)
        a.update(bdoc)
        emit(os.path.basename(p1), "+", os.path.basename(p2), len(a._records), len(a._bundles),
             hashlib.sha256(a.get_provn().encode("utf-8")).hexdigest()[:24])
    except Exception as ex:
        emit(os.path.basename(p1), "exc", type(ex).__name__, ex)
import prov.tests.examples as examples
acc = ProvDocument()
for name, fn in examples.tests:
    try:
        acc.update(fn())
        emit(name, len(acc._records), len(acc._bundles), hashlib.sha256(acc.get_provn().encode("utf-8")).hexdigest()[:24])
    except Exception as ex:
        emit(name, "exc", type(ex).__name__, ex)

text = "\n".join(out)
print(text)
print("DIGEST", hashlib.sha256(text.encode("utf-8")).hexdigest())
