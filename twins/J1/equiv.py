"""Differential script for refactoring 1: ProvRecord.__eq__ / __hash__ / copy."""
import os, sys
if os.environ.get("PYTHONHASHSEED") != "0":
    os.environ["PYTHONHASHSEED"] = "0"
    os.execv(sys.executable, [sys.executable] + sys.argv)

import datetime, hashlib
from prov.model import (ProvDocument, ProvBundle, ProvRecord, ProvEntity, ProvActivity,
                        ProvElementIdentifierRequired, Literal, PROV_REC_CLS,
                        PROV_ENTITY, PROV_GENERATION, PROV_TYPE, PROV_LABEL)
from prov.identifier import Namespace, QualifiedName

out = []
def emit(*a):
    out.append(" ".join(str(x) for x in a))

EX = Namespace("ex", "http://example.org/")
d = ProvDocument()
d.add_namespace(EX)
d.set_default_namespace("http://default.example/")
d2 = ProvDocument()
d2.add_namespace(EX)

t = datetime.datetime(2020, 1, 2, 3, 4, 5)
recs = []
recs.append(d.entity("ex:e1"))
recs.append(d.entity("ex:e1"))
recs.append(d.entity("ex:e1", {"prov:label": "x"}))
recs.append(d.entity("ex:e1", [("prov:label", "x"), ("prov:label", "y")]))
recs.append(d.entity("ex:e1", [("prov:label", "y"), ("prov:label", "x")]))
recs.append(d.entity("ex:e2", {"ex:weird": "a \"quoted\"\nline é中"}))
recs.append(d.entity("e3", {"prov:type": EX["T"], "ex:n": 1, "ex:f": 1.0, "ex:b": True}))
recs.append(d.activity("ex:e1"))
recs.append(d.activity("ex:a1", t, t))
recs.append(d.activity("ex:a1", t, None))
recs.append(d.agent("ex:e1"))
recs.append(d.collection("ex:e1"))
recs.append(d.generation("ex:e1", "ex:a1"))
recs.append(d.generation("ex:e1", "ex:a1", identifier="ex:g1"))
recs.append(d.generation("ex:e1", "ex:a1", time=t, identifier="ex:g1"))
recs.append(d.generation("ex:e1", None, None))
recs.append(d.usage("ex:a1", "ex:e1"))
recs.append(d.usage("ex:a1", "ex:e1", identifier="ex:g1"))
recs.append(d.derivation("ex:e2", "ex:e1"))
recs.append(d.revision("ex:e2", "ex:e1"))
recs.append(d.membership("ex:e1", "ex:e2"))
recs.append(d.specialization("ex:e1", "ex:e2"))
recs.append(d.alternate("ex:e1", "ex:e2"))
recs.append(d.influence("ex:e1", "ex:e2", other_attributes={"ex:k": Literal("v", langtag="en")}))
recs.append(d2.entity("ex:e1"))
recs.append(d2.entity("ex:e1", {"prov:label": "x"}))
b = d.bundle("ex:b1")
recs.append(b.entity("ex:e1"))
recs.append(b.mention("ex:e1", "ex:e2", "ex:b1"))

others = [None, 0, "ex:e1", EX["e1"], object(), d, b, (), ProvRecord]

emit("n", len(recs))
# pairwise equality matrix (both == and !=) and hash consistency
for i, a in enumerate(recs):
    row_eq = "".join("1" if a == c else "0" for c in recs)
    row_ne = "".join("1" if a != c else "0" for c in recs)
    row_h = "".join("1" if hash(a) == hash(c) else "0" for c in recs)
    emit(i, type(a).__name__, row_eq, row_ne, row_h)
    for o in others:
        emit("  other", type(o).__name__, a == o, a != o, o == a, o != a)
    emit("  hashkey", hash(a) == hash((a.get_type(), a.identifier, frozenset(a.attributes))))

# copies
for i, a in enumerate(recs):
    c = a.copy()
    emit("copy", i, type(c) is type(a), c is a, c == a, hash(c) == hash(a), c.bundle is a.bundle,
         c.identifier is a.identifier, sorted(map(repr, c.attributes)) == sorted(map(repr, a.attributes)),
         c._attributes is a._attributes, c.get_provn() == a.get_provn(), repr(c))
    # the copy is detached from the bundle's record list
    emit("  in_records", any(c is r for r in a.bundle._records))
    # mutating the copy does not touch the original
    c.add_attributes({"ex:added": "v"})
    emit("  after_mut", c == a, len(c.attributes), len(a.attributes))

# raw ProvRecord base instances: type None -> copy fails with KeyError
raw = ProvRecord(d, EX["raw"], {"ex:k": "v"})
raw2 = ProvRecord(d, EX["raw"], {"ex:k": "v"})
emit("raw", raw == raw2, raw != raw2, hash(raw) == hash(raw2), raw == recs[0], recs[0] == raw)
try:
    raw.copy()
    emit("raw copy ok")
except Exception as e:
    emit("raw copy exc", type(e).__name__, e)

# element with no identifier -> copy raises ProvElementIdentifierRequired
e = d.entity("ex:tmp")
e._identifier = None
try:
    e.copy()
    emit("noid copy ok")
except Exception as ex:
    emit("noid copy exc", type(ex).__name__, str(ex))
emit("noid eq", e == recs[0], e == e, hash(e) == hash(e))

# __eq__ evaluation order / short-circuit: objects whose get_type raises
class Boom(ProvRecord):
    def get_type(self):
        raise RuntimeError("get_type called")
boom = Boom(d, EX["e1"])
for label, fn in (("rec==boom", lambda: recs[0] == boom), ("boom==rec", lambda: boom == recs[0]),
                  ("boom==None", lambda: boom == None), ("hash boom", lambda: hash(boom))):
    try:
        emit(label, fn())
    except Exception as ex:
        emit(label, "exc", type(ex).__name__, ex)

class IdBoom(object):
    def __eq__(self, o): raise RuntimeError("id eq called")
    def __ne__(self, o): raise RuntimeError("id ne called")
    def __hash__(self): return 1
x = d.entity("ex:x"); y = d.activity("ex:x"); z = d.entity("ex:x")
x._identifier = IdBoom()
for label, fn in (("x==y(type differs)", lambda: x == y), ("x==z", lambda: x == z), ("x==1", lambda: x == 1)):
    try:
        emit(label, fn())
    except Exception as ex:
        emit(label, "exc", type(ex).__name__, ex)

# sets / dict keys relying on __eq__ + __hash__
emit("set size", len(set(recs)))
x._identifier = EX["x"]  # restore a sane identifier
emit("doc eq", d == d, d2 == d, d == d2)

text = "\n".join(out)
print(text)
print("DIGEST", hashlib.sha256(text.encode("utf-8")).hexdigest())
