# Differential script for refactoring 6 (ProvDocument.flattened, ProvDocument.unified, ProvBundle.unified)
import os, sys
if "PYTHONHASHSEED" not in os.environ:
    os.environ["PYTHONHASHSEED"] = "0"
    os.execv(sys.executable, [sys.executable] + sys.argv)
import hashlib, datetime
from prov.model import ProvDocument, ProvBundle, Namespace, Literal

out = []
def show(label, fn):
    try:
        out.append("%s: OK %r" % (label, fn()))
    except Exception as e:
        out.append("%s: EXC %s %s" % (label, type(e).__name__, e))

def state(d):
    return (type(d).__name__, d.get_provn(), sorted((n.prefix, n.uri) for n in d.namespaces), d.default_ns_uri,
            [(repr(b.identifier), b.document is d, sorted((n.prefix, n.uri) for n in b.namespaces), b.default_ns_uri) for b in d.bundles])

def build(default=True, bundles=True):
    d = ProvDocument()
    d.add_namespace("ex", "http://example.org/ex/")
    if default:
        d.set_default_namespace("http://example.org/default/")
        d.entity("noprefix", {"ex:v": Literal("ü", langtag="de")})
    d.entity("ex:e", {"ex:a": 1}); d.entity("ex:e", {"ex:b": 2.5}); d.activity("ex:act", datetime.datetime(2000, 1, 1))
    d.used("ex:act", "ex:e", identifier="ex:u"); d.used("ex:act", "ex:e", identifier="ex:u", time=datetime.datetime(2000, 1, 2))
    if bundles:
        b1 = d.bundle("ex:b1"); b1.add_namespace("one", "http://one/"); b1.entity("one:x"); b1.entity("one:x", {"one:k": "v"}); b1.entity("ex:e", {"ex:inb": True})
        b2 = d.bundle("ex:b2"); b2.set_default_namespace("http://b2default/"); b2.agent("ag"); b2.agent("ag", {"ex:z": "é"})
        d.bundle("ex:b3")
    return d

for default in (True, False):
    for bundles in (True, False):
        tag = "default=%s bundles=%s" % (default, bundles)
        d = build(default, bundles)
        before = state(d)
        show("flattened " + tag, lambda: state(d.flattened()))
        show("flattened is self " + tag, lambda: d.flattened() is d)
        show("flattened records shared " + tag, lambda: [any(r is x for x in d._records) for r in d.flattened()._records])
        show("unified " + tag, lambda: state(d.unified()))
        show("unified is new " + tag, lambda: (d.unified() is d, type(d.unified()) is ProvDocument))
        show("unified json " + tag, lambda: d.unified().serialize(format="json"))
        show("unified.flattened " + tag, lambda: state(d.unified().flattened()))
        show("flattened.unified " + tag, lambda: state(d.flattened().unified()))
        show("bundle.unified " + tag, lambda: [(type(b.unified()).__name__, repr(b.unified().identifier), b.unified().document, b.unified().get_provn(), sorted((n.prefix, n.uri) for n in b.unified().namespaces), b.unified().default_ns_uri) for b in d.bundles])
        show("source untouched " + tag, lambda: state(d) == before)

show("empty doc", lambda: (state(ProvDocument().unified()), ProvDocument().flattened().get_provn()))
show("free bundle unified", lambda: (lambda b: (b.unified().get_provn(), b.unified() is b, repr(b.unified().identifier)))(ProvBundle(identifier=("t", 1))))
def free_with_records():
    b = ProvBundle(identifier="free", namespaces=[Namespace("f", "http://f/")])
    b.entity("f:a", {"f:k": 1}); b.entity("f:a", {"f:k": 2}); b.entity("f:b")
    u = b.unified()
    return u.get_provn(), repr(u.identifier), sorted((n.prefix, n.uri) for n in u.namespaces), b.get_provn()
show("free bundle with records", free_with_records)

# subclass: result types and which methods are consulted
calls = []
class Spy(ProvDocument):
    @property
    def namespaces(self): calls.append("namespaces"); return ProvDocument.namespaces.fget(self)
    def get_default_namespace(self): calls.append("get_default_namespace"); return super().get_default_namespace()
    def _unified_records(self): calls.append("_unified_records"); return super()._unified_records()
    @property
    def bundles(self): calls.append("bundles"); return super().bundles
def spy():
    s = Spy(); s.add_namespace("ex", "http://example.org/ex/"); s.entity("ex:q"); s.entity("ex:q"); s.bundle("ex:sb").entity("ex:w")
    del calls[:]
    u = s.unified(); c1 = list(calls); del calls[:]
    f = s.flattened(); c2 = list(calls)
    return type(u).__name__, c1, type(f).__name__, c2, u.get_provn(), f.get_provn()
show("spy subclass", spy)

# conflicting bundle: unified() of a document whose bundle cannot be re-added
def conflict():
    d = ProvDocument(); d.add_namespace("ex", "http://example.org/ex/")
    d.activity("ex:a", datetime.datetime(2001, 1, 1)); d.activity("ex:a", datetime.datetime(2002, 2, 2))
    return d.unified()
show("conflict", conflict)
def conflict_in_bundle():
    d = ProvDocument(); d.add_namespace("ex", "http://example.org/ex/")
    b = d.bundle("ex:b"); b.activity("ex:a", datetime.datetime(2001, 1, 1)); b.activity("ex:a", datetime.datetime(2002, 2, 2))
    return d.unified()
show("conflict in bundle", conflict_in_bundle)

text = "\n".join(out)
print(text)
print("DIGEST", hashlib.sha256(text.encode("utf-8")).hexdigest())
