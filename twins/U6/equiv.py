"""Differential script: prints a deterministic digest of prov.dot / prov.graph behaviour."""
import datetime, hashlib
from prov.model import (ProvDocument, Namespace, Literal, Identifier, QualifiedName,
                        PROV, XSD_ANYURI)


def build_docs():
    docs = {}
    # empty document
    docs["empty"] = ProvDocument()

    # simple document with all kinds of relations
    d = ProvDocument()
    d.add_namespace("ex", "http://example.org/")
    d.add_namespace("o", "http://other.org/ns#")
    d.set_default_namespace("http://default.example/")
    e1 = d.entity("ex:e1", {"prov:label": "Entity <one> & \"co\"", "ex:attr": 1,
                           "ex:when": datetime.datetime(2020, 1, 2, 3, 4, 5),
                           "ex:link": Identifier("http://example.org/x?a=1&b=2"),
                           "ex:qn": d.valid_qualified_name("ex:other"),
                           "prov:type": PROV["Collection"]})
    e2 = d.entity("ex:e2")
    e3 = d.entity('ex:we\\ird"name', {"prov:label": "ex:we\\ird\"name"})
    e4 = d.entity("plain", {"prov:label": "plain"})
    a1 = d.activity("ex:a1", datetime.datetime(2011, 11, 16, 16, 5), None,
                    {"ex:t": Literal("chat", langtag="fr"), "ex:u": Literal("1.5", datatype=XSD_ANYURI)})
    a2 = d.activity("ex:a2")
    ag1 = d.agent("ex:ag1", {"prov:type": PROV["Person"], "ex:name": "Alïce ☃"})
    ag2 = d.agent("o:ag2")
    d.wasGeneratedBy(e1, a1, datetime.datetime(2012, 1, 1), "ex:gen1", {"ex:role": "out"})
    d.wasGeneratedBy(e2, None, datetime.datetime(2012, 1, 2))
    d.wasGeneratedBy(e2, a1)
    d.used(a1, e2, None, None, {"ex:role": "in", "ex:z": 2, "ex:a": "x"})
    d.used(a2, "ex:unknown_entity")
    d.wasInformedBy(a2, a1)
    d.wasInformedBy("ex:ghost_act", "ex:ghost_act2")
    d.wasStartedBy(a1, e2, a2, datetime.datetime(2012, 2, 2))
    d.wasEndedBy(a1, None, a2)
    d.wasInvalidatedBy(e2, a2)
    d.wasDerivedFrom(e1, e2, a1, "ex:gen1", None, None, {"prov:type": PROV["Revision"]})
    d.wasDerivedFrom(e3, e2)
    d.wasAttributedTo(e1, ag1)
    d.wasAttributedTo("ex:nobody_e", "ex:nobody_ag")
    d.wasAssociatedWith(a1, ag1, "ex:plan1")
    d.wasAssociatedWith(a2, None, "ex:plan2")
    d.actedOnBehalfOf(ag2, ag1, a1)
    d.actedOnBehalfOf(ag2, ag1)
    d.wasInfluencedBy(e1, ag2)
    d.alternateOf(e1, e2)
    d.specializationOf(e1, e4)
    d.hadMember(e1, e2)
    d.hadMember(e1, e3)
    d.mentionOf(e1, e2, "ex:bundle1")
    docs["full"] = d

    # repeated identifiers: must be unified
    r = ProvDocument()
    r.add_namespace("ex", "http://example.org/")
    r.entity("ex:e", {"ex:a": 1})
    r.entity("ex:e", {"ex:b": 2})
    r.entity("ex:e", {"ex:a": 1})
    r.activity("ex:act")
    r.activity("ex:act", datetime.datetime(2000, 1, 1))
    r.wasGeneratedBy("ex:e", "ex:act", identifier="ex:g")
    r.wasGeneratedBy("ex:e", "ex:act", identifier="ex:g", other_attributes={"ex:k": "v"})
    r.used("ex:act", "ex:e")
    r.used("ex:act", "ex:e")
    docs["repeated"] = r

    # cannot be unified (conflicting times) -> dot falls back to the original
    c = ProvDocument()
    c.add_namespace("ex", "http://example.org/")
    c.activity("ex:act", datetime.datetime(2000, 1, 1))
    c.activity("ex:act", datetime.datetime(2001, 1, 1))
    c.entity("ex:e")
    c.used("ex:act", "ex:e")
    docs["conflict"] = c

    # bundles
    b = ProvDocument()
    b.add_namespace("ex", "http://example.org/")
    b.entity("ex:top")
    b1 = b.bundle("ex:bundle1")
    b1.entity("ex:inb1", {"ex:p": "q"})
    b1.activity("ex:actb1")
    b1.wasGeneratedBy("ex:inb1", "ex:actb1")
    b1.used("ex:actb1", "ex:top")
    b2 = b.bundle('ex:bund"le2')
    b2.add_namespace("z", "http://z.example/")
    b2.entity("z:e")
    b2.entity("ex:inb1")
    b2.wasDerivedFrom("z:e", "ex:inb1")
    b.bundle("ex:emptybundle")
    b.wasAttributedTo("ex:bundle1", "ex:someone")
    b.entity("ex:bundle1", {"prov:type": PROV["Bundle"]})
    docs["bundles"] = b
    docs["one_bundle"] = b1

    # relations with missing / empty ends
    m = ProvDocument()
    m.add_namespace("ex", "http://example.org/")
    m.wasGeneratedBy("ex:e", None)
    m.wasGeneratedBy("ex:e", None, None, None, {"ex:x": "y"})
    m.wasEndedBy("ex:a", None, None, datetime.datetime(2012, 2, 2))
    m.wasAssociatedWith("ex:a", None, "ex:plan")
    m.wasDerivedFrom("ex:e2", "ex:e", None, "ex:g1", "ex:u1")
    docs["missing"] = m
    return docs


def digest(text):
    if isinstance(text, str):
        text = text.encode("utf-8")
    return hashlib.sha256(text).hexdigest()[:16]


def show(label, fn):
    try:
        res = fn()
    except Exception as exc:  # exceptions are part of the behaviour
        res = "EXC %s: %s" % (type(exc).__name__, exc)
    if isinstance(res, str) and len(res) > 200:
        res = "len=%d sha=%s" % (len(res), digest(res))
    print(label, "=>", res)


def run_dot():
    import prov.dot as pd
    from prov.dot import prov_to_dot
    from prov.model import ProvEntity, ProvActivity, ProvAgent, ProvBundle

    # style tables (content, key order, distinctness of the inner dicts)
    for name in ("GENERIC_NODE_STYLE", "DOT_PROV_STYLE", "ANNOTATION_STYLE",
                 "ANNOTATION_LINK_STYLE"):
        table = getattr(pd, name)
        print(name, [(str(k), list(v.items()) if isinstance(v, dict) else v)
                     for k, v in table.items()])
    inner = list(pd.GENERIC_NODE_STYLE.values()) + list(pd.DOT_PROV_STYLE.values())
    print("distinct inner dicts", len(set(map(id, inner))) == len(inner), len(inner))
    print("templates", repr(pd.ANNOTATION_START_ROW), repr(pd.ANNOTATION_ROW_TEMPLATE),
          repr(pd.ANNOTATION_END_ROW))
    print("public names", sorted(n for n in dir(pd) if not n.startswith("_") and (n.isupper() and "STYLE" in n or n.startswith("ANNOTATION"))))

    class WithUri:
        uri = "http://x/?a=1&b=<2>"
        def __str__(self):
            return "with<uri>"

    class FancyFormat(str):
        def __format__(self, spec):
            return "FORMATTED"

    class UriFancy:
        uri = FancyFormat("http://fancy/")
        def __str__(self):
            return "fancy"

    class BadStr:
        uri = "u"
        def __str__(self):
            raise AttributeError("boom")

    for v in ("", "plain", 'a"b', "back\\slash", '\\"', "new\nline", 5, None, 1.5,
              "ünï☃", FancyFormat("ff")):
        show("_quoted(%r)" % (v,), lambda: pd._quoted(v))
    for v in ("", "text", 7, None, WithUri(), UriFancy(), Identifier("http://id/"),
              PROV["Entity"]):
        show("htlm_link_if_uri(%s)" % type(v).__name__, lambda: pd.htlm_link_if_uri(v))
    show("htlm_link_if_uri(BadStr)", lambda: pd.htlm_link_if_uri(BadStr()))

    docs = build_docs()
    option_sets = [
        {},
        {"show_nary": False},
        {"use_labels": True},
        {"show_element_attributes": False},
        {"show_relation_attributes": False},
        {"show_nary": False, "show_relation_attributes": False, "show_element_attributes": False},
        {"direction": "LR", "use_labels": True, "show_nary": True},
        {"direction": "bogus"},
        {"direction": None},
        {"direction": ["BT"]},
        {"direction": "RL"},
        {"direction": "TB"},
    ]
    for name in sorted(docs):
        for opts in option_sets:
            def go():
                text = prov_to_dot(docs[name], **opts).to_string()
                return "len=%d sha=%s" % (len(text), digest(text))
            show("dot %s %s" % (name, sorted(opts.items(), key=str)), go)
    # full texts for two of them
    print(prov_to_dot(docs["full"], use_labels=True).to_string())
    print(prov_to_dot(docs["bundles"]).to_string())
    print(prov_to_dot(docs["missing"], show_nary=False).to_string())
    # positional call
    show("positional", lambda: prov_to_dot(docs["full"], False, True, "TB", False, True).to_string())
    # not a bundle at all
    show("dot(None)", lambda: prov_to_dot(None))
    show("dot(str)", lambda: prov_to_dot("x"))
    # the module tables are left untouched after use
    print("DOT_PROV_STYLE after", digest(repr(sorted((str(k), sorted(v.items())) for k, v in pd.DOT_PROV_STYLE.items()))))


def run_graph():
    import networkx as nx
    import prov.graph as pg
    from prov.graph import prov_to_graph, graph_to_prov
    from prov.model import ProvDocument, ProvEntity

    print("INFERRED", [(str(k), v.__name__) for k, v in pg.INFERRED_ELEMENT_CLASS.items()])
    docs = build_docs()
    for name in sorted(docs):
        def go():
            g = prov_to_graph(docs[name])
            lines = [type(g).__name__]
            for n in g.nodes():
                lines.append("N %s %s bundle=%s %s" % (type(n).__name__, n.identifier,
                                                        n.bundle is not None, n.get_provn()))
            for u, v, k, data in g.edges(keys=True, data=True):
                lines.append("E %s -> %s key=%r %s %s" % (u.identifier, v.identifier, k,
                             sorted(data), data["relation"].get_provn()))
            back = graph_to_prov(g)
            lines.append("BACK " + back.get_provn())
            lines.append("BACK==unified %s" % (back == docs[name].unified()))
            return "\n".join(lines)
        try:
            print("graph", name)
            print(go())
        except Exception as exc:
            print("EXC", type(exc).__name__, exc)

    # graph_to_prov on hand-made graphs
    d = docs["full"].unified()
    recs = list(d.get_records())
    g = nx.MultiDiGraph()
    g.add_node("a string node")
    g.add_node(recs[0])
    g.add_node(ProvEntity(None, d.valid_qualified_name("ex:nobundle")))
    g.add_node(recs[1])
    g.add_edge("a string node", recs[0])                      # no relation key
    g.add_edge(recs[0], recs[1], relation="not a record")
    g.add_edge(recs[0], recs[1], relation=recs[-1])
    g.add_edge(recs[0], recs[1], relation=recs[-1])            # the same again
    g.add_edge(recs[1], recs[0], relation=recs[-2], other=1)
    show("hand-made", lambda: graph_to_prov(g).get_provn())
    show("empty graph", lambda: graph_to_prov(nx.MultiDiGraph()).get_provn())
    show("DiGraph", lambda: graph_to_prov(nx.DiGraph([(1, 2)])).get_provn())
    show("graph_to_prov(None)", lambda: graph_to_prov(None))
    show("prov_to_graph(None)", lambda: prov_to_graph(None))

    # a relation whose first attribute cannot be inferred is skipped; state of the
    # node map after a failed second lookup must be the same
    saved = dict(pg.INFERRED_ELEMENT_CLASS)
    try:
        from prov.model import PROV_ATTR_ACTIVITY, PROV_ATTR_ENTITY
        del pg.INFERRED_ELEMENT_CLASS[PROV_ATTR_ACTIVITY]
        def go2():
            g = prov_to_graph(docs["missing"])
            g2 = prov_to_graph(docs["full"])
            return "%s | %s" % (
                sorted(str(n.identifier) for n in g.nodes()),
                sorted("%s>%s" % (u.identifier, v.identifier) for u, v in g2.edges()))
        show("without activity", go2)
        del pg.INFERRED_ELEMENT_CLASS[PROV_ATTR_ENTITY]
        show("without activity+entity", go2)
    finally:
        pg.INFERRED_ELEMENT_CLASS.clear()
        pg.INFERRED_ELEMENT_CLASS.update(saved)


if __name__ == "__main__":
    run_dot()
    run_graph()
