"""Differential driver for prov.identifier.Namespace (contains, qname, __getitem__)."""
import hashlib
from prov.identifier import Identifier, Namespace, QualifiedName
from prov.model import ProvDocument

lines = []


def fmt(v):
    if isinstance(v, QualifiedName):
        return "QN(%r|%r|%r|%r|%r)" % (
            v.namespace.prefix, v.namespace.uri, v.localpart, str(v), v.uri)
    if isinstance(v, Identifier):
        return "ID(%r)" % v.uri
    return repr(v)


def attempt(tag, fn, *args):
    try:
        r = fn(*args)
        lines.append("%s => %s" % (tag, fmt(r)))
        return r
    except Exception as e:  # noqa
        lines.append("%s !! %s: %s" % (tag, type(e).__name__, e))


class MyStr(str):
    pass


class OddId(Identifier):
    @property
    def uri(self):
        return None


class Unhashable(object):
    __hash__ = None


namespaces = [
    Namespace("ex", "http://example.org/"),
    Namespace("", "http://default.org/"),
    Namespace("u", "http://exämple.org/ü#"),
    Namespace("e", "e"),
    Namespace(None, "urn:x:"),
]
other = Namespace("o", "http://example.org/sub/")
values = [
    "http://example.org/a", "http://example.org/", "http://example.org", "http://example.org/a b/c#d",
    "", "e", "ex:a", MyStr("http://example.org/mystr"), MyStr(""),
    Identifier("http://example.org/id"), Identifier(""), Identifier("http://elsewhere/x"),
    other["q"], namespaces[0]["qq"], namespaces[1]["dd"], QualifiedName(namespaces[2], "ñ"),
    "http://exämple.org/ü#näme", "urn:x:1:2", "http://default.org/x",
    None, 0, 1, 1.5, b"http://example.org/a", ("http://example.org/a",), ["x"], {}, object,
    OddId("http://example.org/odd"), Namespace("ex", "http://example.org/"),
]
for i, ns in enumerate(namespaces):
    for j, v in enumerate(values):
        attempt("ns%d.contains[%d]" % (i, j), ns.contains, v)
        r = attempt("ns%d.qname[%d]" % (i, j), ns.qname, v)
        if isinstance(r, QualifiedName):
            lines.append("   nsident=%r cached=%r" % (r.namespace is ns, r.localpart in ns._cache))

# __getitem__: caching, identity, odd keys
for i, ns in enumerate(namespaces):
    keys = ["a", "a", "", "a b", "ü", "1:2", MyStr("a"), "x/y#z", "a"]
    got = []
    for j, k in enumerate(keys):
        r = attempt("ns%d.getitem[%d]" % (i, j), ns.__getitem__, k)
        got.append(r)
    lines.append("ns%d.identity %r" % (i, [[a is b for b in got] for a in got]))
    lines.append("ns%d.cache %r" % (i, [(repr(k), fmt(v)) for k, v in ns._cache.items()]))
    for j, k in enumerate([None, 5, ("t",), b"b", Unhashable(), ["l"], {}]):
        attempt("ns%d.getitem-odd[%d]" % (i, j), ns.__getitem__, k)
    lines.append("ns%d.cache2 %r" % (i, [repr(k) for k in ns._cache]))
ns = namespaces[0]
sentinel = QualifiedName(other, "planted")
ns._cache["planted"] = sentinel
lines.append("planted %r" % (ns["planted"] is sentinel))
ns._cache["none"] = None
lines.append("planted-none %r" % (ns["none"],))
ns._cache["falsy"] = 0
lines.append("planted-falsy %r" % (ns["falsy"],))

# through the document
doc = ProvDocument()
ex = doc.add_namespace("ex", "http://example.org/")
e = doc.entity(ex["e"], {ex["k"]: ex["v"], "ex:k2": "http://example.org/not-a-qname"})
b = doc.bundle(ex["b"])
b.entity(ex["e"])
b.wasDerivedFrom(ex["e"], ex["e"])
lines.append(doc.get_provn())
lines.append(repr(ex.qname(e.identifier)))
lines.append(repr(ex.contains(e.identifier)))

text = "\n".join(lines)
print(text)
print("DIGEST", hashlib.sha256(text.encode("utf-8")).hexdigest())
