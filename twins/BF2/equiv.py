"""Differential script for change 2 (prov_to_dot: new keyword show_bundles).

Only the call forms that exist on the clean tree are used here: the default
call, all-positional, all-keyword and mixed forms, for documents and for single
bundles.  The DOT text (pydot to_string) is digested, together with the
structure of the pydot object (node / edge / cluster counts, recursively) and
the state of the document afterwards.
"""
import inspect
import itertools
import os
import sys

sys.path.insert(0, os.path.join(os.path.dirname(os.path.abspath(__file__)), ".."))
import corpus

corpus.reexec()

import prov.model as pm
from prov.dot import prov_to_dot


def structure(dot):
    subs = dot.get_subgraphs()
    return "(n=%d e=%d s=[%s])" % (
        len(dot.get_nodes()),
        len(dot.get_edges()),
        ",".join(structure(s) for s in subs),
    )


def call(label, fn):
    try:
        dot = fn()
        text = dot.to_string()
        return "%s %s %s" % (label, structure(dot), corpus.digest(text))
    except Exception as e:
        return "%s EXC %s %s" % (label, type(e).__name__, e)


def run(name, doc):
    before = corpus.doc_state(doc)
    res = []
    res.append(call("default", lambda: prov_to_dot(doc)))
    res.append(call("positional", lambda: prov_to_dot(doc, True, False, "BT", True, True)))
    res.append(call("positional2", lambda: prov_to_dot(doc, False, True, "LR", False, False)))
    res.append(
        call(
            "keywords",
            lambda: prov_to_dot(
                bundle=doc,
                show_nary=True,
                use_labels=True,
                direction="TB",
                show_element_attributes=True,
                show_relation_attributes=False,
            ),
        )
    )
    res.append(call("mixed", lambda: prov_to_dot(doc, False, direction="bogus", use_labels=True)))
    res.append(call("no-elem-attrs", lambda: prov_to_dot(doc, show_element_attributes=False)))
    # through the model API (ProvBundle.plot is not used: it needs Graphviz)
    if not doc.is_bundle():
        for i, b in enumerate(sorted(doc.bundles, key=lambda b: str(b.identifier))):
            res.append(call("bundle[%d]" % i, lambda b=b: prov_to_dot(b)))
            res.append(call("bundle[%d]-pos" % i, lambda b=b: prov_to_dot(b, False, True, "RL", True, True)))
    res.append("state-unchanged=%s" % (before == corpus.doc_state(doc)))
    print(name)
    for r in res:
        print("   ", r)


def extra_documents():
    out = []
    d = pm.ProvDocument()
    d.add_namespace("ex", "http://example.org/")
    d.set_default_namespace("http://d.example.org/")
    # document-level relation pointing into bundles, bundle-level relation
    # pointing to document-level elements, same identifier in two bundles
    d.entity("top", {"prov:label": "Tôp \"quoted\"", "ex:attr": "<&>"})
    d.wasDerivedFrom("top", "ex:inner")
    d.wasGeneratedBy("ex:inner", "ex:innerAct", None, "ex:g", {"ex:k": 1})
    b1 = d.bundle("ex:b1")
    b1.entity("ex:inner", {"prov:label": "ïnner"})
    b1.activity("ex:innerAct")
    b1.wasGeneratedBy("ex:inner", "ex:innerAct")
    b1.wasDerivedFrom("ex:inner", "top")
    b2 = d.bundle("ex:b2")
    b2.entity("ex:inner")
    b2.wasAttributedTo("ex:inner", "ex:nobody")
    d.bundle("ex:b3-empty")
    out.append(("x:cross-bundle", d))
    return out


def main():
    params = list(inspect.signature(prov_to_dot).parameters)
    print("first six parameters:", params[:6])
    docs = corpus.all_documents() + extra_documents()
    for name, doc in docs:
        if doc is None:
            print(name, "BUILD-FAILED")
            continue
        run(name, doc)


main()
