"""Shared corpus of PROV documents for the differential (equiv.py) scripts.

Deterministic: datetime.now() used by the test mix-ins is frozen, test methods
are visited in sorted order, PYTHONHASHSEED is forced to 0 by reexec().
"""
import datetime
import hashlib
import os
import sys
import unittest


def reexec():
    if os.environ.get("PYTHONHASHSEED") != "0":
        os.environ["PYTHONHASHSEED"] = "0"
        os.execv(sys.executable, [sys.executable] + sys.argv)


def digest(text):
    if isinstance(text, str):
        text = text.encode("utf-8", "surrogatepass")
    return "%s len=%d" % (hashlib.sha256(text).hexdigest()[:20], len(text))


class _FrozenDatetimeClass(object):
    _real = datetime.datetime
    _fixed = datetime.datetime(2021, 3, 4, 5, 6, 7, 891000)

    def __call__(self, *a, **k):
        return self._real(*a, **k)

    def now(self, tz=None):
        return self._fixed

    def __getattr__(self, name):
        return getattr(self._real, name)


class _FrozenDatetimeModule(object):
    datetime = _FrozenDatetimeClass()

    def __getattr__(self, name):
        return getattr(datetime, name)


def harvested_documents():
    """Documents built by the repository's own test mix-ins."""
    import prov.tests.statements as st
    import prov.tests.attributes as at
    import prov.tests.qnames as qn

    frozen = _FrozenDatetimeModule()
    for mod in (st, at, qn):
        if hasattr(mod, "datetime"):
            mod.datetime = frozen

    # attribute_values holds two datetime.now() values computed at import time
    import prov.model as pm

    fixed = _FrozenDatetimeClass._fixed
    vals = []
    for v in at.TestAttributesBase.attribute_values:
        if isinstance(v, datetime.datetime):
            v = fixed
        elif isinstance(v, pm.Literal) and v.datatype == pm.XSD_DATETIME:
            v = pm.Literal(fixed.isoformat(), pm.XSD_DATETIME)
        vals.append(v)
    at.TestAttributesBase.attribute_values = vals

    docs = []

    class Collector(
        st.TestStatementsBase,
        at.TestAttributesBase,
        qn.TestQualifiedNamesBase,
        unittest.TestCase,
    ):
        current = None

        def runTest(self):
            pass

        def do_tests(self, prov_doc, msg=None):
            n = sum(1 for name, _ in docs if name.startswith(self.current))
            docs.append(("%s#%d" % (self.current, n), prov_doc))

    names = sorted(n for n in dir(Collector) if n.startswith("test_"))
    for name in names:
        c = Collector()
        c.current = name
        try:
            getattr(c, name)()
        except Exception as e:  # keep going; record what happened
            docs.append(("%s!%s" % (name, type(e).__name__), None))
    return docs


def example_documents():
    from prov.tests import examples

    return [("example:" + name, fn()) for name, fn in examples.tests]


def handmade_documents():
    import prov.model as pm

    out = []

    # empty document
    out.append(("hm:empty", pm.ProvDocument()))

    # default namespace, non-ASCII, empty strings
    d = pm.ProvDocument()
    d.set_default_namespace("http://default.example.org/")
    d.add_namespace("ex", "http://example.org/")
    d.add_namespace("über", "http://example.org/ü/")
    e1 = d.entity("e1", {"prov:label": "café 中文 \U0001F600", "ex:empty": ""})
    e2 = d.entity("ex:e2", {"ex:quote": 'a "quoted" <tag> & \\ back', "prov:value": 0})
    e3 = d.entity("über:élément", {"prov:label": pm.Literal("", langtag="en")})
    a1 = d.activity(
        "a1",
        datetime.datetime(2012, 1, 2, 3, 4, 5),
        None,
        {"prov:type": pm.Literal("x", datatype=pm.XSD_STRING), "ex:n": 1.5},
    )
    ag = d.agent("ex:ag", {"prov:type": pm.PROV["Person"], "ex:url": pm.Identifier("http://x.example/é")})
    d.wasGeneratedBy(e1, a1, datetime.datetime(2012, 1, 2, 3, 4, 6), "ex:gen1", {"ex:how": "fast"})
    d.wasGeneratedBy(e2, a1)
    d.wasGeneratedBy(e3, None, datetime.datetime(2012, 5, 5))
    d.used(a1, e2, None, None, {"prov:role": "input", "prov:location": "here"})
    d.used(a1, None)
    d.wasDerivedFrom(e1, e2, a1, "ex:gen1", None, "ex:der1", {"prov:type": pm.PROV["Revision"]})
    d.wasDerivedFrom(e1, e3, other_attributes={"prov:type": pm.PROV["Quotation"]})
    d.wasDerivedFrom(e3, "ex:unknown")
    d.wasAssociatedWith(a1, ag, "ex:plan", None, {"prov:role": "op"})
    d.wasAssociatedWith(a1, None, "ex:plan")
    d.wasAttributedTo(e1, ag)
    d.actedOnBehalfOf(ag, "ex:boss", a1)
    d.wasInformedBy(a1, "ex:a0")
    d.wasStartedBy(a1, e2, "ex:a0", datetime.datetime(2012, 1, 1))
    d.wasEndedBy(a1, None, None, datetime.datetime(2012, 1, 3))
    d.wasInvalidatedBy(e2, a1, None, "ex:inv")
    d.wasInfluencedBy(e1, ag, "ex:infl", {"ex:k": "v"})
    d.alternateOf(e1, e2)
    d.specializationOf(e1, e3)
    d.hadMember("ex:coll", e1)
    d.hadMember("ex:coll", e2)
    d.mentionOf(e1, e2, "ex:b1")
    out.append(("hm:default-ns", d))

    # bundles, same identifiers inside and outside, repeated identifiers
    d = pm.ProvDocument()
    d.add_namespace("ex", "http://example.org/")
    d.entity("ex:e", {"ex:a": 1})
    d.entity("ex:e", {"ex:a": 2, "ex:b": "two"})
    d.entity("ex:b1", {"prov:type": pm.PROV["Bundle"]})
    d.activity("ex:a")
    d.wasGeneratedBy("ex:e", "ex:a", identifier="ex:g")
    d.wasGeneratedBy("ex:e", "ex:a", identifier="ex:g", other_attributes={"ex:x": "y"})
    b1 = d.bundle("ex:b1")
    b1.set_default_namespace("http://bundle-default.example.org/")
    b1.entity("ex:e", {"ex:a": 3})
    b1.entity("local")
    b1.activity("ex:a2")
    b1.used("ex:a2", "ex:e", identifier="ex:u")
    b1.wasGeneratedBy("local", "ex:a2")
    b2 = d.bundle("ex:b2")
    b2.add_namespace("ex", "http://other.example.org/")
    b2.entity("ex:e")
    b2.agent("ex:ag")
    b2.wasAttributedTo("ex:e", "ex:ag", "ex:attr", {"prov:label": "étiquette"})
    d.bundle("ex:emptybundle")
    d.wasDerivedFrom("ex:e", "ex:other")
    out.append(("hm:bundles", d))

    # a bare bundle taken from a document is also accepted by some functions
    out.append(("hm:bundle-only", b1))

    # literals of many kinds
    d = pm.ProvDocument()
    d.add_namespace("ex", "http://example.org/")
    d.entity(
        "ex:lit",
        [
            ("ex:i", 10),
            ("ex:big", 10**12),
            ("ex:neg", -3),
            ("ex:f", 2.25),
            ("ex:t", True),
            ("ex:fa", False),
            ("ex:s", "plain"),
            ("ex:s", "plain2"),
            ("ex:ml", "line1\nline2"),
            ("ex:lang", pm.Literal("hola", langtag="es")),
            ("ex:b64", pm.Literal("aGVsbG8=", datatype=pm.XSD["base64Binary"])),
            ("ex:gy", pm.Literal(2002, datatype=pm.XSD["gYear"])),
            ("ex:gym", pm.Literal("2002-07", datatype=pm.XSD["gYearMonth"])),
            ("ex:uri", pm.Literal("http://a.example/", datatype=pm.XSD_ANYURI)),
            ("ex:qn", pm.Literal("ex:thing", datatype=pm.XSD_QNAME)),
            ("ex:custom", pm.Literal("v", datatype=pm.Namespace("ex", "http://example.org/")["dt"])),
            ("ex:dt", datetime.datetime(2000, 2, 29, 23, 59, 59, 5)),
            ("ex:id", pm.Identifier("http://id.example/x")),
            ("ex:qname", pm.Namespace("ex", "http://example.org/")["val"]),
            ("prov:location", pm.Namespace("ex", "http://example.org/")["place"]),
            ("prov:location", "somewhere"),
            ("prov:value", "é"),
        ],
    )
    out.append(("hm:literals", d))
    return out


def all_documents():
    docs = []
    docs.extend(example_documents())
    docs.extend(handmade_documents())
    docs.extend(harvested_documents())
    return docs


def _val(v, by_uri):
    import prov.model as pm

    if not by_uri:
        return repr(v)
    if isinstance(v, pm.Literal):
        return "Literal(%r, %s, %s)" % (v.value, _val(v.datatype, True), v.langtag)
    if isinstance(v, pm.Identifier):  # QualifiedName too
        return "<%s %s>" % (type(v).__name__, v.uri)
    return repr(v)


def doc_state(doc, ordered=True):
    """Dump of a document/bundle: namespaces, and for every record its type,
    identifier and the raw attribute dict (including keys with empty value
    sets, which a defaultdict access creates).  Set iteration order is
    deliberately not part of the dump: it depends on id()-based hashes.
    With ordered=False the order of bundles and of records inside a bundle is
    ignored and names are shown by URI instead of prefix (needed for documents
    read back through an RDF parser, which invents random blank node labels and
    so a random order of graphs/triples and of clashing-prefix renaming)."""
    by_uri = not ordered
    bundles = [doc] + (list(doc.bundles) if not doc.is_bundle() else [])
    chunks = []
    for b in bundles:
        if by_uri:
            head = [
                "BUNDLE %s" % (b.identifier.uri if b.identifier else None,),
                "default=%r" % (b.get_default_namespace(),),
                repr(sorted(n.uri for n in b.get_registered_namespaces())),
            ]
        else:
            head = [
                "BUNDLE %s" % (b.identifier,),
                "default=%r" % (b.get_default_namespace(),),
                repr(sorted((n.prefix, n.uri) for n in b.get_registered_namespaces())),
            ]
        recs = [
            "%s %s %r"
            % (
                r.get_type(),
                _val(r.identifier, by_uri),
                sorted(
                    (_val(k, by_uri), sorted(_val(x, by_uri) for x in v))
                    for k, v in r._attributes.items()
                ),
            )
            for r in b._records
        ]
        if not ordered:
            recs.sort()
        chunks.append("\n".join(head + recs))
    if not ordered:
        chunks[1:] = sorted(chunks[1:])
    return "\n".join(chunks)


class _FakeUUID(object):
    def __init__(self, n):
        self.hex = "%032x" % n


def deterministic_bnodes():
    """Make every rdflib BNode() label predictable (rdflib builds them from
    uuid4().hex).  Returns a function that restarts the numbering."""
    import itertools
    import rdflib.term

    state = {"c": itertools.count(1)}
    fake = lambda: _FakeUUID(next(state["c"]))
    rdflib.term.uuid4 = fake
    # the Turtle/TriG/N3 parser labels its blank nodes with its own uuid4()
    import rdflib.plugins.parsers.notation3 as n3

    n3.uuid4 = fake

    def reset():
        state["c"] = itertools.count(1)

    return reset
