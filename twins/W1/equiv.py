import os
import sys

if os.environ.get("PYTHONHASHSEED") != "0":
    # set iteration order must be reproducible between the two runs
    os.environ["PYTHONHASHSEED"] = "0"
    os.execv(sys.executable, [sys.executable] + sys.argv)

import copy
import hashlib
import io
import logging
import pickle

from prov.constants import PROV, XSD_INT, XSD_STRING, XSD_ANYURI
from prov.identifier import Namespace, QualifiedName
from prov.model import Literal, ProvDocument

out = []


def emit(*a):
    out.append(" | ".join(str(x) for x in a))


log_stream = io.StringIO()
h = logging.StreamHandler(log_stream)
h.setLevel(logging.DEBUG)
lg = logging.getLogger("prov.model")
lg.addHandler(h)
lg.setLevel(logging.DEBUG)

EX = Namespace("ex", "http://example.org/")
cases = [
    ("abc", None, None),
    ("", None, None),
    (12, XSD_INT, None),
    ("bonjour", None, "fr"),
    ("hello", PROV["InternationalizedString"], "en"),
    ("hi", XSD_STRING, "en"),
    ("line1\nline2", None, None),
    ('q"uote\\back', EX["t"], None),
    ("x", None, ""),
    ("x", XSD_STRING, ""),
    ("x", None, 5),
    (None, None, None),
    ("café 中", XSD_STRING, None),
    (1.5, "plain-string-type", None),
]
lits = []
for v, d, l in cases:
    lit = Literal(v, d, l)
    lits.append(lit)
    emit(
        "case", repr(v), d, repr(l),
        "->", repr(lit.value), repr(lit.datatype), repr(lit.langtag),
        lit.has_no_langtag(), str(lit), repr(lit), lit.provn_representation(),
    )
    emit("types", type(lit.value).__name__, type(lit.langtag).__name__)

for i, a in enumerate(lits):
    row = []
    for b in lits:
        row.append("%d%d%d" % (a == b, a != b, hash(a) == hash(b)))
    emit("cmp", i, " ".join(row))

a = Literal("abc")
for other in ["abc", None, 5, ("abc", None, None), object]:
    emit("eq-other", a == other, a != other, other == a)

emit("hash-eq", hash(Literal("a", XSD_INT)) == hash(("a", XSD_INT, None)))
emit("set", len({Literal("a"), Literal("a"), Literal("a", XSD_INT), Literal("a", None, "en")}))

c = copy.deepcopy(lits[4])
emit("deepcopy", c == lits[4], c is lits[4], str(c))
p = pickle.loads(pickle.dumps(lits[3]))
emit("pickle", p == lits[3], str(p), p.langtag, p.datatype)
emit("public-attrs", sorted(n for n in dir(Literal) if not n.startswith("_")))

# read-only properties
for name in ("value", "datatype", "langtag"):
    try:
        setattr(a, name, "zz")
        emit("setattr", name, "ok")
    except AttributeError as e:
        emit("setattr", name, "AttributeError")

# within a document
doc = ProvDocument()
doc.add_namespace(EX)
e = doc.entity("ex:e", [("ex:a", l) for l in lits[:9]])
emit("provn", sorted(doc.get_provn().splitlines()))
emit("json", doc.serialize(format="json", sort_keys=True) if False else sorted(
    str(x) for x in e.get_attribute("ex:a")))
doc2 = ProvDocument.deserialize(content=doc.serialize(format="json"), format="json")
emit("roundtrip", doc == doc2)
emit("xml-roundtrip", ProvDocument.deserialize(content=doc.serialize(format="xml"), format="xml") == doc)

emit("log", log_stream.getvalue())
text = "\n".join(out)
print(text)
print("DIGEST", hashlib.sha256(text.encode("utf-8")).hexdigest())
