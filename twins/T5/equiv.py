"""Differential script for prov.serializers.provxml (deterministic digest)."""
import os
import sys

# Record attributes live in sets: fix the hash seed so that the digest is
# reproducible from run to run (child runs with PYTHONHASHSEED=0, 1, 2).
if os.environ.get("EQUIV_CHILD") != "1":
    import subprocess
    for seed in ("0", "1", "2"):
        env = dict(os.environ, PYTHONHASHSEED=seed, EQUIV_CHILD="1")
        print("=== PYTHONHASHSEED=%s" % seed, flush=True)
        rc = subprocess.call([sys.executable] + sys.argv, env=env)
        if rc:
            sys.exit(rc)
    sys.exit(0)

import datetime
import glob
import hashlib
import io
import os
import tempfile
import warnings

from lxml import etree

import prov.model as pm
from prov.identifier import Identifier, Namespace
from prov.constants import PROV, XSD_QNAME
from prov.serializers import provxml
from prov.serializers.provxml import ProvXMLSerializer, ProvXMLException
from prov.tests import examples

LINES = []


def emit(tag, text):
    if isinstance(text, bytes):
        text = text.decode("utf-8", "backslashreplace")
    h = hashlib.sha256(text.encode("utf-8", "backslashreplace")).hexdigest()[:16]
    LINES.append("%s len=%d sha=%s" % (tag, len(text), h))
    if len(text) < 400:
        LINES.append("    " + text.replace("\n", "\\n"))


def guarded(tag, fn):
    with warnings.catch_warnings(record=True) as w:
        warnings.simplefilter("always")
        try:
            res = fn()
            emit(tag, res)
        except Exception as e:  # noqa
            emit(tag + " EXC", "%s: %s" % (type(e).__name__, e))
    for x in w:
        emit(tag + " WARN", "%s: %s" % (x.category.__name__, x.message))


def doc_repr(doc):
    out = [doc.get_provn()]
    for rec in doc.get_records():
        out.append(repr((str(rec.get_type()), str(rec.identifier),
                         [(str(k), repr(v), type(v).__name__) for k, v in rec.attributes])))
    for b in doc.bundles:
        out.append("BUNDLE %s" % b.identifier)
        for rec in b.get_records():
            out.append(repr((str(rec.get_type()), str(rec.identifier),
                             [(str(k), repr(v), type(v).__name__) for k, v in rec.attributes])))
    out.append(repr(sorted((n.prefix, n.uri) for n in doc.namespaces)))
    out.append(repr(doc.get_default_namespace()))
    return "\n".join(out)


def build_docs():
    docs = {}
    d = pm.ProvDocument()
    docs["empty"] = d

    d = pm.ProvDocument()
    d.add_namespace("ex", "http://example.org/")
    d.set_default_namespace("http://default.example/")
    ex = d.get_namespace("ex") if hasattr(d, "get_namespace") else Namespace("ex", "http://example.org/")
    ex = Namespace("ex", "http://example.org/")
    other = Namespace("oé", "http://other.example/u#")
    d.add_namespace(other)
    e1 = d.entity("ex:e1", {
        "ex:bool": True,
        "ex:boolf": False,
        "ex:int": 42,
        "ex:float": 1.5,
        "ex:dt": datetime.datetime(2020, 1, 2, 3, 4, 5, 678),
        "ex:uri": Identifier("http://example.org/some uri?x=1&y=<2>"),
        "ex:str": "plain <&> \"text\"",
        "ex:empty": "",
        "ex:provstr": "prov:notatype",
        "ex:qn": ex["qn-value"],
        "ex:lit": pm.Literal("12", datatype=pm.XSD_INT if hasattr(pm, "XSD_INT") else None),
        "ex:lang": pm.Literal("bonjour", langtag="fr"),
        "ex:istr": pm.Literal("hallo", datatype=PROV["InternationalizedString"], langtag="de"),
        "ex:custom": pm.Literal("abc", datatype=ex["mytype"]),
        "prov:type": ex["SomeType"],
        "prov:label": "a label",
        "prov:location": "somewhere",
        "prov:value": 7,
    })
    d.entity("ex:e1", {"prov:type": "string type", "prov:location": ex["loc"], "prov:value": 2.25})
    d.entity("e-default", {"prov:type": PROV["Plan"], "prov:label": pm.Literal("etiquette", langtag="fr")})
    d.entity(other["näme"], {other["kéy"]: "välue 中文", "prov:type": PROV["Bundle"]})
    d.entity("ex:coll", {"prov:type": PROV["Collection"]})
    d.entity("ex:ecoll", {"prov:type": PROV["EmptyCollection"]})
    d.entity("ex:two", [("prov:type", PROV["Plan"]), ("prov:type", PROV["Collection"]), ("prov:type", pm.Literal(PROV["Bundle"], datatype=XSD_QNAME))])
    a1 = d.activity("ex:a1", datetime.datetime(2011, 11, 16, 16, 5), None, {"ex:start": datetime.datetime(2000, 1, 1), "prov:type": 5})
    d.activity("ex:a2", None, "2012-01-01T00:00:00")
    ag = d.agent("ex:ag", {"prov:type": PROV["Person"]})
    d.agent("ex:org", {"prov:type": PROV["Organization"], "ex:n": 3})
    d.agent("ex:sw", {"prov:type": pm.Literal(PROV["SoftwareAgent"], datatype=XSD_QNAME)})
    d.wasGeneratedBy(e1, a1, datetime.datetime(2012, 3, 4, 5, 6, 7), "ex:gen1", {"ex:role": "r", "prov:role": ex["role"]})
    d.wasGeneratedBy(e1, None, None)
    d.used(a1, e1, None, None, {"prov:atTime-ish": 1} if False else {"ex:timeLike": datetime.datetime(2001, 1, 1)})
    d.wasDerivedFrom("ex:e2", e1, a1, None, None, "ex:der", {"prov:type": PROV["Revision"]})
    d.wasDerivedFrom("ex:e3", e1, other_attributes={"prov:type": PROV["Quotation"], "ex:x": 1})
    d.wasDerivedFrom("ex:e4", e1, other_attributes=[("prov:type", PROV["PrimarySource"]), ("prov:type", PROV["Revision"])])
    d.wasAssociatedWith(a1, ag, "ex:e1")
    d.actedOnBehalfOf(ag, "ex:org", a1)
    d.wasAttributedTo(e1, ag)
    d.specializationOf("ex:e2", e1)
    d.alternateOf("ex:e2", e1)
    d.hadMember("ex:coll", e1)
    d.mentionOf("ex:e2", e1, "ex:b1")
    d.wasInfluencedBy("ex:e2", e1, "ex:inf")
    d.wasStartedBy(a1, e1, None, datetime.datetime(2011, 1, 1, 12))
    d.wasEndedBy(a1, None, "ex:a2", None)
    d.wasInvalidatedBy(e1, a1)
    d.wasInformedBy("ex:a2", a1)
    b = d.bundle("ex:b1")
    b.add_namespace("bn", "http://bundle.example/ns#")
    b.entity("bn:inner", {"bn:k": 1, "prov:type": PROV["Plan"]})
    b.entity("ex:e1")
    b.wasDerivedFrom("bn:inner", "ex:e1", other_attributes={"prov:type": PROV["Revision"]})
    b2 = d.bundle("ex:b2")
    b2.activity("ex:a1")
    docs["rich"] = d

    d = pm.ProvDocument()
    d.add_namespace("ex", "http://example.org/")
    d.entity("ex:only")
    docs["nodefault"] = d

    d = pm.ProvDocument()
    d.add_namespace("bad", "http://other.example/ü#")
    d.entity("bad:x")
    docs["bad_uri"] = d

    d = pm.ProvDocument()
    d.add_namespace("ex", "http://example.org/")
    d.entity("ex:e", {"ex:ctrl": "a\x00b"})
    docs["bad_text"] = d

    docs["primer"] = examples.primer_example()
    docs["bundles1"] = examples.bundles1()
    docs["bundles2"] = examples.bundles2()
    docs["long_literals"] = examples.long_literals()
    docs["datatypes"] = examples.datatypes()
    docs["w3c_publication_1"] = examples.w3c_publication_1()
    return docs


def ser_bytes(doc, **kw):
    buf = io.BytesIO()
    ProvXMLSerializer(doc).serialize(buf, **kw)
    return buf.getvalue()


def ser_text(doc, **kw):
    buf = io.StringIO()
    ProvXMLSerializer(doc).serialize(buf, **kw)
    return buf.getvalue()


def ser_file(doc, **kw):
    tmpdir = tempfile.mkdtemp()
    name = os.path.join(tmpdir, "out.xml")
    try:
        ProvXMLSerializer(doc).serialize(name, **kw)
        with open(name, "rb") as f:
            return f.read()
    finally:
        if os.path.exists(name):
            os.remove(name)
        os.rmdir(tmpdir)


def ser_bundle(doc, **kw):
    s = ProvXMLSerializer(doc)
    out = []
    root = s.serialize_bundle(doc, **kw)
    out.append(etree.tostring(root, encoding="unicode"))
    out.append(repr(sorted(root.nsmap.items(), key=repr)))
    for b in doc.bundles:
        r = s.serialize_bundle(b, **kw)
        out.append(etree.tostring(r, encoding="unicode"))
        parent = etree.Element("holder")
        r2 = s.serialize_bundle(bundle=b, element=parent, **kw)
        out.append(etree.tostring(parent, encoding="unicode"))
        out.append(repr((r2.getparent() is parent, r2.tag)))
    return "\n".join(out)


def roundtrip(doc, **kw):
    data = ser_bytes(doc, **kw)
    d2 = ProvXMLSerializer().deserialize(io.BytesIO(data))
    d3 = ProvXMLSerializer().deserialize(io.StringIO(ser_text(doc, **kw).split("?>", 1)[1]))
    return doc_repr(d2) + "\n==\n" + doc_repr(d3) + "\n" + repr((d2 == doc, d3 == doc))


HEAD = ('<prov:document xmlns:prov="http://www.w3.org/ns/prov#" '
        'xmlns:xsi="http://www.w3.org/2001/XMLSchema-instance" '
        'xmlns:xsd="http://www.w3.org/2001/XMLSchema" '
        'xmlns:ex="http://example.org/" %s>')
TAIL = "</prov:document>"

XML_CASES = {
    "comments": HEAD % "" + '<!-- c1 --><prov:entity prov:id="ex:e1"><!-- c2 --><ex:k>v<!-- in --></ex:k></prov:entity><!-- c3 -->' + TAIL,
    "other": HEAD % "" + '<prov:other><ex:foo>bar</ex:foo></prov:other><prov:entity prov:id="ex:e1"/><prov:other/>' + TAIL,
    "nonprov": HEAD % "" + '<prov:entity prov:id="ex:e1"/><ex:thing/>' + TAIL,
    "nonprov_first": HEAD % "" + '<ex:thing/><prov:other/>' + TAIL,
    "unknown_record": HEAD % "" + '<prov:nonsense prov:id="ex:e1"/>' + TAIL,
    "unknown_attr": HEAD % "" + '<prov:entity prov:id="ex:e1"><ex:k ex:weird="1" other="2" xml:lang="en" xml:space="preserve">v</ex:k></prov:entity>' + TAIL,
    "multi_attr": HEAD % "" + '<prov:entity prov:id="ex:e1"><ex:k xsi:type="xsd:int" xml:lang="en">5</ex:k><ex:j xml:lang="en" xsi:type="xsd:QName">ex:q</ex:j><ex:r prov:ref="ex:x" xsi:type="xsd:string">t</ex:r></prov:entity>' + TAIL,
    "empty_text": HEAD % "" + '<prov:entity prov:id="ex:e1"><ex:k/><ex:l></ex:l><ex:m xsi:type="xsd:string"/><ex:n xml:lang="en"/><prov:label/></prov:entity>' + TAIL,
    "empty_qname": HEAD % 'xmlns="http://d.example/"' + '<prov:entity prov:id="ex:e1"><ex:k xsi:type="xsd:QName"/></prov:entity>' + TAIL,
    "empty_qname_nodefault": HEAD % "" + '<prov:entity prov:id="ex:e1"><ex:k xsi:type="xsd:QName"/></prov:entity>' + TAIL,
    "xsi_on_element": HEAD % "" + '<prov:entity prov:id="ex:e1" xsi:type="ex:Special"/><prov:agent xsi:type="prov:Person" prov:id="ex:p"><prov:type xsi:type="xsd:QName">prov:Person</prov:type></prov:agent>' + TAIL,
    "no_id": HEAD % "" + '<prov:wasGeneratedBy><prov:entity prov:ref="ex:e1"/><prov:activity prov:ref="ex:a1"/><prov:time>2012-01-01T00:00:00</prov:time></prov:wasGeneratedBy>' + TAIL,
    "empty_id_nodefault": HEAD % "" + '<prov:entity prov:id=""/>' + TAIL,
    "empty_id_default": HEAD % 'xmlns="http://d.example/"' + '<prov:entity prov:id=""/><entity xmlns="http://www.w3.org/ns/prov#" prov:id="x"><k xmlns="http://d2.example/">v</k></entity>' + TAIL,
    "unknown_prefix_default": HEAD % 'xmlns="http://d.example/"' + '<prov:entity prov:id="zz:e1"><ex:k xsi:type="nope:t">v</ex:k></prov:entity>' + TAIL,
    "unknown_prefix_nodefault": HEAD % "" + '<prov:entity prov:id="zz:e1"/>' + TAIL,
    "nocolon_nodefault": HEAD % "" + '<prov:entity prov:id="e1"/>' + TAIL,
    "multi_colon": HEAD % "" + '<prov:entity prov:id="ex:a:b:c"><ex:k prov:ref="xsd:x:y"/><ex:l prov:ref="prov:z"/></prov:entity>' + TAIL,
    "xsd_prov_prefixes": HEAD % 'xmlns:x2="http://www.w3.org/2001/XMLSchema" xmlns:p2="http://www.w3.org/ns/prov#" xmlns:x3="http://www.w3.org/2001/XMLSchema#"' + '<prov:entity prov:id="p2:e1"><ex:k xsi:type="x2:int">1</ex:k><ex:l xsi:type="x3:int">2</ex:l><ex:m xsi:type="x2:QName">ex:q</ex:m><p2:type xsi:type="x2:QName">p2:Plan</p2:type></prov:entity>' + TAIL,
    "bundles": HEAD % "" + '<prov:entity prov:id="ex:e1"/><prov:bundleContent prov:id="ex:b1" xmlns:bn="http://bn.example/"><prov:entity prov:id="bn:e"><bn:k>1</bn:k></prov:entity><prov:other/></prov:bundleContent><prov:bundleContent prov:id="ex:b2"/>' + TAIL,
    "bundle_noid": HEAD % "" + '<prov:bundleContent><prov:entity prov:id="ex:e"/></prov:bundleContent>' + TAIL,
    "bundle_dupe": HEAD % "" + '<prov:bundleContent prov:id="ex:b1"/><prov:bundleContent prov:id="ex:b1"/>' + TAIL,
    "nested_bundle": HEAD % "" + '<prov:bundleContent prov:id="ex:b1"><prov:bundleContent prov:id="ex:b2"/></prov:bundleContent>' + TAIL,
    "subtypes": HEAD % "" + '<prov:plan prov:id="ex:p"/><prov:revision><prov:generatedEntity prov:ref="ex:a"/><prov:usedEntity prov:ref="ex:b"/></prov:revision><prov:person prov:id="ex:pp"><prov:type xsi:type="xsd:QName">ex:T</prov:type></prov:person><prov:emptyCollection prov:id="ex:ec"/><prov:bundle prov:id="ex:bb"/>' + TAIL,
    "repeated": HEAD % "" + '<prov:entity prov:id="ex:e1"><ex:k>1</ex:k><ex:k>1</ex:k><ex:k xsi:type="xsd:int">1</ex:k></prov:entity><prov:entity prov:id="ex:e1"><ex:k>2</ex:k></prov:entity>' + TAIL,
    "unicode": HEAD % 'xmlns:éx="http://ü.example/"' + '<prov:entity prov:id="éx:näme"><éx:kéy xml:lang="zh">中文 &amp; &lt;</éx:kéy></prov:entity>' + TAIL,
    "not_document_root": '<foo xmlns:prov="http://www.w3.org/ns/prov#" xmlns:ex="http://example.org/"><prov:entity prov:id="ex:e"/></foo>',
    "malformed": "<prov:document",
    "empty_doc": HEAD % "" + TAIL,
    "pi": HEAD % "" + '<?pi x?><prov:entity prov:id="ex:e1"/>' + TAIL,
}


def deser(text, mode):
    s = ProvXMLSerializer()
    if mode == "bytes":
        doc = s.deserialize(io.BytesIO(text.encode("utf-8")))
    elif mode == "text":
        doc = s.deserialize(io.StringIO(text))
    else:
        tmpdir = tempfile.mkdtemp()
        name = os.path.join(tmpdir, "in.xml")
        try:
            with open(name, "wb") as f:
                f.write(text.encode("utf-8"))
            doc = s.deserialize(name)
        finally:
            os.remove(name)
            os.rmdir(tmpdir)
    return doc_repr(doc)


def helper(names):
    for n in names:
        f = getattr(provxml, n, None)
        if f is not None:
            return f
    raise AttributeError(names)


def main():
    docs = build_docs()
    for name in sorted(docs):
        doc = docs[name]
        for ft in (False, True):
            guarded("ser_bytes %s ft=%s" % (name, ft), lambda: ser_bytes(doc, force_types=ft))
            guarded("ser_text %s ft=%s" % (name, ft), lambda: ser_text(doc, force_types=ft))
            guarded("ser_bundle %s ft=%s" % (name, ft), lambda: ser_bundle(doc, force_types=ft))
            guarded("roundtrip %s ft=%s" % (name, ft), lambda: roundtrip(doc, force_types=ft))
        guarded("ser_file %s" % name, lambda: ser_file(doc))
        guarded("ser_default %s" % name, lambda: ser_bytes(doc))
        guarded("ser_extra_kw %s" % name, lambda: ser_bytes(doc, indent=3, foo="bar"))
        guarded("doc.serialize %s" % name, lambda: doc.serialize(format="xml"))
        guarded("doc.serialize ft %s" % name, lambda: doc.serialize(format="xml", force_types=True))
    guarded("ser no document", lambda: ser_bytes(None))
    guarded("ser bad stream", lambda: ProvXMLSerializer(docs["rich"]).serialize(None))
    guarded("ser bad stream int", lambda: ProvXMLSerializer(docs["rich"]).serialize(12))

    for name in sorted(XML_CASES):
        for mode in ("bytes", "text", "file"):
            guarded("deser %s %s" % (name, mode), lambda: deser(XML_CASES[name], mode))
    guarded("deser text with decl", lambda: deser('<?xml version="1.0" encoding="UTF-8"?>' + XML_CASES["bundles"], "text"))
    guarded("deser bytes latin1", lambda: ProvXMLSerializer().deserialize(io.BytesIO(('<?xml version="1.0" encoding="latin-1"?>' + XML_CASES["unicode"].replace("中文", "")).encode("latin-1"))).get_provn())
    guarded("deser None", lambda: ProvXMLSerializer().deserialize(None))
    guarded("deser kwargs", lambda: doc_repr(ProvXMLSerializer().deserialize(io.BytesIO(XML_CASES["bundles"].encode()), foo=1)))

    # deserialize_subtree directly, into existing bundle / document
    def subtree():
        root = etree.fromstring(XML_CASES["bundles"].encode("utf-8"))
        target = pm.ProvDocument()
        target.add_namespace("ex", "http://example.org/")
        target.entity("ex:pre")
        res = ProvXMLSerializer().deserialize_subtree(root, target)
        return repr(res is target) + "\n" + doc_repr(target)
    guarded("subtree", subtree)

    def subtree_comment():
        root = etree.fromstring(XML_CASES["comments"].encode("utf-8"))
        return doc_repr(ProvXMLSerializer().deserialize_subtree(root, pm.ProvDocument()))
    guarded("subtree with comments", subtree_comment)

    # fixture files
    here = os.path.join(os.path.dirname(examples.__file__), "xml")
    for fn in sorted(glob.glob(os.path.join(here, "*.xml"))):
        base = os.path.basename(fn)

        def fixture():
            with open(fn, "rb") as f:
                doc = ProvXMLSerializer().deserialize(f)
            return doc_repr(doc) + "\n" + ser_text(doc) + "\n" + ser_text(doc, force_types=True)
        guarded("fixture %s" % base, fixture)

    # module level helpers
    ext = helper(["_extract_attributes"])
    x2q = helper(["xml_qname_to_QualifiedName"])
    for name in sorted(XML_CASES):
        def run_ext():
            root = etree.fromstring(XML_CASES[name].encode("utf-8"))
            out = []
            for el in root.iter():
                if not isinstance(el.tag, str):
                    continue
                out.append(repr([(str(k), k.namespace.prefix, k.namespace.uri, repr(v), type(v).__name__) for k, v in ext(el)]))
            return "\n".join(out)
        guarded("extract %s" % name, run_ext)

    el = etree.fromstring(XML_CASES["xsd_prov_prefixes"].replace(">", ' xmlns="http://d.example/">', 1).encode("utf-8"))
    el_nd = etree.fromstring(XML_CASES["xsd_prov_prefixes"].encode("utf-8"))
    for q in ["ex:a", "x2:int", "x3:int", "p2:Plan", "prov:Plan", "xsd:string", "xsi:type", "zz:a", "a", "",
              ":", ":a", "a:", "ex:a:b", "zz:a:b", "ex:", "é:è", "ex:中", "xml:lang", " ex:a", "ex :a"]:
        for nm, e in (("def", el), ("nodef", el_nd)):
            def run_q():
                r = x2q(e, q)
                return repr((str(r), r.namespace.prefix, r.namespace.uri, r.localpart, type(r).__name__,
                             r.namespace is PROV, r.namespace is pm.XSD if hasattr(pm, "XSD") else None))
            guarded("x2q %s %r" % (nm, q), run_q)
    for bad in [None, 5, b"ex:a", ("ex:a",), ["a"]]:
        guarded("x2q bad %r" % (bad,), lambda: repr(x2q(el_nd, bad)))
        guarded("x2q bad def %r" % (bad,), lambda: repr(x2q(el, bad)))

    f_ns = helper(["_ns", "_clark"])
    f_prov = helper(["_ns_prov", "_prov_tag"])
    f_xsi = helper(["_ns_xsi", "_xsi_tag"])
    f_xml = helper(["_ns_xml", "_xml_tag"])
    for args in [("http://a/", "t"), ("", ""), ("{x}", "%s"), (None, 5), ((1, 2), "t"), ("é", "中")]:
        guarded("_ns %r" % (args,), lambda: f_ns(*args))
    for t in ["id", "", "%s", "{}", None, 3, ("a",), "é"]:
        guarded("_ns_prov %r" % (t,), lambda: f_prov(t))
        guarded("_ns_xsi %r" % (t,), lambda: f_xsi(t))
        guarded("_ns_xml %r" % (t,), lambda: f_xml(t))

    # _derive_record_label
    s = ProvXMLSerializer()
    ex = Namespace("ex", "http://example.org/")
    cases = [
        (pm.PROV_ENTITY, []),
        (pm.PROV_ENTITY, [(pm.PROV_TYPE, PROV["Plan"])]),
        (pm.PROV_ENTITY, [(pm.PROV_TYPE, ex["T"]), (pm.PROV_TYPE, PROV["Plan"]), (pm.PROV_TYPE, PROV["Collection"])]),
        (pm.PROV_ENTITY, [(pm.PROV_TYPE, pm.Literal(PROV["Plan"], XSD_QNAME)), (pm.PROV_TYPE, PROV["Plan"])]),
        (pm.PROV_ENTITY, [(pm.PROV_TYPE, PROV["Person"]), (pm.PROV_LABEL, PROV["Plan"])]),
        (pm.PROV_ENTITY, [(pm.PROV_TYPE, PROV["Entity"]), (pm.PROV_TYPE, "prov:Plan"), (pm.PROV_TYPE, 5), (pm.PROV_TYPE, [1])]),
        (pm.PROV_AGENT, [(pm.PROV_TYPE, PROV["Plan"]), (pm.PROV_TYPE, PROV["SoftwareAgent"]), (pm.PROV_TYPE, PROV["Person"])]),
        (pm.PROV_DERIVATION, [(pm.PROV_TYPE, PROV["Revision"]), (pm.PROV_TYPE, PROV["Revision"])]),
        (pm.PROV_DERIVATION, [(ex["k"], PROV["Revision"])]),
        (PROV["Nope"], []),
        (pm.PROV_BUNDLE, [(pm.PROV_TYPE, PROV["Bundle"])]),
    ]
    for i, (rt, attrs) in enumerate(cases):
        def run_label():
            a = list(attrs)
            lab = s._derive_record_label(rt, a)
            return repr((lab, [(str(k), repr(v)) for k, v in a]))
        guarded("label %d" % i, run_label)
    guarded("label tuple attrs", lambda: repr(s._derive_record_label(pm.PROV_ENTITY, ((pm.PROV_TYPE, PROV["Plan"]),))))
    guarded("label none attrs", lambda: repr(s._derive_record_label(pm.PROV_ENTITY, None)))

    for k in ("FULL_NAMES_MAP", "FULL_PROV_RECORD_IDS_MAP"):
        m = getattr(provxml, k)
        emit(k, repr([(str(a), str(b)) for a, b in m.items()]) + type(m).__name__)
    emit("XML_XSD_URI", provxml.XML_XSD_URI)

    print("\n".join(LINES))
    print("TOTAL", hashlib.sha256("\n".join(LINES).encode("utf-8", "backslashreplace")).hexdigest())


main()
