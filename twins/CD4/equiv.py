"""Differential script for change 4 (ProvRecord.get_provn: fewer attribute look-ups)."""
import os
import sys

if os.environ.get("PYTHONHASHSEED") != "0":
    os.environ["PYTHONHASHSEED"] = "0"
    os.execv(sys.executable, [sys.executable] + sys.argv)

import datetime
import hashlib

from prov.model import ProvDocument, ProvBundle, Literal, ProvRecord, ProvEntity
from prov.identifier import Namespace, Identifier
from prov.constants import (
    PROV,
    PROV_ATTR_STARTTIME,
    PROV_ATTR_ENDTIME,
    PROV_ATTR_TIME,
    PROV_ATTR_ENTITY,
    PROV_ATTR_ACTIVITY,
    PROV_ATTR_COLLECTION,
    PROV_TYPE,
    PROV_LABEL,
    XSD_INT,
)

OUT = []
EX = Namespace("ex", "http://example.org/")


def keys(rec):
    """Keys (also of empty entries) of the record's attribute dict, in order."""
    return [(str(k), len(v) if hasattr(v, "__len__") else "?") for k, v in rec._attributes.items()]


def show(tag, rec):
    before = keys(rec)
    try:
        text = rec.get_provn()
        text2 = str(rec)
        again = rec.get_provn()
        OUT.append("%s -> %r same=%r/%r" % (tag, text, text == text2, text == again))
    except Exception as e:  # noqa
        OUT.append("%s -> EXC %s: %s" % (tag, type(e).__name__, e))
    after = keys(rec)
    # get_provn must not add (empty) entries for formal attributes that are not set
    OUT.append("   keys before=%r unchanged=%r" % (before, before == after))


d = ProvDocument()
d.add_namespace(EX)
d.set_default_namespace("http://dflt.example/")
DT = datetime.datetime(2020, 1, 2, 3, 4, 5, 678)

# elements: none / some / all formal attributes, extras with several values
show("entity bare", d.entity("ex:e0"))
show("entity default ns", d.entity("e-default"))
show("entity non-ascii", d.entity("ex:é☃", {"ex:nom": "valeur ☃", "ex:vide": ""}))
e = d.entity(
    "ex:e1",
    [
        ("ex:a", 1),
        ("ex:a", 2),
        ("ex:a", "1"),
        ("ex:b", 1.5),
        ("ex:c", True),
        ("ex:d", DT),
        ("ex:e", Literal("7", EX["odd"])),
        ("ex:f", Literal("hello", langtag="en")),
        ("ex:g", EX["qn"]),
        ("ex:h", Identifier("http://h/")),
        ("ex:i", "multi\nline \"q\""),
        (PROV_TYPE, EX["T"]),
        (PROV_TYPE, PROV["Plan"]),
        (PROV_LABEL, "label"),
        ("prov:value", 42),
        ("prov:location", "here"),
    ],
)
show("entity many", e)
show("activity bare", d.activity("ex:a0"))
show("activity start", d.activity("ex:a1", DT))
show("activity end", d.activity("ex:a2", None, "2021-05-06T07:08:09+02:00"))
show("activity both+extra", d.activity("ex:a3", DT, DT, {"ex:k": "v", PROV_TYPE: "ex:Run"}))
show("agent", d.agent("ex:ag", {"prov:type": PROV["Person"], "ex:name": "Zoë"}))
show("collection", d.collection("ex:col"))

# get_* accessors create empty entries (defaultdict): records that already have empty entries
a = d.activity("ex:a4")
a.get_startTime()
a.get_endTime()
a.get_attribute("ex:nothing")
a.get_attribute(PROV_LABEL)
show("activity with empty entries", a)
a.set_time(DT)
show("activity set_time start", a)
a.set_time(endTime="2022-01-01")
show("activity set_time end", a)
a.set_time(DT + datetime.timedelta(1), DT)
show("activity set_time replaced", a)
e5 = d.entity("ex:e5")
e5.get_attribute("ex:x")
e5.label
e5.value
show("entity with empty entries", e5)
e5.add_attributes({"ex:x": 1})
show("entity empty entry filled", e5)

# relations: with / without identifier, missing formal attributes in every position
show("gen e only", d.wasGeneratedBy("ex:e1"))
show("gen e,a", d.wasGeneratedBy("ex:e1", "ex:a1"))
show("gen e,-,t", d.wasGeneratedBy("ex:e1", time=DT))
show("gen id", d.wasGeneratedBy("ex:e1", "ex:a1", DT, identifier="ex:g1"))
show("gen id default ns + extras", d.wasGeneratedBy("ex:e1", None, None, "g2", {"ex:x": 1, "prov:role": "r"}))
show("used", d.used("ex:a1", "ex:e1", "2020-01-01T00:00:00Z"))
show("start", d.wasStartedBy("ex:a1", None, "ex:a2", DT))
show("end all", d.wasEndedBy("ex:a1", "ex:e1", "ex:a2", DT, "ex:end1", {"ex:k": 1}))
show("invalidation", d.wasInvalidatedBy("ex:e1", None, DT))
show("communication", d.wasInformedBy("ex:a2", "ex:a1"))
show("derivation", d.wasDerivedFrom("ex:e1", "ex:e0", None, "ex:g1", None))
show("derivation full", d.wasDerivedFrom("ex:e1", "ex:e0", "ex:a1", "ex:g1", "ex:u1", "ex:d1", {PROV_TYPE: PROV["Revision"]}))
show("attribution", d.wasAttributedTo("ex:e1", "ex:ag"))
show("association", d.wasAssociatedWith("ex:a1", None, "ex:plan"))
show("delegation", d.actedOnBehalfOf("ex:ag", "ex:boss", None))
show("influence", d.wasInfluencedBy("ex:e1", "ex:ag", "ex:inf", {"ex:w": 0.5}))
show("specialization", d.specializationOf("ex:e1", "ex:e0"))
show("alternate", d.alternateOf("ex:e1", "ex:e0"))
show("mention", d.mentionOf("ex:e1", "ex:e0", "ex:bundle"))
m = d.membership("ex:col", "ex:e1")
show("membership", m)
m.add_attributes([(PROV_ATTR_COLLECTION, "ex:col"), (PROV_ATTR_ENTITY, "ex:e0"), (PROV_ATTR_ENTITY, "ex:e5")])
show("membership several entities", m)

# a relation with a repeated identifier and a bundle record
show("repeat id 1", d.entity("ex:rep", {"ex:n": 1}))
show("repeat id 2", d.entity("ex:rep", {"ex:n": 2}))
b = d.bundle("ex:bundle")
b.add_namespace("bx", "http://bx/")
show("in bundle", b.activity("bx:act", DT, None, {"bx:k": Literal("v", b.valid_qualified_name("bx:t"))}))
show("in bundle rel", b.wasGeneratedBy("bx:ent", "bx:act", DT, "bx:gen", {"ex:k": "v"}))


# values with / without provn_representation, and ones whose provn_representation misbehaves
class WithRepr(object):
    def provn_representation(self):
        return "CUSTOM-REPR"

    def __hash__(self):
        return 1


class NonStrRepr(object):
    def provn_representation(self):
        return 12345


class TupleRepr(object):
    def provn_representation(self):
        return ("a", "b")


class RaisesAttr(object):
    def provn_representation(self):
        raise AttributeError("inside")

    def __str__(self):
        return "raises-attr-str"


class RaisesOther(object):
    def provn_representation(self):
        raise KeyError("boom")


class StrSubKey(str):
    pass


for tag, val in [
    ("custom repr", WithRepr()),
    ("non-str repr", NonStrRepr()),
    ("tuple repr", TupleRepr()),
    ("attrerror inside", RaisesAttr()),
    ("other error", RaisesOther()),
]:
    r = d.entity("ex:custom")
    r._attributes[EX["k0"]].add(1)
    r._attributes[EX["k"]].add(val)
    r._attributes[EX["k2"]].add(2)
    show(tag, r)

# attribute containers that are not sets (private API, but cheap to pin down)
r = d.activity("ex:odd")
r._attributes[PROV_ATTR_STARTTIME] = [DT, DT + datetime.timedelta(1)]
r._attributes[PROV_ATTR_ENDTIME] = []
r._attributes[EX["lst"]] = ["x", "y"]
r._attributes[EX["tup"]] = ()
r._attributes[EX["gen"]] = iter(["once"])
show("non-set containers (first call consumes iterator)", r)
r._attributes[PROV_ATTR_ENDTIME] = iter([DT])
show("iterator as formal", r)

# a qualified name key in the default namespace with a str-subclass local part
r = d.entity("ex:subkey")
r._attributes[Namespace("", "http://dflt.example/")[StrSubKey("sub-local")]].add("v")
show("str-subclass key", r)

# formal attribute with non-datetime, falsy-but-present values
r = d.wasGeneratedBy("ex:e1")
r._attributes[PROV_ATTR_TIME].add(0)
show("formal value 0", r)
r = d.wasGeneratedBy("ex:e1")
r._attributes[PROV_ATTR_ACTIVITY].add("")
show("formal value empty string", r)


# subclass with other FORMAL_ATTRIBUTES / per-instance override
class MyEntity(ProvEntity):
    FORMAL_ATTRIBUTES = (PROV_LABEL,)


r = MyEntity(d, EX["mine"], {PROV_LABEL: "L", "ex:k": 1})
show("subclass formal", r)
r2 = MyEntity(d, EX["mine2"], {"ex:k": 1})
show("subclass formal missing", r2)
r2.FORMAL_ATTRIBUTES = [EX["k"], PROV_LABEL]
show("instance-level formal list", r2)

# whole document, unified / flattened and equality use get_provn indirectly
def whole(tag, fn):
    try:
        OUT.append("%s:\n%s" % (tag, fn()))
    except Exception as e:  # noqa
        OUT.append("%s -> EXC %s: %s" % (tag, type(e).__name__, e))


whole("doc with misbehaving values", d.get_provn)
# drop the records holding the artificial values, then the document is serialisable
for rec in list(d.get_records()):
    if str(rec.identifier) in ("ex:custom", "ex:odd", "ex:subkey"):
        d._records.remove(rec)
        d._id_map[rec.identifier].remove(rec)
for rec in list(d.get_records()):
    if any(v in (0, "") and not isinstance(v, bool) for k, v in rec.formal_attributes):
        d._records.remove(rec)
whole("doc", d.get_provn)
whole("unified", lambda: d.unified().get_provn())
whole("flattened", lambda: d.flattened().get_provn())
whole(
    "json round trip",
    lambda: ProvDocument.deserialize(
        content=d.unified().serialize(format="json"), format="json"
    ).get_provn(),
)
whole("records sorted", lambda: repr(sorted(str(r) for r in d.get_records())))
whole("bundle records", lambda: repr([str(r) for r in b.get_records()]))

text = "\n".join(OUT) + "\n"
sys.stdout.write(text)
sys.stdout.write("DIGEST %s\n" % hashlib.sha256(text.encode("utf-8")).hexdigest())
