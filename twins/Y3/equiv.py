# differential script for refactoring 3: ProvRecord.add_attributes
import datetime, hashlib
from prov.model import ProvDocument, Literal, PROV, Namespace, ProvException
from prov.identifier import Identifier, QualifiedName
from prov.constants import *

def show(v):
    if isinstance(v, Literal):
        return ("Literal", v.value, str(v.datatype), v.langtag)
    if isinstance(v, QualifiedName):
        return ("QName", str(v), v.uri)
    if isinstance(v, Identifier):
        return ("Identifier", v.uri)
    if isinstance(v, datetime.datetime):
        return (type(v).__name__, v.isoformat())
    return (type(v).__name__, repr(v))

def state(rec):
    return sorted((str(k), sorted(show(v) for v in vs)) for k, vs in rec._attributes.items())

class BadDT(datetime.datetime):
    def __ne__(self, other):
        raise TypeError("cannot compare")
    __hash__ = datetime.datetime.__hash__

class FalsyNe(datetime.datetime):
    def __ne__(self, other):
        return 0
    __hash__ = datetime.datetime.__hash__

EX = Namespace("ex", "http://example.org/")
UND = Namespace("und", "http://und.example.org/")
T1 = datetime.datetime(2001, 1, 1)
T2 = datetime.datetime(2002, 2, 2)

def fresh():
    d = ProvDocument()
    d.add_namespace(EX)
    return d

out = []
def attempt(name, maker, attr_sets):
    d = fresh()
    rec = maker(d)
    for attrs in attr_sets:
        try:
            r = rec.add_attributes(attrs() if callable(attrs) else attrs)
            out.append((name, "ok", r))
        except Exception as ex:
            out.append((name, "EXC", type(ex).__name__, str(ex)))
        out.append((name, "state", state(rec)))
    out.append((name, "ns", sorted((n.prefix, n.uri) for n in d.get_registered_namespaces())))

ent = lambda d: d.entity("ex:e")
act = lambda d: d.activity("ex:a")
gen = lambda d: d.generation("ex:e", "ex:a", identifier="ex:g")
mem = lambda d: d.membership("ex:c", "ex:m0")

attempt("empty", ent, [None, {}, [], (), ""])
attempt("dict", ent, [{"ex:k": "v", "ex:n": 1, "ex:none": None, EX["q"]: EX["val"], UND["x"]: UND["y"]}])
attempt("pairs-repeat", ent, [[("ex:k", "v"), ("ex:k", "v"), ("ex:k", "w"), ("ex:k", Literal("v")), ("ex:k", Literal("v", None, "en"))]])
attempt("generator", ent, [lambda: ((k, v) for k, v in [("ex:k", "v")])])
attempt("badname", ent, [[("ex:ok", 1), ("nope:zzz", 2), ("ex:after", 3)], [(None, 1)], [(5, 1)]])
attempt("types-labels", ent, [[(PROV_TYPE, PROV["Plan"]), (PROV_TYPE, "ex:T"), (PROV_LABEL, "l1"), (PROV_LABEL, Literal("l2", None, "fr")), (PROV_VALUE, 5), (PROV_LOCATION, Identifier("http://loc/"))]])
attempt("act-times", act, [[(PROV_ATTR_STARTTIME, "2001-01-01T00:00:00")], [(PROV_ATTR_STARTTIME, T1)],
                            [(PROV_ATTR_STARTTIME, T2)], [(PROV_ATTR_ENDTIME, "garbage")], [(PROV_ATTR_ENDTIME, "")],
                            [(PROV_ATTR_ENDTIME, T2), (PROV_ATTR_ENDTIME, T2)], {PROV_ATTR_ENDTIME: None}])
attempt("act-uncomparable", act, [[(PROV_ATTR_STARTTIME, T1)], [(PROV_ATTR_STARTTIME, BadDT(2001, 1, 1))],
                                   [(PROV_ATTR_ENDTIME, T1)], [(PROV_ATTR_ENDTIME, FalsyNe(2009, 9, 9))]])
attempt("gen-qnames", gen, [[(PROV_ATTR_ENTITY, "ex:e")], [(PROV_ATTR_ENTITY, EX["e"])], [(PROV_ATTR_ENTITY, "ex:other")],
                             [(PROV_ATTR_ACTIVITY, "bad name with spaces:x")], [(PROV_ATTR_ACTIVITY, 42)],
                             [(PROV_ATTR_TIME, T1), ("ex:role", "r")], [(PROV_ATTR_TIME, "2001-01-01")], [(PROV_ATTR_TIME, 17)]])
def rec_value(d_holder=[]):
    d = fresh()
    return [(PROV_ATTR_ENTITY, d.entity("ex:e")), ("ex:ref", d.entity("ex:r2")), (PROV_ATTR_ACTIVITY, d.activity("ex:a"))]
attempt("record-values", gen, [rec_value])
attempt("collection", mem, [[(PROV_ATTR_ENTITY, "ex:m1")],
                             [(PROV_ATTR_COLLECTION, "ex:c"), (PROV_ATTR_ENTITY, "ex:m1"), (PROV_ATTR_ENTITY, "ex:m2")],
                             [(PROV_ATTR_COLLECTION, "ex:c2"), (PROV_ATTR_ENTITY, "ex:m3")],
                             {PROV_ATTR_COLLECTION: None, PROV_ATTR_ENTITY: "ex:m4"},
                             [("prov:collection", "ex:c3")]])
attempt("malformed", ent, [[("ex:k",)], [("ex:a", 1, 2)], 5, "ab", ["xy"]])
for o in out:
    print(o)
print(hashlib.sha256(repr(out).encode()).hexdigest())
