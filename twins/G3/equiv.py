import os
import sys

# Hash randomisation changes set iteration order (multi-valued attributes);
# pin it so that the digest is deterministic and order sensitive.
if os.environ.get("PYTHONHASHSEED") != "0":
    os.environ["PYTHONHASHSEED"] = "0"
    os.execv(sys.executable, [sys.executable] + sys.argv)

import datetime
import glob
import hashlib
import io
import json
import logging

logging.disable(logging.CRITICAL)

import prov
import prov.constants as C
import prov.model as M
from prov.model import (
    ProvDocument,
    ProvBundle,
    Literal,
    Identifier,
    QualifiedName,
    Namespace,
    ProvException,
)
from prov.serializers import provjson as PJ
from prov.tests import examples

SRC = os.path.dirname(os.path.dirname(os.path.abspath(prov.__file__)))
JSON_DIR = os.path.join(SRC, "prov", "tests", "json")


def sha(text):
    if not isinstance(text, bytes):
        text = text.encode("utf-8")
    return hashlib.sha256(text).hexdigest()[:16]


def show(label, fn, *args, **kwargs):
    """Print the result (or the exception) of a call in a stable way."""
    try:
        res = fn(*args, **kwargs)
        text = res if isinstance(res, str) else repr(res)
        print("%s -> OK %s len=%d %s" % (label, sha(text), len(text), text[:300]))
    except BaseException as e:  # noqa
        print("%s -> EXC %s: %s" % (label, type(e).__name__, e))


def handmade_documents():
    docs = []

    docs.append(("empty", ProvDocument()))

    d = ProvDocument()
    d.set_default_namespace("http://default.example/")
    d.add_namespace("ex", "http://example.org/")
    d.add_namespace("o-dd", "http://odd.example/a#b?c=")
    EX = Namespace("ex", "http://example.org/")
    e1 = d.entity(
        "ex:e1",
        [
            ("prov:label", "plain"),
            ("prov:label", Literal("bonjour", langtag="fr")),
            ("ex:int", 42),
            ("ex:neg", -7),
            ("ex:float", 1.5),
            ("ex:bool", True),
            ("ex:boolf", False),
            ("ex:empty", ""),
            ("ex:uni", "café ☃ \"quoted\" \\ back\nnewline\ttab"),
            ("ex:dt", datetime.datetime(2012, 3, 4, 5, 6, 7, 890000)),
            ("ex:uri", Identifier("http://example.org/some thing?x=1&y=<2>")),
            ("ex:qn", EX["other"]),
            ("ex:lit_int", Literal("12", C.XSD_INT)),
            ("ex:lit_dbl", Literal("1e3", C.XSD_DOUBLE)),
            ("ex:lit_bool", Literal("TRUE", C.XSD_BOOLEAN)),
            ("ex:lit_badbool", Literal("maybe", C.XSD_BOOLEAN)),
            ("ex:lit_dt", Literal("2001-02-03T04:05:06", C.XSD_DATETIME)),
            ("ex:lit_str", Literal("s", C.XSD_STRING)),
            ("ex:lit_any", Literal("http://a/b", C.XSD_ANYURI)),
            ("ex:lit_custom", Literal("zzz", EX["customType"])),
            ("ex:lit_untyped", Literal("untyped")),
            ("ex:multi", 1),
            ("ex:multi", 2),
            ("ex:multi", "three"),
            ("prov:type", EX["Thing"]),
            ("prov:type", C.PROV["Plan"]),
            ("prov:location", "here"),
            ("prov:value", 3.25),
        ],
    )
    d.entity("ex:e1", {"ex:again": "second record with same id"})
    d.entity("ex:e1", {"ex:again": "third record with same id"})
    d.entity("e-default")
    a1 = d.activity(
        "ex:a1",
        datetime.datetime(2011, 1, 1, 0, 0, 0),
        "2011-01-02T03:04:05.678+01:00",
        {"prov:type": "ex:edit", "ex:n": 0},
    )
    ag = d.agent("ex:ag", {"prov:type": C.PROV["Person"], "ex:name": "Alïce"})
    d.wasGeneratedBy(e1, a1, time=datetime.datetime(2011, 1, 1, 12, 0, 0))
    d.wasGeneratedBy(e1, a1, identifier="ex:gen1", other_attributes={"ex:k": "v"})
    d.used(a1, "ex:e0")
    d.used(a1, "ex:e0", identifier="ex:u1")
    d.used(a1, "ex:e0", identifier="ex:u1", other_attributes={"prov:role": "r"})
    d.wasAssociatedWith(a1, ag, plan="ex:plan")
    d.wasAssociatedWith(a1, None, plan="ex:plan")
    d.wasAttributedTo(e1, ag)
    d.actedOnBehalfOf(ag, "ex:boss", a1)
    d.wasDerivedFrom("ex:e2", e1, a1, None, None, {"prov:type": C.PROV["Revision"]})
    d.wasInformedBy("ex:a2", a1)
    d.wasStartedBy(a1, "ex:trig", "ex:starter", "2012-01-01T00:00:00")
    d.wasEndedBy(a1, None, None, None)
    d.wasInvalidatedBy(e1, a1, datetime.datetime(2013, 1, 1))
    d.wasInfluencedBy(e1, ag)
    d.alternateOf(e1, "ex:e2")
    d.specializationOf(e1, "ex:e2")
    d.mentionOf("ex:e3", e1, "ex:b1")
    c = d.collection("ex:c1")
    d.hadMember(c, e1)
    d.hadMember(c, "ex:e2")
    d.hadMember("ex:c2", "ex:e3")
    b = d.bundle("ex:b1")
    b.add_namespace("bn", "http://bundle.example/ns#")
    b.entity("bn:x", {"bn:attr": Literal("hi", langtag="en-GB"), "ex:n": 5})
    b.entity("bn:x", {"bn:attr": "dup id in bundle"})
    b.activity("ex:a1")
    b.wasGeneratedBy("bn:x", "ex:a1")
    b.wasGeneratedBy("bn:x", "ex:a1")
    d.bundle("ex:b-empty")
    docs.append(("rich", d))

    return docs


def example_documents():
    return [(name, fn()) for name, fn in examples.tests]


def all_documents():
    return handmade_documents() + example_documents()


def json_fixture_files(step=1):
    files = sorted(glob.glob(os.path.join(JSON_DIR, "*.json")))
    return files[::step]


# NOTE: Identifier.__hash__ involves hash(class), i.e. a memory address, so the
# iteration order of value sets holding Identifier/Literal objects can differ
# from run to run even for identical code.  All digests below are therefore
# taken over a canonical form in which the members of multi-valued attributes
# are sorted; everything else (record order, key order, text) is kept as is.
def _canon_record(rec):
    if not isinstance(rec, dict):
        return rec
    out = {}
    for k, v in rec.items():
        if isinstance(v, list):
            v = sorted(v, key=lambda x: json.dumps(x, sort_keys=True))
        out[k] = v
    return out


def canon_container(c):
    if not isinstance(c, dict):
        return c
    out = {}
    for label, records in c.items():
        if label == "prefix" or not isinstance(records, dict):
            out[label] = records
        elif label == "bundle":
            out[label] = {k: canon_container(v) for k, v in records.items()}
        else:
            out[label] = {
                k: [_canon_record(r) for r in v]
                if isinstance(v, list)
                else _canon_record(v)
                for k, v in records.items()
            }
    return out


def canon_json_text(text, **kw):
    return "rawlen=%d " % len(text) + json.dumps(canon_container(json.loads(text)), **kw)


def to_json(doc, **kw):
    return canon_json_text(doc.serialize(format="json", **kw), **kw)


def raw_json(doc, **kw):
    return doc.serialize(format="json", **kw)


def from_json(text):
    return ProvDocument.deserialize(content=text, format="json")


def _canon_value(v):
    return "%s:%r" % (type(v).__name__, v)


def canon_records(bundle):
    lines = []
    for ns in bundle.get_registered_namespaces():
        lines.append("ns %s=%s" % (ns.prefix, ns.uri))
    dns = bundle.get_default_namespace()
    lines.append("default %s" % (dns.uri if dns else None))
    for rec in bundle.get_records():
        attrs = [
            "%s=%s" % (a, sorted(_canon_value(v) for v in vs))
            for a, vs in rec._attributes.items()
            if vs
        ]
        lines.append(
            "%s id=%r args=%d attrs=%s"
            % (rec.get_type(), rec.identifier, len(rec.args), attrs)
        )
    return lines


def canon_doc(doc):
    lines = canon_records(doc)
    for b in doc.bundles:
        lines.append("bundle %r" % (b.identifier,))
        lines.extend("  " + line for line in canon_records(b))
    provn = doc.get_provn()
    lines.append("provn len=%d lines=%d" % (len(provn), provn.count("\n")))
    return "\n".join(lines)


# ---- refactoring 3: encode/decode_json_representation, literal_json_representation ----
EX = Namespace("ex", "http://example.org/")


class MyInt(int):
    pass


class MyStr(str):
    pass


class MyDT(datetime.datetime):
    pass


class MyLiteral(Literal):
    pass


class MyQN(QualifiedName):
    pass


class Obj:
    def __repr__(self):
        return "<Obj>"


class HalfLiteral:
    value = "v"
    langtag = "en"

    def __repr__(self):
        return "<HalfLiteral>"


VALUES = [
    ("none", None),
    ("true", True),
    ("false", False),
    ("int0", 0),
    ("int", 42),
    ("negint", -1),
    ("bigint", 2 ** 70),
    ("myint", MyInt(5)),
    ("float", 1.5),
    ("nan", float("nan")),
    ("inf", float("-inf")),
    ("str", "plain"),
    ("empty-str", ""),
    ("uni-str", "café ☃ \"q\" \\ \n"),
    ("mystr", MyStr("sub")),
    ("bytes", b"raw"),
    ("list", [1, "a"]),
    ("dict", {"$": "x"}),
    ("obj", Obj()),
    ("date", datetime.date(2012, 1, 2)),
    ("time", datetime.time(1, 2, 3)),
    ("dt", datetime.datetime(2012, 1, 2, 3, 4, 5)),
    ("dt-us", datetime.datetime(2012, 1, 2, 3, 4, 5, 678)),
    ("dt-tz", datetime.datetime(2012, 1, 2, 3, 4, 5, tzinfo=datetime.timezone(datetime.timedelta(hours=-5, minutes=-30)))),
    ("mydt", MyDT(1999, 12, 31)),
    ("qn", EX["thing"]),
    ("qn-default", Namespace("", "http://d/")["local"]),
    ("qn-odd", EX["a b/c#d?e=ü"]),
    ("myqn", MyQN(EX, "sub")),
    ("prov-qn", C.PROV_QUALIFIEDNAME),
    ("identifier", Identifier("http://example.org/x y")),
    ("identifier-empty", Identifier("")),
    ("lit-plain", Literal("v")),
    ("lit-empty", Literal("")),
    ("lit-lang", Literal("v", langtag="en")),
    ("lit-lang-empty", Literal("v", langtag="")),
    ("lit-lang-type", Literal("v", C.XSD_STRING, "fr")),
    ("lit-int", Literal(12, C.XSD_INT)),
    ("lit-custom", Literal("zz", EX["T"])),
    ("lit-strtype", Literal("zz", "ex:strtype")),
    ("mylit", MyLiteral("zz", C.XSD_DOUBLE)),
    ("half-literal", HalfLiteral()),
]

for name, v in VALUES:
    show("encode[%s]" % name, lambda: json.dumps(PJ.encode_json_representation(v), default=repr))
    show("encode-type[%s]" % name, lambda: type(PJ.encode_json_representation(v)).__name__)
    show("literal_repr[%s]" % name, lambda: json.dumps(PJ.literal_json_representation(v), default=repr))
# identity is preserved for pass-through values
for name, v in VALUES:
    try:
        print("same[%s]" % name, PJ.encode_json_representation(v) is v)
    except Exception as e:
        print("same[%s]" % name, type(e).__name__)

doc = ProvDocument()
doc.add_namespace(EX)
doc.set_default_namespace("http://default/")
bundle = doc.bundle("ex:b")
bundle.add_namespace("bn", "http://bn/")

JSON_VALUES = [
    ("none", None), ("true", True), ("int", 3), ("float", 2.5), ("str", "s"), ("empty", ""),
    ("list", [1, {"$": "x"}]),
    ("empty-dict", {}),
    ("no-dollar", {"type": "xsd:int"}),
    ("only-dollar", {"$": "v"}),
    ("dollar-none", {"$": None}),
    ("int-typed", {"$": "10", "type": "xsd:int"}),
    ("int-typed-num", {"$": 10, "type": "xsd:int"}),
    ("anyuri", {"$": "http://x/y z", "type": "xsd:anyURI"}),
    ("anyuri-lang", {"$": "http://x/", "type": "xsd:anyURI", "lang": "en"}),
    ("qname", {"$": "ex:qq", "type": "prov:QUALIFIED_NAME"}),
    ("qname-default", {"$": "local", "type": "prov:QUALIFIED_NAME"}),
    ("qname-unknown-prefix", {"$": "zz:qq", "type": "prov:QUALIFIED_NAME"}),
    ("qname-bundle-prefix", {"$": "bn:qq", "type": "prov:QUALIFIED_NAME"}),
    ("qname-none", {"$": None, "type": "prov:QUALIFIED_NAME"}),
    ("lang", {"$": "v", "lang": "fr"}),
    ("lang-empty", {"$": "v", "lang": ""}),
    ("lang-type", {"$": "v", "lang": "fr", "type": "xsd:string"}),
    ("lang-istring", {"$": "v", "lang": "fr", "type": "prov:InternationalizedString"}),
    ("type-none", {"$": "v", "type": None}),
    ("type-unknown-prefix", {"$": "v", "type": "zz:T"}),
    ("type-custom", {"$": "v", "type": "ex:T"}),
    ("type-uri", {"$": "v", "type": "http://example.org/T"}),
    ("type-int-obj", {"$": "v", "type": 5}),
    ("extra-keys", {"$": "v", "type": "xsd:double", "other": 1}),
    ("nested", {"$": {"$": "v"}, "type": "xsd:string"}),
]


def describe(x):
    if isinstance(x, Literal):
        return "Literal(%r, %r, %r)" % (x.value, x.datatype, x.langtag)
    return "%s:%r" % (type(x).__name__, x)


for target_name, target in (("doc", doc), ("bundle", bundle)):
    for name, v in JSON_VALUES:
        show("decode[%s/%s]" % (target_name, name), lambda: describe(PJ.decode_json_representation(v, target)))
for name, v in JSON_VALUES:
    try:
        print("same-decode[%s]" % name, PJ.decode_json_representation(v, doc) is v)
    except Exception as e:
        print("same-decode[%s]" % name, type(e).__name__)

# whole documents through the serializer (encode + decode paths)
for name, d in all_documents():
    show("serialize[%s]" % name, to_json, d, indent=1)
    show("roundtrip[%s]" % name, lambda: canon_doc(from_json(raw_json(d))))
for path in json_fixture_files(step=7):
    with open(path, encoding="utf-8") as f:
        text = f.read()
    show("fixture[%s]" % os.path.basename(path), lambda: to_json(from_json(text), sort_keys=True))
