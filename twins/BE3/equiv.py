"""Differential script: prints a deterministic digest of the PROV-XML
serializer's behaviour.  Run on the clean and on the changed tree; the two
outputs must be identical."""
import os
import sys

if os.environ.get("PYTHONHASHSEED") != "0":
    os.environ["PYTHONHASHSEED"] = "0"
    os.execv(sys.executable, [sys.executable] + sys.argv)

import datetime
import glob
import hashlib
import io
import tempfile
import warnings

from lxml import etree

import prov
import prov.model as pm
from prov.constants import *  # NOQA
from prov.identifier import Identifier, Namespace, QualifiedName
from prov.serializers import provxml
from prov.serializers.provxml import ProvXMLSerializer
from prov.tests import examples

OUT = []


def emit(*parts):
    OUT.append(" ".join(str(p) for p in parts))


def sha(text):
    if isinstance(text, str):
        text = text.encode("utf-8")
    return hashlib.sha256(text).hexdigest()[:16]


def attempt(label, fn, show=repr):
    """Run fn, record result or exception plus the warnings it raised."""
    with warnings.catch_warnings(record=True) as w:
        warnings.simplefilter("always")
        try:
            res = fn()
            emit(label, "->", show(res))
        except BaseException as e:  # noqa
            res = None
            emit(label, "!!", type(e).__name__, str(e))
    for x in w:
        emit("   warn", x.category.__name__, str(x.message))
    return res


EX = Namespace("ex", "http://example.org/")
EX2 = Namespace("ex2", "http://example.org/2/")
UNI = Namespace("ünï", "http://example.org/uni/")


def doc_literals():
    d = pm.ProvDocument()
    d.add_namespace(EX)
    d.add_namespace(EX2)
    e = d.entity(
        EX["e1"],
        [
            (PROV_TYPE, "a string"),
            (PROV_TYPE, "prov:lookslikeprov"),
            (PROV_TYPE, EX["T"]),
            (PROV_TYPE, PROV["Plan"]),
            (PROV_TYPE, 5),
            (PROV_TYPE, 5.5),
            (PROV_TYPE, True),
            (PROV_TYPE, False),
            (PROV_TYPE, datetime.datetime(2012, 3, 4, 5, 6, 7)),
            (PROV_TYPE, Identifier("http://example.org/uri")),
            (PROV_TYPE, pm.Literal("lit", XSD_STRING)),
            (PROV_TYPE, pm.Literal("chat", langtag="fr")),
            (PROV_TYPE, pm.Literal("12", XSD["short"])),
            (PROV_TYPE, pm.Literal("x", EX2["custom"])),
            (PROV_LOCATION, "Paris"),
            (PROV_LOCATION, 1),
            (PROV_LOCATION, EX["loc"]),
            (PROV_VALUE, 3.25),
            (PROV_LABEL, "label"),
            (PROV_LABEL, pm.Literal("étiquette", langtag="fr")),
            (PROV_LABEL, ""),
            (EX["str"], "plain"),
            (EX["empty"], ""),
            (EX["int"], 42),
            (EX["float"], 1e-7),
            (EX["bool"], True),
            (EX["date"], datetime.datetime(2001, 1, 1, 0, 0, 0, 123)),
            (EX["uri"], Identifier("http://example.org/other")),
            (EX["qn"], EX2["thing"]),
            (EX["lit"], pm.Literal("1.5", XSD_DOUBLE)),
            (EX["lang"], pm.Literal("grüße", langtag="de")),
            (EX["istr"], pm.Literal("abc", PROV["InternationalizedString"], "en")),
            (EX["provstr"], "prov:xyz"),
            (EX2["time"], datetime.datetime(1999, 12, 31, 23, 59, 59)),
            (EX["日本"], "日本語 ☃ é"),
            (EX["int"], 42),
            (EX["int"], 7),
        ],
    )
    a = d.activity(
        EX["a1"],
        datetime.datetime(2011, 1, 1),
        datetime.datetime(2011, 1, 2, 3, 4, 5, 6),
        {PROV_TYPE: EX["Act"], EX["n"]: 1},
    )
    d.agent(EX["ag"], {PROV_TYPE: PROV["Person"], EX["name"]: "Ann"})
    d.agent(EX["ag2"], {PROV_TYPE: pm.Literal(PROV["Organization"], XSD_QNAME)})
    d.agent(EX["ag3"], [(PROV_TYPE, PROV["SoftwareAgent"]), (PROV_TYPE, PROV["Person"])])
    d.entity(EX["pl"], {PROV_TYPE: PROV["Plan"]})
    d.entity(EX["col"], {PROV_TYPE: PROV["Collection"]})
    d.entity(EX["ecol"], {PROV_TYPE: PROV["EmptyCollection"]})
    d.entity(EX["bun"], {PROV_TYPE: PROV["Bundle"]})
    d.wasGeneratedBy(e, a, datetime.datetime(2011, 1, 1, 12), EX["g1"], {PROV_ROLE: EX["r"]})
    d.wasGeneratedBy(e, None, None)
    d.used(a, e, identifier=EX["u1"], other_attributes={PROV_ROLE: "role", EX["x"]: 1})
    d.wasDerivedFrom(EX["e2"], e, a, EX["g1"], EX["u1"], EX["d1"], {PROV_TYPE: PROV["Revision"]})
    d.wasDerivedFrom(EX["e3"], e, other_attributes={PROV_TYPE: PROV["Quotation"]})
    d.wasDerivedFrom(EX["e4"], e, other_attributes=[(PROV_TYPE, PROV["PrimarySource"]), (PROV_TYPE, EX["Own"])])
    d.wasAssociatedWith(a, EX["ag"], EX["pl"])
    d.wasAssociatedWith(a, None, EX["pl"], EX["assoc"])
    d.actedOnBehalfOf(EX["ag"], EX["ag2"], a)
    d.wasAttributedTo(e, EX["ag"])
    d.wasInformedBy(EX["a2"], a)
    d.wasStartedBy(a, e, EX["a2"], datetime.datetime(2011, 1, 1))
    d.wasEndedBy(a, e, None, datetime.datetime(2011, 1, 3))
    d.wasInvalidatedBy(e, a, datetime.datetime(2011, 1, 4))
    d.wasInfluencedBy(e, EX["ag"])
    d.specializationOf(e, EX["e2"])
    d.alternateOf(e, EX["e3"])
    d.mentionOf(e, EX["e2"], EX["bun"])
    d.hadMember(EX["col"], e)
    d.hadMember(EX["col"], EX["e2"])
    # repeated identifiers
    d.entity(EX["e1"], {EX["again"]: "yes"})
    d.entity(EX["e1"])
    return d


def doc_default_ns():
    d = pm.ProvDocument()
    d.set_default_namespace("http://default.example.org/")
    d.add_namespace(EX)
    d.add_namespace(UNI)
    d.entity("e1", {"attr": "v", PROV_TYPE: "T", "ex:q": EX["z"]})
    d.entity("ex:e2", {UNI["clé"]: "välue", PROV_TYPE: UNI["Tÿpe"]})
    d.activity("a1")
    d.used("a1", "e1")
    b = d.bundle("b1")
    b.set_default_namespace("http://bundle-default.example.org/")
    b.add_namespace("bx", "http://bundle.example.org/")
    b.entity("e1", {"bx:k": 1})
    b.entity("bx:e9", {"battr": "x"})
    b.wasDerivedFrom("bx:e9", "e1")
    b2 = d.bundle(EX["b2"])
    b2.add_namespace("ex", "http://other-ex.example.org/")
    b2.entity("ex:clash", {"ex:k": "v"})
    d.bundle(EX["emptybundle"])
    return d


def doc_empty():
    return pm.ProvDocument()


def all_docs():
    docs = [(name, fn()) for name, fn in examples.tests]
    docs.append(("literals", doc_literals()))
    docs.append(("default_ns", doc_default_ns()))
    docs.append(("empty", doc_empty()))
    return docs


def ser_bytes(doc, **kw):
    buf = io.BytesIO()
    ProvXMLSerializer(doc).serialize(buf, **kw)
    return buf.getvalue()


def ser_text(doc, **kw):
    buf = io.StringIO()
    ProvXMLSerializer(doc).serialize(buf, **kw)
    return buf.getvalue()


def canon(doc):
    """Order-independent text form of a document (the order in which a record
    lists its attributes depends on id-based hashes, so it is sorted here)."""
    lines = []
    for b in [doc] + list(doc.bundles):
        lines.append("bundle %r default=%r ns=%r" % (b.identifier, b.get_default_namespace(), sorted((n.prefix, n.uri) for n in b.namespaces)))
        for r in b.get_records():
            lines.append("  %s %r %r" % (r.get_type(), r.identifier, sorted((repr(k), repr(v)) for k, v in r.attributes)))
    return "\n".join(lines)


def read_file(path):
    with open(path, "rb") as f:
        return f.read()


def snapshot(doc):
    """State of a document that a serializer call must not change."""
    parts = [canon(doc)]
    for b in [doc] + sorted(doc.bundles, key=lambda b: str(b.identifier)):
        parts.append(repr([(str(r.identifier), sorted((str(k), repr(v)) for k, v in r.attributes)) for r in b._records]))
        parts.append(repr(sorted((n.prefix, n.uri) for n in b.namespaces)))
    return sha("\n".join(parts))


def run_core(full_text_for=("literals", "default_ns", "empty")):
    emit("== module maps")
    emit(sorted((str(k), v) for k, v in provxml.FULL_NAMES_MAP.items()))
    emit(list(provxml.FULL_PROV_RECORD_IDS_MAP.items()))
    emit(type(provxml.FULL_PROV_RECORD_IDS_MAP).__name__, provxml.XML_XSD_URI)

    emit("== clark helpers")
    for fn in (provxml._ns_prov, provxml._ns_xsi, provxml._ns_xml):
        for tag in ("id", "type", "", "ünï", "a:b"):
            attempt(fn.__name__ + repr(tag), lambda: fn(tag))
    for ns, tag in (("http://x/", "t"), ("", ""), ("http://ü/", "é"), ("{", "}")):
        attempt("_ns%r" % ((ns, tag),), lambda: provxml._ns(ns, tag))
    attempt("_ns(None,1)", lambda: provxml._ns(None, 1))
    attempt("_ns_prov(None)", lambda: provxml._ns_prov(None))
    attempt("_ns_xml(3)", lambda: provxml._ns_xml(3))

    emit("== serialize / deserialize round trips")
    for name, doc in all_docs():
        before = snapshot(doc)
        for ft in (False, True):
            b = attempt("ser_bytes %s ft=%s" % (name, ft), lambda: ser_bytes(doc, force_types=ft), sha)
            t = attempt("ser_text %s ft=%s" % (name, ft), lambda: ser_text(doc, force_types=ft), sha)
            if b is not None and t is not None:
                emit("  same", b.decode("utf-8") == t, len(b))
            if name in full_text_for and t is not None:
                emit(t)
            if b is None:
                continue
            d2 = attempt("deser %s ft=%s" % (name, ft), lambda: ProvXMLSerializer().deserialize(io.BytesIO(b)), lambda d: sha(canon(d)))
            d3 = attempt("deser-text %s ft=%s" % (name, ft), lambda: ProvXMLSerializer().deserialize(io.StringIO(t)), lambda d: sha(canon(d)))
            if d2 is not None:
                emit("  eq-orig", d2 == doc, "eq-text", d2 == d3)
                if name in full_text_for:
                    emit(canon(d2))
                    for r in d2.get_records():
                        emit("  ", r.get_type(), repr(r.identifier), sorted((repr(k), repr(v)) for k, v in r.attributes))
                attempt("re-ser %s" % name, lambda: ser_bytes(d2, force_types=ft), sha)
        # kwargs that are accepted and ignored today
        attempt("ser extra kwargs %s" % name, lambda: ser_bytes(doc, indent=2, foo="bar"), sha)
        # through the document API, to a path and to a string
        attempt("doc.serialize %s" % name, lambda: doc.serialize(format="xml"), sha)
        attempt("doc.serialize ft %s" % name, lambda: doc.serialize(format="xml", force_types=True), sha)
        with tempfile.TemporaryDirectory() as tmp:
            path = os.path.join(tmp, "ö.xml")
            attempt("doc.serialize path %s" % name, lambda: doc.serialize(path, format="xml"))
            attempt("read path %s" % name, lambda: sha(read_file(path)))
            attempt("deser path %s" % name, lambda: pm.ProvDocument.deserialize(path, format="xml"), lambda d: sha(canon(d)))
        emit("  unchanged", before == snapshot(doc))

    emit("== serialize_bundle directly")
    for name, doc in all_docs():
        s = ProvXMLSerializer(doc)
        for ft in (False, True):
            root = attempt("sb doc %s %s" % (name, ft), lambda: s.serialize_bundle(doc, force_types=ft), lambda r: (r.tag, sha(etree.tostring(r)), sorted((str(k), v) for k, v in r.nsmap.items())))
            for b in doc.bundles:
                attempt("sb bundle alone %s %s" % (name, b.identifier), lambda: s.serialize_bundle(b, None, ft), lambda r: (r.tag, dict(r.attrib), sha(etree.tostring(r))))
                if root is not None:
                    attempt("sb bundle sub %s %s" % (name, b.identifier), lambda: s.serialize_bundle(bundle=b, element=root, force_types=ft), lambda r: (r.tag, dict(r.attrib), r.getparent() is root, sha(etree.tostring(r))))
            if root is not None:
                emit("  root-after", sha(etree.tostring(root)), len(root))
    attempt("sb no document", lambda: ProvXMLSerializer().serialize_bundle(pm.ProvDocument()))
    attempt("serialize no document", lambda: ProvXMLSerializer().serialize(io.BytesIO()))
    attempt("sb positional extra", lambda: ProvXMLSerializer(pm.ProvDocument()).serialize_bundle(pm.ProvDocument(), None, False, 1))

    # a stream that is neither text nor binary-file
    class W:
        def __init__(self):
            self.data = []

        def write(self, x):
            self.data.append(x)

    w = W()
    attempt("ser to writer", lambda: ProvXMLSerializer(doc_default_ns()).serialize(w), lambda r: r)
    emit("  writer got", [type(x).__name__ for x in w.data][:3], sha(b"".join(w.data)))
    attempt("ser to None", lambda: ProvXMLSerializer(doc_default_ns()).serialize(None))

    emit("== _derive_record_label")
    s = ProvXMLSerializer()
    cases = [
        (PROV_ENTITY, []),
        (PROV_ENTITY, [(PROV_TYPE, PROV["Plan"])]),
        (PROV_ENTITY, [(PROV_TYPE, "x"), (PROV_TYPE, PROV["Collection"]), (PROV_TYPE, PROV["Plan"])]),
        (PROV_ENTITY, [(PROV_TYPE, PROV["Person"])]),
        (PROV_AGENT, [(PROV_TYPE, PROV["Person"]), (PROV_TYPE, PROV["Person"])]),
        (PROV_AGENT, [(PROV_TYPE, pm.Literal(PROV["Person"], XSD_QNAME)), (EX["a"], 1)]),
        (PROV_AGENT, [(PROV_TYPE, pm.Literal(PROV["Person"], XSD_QNAME)), (PROV_TYPE, PROV["Person"])]),
        (PROV_AGENT, [(PROV_TYPE, PROV["Agent"])]),
        (PROV_DERIVATION, [(PROV_LABEL, PROV["Revision"]), (PROV_TYPE, PROV["Revision"])]),
        (PROV_DERIVATION, [(PROV_TYPE, ["unhashable"])]),
        (PROV_DERIVATION, ((PROV_TYPE, PROV["Revision"]),)),
        (EX["unknown"], []),
        (PROV_ENTITY, None),
    ]
    for rt, attrs in cases:
        attempt("label %s %r" % (rt, attrs), lambda: (s._derive_record_label(rt, attrs), attrs))

    emit("== sorted_attributes")
    scase = [
        (PROV_ENTITY, []),
        (PROV_ENTITY, [(EX["b"], 2), (EX["a"], "10"), (EX["a"], 9), (PROV_VALUE, 1), (PROV_TYPE, "z"), (PROV_TYPE, EX["a"]), (PROV_LABEL, pm.Literal("l", langtag="en")), (PROV_LABEL, "k"), (PROV_ROLE, "r"), (PROV_LOCATION, "x")]),
        (PROV_GENERATION, [(PROV_ATTR_TIME, datetime.datetime(2000, 1, 1)), (PROV_ATTR_ACTIVITY, EX["a"]), (PROV_ATTR_ENTITY, EX["e"]), (EX["x"], 1), (PROV_ROLE, "r")]),
        (PROV_MEMBERSHIP, [(PROV_ATTR_ENTITY, EX["e2"]), (PROV_ATTR_ENTITY, EX["e1"]), (PROV_ATTR_COLLECTION, EX["c"]), (PROV_ATTR_ENTITY, EX["e2"])]),
        (PROV_ENTITY, [(EX["a"], 1), (EX["a"], True), (EX["a"], 1.0), (EX["a"], 1)]),
        (PROV_ENTITY, [("prov:label", "strkey"), (PROV_LABEL, "x"), (("t",), 1), (5, 5)]),
        (PROV_ENTITY, {(EX["d"], 1), (EX["c"], 2)}),
        (PROV_ENTITY, iter([(EX["d"], 1), (EX["c"], 2)])),
        (PROV_ENTITY, {EX["d"]: 1}.items()),
        (PROV_ACTIVITY, [(PROV_ATTR_ENDTIME, 1), (PROV_ATTR_STARTTIME, 2), (QualifiedName(Namespace("p", PROV.uri), "startTime"), 0)]),
        (PROV_ENTITY, [(EX["a"], ["list"]), (EX["a"], None)]),
        (EX["unknown"], [(EX["a"], 1)]),
        (PROV_ENTITY, None),
        (PROV_ENTITY, [(EX["a"],)]),
        (PROV_ENTITY, [EX["a"]]),
    ]
    for rt, attrs in scase:
        orig = list(attrs) if isinstance(attrs, list) else None
        res = attempt("sorted %s %r" % (rt, attrs if not hasattr(attrs, "__next__") else "iter"), lambda: pm.sorted_attributes(rt, attrs))
        if orig is not None:
            emit("  input-unchanged", orig == attrs, "newlist", res is not attrs, type(res).__name__)
    for name, doc in all_docs():
        for r in doc.get_records():
            attempt("sorted rec %s %s" % (name, r.identifier), lambda: pm.sorted_attributes(r.get_type(), r.attributes), lambda x: sha(repr(x)))

    emit("== xml_qname_to_QualifiedName")
    xml = (
        '<prov:document xmlns:prov="http://www.w3.org/ns/prov#" xmlns:xsd="http://www.w3.org/2001/XMLSchema" '
        'xmlns:ex="http://example.org/" xmlns:p2="http://www.w3.org/ns/prov#" xmlns:ü="http://u.example.org/">'
        '<prov:entity prov:id="ex:e"/><inner xmlns="http://default.example.org/" xmlns:ex="http://shadow.example.org/"><leaf/></inner>'
        "</prov:document>"
    )
    root = etree.fromstring(xml.encode("utf-8"))
    inner = root[1]
    names = ["ex:e", "prov:Person", "p2:Person", "xsd:string", "xsd:", "ex:", ":x", "nocolon", "unk:x", "ex:a:b", "ü:é", "", "a b", "ex:with space"]
    for el, elname in ((root, "root"), (root[0], "entity"), (inner, "inner"), (inner[0], "leaf")):
        for n in names:
            attempt("q2q %s %r" % (elname, n), lambda: provxml.xml_qname_to_QualifiedName(el, n), lambda q: (repr(q), q.uri, q.namespace.prefix, q.namespace.uri, q.localpart))
    attempt("q2q identity xsd", lambda: provxml.xml_qname_to_QualifiedName(root, "xsd:string").namespace is XSD)
    attempt("q2q identity prov", lambda: provxml.xml_qname_to_QualifiedName(root, "p2:x").namespace is PROV)
    attempt("q2q None", lambda: provxml.xml_qname_to_QualifiedName(root, None))
    attempt("q2q bytes", lambda: provxml.xml_qname_to_QualifiedName(root, b"ex:e"))
    attempt("q2q elem None", lambda: provxml.xml_qname_to_QualifiedName(None, "ex:e"))

    emit("== _extract_attributes / deserialize on handcrafted XML")
    head = (
        '<?xml version="1.0" encoding="UTF-8"?>\n<prov:document xmlns:prov="http://www.w3.org/ns/prov#" '
        'xmlns:xsi="http://www.w3.org/2001/XMLSchema-instance" xmlns:xsd="http://www.w3.org/2001/XMLSchema" '
        'xmlns:ex="http://example.org/" %s>%s</prov:document>'
    )
    bodies = {
        "plain": ("", '<prov:entity prov:id="ex:e"><ex:a>1</ex:a><ex:b xsi:type="xsd:int">2</ex:b><ex:c xml:lang="fr">çà</ex:c><ex:d/>'
                  '<ex:e xsi:type="xsd:QName">ex:v</ex:e><prov:type xsi:type="xsd:QName">prov:Plan</prov:type><ex:f xsi:type="xsd:string" xml:lang="en">both</ex:f></prov:entity>'),
        "unknown-attr": ("", '<prov:entity prov:id="ex:e"><ex:a ex:weird="w1" other="w2" xsi:type="xsd:string">1</ex:a><ex:b prov:ref="ex:r" ex:z="ü">text</ex:b></prov:entity>'),
        "default-ns": ('xmlns="http://default.example.org/"', '<prov:entity prov:id="e"><a>1</a><b xsi:type="xsd:QName">q</b><prov:type>T</prov:type></prov:entity><prov:used><prov:activity prov:ref="a1"/><prov:entity prov:ref="e"/></prov:used>'),
        "no-default-unprefixed-id": ("", '<prov:entity prov:id="e"/>'),
        "unknown-prefix-type": ("", '<prov:entity prov:id="ex:e"><ex:a xsi:type="zz:int">1</ex:a></prov:entity>'),
        "non-prov": ("", '<ex:entity prov:id="ex:e"/>'),
        "non-prov-unprefixed": ("", "<entity/>"),
        "other": ("", '<prov:other><ex:foo/></prov:other><prov:entity prov:id="ex:e"/><prov:other/>'),
        "unknown-prov-element": ("", '<prov:nonsense prov:id="ex:e"/>'),
        "comments": ("", '<!-- c --><prov:entity prov:id="ex:e"><!-- c2 --><ex:a>1<!-- in --></ex:a></prov:entity>'),
        "xsi-type-on-record": ("", '<prov:entity prov:id="ex:e" xsi:type="prov:Plan"/><prov:agent prov:id="ex:ag" xsi:type="ex:Custom"><prov:type>t</prov:type></prov:agent>'),
        "subtypes": ("", '<prov:person prov:id="ex:p"/><prov:plan prov:id="ex:pl"><prov:label>L</prov:label></prov:plan><prov:wasRevisionOf><prov:generatedEntity prov:ref="ex:a"/><prov:usedEntity prov:ref="ex:b"/></prov:wasRevisionOf>'),
        "bundles": ("", '<prov:bundleContent prov:id="ex:b1" xmlns:bx="http://b.example.org/"><prov:entity prov:id="bx:e"><bx:k>v</bx:k></prov:entity></prov:bundleContent>'
                    '<prov:bundleContent prov:id="ex:b2"/><prov:entity prov:id="ex:e"/>'),
        "bundle-no-id": ("", "<prov:bundleContent><prov:entity prov:id='ex:e'/></prov:bundleContent>"),
        "bundle-dup-id": ("", '<prov:bundleContent prov:id="ex:b1"/><prov:bundleContent prov:id="ex:b1"/>'),
        "membership-multi": ("", '<prov:hadMember><prov:collection prov:ref="ex:c"/><prov:entity prov:ref="ex:e1"/><prov:entity prov:ref="ex:e2"/><prov:entity prov:ref="ex:e3"/></prov:hadMember>'),
        "repeated-ids": ("", '<prov:entity prov:id="ex:e"><ex:a>1</ex:a></prov:entity><prov:entity prov:id="ex:e"><ex:a>2</ex:a></prov:entity><prov:activity prov:id="ex:e"/>'),
        "no-id": ("", "<prov:entity><ex:a>1</ex:a></prov:entity>"),
        "times": ("", '<prov:activity prov:id="ex:a"><prov:startTime>2011-11-16T16:05:00</prov:startTime><prov:endTime>bogus</prov:endTime></prov:activity>'),
        "nonascii": ('xmlns:ü="http://u.example.org/"', '<prov:entity prov:id="ü:é"><ü:ключ xml:lang="ru">значение</ü:ключ><prov:label>☃</prov:label></prov:entity>'),
        "empty-ref": ("", '<prov:used><prov:activity prov:ref=""/><prov:entity prov:ref="ex:e"/></prov:used>'),
        "whitespace-text": ("", '<prov:entity prov:id="ex:e"><ex:a>  spaced\n text </ex:a><ex:b> </ex:b></prov:entity>'),
        "empty-doc": ("", ""),
    }
    for name, (nsdecl, body) in bodies.items():
        text = head % (nsdecl, body)
        tree = etree.fromstring(text.encode("utf-8"))
        for i, el in enumerate(tree):
            if isinstance(el.tag, str):
                attempt("extract %s[%d]" % (name, i), lambda: provxml._extract_attributes(el))
        for kind in ("bytes", "text"):
            stream = io.BytesIO(text.encode("utf-8")) if kind == "bytes" else io.StringIO(text.split("\n", 1)[1])
            d = attempt("deser %s %s" % (name, kind), lambda: ProvXMLSerializer().deserialize(stream), lambda d: canon(d))
            if d is not None:
                for r in d.get_records():
                    emit("   rec", r.get_type(), repr(r.identifier), sorted((repr(k), repr(v)) for k, v in r.attributes))
                for b in d.bundles:
                    emit("   bundle", repr(b.identifier), sorted((n.prefix, n.uri) for n in b.namespaces), b.get_default_namespace())
                    for r in b.get_records():
                        emit("     rec", r.get_type(), repr(r.identifier), sorted((repr(k), repr(v)) for k, v in r.attributes))
                emit("   ns", sorted((n.prefix, n.uri) for n in d.namespaces), d.get_default_namespace())
                attempt("   reser %s" % name, lambda: ser_text(d))
        # deserialize_subtree directly, into a bundle of an existing document
        target = pm.ProvDocument()
        target.entity(EX["pre"])
        attempt("subtree %s" % name, lambda: ProvXMLSerializer().deserialize_subtree(tree, target) is target)
        emit("   target", sha(canon(target)), len(target.get_records()))
    attempt("deser garbage", lambda: ProvXMLSerializer().deserialize(io.BytesIO(b"not xml")), lambda d: canon(d))
    attempt("deser empty", lambda: ProvXMLSerializer().deserialize(io.BytesIO(b"")), lambda d: canon(d))
    attempt("deser None", lambda: ProvXMLSerializer().deserialize(None), lambda d: canon(d))
    attempt("deser kwargs", lambda: ProvXMLSerializer().deserialize(io.BytesIO((head % ("", "")).encode()), foo=1), lambda d: canon(d))

    emit("== test XML files")
    data = os.path.join(os.path.dirname(examples.__file__), "xml")
    for path in sorted(glob.glob(os.path.join(data, "*.xml"))):
        base = os.path.basename(path)
        d = attempt("file %s" % base, lambda: pm.ProvDocument.deserialize(path, format="xml"), lambda d: sha(canon(d)))
        if d is not None:
            attempt("  file-ser %s" % base, lambda: ser_text(d), sha)
            attempt("  file-ser-ft %s" % base, lambda: ser_text(d, force_types=True), sha)
        with open(path, "rb") as f:
            attempt("file-stream %s" % base, lambda: ProvXMLSerializer().deserialize(f), lambda d: sha(canon(d)))

    emit("== class surface")
    emit(sorted(n for n in vars(ProvXMLSerializer) if not n.startswith("__")) if False else "skipped (additive changes allowed)")
    emit(issubclass(provxml.ProvXMLException, prov.Error), provxml.ProvXMLException.__mro__[1].__name__)


def finish():
    text = "\n".join(OUT) + "\n"
    sys.stdout.write(text)
    sys.stdout.write("DIGEST %s lines=%d\n" % (hashlib.sha256(text.encode("utf-8")).hexdigest(), len(OUT)))


if __name__ == "__main__":
    run_core()
    finish()
