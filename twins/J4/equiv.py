"""Differential script for refactoring 4: ProvBundle._unified_records / unified (+ ProvDocument.unified)."""
import os, sys
if os.environ.get("PYTHONHASHSEED") != "0":
    os.environ["PYTHONHASHSEED"] = "0"
    os.execv(sys.executable, [sys.executable] + sys.argv)

import datetime, hashlib, glob
import prov.model as pm
from prov.model import ProvDocument, ProvBundle, ProvRecord, Literal, Identifier, ProvException
from prov.identifier import Namespace
# Harness-only: make Identifier hashing reproducible between runs (it mixes in hash(cls)).
Identifier.__hash__ = lambda self: hash((self.uri, self.__class__.__name__))

out = []
def emit(*a):
    out.append(" ".join(str(x) for x in a))

EX = Namespace("ex", "http://example.org/")
t1 = datetime.datetime(2020, 1, 2, 3, 4, 5)
t2 = datetime.datetime(2021, 1, 2, 3, 4, 5)

def ns_state(b):
    m = b._namespaces
    return (sorted((n.prefix, n.uri) for n in b.get_registered_namespaces()),
            getattr(b.get_default_namespace(), "uri", None),
            sorted(m.keys()), sorted(map(str, getattr(m, "_anon_id_count", "") and [m._anon_id_count] or [])))

def describe(tag, b):
    emit(tag, type(b).__name__, b.identifier, len(b._records), sorted((str(k), len(v)) for k, v in b._id_map.items()))
    for r in b._records:
        emit("   ", type(r).__name__, r.get_provn(), "bundle_is_owner", r.bundle is b)
    emit("    ns", ns_state(b))

def check(tag, b):
    emit("=====", tag)
    before_recs = list(b._records)
    before_ns = ns_state(b)
    before_idmap = sorted((str(k), [id(x) for x in v]) for k, v in b._id_map.items())
    try:
        ur = b._unified_records()
    except Exception as ex:
        emit("_unified_records exc", type(ex).__name__, ex)
        ur = None
    if ur is not None:
        emit("n unified", len(ur), "fresh list", ur is not b._records)
        for r in ur:
            orig = [i for i, x in enumerate(before_recs) if x is r]
            emit("   ", type(r).__name__, r.get_provn(), "orig_index", orig,
                 "owner", "self" if r.bundle is b else type(r.bundle).__name__ + ":" + str(r.bundle.identifier))
        merged_owners = set(id(r.bundle) for r in ur if r.bundle is not b)
        emit("scratch bundles", len(merged_owners))
        for r in ur:
            if r.bundle is not b:
                emit("scratch content", len(r.bundle._records), ns_state(r.bundle))
                break
    try:
        u = b.unified()
        describe("unified()", u)
        emit("unified is new", u is not b, "doc", u.document is None if not u.is_document() else "n/a")
        if u.is_document():
            for sub in u.bundles:
                describe("  sub", sub)
                emit("  sub doc link", sub.document is u)
        u2 = u.unified()
        emit("idempotent", u2 == u, len(u2._records))
    except Exception as ex:
        emit("unified exc", type(ex).__name__, ex)
    # the source is untouched
    emit("source untouched", all(x is y for x, y in zip(before_recs, b._records)) and len(before_recs) == len(b._records),
         before_ns == ns_state(b),
         before_idmap == sorted((str(k), [id(x) for x in v]) for k, v in b._id_map.items()))

# 1 empty
check("empty doc", ProvDocument())
check("empty bundle", ProvBundle())
check("empty named bundle", ProvBundle(identifier=EX["b"]))

# 2 nothing to merge
d = ProvDocument(); d.add_namespace(EX)
d.entity("ex:e1", {"prov:label": "a"}); d.activity("ex:a1"); d.generation("ex:e1", "ex:a1"); d.usage("ex:a1", "ex:e1")
check("no duplicates", d)

# 3 repeated identifiers, interleaved, several groups, >2 members
d = ProvDocument(); d.add_namespace(EX); d.set_default_namespace("http://default.example/")
d.entity("ex:e1", {"prov:label": "one"})
d.activity("ex:a1", t1)
d.entity("ex:e2", {"ex:k": 1})
d.entity("ex:e1", {"prov:label": "two", "prov:type": EX["T"]})
d.generation("ex:e1", "ex:a1")                       # no identifier: never merged
d.generation("ex:e1", "ex:a1")
d.activity("ex:a1", None, t2, {"ex:k": "é \"q\"\nnl"})
d.entity("ex:e1", {"prov:label": "one"})
d.entity("e-default"); d.entity("e-default", {"ex:k": Literal("v", langtag="en")})
d.usage("ex:a1", "ex:e1", identifier="ex:u1"); d.usage("ex:a1", "ex:e1", t1, identifier="ex:u1", other_attributes={"prov:role": "r"})
check("duplicates", d)

# 4 same identifier, different record types (grouped by type AND id)
d = ProvDocument(); d.add_namespace(EX)
d.entity("ex:x", {"ex:k": 1}); d.activity("ex:x"); d.agent("ex:x"); d.entity("ex:x", {"ex:k": 2}); d.agent("ex:x", {"ex:k": 3})
d.collection("ex:x")  # collection is an entity with prov:type
check("same id different types", d)

# 5 conflicting formal attributes -> exception from add_attributes
d = ProvDocument(); d.add_namespace(EX)
d.activity("ex:a1", t1); d.activity("ex:a1", t2)
check("conflicting start times", d)
d = ProvDocument(); d.add_namespace(EX)
d.usage("ex:a1", "ex:e1", identifier="ex:u"); d.usage("ex:a1", "ex:e2", identifier="ex:u")
check("conflicting relation args", d)

# 6 documents with bundles (bundles unified separately; same ids across bundles stay apart)
d = ProvDocument(); d.add_namespace(EX)
d.entity("ex:e1", {"ex:k": 1}); d.entity("ex:e1", {"ex:k": 2})
b1 = d.bundle("ex:b1"); b1.add_namespace("bn", "urn:bundle:")
b1.entity("ex:e1", {"ex:k": 3}); b1.entity("bn:e", {"bn:k": 1}); b1.entity("bn:e", {"bn:k": 2}); b1.entity("ex:e1", {"ex:k": 4})
b2 = d.bundle("ex:b2"); b2.entity("ex:e1")
b3 = d.bundle("ex:b3")
check("doc with bundles", d)
check("bundle b1 alone", b1)
check("bundle b2 alone", b2)
check("bundle b3 alone (empty)", b3)

# 7 namespaces only known in the source must not leak / same prefix other uri
d = ProvDocument(); d.add_namespace("p", "urn:one:")
d.entity("p:e"); d.entity("p:e", {"p:k": "v"})
sb = ProvBundle(identifier=Namespace("p", "urn:two:")["bid"])
sb.add_namespace("p", "urn:one:"); sb.entity("p:e", {"p:a": 1}); sb.entity("p:e", {"p:b": 2})
check("ns doc", d)
check("ns bundle with clashing prefix", sb)

# 8 record identity: a record that is equal (same type, id, attrs) to another
d = ProvDocument(); d.add_namespace(EX)
d.entity("ex:e1"); d.entity("ex:e1"); d.entity("ex:e1")
check("three identical", d)

# fixtures
for path in sorted(glob.glob("src/prov/tests/unification/*.json")) + sorted(glob.glob("src/prov/tests/json/*.json"))[:60]:
    try:
        doc = ProvDocument.deserialize(path)
        u = doc.unified()
        f = doc.flattened().unified()
        emit(os.path.basename(path), len(doc._records), len(u._records), len(f._records),
             hashlib.sha256((u.get_provn() + f.get_provn()).encode("utf-8")).hexdigest()[:24])
    except Exception as ex:
        emit(os.path.basename(path), "exc", type(ex).__name__, ex)
import prov.tests.examples as examples
for name, fn in examples.tests:
    doc = fn()
    u = doc.unified()
    emit(name, len(doc._records), len(u._records), [len(x._records) for x in u.bundles],
         hashlib.sha256(u.get_provn().encode("utf-8")).hexdigest()[:24])

text = "\n".join(out)
print(text)
print("DIGEST", hashlib.sha256(text.encode("utf-8")).hexdigest())
