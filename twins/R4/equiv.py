# The library keeps attribute values in sets, so output order depends on string
# hashing: the script re-runs itself under fixed PYTHONHASHSEED values (0, 1, 2).
import os, subprocess, sys
if "--child" not in sys.argv:
    for seed in ("0", "1", "2"):
        env = dict(os.environ, PYTHONHASHSEED=seed)
        r = subprocess.run([sys.executable, os.path.abspath(__file__), "--child"], env=env,
                           stdout=subprocess.PIPE, stderr=subprocess.STDOUT)
        sys.stdout.write("==== PYTHONHASHSEED=%s rc=%d\n" % (seed, r.returncode))
        sys.stdout.write(r.stdout.decode("utf-8"))
    sys.exit(0)
# shared fixture builders / digest helpers (copied verbatim into each equiv.py)
import datetime, hashlib, sys
from prov.model import (ProvDocument, ProvBundle, ProvException, ProvEntity, ProvActivity,
                        ProvAgent, ProvElement, ProvRelation, ProvRecord, Namespace,
                        PROV_ENTITY, PROV_ACTIVITY, PROV_GENERATION, PROV, Literal,
                        PROV_ATTR_ENTITY, PROV_ATTR_ACTIVITY, PROV_TYPE, PROV_LABEL)
from prov.identifier import QualifiedName, Identifier

EX = Namespace("ex", "http://example.org/")
OT = Namespace("other", "http://other.example/ns#")
LINES = []


def out(*parts):
    LINES.append(" ".join(str(p) for p in parts))


def attempt(label, fn):
    try:
        res = fn()
    except BaseException as e:  # noqa
        out(label, "RAISED", type(e).__name__, str(e))
        return None
    out(label, "OK", describe(res))
    return res


def describe(x):
    if isinstance(x, ProvDocument):
        return "DOC<<\n%s\n>> ns=%s default=%s bundles=%s" % (
            x.get_provn(), sorted((n.prefix, n.uri) for n in x.namespaces), x.default_ns_uri,
            [str(b.identifier) for b in x.bundles])
    if isinstance(x, ProvBundle):
        return "BUNDLE<<\n%s\n>> ns=%s default=%s doc=%s" % (
            x.get_provn(), sorted((n.prefix, n.uri) for n in x.namespaces), x.default_ns_uri,
            type(x.document).__name__)
    if isinstance(x, ProvRecord):
        return "REC %s | %s | bundle=%r | attrs=%r" % (type(x).__name__, x.get_provn(), x.bundle, x.attributes)
    if isinstance(x, (list, tuple)):
        return type(x).__name__ + "[" + "; ".join(describe(i) for i in x) + "]"
    return "%s:%r" % (type(x).__name__, x)


def doc_plain():
    d = ProvDocument()
    d.add_namespace(EX)
    d.entity("ex:e1", {"ex:k": "v1"})
    d.activity("ex:a1", datetime.datetime(2020, 1, 2, 3, 4, 5))
    d.wasGeneratedBy("ex:e1", "ex:a1", identifier="ex:g1")
    d.agent("ex:ag1")
    d.wasAttributedTo("ex:e1", "ex:ag1")
    return d


def doc_repeated():
    d = ProvDocument()
    d.add_namespace(EX)
    d.add_namespace(OT)
    d.set_default_namespace("http://default.example/")
    d.entity("ex:e1", {"ex:k": "v1", PROV_TYPE: EX["T1"]})
    d.entity("ex:e1", {"ex:k": "v2", "other:z": 3})
    d.entity("ex:e1", {"ex:k": "v1"})
    d.entity("ex:e1", {"ex:k": "v1"})  # equal to the previous one
    d.activity("ex:e1")  # same id, other type
    d.activity("ex:a1", datetime.datetime(2020, 1, 2, 3, 4, 5))
    d.activity("ex:a1", None, datetime.datetime(2021, 1, 2, 3, 4, 5), {"ex:x": 1.5})
    d.entity("plain")
    d.entity("plain", {PROV_LABEL: Literal("café \"q\" \\ \n", langtag="fr")})
    d.wasGeneratedBy("ex:e1", "ex:a1", identifier="ex:g1")
    d.wasGeneratedBy("ex:e1", "ex:a1", time=datetime.datetime(2019, 5, 5), identifier="ex:g1")
    d.wasGeneratedBy("ex:e1", "ex:a1")
    d.used("ex:a1", "ex:e1")
    d.used("ex:a1", None)
    d.wasDerivedFrom("ex:e2", "ex:e1", "ex:a1")
    d.specializationOf("ex:e2", "ex:e1")
    d.hadMember("ex:c", "ex:e1")
    d.mentionOf("ex:e3", "ex:e1", "ex:b1")
    d.actedOnBehalfOf("ex:ag2", "ex:ag1", "ex:a1")
    d.wasAssociatedWith("ex:a1", "ex:ag1", "ex:plan")
    d.wasStartedBy("ex:a1", "ex:trig", "ex:starter")
    d.wasEndedBy("ex:a1", None, "ex:ender")
    d.wasInformedBy("ex:a2", "ex:a1")
    d.wasInfluencedBy("ex:x", "ex:y")
    d.alternateOf("ex:e4", "ex:e1")
    return d


def doc_bundles():
    d = doc_repeated()
    b1 = d.bundle("ex:b1")
    b1.add_namespace("bns", "http://bundle.example/")
    b1.entity("bns:e", {"bns:p": 1})
    b1.entity("bns:e", {"bns:p": 2})
    b1.entity("ex:e1")
    b1.wasDerivedFrom("bns:e", "ex:e1")
    b2 = d.bundle("ex:b2")
    b2.set_default_namespace("http://b2.default/")
    b2.activity("act")
    b2.activity("act", datetime.datetime(2000, 1, 1))
    d.bundle("ex:empty")
    return d


def doc_empty():
    return ProvDocument()


def all_docs():
    return [("plain", doc_plain), ("repeated", doc_repeated), ("bundles", doc_bundles), ("empty", doc_empty)]


def finish():
    text = "\n".join(LINES) + "\n"
    sys.stdout.write(text)
    sys.stdout.write("DIGEST " + hashlib.sha256(text.encode("utf-8")).hexdigest() + "\n")

# ---- refactoring 4: helpers extracted from prov.graph.prov_to_graph (graph_to_prov on its results)
import prov.graph as pg
from prov.graph import prov_to_graph, graph_to_prov
import networkx as nx


def gdesc(g):
    nodes = ["%s:%s:%r" % (type(n).__name__, getattr(n, "identifier", n), getattr(n, "bundle", "-")) for n in g.nodes()]
    edges = ["%s -> %s [%s] %s" % (getattr(u, "identifier", u), getattr(v, "identifier", v), k,
                                     sorted((a, b.get_provn() if isinstance(b, ProvRecord) else repr(b)) for a, b in dd.items()))
             for u, v, k, dd in g.edges(keys=True, data=True)]
    return "GRAPH %s nodes=%s edges=%s" % (type(g).__name__, nodes, edges)


def doc_partial():
    d = ProvDocument()
    d.add_namespace(EX)
    d.entity("ex:e1")
    d.wasGeneratedBy("ex:newE", "ex:newA")       # ends only inferable
    d.specializationOf("ex:newE", "ex:e1")
    d.wasInfluencedBy("ex:i1", "ex:i2")          # unsupported attribute names
    d.wasInfluencedBy("ex:e1", "ex:i2")
    d.used("ex:a1", None)                        # one end missing
    d.wasGeneratedBy("ex:e1", None, datetime.datetime(2001, 1, 1))
    d.wasGeneratedBy("ex:e1", "ex:newA")
    d.wasGeneratedBy("ex:e1", "ex:newA")          # parallel edge
    d.wasDerivedFrom("ex:e1", "ex:e1")            # self loop
    d.hadMember("ex:coll", "ex:e1")
    d.mentionOf("ex:m", "ex:e1", "ex:bundleX")
    return d


_describe = describe


def describe(x):  # graphs have address-bearing reprs
    if isinstance(x, nx.Graph):
        return gdesc(x)
    return _describe(x)


cases = all_docs() + [("partial", doc_partial)]
for name, mk in cases:
    d = mk()
    before = d.get_provn()
    g = attempt(name + ".prov_to_graph", lambda: prov_to_graph(d))
    if g is not None:
        out(name, gdesc(g))
        out(name, "source unchanged", before == d.get_provn())
        back = attempt(name + ".graph_to_prov", lambda: graph_to_prov(g))
        if back is not None:
            g2 = attempt(name + ".second round", lambda: prov_to_graph(back))
            if g2 is not None:
                out(name, gdesc(g2))
    for b in d.bundles:
        attempt(name + ".prov_to_graph(bundle)", lambda: gdesc(prov_to_graph(b)))

# table patched so that the second end of a generation cannot be inferred after the first was
saved = pg.INFERRED_ELEMENT_CLASS
try:
    patched = dict(saved)
    del patched[PROV_ATTR_ACTIVITY]
    pg.INFERRED_ELEMENT_CLASS = patched
    attempt("patched table", lambda: gdesc(prov_to_graph(doc_partial())))
    pg.INFERRED_ELEMENT_CLASS = {}
    attempt("empty table", lambda: gdesc(prov_to_graph(doc_partial())))
    attempt("empty table / bundles doc", lambda: gdesc(prov_to_graph(doc_bundles())))
finally:
    pg.INFERRED_ELEMENT_CLASS = saved

for bad in [None, "text", ProvBundle(), nx.MultiDiGraph()]:
    attempt("prov_to_graph(%s)" % type(bad).__name__, lambda: gdesc(prov_to_graph(bad)))

# graph_to_prov on hand-made graphs
h = nx.MultiDiGraph()
dd = doc_plain()
recs = list(dd.get_records())
h.add_node("not a record")
h.add_node(recs[0])
h.add_node(ProvEntity(None, EX["unbound"]))
h.add_edge(recs[0], recs[1])                         # no relation key
h.add_edge(recs[0], recs[1], relation="string")      # not a record
h.add_edge(recs[0], recs[1], relation=recs[2], extra=1)
attempt("graph_to_prov(hand made)", lambda: graph_to_prov(h))
attempt("graph_to_prov(empty)", lambda: graph_to_prov(nx.MultiDiGraph()))
attempt("graph_to_prov(DiGraph)", lambda: graph_to_prov(nx.DiGraph([(1, 2)])))
attempt("graph_to_prov(None)", lambda: graph_to_prov(None))
out("module public names", sorted(n for n in vars(pg) if not n.startswith("_") and n.islower()))
finish()
