# Shared corpus builder (copied verbatim into every equiv.py so each is self-contained)
import datetime, hashlib, io, os, sys, tempfile, traceback, contextlib

# -- determinism: fixed string hashing (attribute sets) and counted rdflib blank nodes
if os.environ.get("PYTHONHASHSEED") != "0":
    os.environ["PYTHONHASHSEED"] = "0"
    os.execv(sys.executable, [sys.executable] + sys.argv)
import rdflib.term as _rt


class _CountedUUID:
    n = 0

    def __call__(self):
        type(self).n += 1
        return self

    @property
    def hex(self):
        return "%032x" % type(self).n


_rt.uuid4 = _CountedUUID()

from prov.model import ProvDocument, Namespace, Literal, PROV, Identifier, QualifiedName
from prov.tests import examples


def edge_doc(odd_ns=False):
    d = ProvDocument()
    d.set_default_namespace("http://default.example/")
    ex = d.add_namespace("ex", "http://example.org/")
    if odd_ns:
        d.add_namespace("odd", "http://example.org/odd path/#")
    e1 = d.entity("ex:e1", {"prov:label": "café ☃ <&> \"q\" 'a'", "ex:n": 1, "ex:f": 2.5,
                            "ex:b": True, "ex:s": "", "ex:uri": Identifier("http://x.org/a?b=c&d"),
                            "ex:q": ex["qn"], "ex:t": datetime.datetime(2020, 1, 2, 3, 4, 5, 678)})
    # repeated identifier, several values for one attribute
    d.entity("ex:e1", {"ex:n": 2, "prov:type": ex["T"]})
    d.entity("ex:e1", [("ex:tag", "a"), ("ex:tag", "b"), ("ex:tag", Literal("c", langtag="en"))])
    d.entity("noprefix")
    a = d.activity("ex:a1", datetime.datetime(2012, 3, 4, 5, 6, 7), None, {"prov:type": "ex:edit"})
    ag = d.agent("ex:ag", {"prov:type": PROV["Person"], "prov:location": "Paris",
                           "prov:value": Literal("10", datatype=ex["dt"])})
    d.wasGeneratedBy(e1, a, datetime.datetime(2012, 3, 4, 5, 6, 8), identifier="ex:g1",
                     other_attributes={"prov:role": "writer"})
    d.wasGeneratedBy(e1, a)
    d.used(a, e1)
    d.used(a, None, None, {"ex:why": "unknown"})
    d.wasAssociatedWith(a, ag, "ex:plan")
    d.actedOnBehalfOf(ag, "ex:boss", a)
    d.wasDerivedFrom("ex:e2", e1, other_attributes={"prov:type": PROV["Revision"]})
    d.alternateOf("ex:e2", e1)
    d.specializationOf("ex:e2", e1)
    d.hadMember("ex:coll", e1)
    d.hadMember("ex:coll", "ex:e2")
    d.wasStartedBy(a, e1, None, datetime.datetime(2012, 1, 1))
    d.wasEndedBy(a, None, None, None)
    d.wasInvalidatedBy(e1, a, identifier="ex:inv")
    d.wasInformedBy("ex:a2", a)
    d.wasAttributedTo(e1, ag)
    d.wasInfluencedBy(e1, ag, identifier="ex:infl")
    b = d.bundle("ex:bundle1")
    b.add_namespace("bx", "http://bundle.example/ns#")
    b.entity("bx:inner", {"prov:label": Literal("hallo", langtag="de")})
    b.entity("ex:e1")
    b.mentionOf("bx:inner", "ex:e1", "ex:bundle1") if hasattr(b, "mentionOf") else None
    d.bundle("ex:emptybundle")
    return d


def corpus():
    docs = [("empty", ProvDocument())]
    only_ns = ProvDocument()
    only_ns.add_namespace("ex", "http://example.org/")
    docs.append(("only_ns", only_ns))
    for name, fn in examples.tests:
        docs.append((name, fn()))
    docs.append(("edge", edge_doc()))
    docs.append(("edge_oddns", edge_doc(odd_ns=True)))
    return docs


def digest(data):
    if isinstance(data, str):
        data = data.encode("utf-8")
    return hashlib.sha256(data).hexdigest()[:16]


def attempt(label, fn):
    """Run fn, print a deterministic line for its result or its exception."""
    out = io.StringIO()
    try:
        with contextlib.redirect_stdout(out):
            res = fn()
        if isinstance(res, (bytes, str)):
            shown = "%s len=%d sha=%s" % (type(res).__name__, len(res), digest(res))
        else:
            shown = repr(res)
        print("%-60s OK  %s  stdout=%r" % (label, shown, out.getvalue()))
    except BaseException as exc:  # noqa
        ctx = type(exc.__context__).__name__ if exc.__context__ is not None else None
        print("%-60s EXC %s: %s  ctx=%s  stdout=%r" % (label, type(exc).__name__, exc, ctx, out.getvalue()))


# ---- refactoring 4: ProvDocument.serialize (stream / location handling)
import pathlib, re, shutil
from urllib.request import pathname2url

scratch = tempfile.mkdtemp()
tmpdir = os.path.join(scratch, "tmp")
outdir = os.path.join(scratch, "out")
os.mkdir(tmpdir)
os.mkdir(outdir)
tempfile.tempdir = tmpdir  # so that left-over temporary files can be counted


def norm(text):
    text = text.replace(scratch, "<SCRATCH>")
    return re.sub(r"tmp[a-z0-9_]{8}", "<TMPNAME>", text)


def state():
    out = []
    for root, dirs, files in sorted(os.walk(outdir)):
        for f in sorted(files):
            path = os.path.join(root, f)
            out.append((norm(path), digest(open(path, "rb").read())))
    out.sort()  # after normalising the random temporary names
    return "leftover_tmp=%d out=%r" % (len(os.listdir(tmpdir)), out)


def attempt2(label, fn):
    buf = io.StringIO()
    try:
        with contextlib.redirect_stdout(buf):
            res = fn()
        if isinstance(res, (bytes, str)):
            res = "%s len=%d sha=%s" % (type(res).__name__, len(res), digest(res))
        line = "OK  %r" % (res,)
    except BaseException as exc:
        ctx = type(exc.__context__).__name__ if exc.__context__ is not None else None
        line = "EXC %s: %s ctx=%s" % (type(exc).__name__, norm(str(exc)), ctx)
    print("%-50s %s stdout=%r | %s" % (label, line, buf.getvalue(), state()))


class Recorder:
    def __init__(self):
        self.calls = []

    def write(self, data):
        self.calls.append((type(data).__name__, len(data)))


class WriteAttrOnly:
    write = None  # has the attribute, but it cannot be called


docs = dict(corpus())
edge = docs["edge"]
cwd = os.getcwd()
for name in ("empty", "Bundle1", "edge"):
    doc = docs[name]
    for fmt, kw in (("json", {}), ("json", {"indent": 2}), ("xml", {}), ("xml", {"force_types": True}),
                    ("provn", {}), ("rdf", {}), ("rdf", {"rdf_format": "turtle"}), ("JSON", {}), ("nope", {}),
                    (None, {}), ("json", {"bogus": 1})):
        tag = "%s %s %r" % (name, fmt, sorted(kw))
        attempt2(tag + " None", lambda: doc.serialize(format=fmt, **kw))
        attempt2(tag + " positional None", lambda: doc.serialize(None, fmt, **kw))
        def to_stringio():
            s = io.StringIO()
            r = doc.serialize(s, fmt, **kw)
            return "ret=%r closed=%s %s" % (r, s.closed, digest(s.getvalue()))
        attempt2(tag + " StringIO", to_stringio)
        def to_bytesio():
            s = io.BytesIO()
            r = doc.serialize(destination=s, format=fmt, **kw)
            return "ret=%r closed=%s %s" % (r, s.closed, digest(s.getvalue()))
        attempt2(tag + " BytesIO", to_bytesio)
        def to_recorder():
            s = Recorder()
            r = doc.serialize(s, format=fmt, **kw)
            return "ret=%r calls=%r" % (r, s.calls)
        attempt2(tag + " Recorder", to_recorder)
        attempt2(tag + " plain path", lambda: doc.serialize(os.path.join(outdir, "plain.out"), format=fmt, **kw))

file_names = ["a.json", "with space.json", "hash#frag.json", "query?x=1.json", "semi;colon.json", "ünï☃.json",
              "percent%20.json", "nodir/sub/x.json", "", "out"]
for fn in file_names:
    target = os.path.join(outdir, fn)
    attempt2("path %r" % fn, lambda: edge.serialize(target))
    attempt2("path again %r" % fn, lambda: edge.serialize(target, format="provn"))
    attempt2("file url %r" % fn, lambda: edge.serialize("file://" + pathname2url(target + ".u"), format="xml"))
    attempt2("file url nohost-slash %r" % fn, lambda: edge.serialize("file:" + pathname2url(target + ".v")))
os.chdir(outdir)
attempt2("relative name", lambda: edge.serialize("relative.json"))
attempt2("relative with dir", lambda: edge.serialize(os.path.join(".", "rel2.json")))
attempt2("relative file url", lambda: edge.serialize("file:rel3.json"))
os.chdir(cwd)
for loc in ("http://example.org/doc.json", "https://example.org:8080/x?y#z", "ftp://host/file", "//host/share/file",
            "file://remotehost/etc/x", "mailto:someone@example.org", "C:\\temp\\x.json"):
    os.chdir(outdir)  # scheme-only locations are treated as relative file names
    attempt2("location %r" % loc, lambda: edge.serialize(loc))
    os.chdir(cwd)
for dest in (0, 1, 3.5, b"bytes-name", pathlib.Path(outdir) / "pathlib.json", ["list"], ("t",), {"d": 1}, WriteAttrOnly(),
             False, True):
    if isinstance(dest, bytes):
        os.chdir(outdir)
    attempt2("destination %s" % type(dest).__name__ + (repr(dest) if isinstance(dest, (int, float, bytes)) else ""),
             lambda: edge.serialize(dest))
    os.chdir(cwd)
# failing serializer while writing to a location: temporary file handling
attempt2("location + bogus kw", lambda: edge.serialize(os.path.join(outdir, "never.json"), bogus=1))
attempt2("location + bad rdf format", lambda: edge.serialize(os.path.join(outdir, "never.ttl"), "rdf", rdf_format="zzz"))
attempt2("url + unknown format", lambda: edge.serialize("http://example.org/x", "zzz"))
attempt2("odd ns xml to path", lambda: docs["edge_oddns"].serialize(os.path.join(outdir, "odd.xml"), "xml"))
# target is a directory
attempt2("target is directory", lambda: edge.serialize(outdir))
shutil.rmtree(scratch)
