import os
import sys

# Hash randomisation changes set iteration order (multi-valued attributes);
# pin it so that the digest is deterministic and order sensitive.
if os.environ.get("PYTHONHASHSEED") != "0":
    os.environ["PYTHONHASHSEED"] = "0"
    os.execv(sys.executable, [sys.executable] + sys.argv)

import datetime
import glob
import hashlib
import io
import json
import logging

logging.disable(logging.CRITICAL)

import prov
import prov.constants as C
import prov.model as M
from prov.model import (
    ProvDocument,
    ProvBundle,
    Literal,
    Identifier,
    QualifiedName,
    Namespace,
    ProvException,
)
from prov.serializers import provjson as PJ
from prov.tests import examples

SRC = os.path.dirname(os.path.dirname(os.path.abspath(prov.__file__)))
JSON_DIR = os.path.join(SRC, "prov", "tests", "json")


def sha(text):
    if not isinstance(text, bytes):
        text = text.encode("utf-8")
    return hashlib.sha256(text).hexdigest()[:16]


def show(label, fn, *args, **kwargs):
    """Print the result (or the exception) of a call in a stable way."""
    try:
        res = fn(*args, **kwargs)
        text = res if isinstance(res, str) else repr(res)
        print("%s -> OK %s len=%d %s" % (label, sha(text), len(text), text[:300]))
    except BaseException as e:  # noqa
        print("%s -> EXC %s: %s" % (label, type(e).__name__, e))


def handmade_documents():
    docs = []

    docs.append(("empty", ProvDocument()))

    d = ProvDocument()
    d.set_default_namespace("http://default.example/")
    d.add_namespace("ex", "http://example.org/")
    d.add_namespace("o-dd", "http://odd.example/a#b?c=")
    EX = Namespace("ex", "http://example.org/")
    e1 = d.entity(
        "ex:e1",
        [
            ("prov:label", "plain"),
            ("prov:label", Literal("bonjour", langtag="fr")),
            ("ex:int", 42),
            ("ex:neg", -7),
            ("ex:float", 1.5),
            ("ex:bool", True),
            ("ex:boolf", False),
            ("ex:empty", ""),
            ("ex:uni", "café ☃ \"quoted\" \\ back\nnewline\ttab"),
            ("ex:dt", datetime.datetime(2012, 3, 4, 5, 6, 7, 890000)),
            ("ex:uri", Identifier("http://example.org/some thing?x=1&y=<2>")),
            ("ex:qn", EX["other"]),
            ("ex:lit_int", Literal("12", C.XSD_INT)),
            ("ex:lit_dbl", Literal("1e3", C.XSD_DOUBLE)),
            ("ex:lit_bool", Literal("TRUE", C.XSD_BOOLEAN)),
            ("ex:lit_badbool", Literal("maybe", C.XSD_BOOLEAN)),
            ("ex:lit_dt", Literal("2001-02-03T04:05:06", C.XSD_DATETIME)),
            ("ex:lit_str", Literal("s", C.XSD_STRING)),
            ("ex:lit_any", Literal("http://a/b", C.XSD_ANYURI)),
            ("ex:lit_custom", Literal("zzz", EX["customType"])),
            ("ex:lit_untyped", Literal("untyped")),
            ("ex:multi", 1),
            ("ex:multi", 2),
            ("ex:multi", "three"),
            ("prov:type", EX["Thing"]),
            ("prov:type", C.PROV["Plan"]),
            ("prov:location", "here"),
            ("prov:value", 3.25),
        ],
    )
    d.entity("ex:e1", {"ex:again": "second record with same id"})
    d.entity("ex:e1", {"ex:again": "third record with same id"})
    d.entity("e-default")
    a1 = d.activity(
        "ex:a1",
        datetime.datetime(2011, 1, 1, 0, 0, 0),
        "2011-01-02T03:04:05.678+01:00",
        {"prov:type": "ex:edit", "ex:n": 0},
    )
    ag = d.agent("ex:ag", {"prov:type": C.PROV["Person"], "ex:name": "Alïce"})
    d.wasGeneratedBy(e1, a1, time=datetime.datetime(2011, 1, 1, 12, 0, 0))
    d.wasGeneratedBy(e1, a1, identifier="ex:gen1", other_attributes={"ex:k": "v"})
    d.used(a1, "ex:e0")
    d.used(a1, "ex:e0", identifier="ex:u1")
    d.used(a1, "ex:e0", identifier="ex:u1", other_attributes={"prov:role": "r"})
    d.wasAssociatedWith(a1, ag, plan="ex:plan")
    d.wasAssociatedWith(a1, None, plan="ex:plan")
    d.wasAttributedTo(e1, ag)
    d.actedOnBehalfOf(ag, "ex:boss", a1)
    d.wasDerivedFrom("ex:e2", e1, a1, None, None, {"prov:type": C.PROV["Revision"]})
    d.wasInformedBy("ex:a2", a1)
    d.wasStartedBy(a1, "ex:trig", "ex:starter", "2012-01-01T00:00:00")
    d.wasEndedBy(a1, None, None, None)
    d.wasInvalidatedBy(e1, a1, datetime.datetime(2013, 1, 1))
    d.wasInfluencedBy(e1, ag)
    d.alternateOf(e1, "ex:e2")
    d.specializationOf(e1, "ex:e2")
    d.mentionOf("ex:e3", e1, "ex:b1")
    c = d.collection("ex:c1")
    d.hadMember(c, e1)
    d.hadMember(c, "ex:e2")
    d.hadMember("ex:c2", "ex:e3")
    b = d.bundle("ex:b1")
    b.add_namespace("bn", "http://bundle.example/ns#")
    b.entity("bn:x", {"bn:attr": Literal("hi", langtag="en-GB"), "ex:n": 5})
    b.entity("bn:x", {"bn:attr": "dup id in bundle"})
    b.activity("ex:a1")
    b.wasGeneratedBy("bn:x", "ex:a1")
    b.wasGeneratedBy("bn:x", "ex:a1")
    d.bundle("ex:b-empty")
    docs.append(("rich", d))

    return docs


def example_documents():
    return [(name, fn()) for name, fn in examples.tests]


def all_documents():
    return handmade_documents() + example_documents()


def json_fixture_files(step=1):
    files = sorted(glob.glob(os.path.join(JSON_DIR, "*.json")))
    return files[::step]


# NOTE: Identifier.__hash__ involves hash(class), i.e. a memory address, so the
# iteration order of value sets holding Identifier/Literal objects can differ
# from run to run even for identical code.  All digests below are therefore
# taken over a canonical form in which the members of multi-valued attributes
# are sorted; everything else (record order, key order, text) is kept as is.
def _canon_record(rec):
    if not isinstance(rec, dict):
        return rec
    out = {}
    for k, v in rec.items():
        if isinstance(v, list):
            v = sorted(v, key=lambda x: json.dumps(x, sort_keys=True))
        out[k] = v
    return out


def canon_container(c):
    if not isinstance(c, dict):
        return c
    out = {}
    for label, records in c.items():
        if label == "prefix" or not isinstance(records, dict):
            out[label] = records
        elif label == "bundle":
            out[label] = {k: canon_container(v) for k, v in records.items()}
        else:
            out[label] = {
                k: [_canon_record(r) for r in v]
                if isinstance(v, list)
                else _canon_record(v)
                for k, v in records.items()
            }
    return out


def canon_json_text(text, **kw):
    return "rawlen=%d " % len(text) + json.dumps(canon_container(json.loads(text)), **kw)


def to_json(doc, **kw):
    return canon_json_text(doc.serialize(format="json", **kw), **kw)


def raw_json(doc, **kw):
    return doc.serialize(format="json", **kw)


def from_json(text):
    return ProvDocument.deserialize(content=text, format="json")


def _canon_value(v):
    return "%s:%r" % (type(v).__name__, v)


def canon_records(bundle):
    lines = []
    for ns in bundle.get_registered_namespaces():
        lines.append("ns %s=%s" % (ns.prefix, ns.uri))
    dns = bundle.get_default_namespace()
    lines.append("default %s" % (dns.uri if dns else None))
    for rec in bundle.get_records():
        attrs = [
            "%s=%s" % (a, sorted(_canon_value(v) for v in vs))
            for a, vs in rec._attributes.items()
            if vs
        ]
        lines.append(
            "%s id=%r args=%d attrs=%s"
            % (rec.get_type(), rec.identifier, len(rec.args), attrs)
        )
    return lines


def canon_doc(doc):
    lines = canon_records(doc)
    for b in doc.bundles:
        lines.append("bundle %r" % (b.identifier,))
        lines.extend("  " + line for line in canon_records(b))
    provn = doc.get_provn()
    lines.append("provn len=%d lines=%d" % (len(provn), provn.count("\n")))
    return "\n".join(lines)


# ---- refactoring 5: ProvRecord.add_attributes and the single-value guard ----
EX = Namespace("ex", "http://example.org/")


def fresh():
    d = ProvDocument()
    d.add_namespace(EX)
    d.set_default_namespace("http://default/")
    return d


def state(rec):
    # key order is insertion order (deterministic); values are canonically sorted.
    # Keys with empty sets are shown too: they reveal defaultdict side effects.
    return "; ".join(
        "%s=%s" % (a, sorted(_canon_value(v) for v in vs)) for a, vs in rec._attributes.items()
    )


class WeirdDT(datetime.datetime):
    """A datetime that cannot be compared (to exercise the TypeError branch)."""

    def __ne__(self, other):
        raise TypeError("no comparison")

    def __eq__(self, other):
        raise TypeError("no comparison")

    __hash__ = datetime.datetime.__hash__


def gen(pairs):
    for p in pairs:
        yield p


T1 = datetime.datetime(2012, 1, 1, 10, 0, 0)
T2 = datetime.datetime(2013, 1, 1, 10, 0, 0)

# (label, record factory, sequence of attribute arguments applied one after the other)
SCENARIOS = [
    ("none", "entity", [None]),
    ("empty-dict", "entity", [{}]),
    ("empty-list", "entity", [[]]),
    ("empty-tuple", "entity", [()]),
    ("dict", "entity", [{"ex:a": 1, "ex:b": "two", EX["c"]: 3.5, "prov:label": "L"}]),
    ("pairs", "entity", [[("ex:a", 1), ("ex:a", 2), ("ex:a", 1), ("ex:a", "1")]]),
    ("tuple-of-pairs", "entity", [(("ex:a", 1), ("ex:b", None))]),
    ("generator-is-consumed", "entity", [gen([("ex:a", 1)])]),
    ("none-values", "entity", [[("ex:a", None), ("zz:bad", None), ("ex:b", 0), ("ex:c", ""), ("ex:d", False)]]),
    ("default-ns-name", "entity", [[("plain", "v")]]),
    ("uri-name", "entity", [[("http://example.org/full", "v"), (Identifier("http://example.org/id"), "w")]]),
    ("invalid-name", "entity", [[("ex:ok", 1), ("zz:bad", 2), ("ex:never", 3)]]),
    ("invalid-name-type", "entity", [[(5, "x")]]),
    ("not-pairs", "entity", [[("ex:a", 1, 2)]]),
    ("string-arg", "entity", ["ab"]),
    ("int-arg", "entity", [5]),
    ("auto-literals", "entity", [[
        ("ex:s", "str"), ("ex:i", 7), ("ex:f", 0.5), ("ex:b", True), ("ex:dt", T1),
        ("ex:qn", EX["q"]), ("ex:id", Identifier("http://x/")),
        ("ex:l1", Literal("10", C.XSD_INT)), ("ex:l2", Literal("x", C.XSD_INT)),
        ("ex:l3", Literal("true", C.XSD_BOOLEAN)), ("ex:l4", Literal("perhaps", C.XSD_BOOLEAN)),
        ("ex:l5", Literal("2012-02-03", C.XSD_DATETIME)), ("ex:l6", Literal("garbage", C.XSD_DATETIME)),
        ("ex:l7", Literal("u", C.XSD_ANYURI)), ("ex:l8", Literal("plain")), ("ex:l9", Literal("hi", langtag="en")),
        ("ex:l10", Literal("c", EX["Custom"])), ("ex:l11", Literal("1.5", C.XSD_DOUBLE)),
        ("ex:l12", Literal("s", C.XSD_STRING)), ("ex:l13", Literal("9", C.XSD_LONG)),
        ("ex:list", [1, 2]), ("ex:tuple", (1, 2)), ("ex:date", datetime.date(2000, 1, 1)),
    ]]),
    ("auto-literal-bad-double", "entity", [[("ex:l", Literal("abc", C.XSD_DOUBLE))]]),
    ("foreign-qn", "entity", [[("ex:qn", Namespace("other", "http://other/")["x"])]]),
    # formal attributes (single-value guard)
    ("usage-same-twice", "usage", [[("prov:activity", "ex:a1")], [("prov:activity", EX["a1"])], {"prov:activity": "ex:a1"}]),
    ("usage-different", "usage", [[("prov:activity", "ex:a1"), ("ex:x", 1)], [("ex:y", 2), ("prov:activity", "ex:a2"), ("ex:z", 3)]]),
    ("usage-different-same-call", "usage", [[("prov:entity", "ex:e1"), ("prov:entity", "ex:e1"), ("prov:entity", "ex:e2")]]),
    ("usage-bad-qname", "usage", [[("prov:entity", "zz:e1")]]),
    ("usage-bad-qname-type", "usage", [[("prov:entity", 5)]]),
    ("usage-time-str", "usage", [[("prov:time", "2012-01-01T10:00:00")], [("prov:time", T1)], [("prov:time", T2)]]),
    ("usage-time-bad", "usage", [[("ex:before", 1), ("prov:time", "whenever")]]),
    ("usage-time-int", "usage", [[("prov:time", 5)]]),
    ("usage-time-naive-vs-aware", "usage", [[("prov:time", T1)], [("prov:time", "2012-01-01T10:00:00+00:00")]]),
    ("usage-time-uncomparable", "usage", [[("prov:time", T1)], [("prov:time", WeirdDT(2012, 1, 1, 10))]]),
    ("usage-record-as-value", "usage", ["RECORD"]),
    ("membership-collection-multi", "membership", [[("prov:collection", "ex:c"), ("prov:entity", "ex:e1"), ("prov:entity", "ex:e2"), ("prov:entity", "ex:e1")]]),
    ("membership-then-more", "membership", [[("prov:collection", "ex:c"), ("prov:entity", "ex:e1")], [("prov:entity", "ex:e2")]]),
    ("membership-collection-later-call", "membership", [[("prov:entity", "ex:e1")], [("prov:entity", "ex:e2"), ("prov:collection", "ex:c")], [("prov:collection", "ex:c2"), ("prov:collection", "ex:c3")]]),
    ("collection-key-on-entity", "entity", [[("prov:collection", "ex:c"), ("prov:collection", "ex:c2"), ("ex:a", 1)]]),
    ("collection-key-as-qn-dict", "usage", [{C.PROV_ATTR_COLLECTION: "ex:c", C.PROV_ATTR_ENTITY: "ex:e"}, {C.PROV_ATTR_ENTITY: "ex:e2", C.PROV_ATTR_COLLECTION: None}]),
    ("collection-key-as-string-is-not-detected", "usage", [[("prov:entity", "ex:e1")], [("prov:collection", "ex:c"), ("prov:entity", "ex:e2")]]),
    ("activity-times", "activity", [[("prov:startTime", T1), ("prov:endTime", "2012-01-02")], [("prov:startTime", T1)], [("prov:endTime", T2)]]),
    ("type-and-label-multi", "entity", [[("prov:type", "a"), ("prov:type", "b"), ("prov:label", "x"), ("prov:label", "y"), ("prov:value", 1), ("prov:value", 2)]]),
]


def make(doc, kind):
    b = doc
    if kind == "entity":
        return M.ProvEntity(b, EX["rec"])
    if kind == "usage":
        return M.ProvUsage(b, None)
    if kind == "membership":
        return M.ProvMembership(b, None)
    if kind == "activity":
        return M.ProvActivity(b, EX["act"])
    raise ValueError(kind)


for label, kind, calls in SCENARIOS:
    doc = fresh()
    rec = make(doc, kind)
    for n, arg in enumerate(calls):
        if isinstance(arg, str) and arg == "RECORD":
            arg = [("prov:entity", doc.entity("ex:as-record")), ("prov:activity", doc.activity("ex:act-record")),
                   ("ex:other", doc.entity("ex:other-record"))]
        try:
            res = rec.add_attributes(arg)
            print("%s #%d -> returned %r" % (label, n, res))
        except BaseException as e:  # noqa
            print("%s #%d -> EXC %s: %s" % (label, n, type(e).__name__, e))
        print("    state: %s" % state(rec))

# constructor path, add_asserted_type and higher-level API
doc = fresh()
show("ctor-dict", lambda: state(M.ProvEntity(doc, EX["e"], {"ex:a": 1, "prov:type": EX["T"]})))
show("ctor-conflict", lambda: state(M.ProvUsage(doc, None, [("prov:entity", "ex:e1"), ("prov:entity", "ex:e2")])))
e = doc.entity("ex:e")
e.add_asserted_type(EX["T"]); e.add_asserted_type("ex:T"); e.add_asserted_type(EX["T"])
show("asserted-types", lambda: state(e))
show("wasGeneratedBy-conflict", lambda: doc.wasGeneratedBy("ex:e", "ex:a", other_attributes={"prov:activity": "ex:a2"}))
show("wasGeneratedBy-same", lambda: state(doc.wasGeneratedBy("ex:e", "ex:a", other_attributes={"prov:activity": "ex:a"})))
show("hadMember", lambda: state(doc.hadMember("ex:c", "ex:e")))

# whole-document behaviour (every record goes through add_attributes)
for name, d in all_documents():
    show("doc[%s]" % name, lambda: canon_doc(d))
    show("json-roundtrip[%s]" % name, lambda: canon_doc(from_json(raw_json(d))))
    show("unified[%s]" % name, lambda: canon_doc(d.unified()))
    show("flattened[%s]" % name, lambda: canon_doc(d.flattened()))
for path in json_fixture_files(step=5):
    with open(path, encoding="utf-8") as f:
        text = f.read()
    show("fixture[%s]" % os.path.basename(path), lambda: canon_doc(from_json(text)))
