"""Differential script for prov.graph.prov_to_graph / graph_to_prov.

Prints a deterministic digest of the graphs and round-tripped documents.
"""
import datetime
import hashlib

import networkx as nx

import prov.graph as pg
from prov.graph import prov_to_graph, graph_to_prov
from prov.model import (
    ProvDocument,
    ProvRecord,
    PROV_ATTR_ACTIVITY,
    PROV_ATTR_AGENT,
    PROV_ATTR_ENTITY,
)
from prov.tests import examples


def rec_key(r):
    if isinstance(r, ProvRecord):
        return "%s|%s|bundle=%s" % (
            type(r).__name__,
            r.get_provn(),
            "None" if r.bundle is None else type(r.bundle).__name__,
        )
    return "OBJ|%r" % (r,)


def graph_digest(g):
    lines = []
    lines.append("type=%s nodes=%d edges=%d" % (type(g).__name__, g.number_of_nodes(), g.number_of_edges()))
    # insertion order matters too: record it, then also a sorted view
    lines.append("NODES-IN-ORDER")
    for n in g.nodes():
        lines.append("  " + rec_key(n))
    lines.append("EDGES-IN-ORDER")
    for u, v, k, data in g.edges(keys=True, data=True):
        lines.append(
            "  %s -> %s [%s] keys=%s rel=%s"
            % (rec_key(u), rec_key(v), k, sorted(data), rec_key(data.get("relation")))
        )
    return lines


def doc_digest(d):
    lines = ["records=%d" % len(d.get_records())]
    lines.extend("  " + l for l in d.get_provn().splitlines())
    return lines


def custom_docs():
    out = []

    d = ProvDocument()
    out.append(("empty", d))

    d = ProvDocument()
    d.add_namespace("ex", "http://example.org/")
    d.entity("ex:e1")
    d.entity("ex:e1", {"ex:a": 1})  # repeated identifier
    d.activity("ex:a1", datetime.datetime(2020, 1, 1), None, {"ex:k": 'q"uote'})
    d.agent("ex:ag")
    d.wasGeneratedBy("ex:e1", "ex:a1", datetime.datetime(2020, 1, 2))
    d.wasGeneratedBy("ex:e2", None)  # missing second end
    d.used("ex:a2", "ex:e3")  # both inferred
    d.used("ex:a2", "ex:e3", identifier="ex:u1")  # inferred again, with id
    d.wasAssociatedWith("ex:a1", "ex:ag", "ex:plan")
    d.wasAssociatedWith("ex:a1", None, "ex:plan")
    d.actedOnBehalfOf("ex:ag2", "ex:ag", "ex:a1")
    d.wasDerivedFrom("ex:e4", "ex:e1", "ex:a1", "ex:g", "ex:u")
    d.hadMember("ex:c", "ex:e1")
    d.specializationOf("ex:e1", "ex:e5")
    d.alternateOf("ex:e5", "ex:e6")
    d.wasInformedBy("ex:a3", "ex:a1")
    d.wasStartedBy("ex:a3", "ex:trig", "ex:a1")
    d.wasEndedBy("ex:a3", None, "ex:a1")
    d.wasInvalidatedBy("ex:e6", "ex:a3")
    d.wasAttributedTo("ex:e6", "ex:ag3")
    d.wasInfluencedBy("ex:x", "ex:y")
    d.mentionOf("ex:e7", "ex:e1", "ex:b1")
    out.append(("mixed", d))

    d = ProvDocument()
    d.add_namespace("ex", "http://example.org/")
    d.entity("ex:e1")
    b = d.bundle("ex:b1")
    b.entity("ex:e1", {"prov:label": "inner"})
    b.activity("ex:a1")
    b.wasGeneratedBy("ex:e1", "ex:a1")
    b2 = d.bundle("ex:b2")
    b2.used("ex:a9", "ex:e9")
    d.wasAttributedTo("ex:b1", "ex:ag")
    out.append(("bundles", d))

    d = ProvDocument()
    d.set_default_namespace("http://default.example/")
    d.add_namespace("w", "http://w.example/#")
    d.entity("w:we irdé")
    d.entity("plain")
    d.wasDerivedFrom("plain", "w:we irdé")
    d.wasDerivedFrom("plain", "w:other")
    out.append(("unusual", d))
    return out


def all_docs():
    for name, fn in examples.tests:
        yield name, fn()
    yield "primer_alt", examples.primer_example_alternate()
    for name, d in custom_docs():
        yield name, d


def run(tag):
    lines = []
    for name, doc in all_docs():
        lines.append("=== %s %s" % (tag, name))
        g = prov_to_graph(doc)
        lines.extend(graph_digest(g))
        back = graph_to_prov(g)
        lines.append("--- back")
        lines.extend(doc_digest(back))
        lines.append("back==unified: %s" % (back == doc.unified()))
        # second conversion of the same document must give an equal digest
        lines.append("stable: %s" % (graph_digest(prov_to_graph(doc)) == graph_digest(g)))
    return lines


def graph_to_prov_edge_cases():
    lines = ["=== graph_to_prov edge cases"]
    d = ProvDocument()
    d.add_namespace("ex", "http://example.org/")
    e1 = d.entity("ex:e1")
    a1 = d.activity("ex:a1")
    rel = d.wasGeneratedBy("ex:e1", "ex:a1")
    inferred = pg.ProvEntity(None, d.valid_qualified_name("ex:ghost"))

    g = nx.MultiDiGraph()
    g.add_node(e1)
    g.add_node("a string node")
    g.add_node(42)
    g.add_node(inferred)
    g.add_node(a1)
    g.add_edge(e1, a1, relation=rel)
    g.add_edge(e1, a1)  # no relation key
    g.add_edge(e1, a1, relation="not a record")
    g.add_edge(e1, a1, relation=None, weight=3)
    g.add_edge("a string node", 42, other=1)
    g.add_edge(e1, inferred, relation=rel)  # same relation twice
    back = graph_to_prov(g)
    lines.extend(doc_digest(back))

    lines.append("--- empty graph")
    lines.extend(doc_digest(graph_to_prov(nx.MultiDiGraph())))

    lines.append("--- DiGraph")
    g2 = nx.DiGraph()
    g2.add_edge(e1, a1, relation=rel)
    g2.add_edge(a1, e1)
    lines.extend(doc_digest(graph_to_prov(g2)))

    class Weird(dict):
        def __getitem__(self, k):
            raise KeyError(k)

    lines.append("--- non-graph argument")
    for bad in (None, 5, "abc"):
        try:
            graph_to_prov(bad)
            lines.append("no error")
        except Exception as e:  # noqa
            lines.append("%s: %s" % (type(e).__name__, e))
    return lines


def missing_table_entries():
    """Temporarily remove entries from the inference table (in place) to hit the KeyError path."""
    lines = []
    table = pg.INFERRED_ELEMENT_CLASS
    for removed in ([PROV_ATTR_ACTIVITY], [PROV_ATTR_ENTITY], [PROV_ATTR_AGENT, PROV_ATTR_ACTIVITY]):
        saved = {k: table[k] for k in removed}
        for k in removed:
            del table[k]
        try:
            lines.extend(run("without %s" % ",".join(str(k) for k in removed)))
        finally:
            table.update(saved)
    return lines


def bad_inputs():
    lines = ["=== bad inputs"]
    for bad in (None, 5, "abc"):
        try:
            prov_to_graph(bad)
            lines.append("no error")
        except Exception as e:  # noqa
            lines.append("%s: %s" % (type(e).__name__, e))
    return lines


def main():
    lines = run("normal")
    lines.extend(graph_to_prov_edge_cases())
    lines.extend(missing_table_entries())
    lines.extend(bad_inputs())
    text = "\n".join(lines)
    print(text)
    print("SHA256", hashlib.sha256(text.encode("utf-8")).hexdigest())


main()
