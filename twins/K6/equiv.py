"""Differential check for refactoring 6.
scripts/prov-compare: command line runs and in-process calls of main().
(third docstring line)"""
import sys, os, io, shutil, subprocess, contextlib, importlib.machinery, importlib.util
sys.path.insert(0, "/tmp/twin/out/K")
from common import digest, docs, call

SCRIPT = "/tmp/twin/K/scripts/prov-compare"
work = "/tmp/equivK6_work"
shutil.rmtree(work, ignore_errors=True); os.mkdir(work)
os.chdir(work)

files = {}
for name, d in docs():
    if name not in ("empty", "custom", "Bundle1", "Primer", "datatypes"):
        continue
    for fmt in ("json", "xml", "rdf", "provn"):
        fn = "%s.%s" % (name, fmt)
        with open(fn, "w", encoding="utf-8") as f:
            f.write(d.serialize(format=fmt))
        files[(name, fmt)] = fn
with open("garbage.json", "w") as f: f.write("{not json")
with open("empty.txt", "w") as f: f.write("")
os.mkdir("adir")

runs = [
    ["custom.json", "custom.json"],
    ["custom.json", "Primer.json"],
    ["Primer.json", "custom.json"],
    ["empty.json", "empty.json"],
    ["empty.json", "custom.json"],
    ["custom.json", "custom.xml", "-F", "xml"],
    ["custom.xml", "custom.json", "-f", "xml"],
    ["custom.xml", "custom.json", "--format1", "XML", "--format2", "JSON"],
    ["-f", "xml", "-F", "xml", "Bundle1.xml", "Bundle1.xml"],
    ["Bundle1.json", "Bundle1.rdf", "-F", "rdf"],
    ["datatypes.json", "datatypes.rdf", "-F", "Rdf"],
    ["datatypes.json", "datatypes.xml", "-F", "xml"],
    ["Primer.json", "Primer.provn", "-F", "provn"],
    ["custom.json", "custom.xml"],
    ["custom.json", "garbage.json"],
    ["garbage.json", "custom.json"],
    ["custom.json", "empty.txt"],
    ["custom.json", "custom.json", "-f", "nosuch"],
    ["custom.json", "custom.json", "-F", ""],
    ["custom.json", "missing.json"],
    ["missing.json", "custom.json"],
    ["custom.json", "adir"],
    ["custom.json"],
    [],
    ["-f", "xml"],
    ["a", "b", "c"],
    ["--version"], ["-V"], ["--help"], ["-h"], ["--bogus"], ["-f"],
    ["custom.json", "-"],
]
env = dict(os.environ, COLUMNS="100", PYTHONIOENCODING="utf-8")
for argv in runs:
    for stdin in (b"",) + ((open("custom.json", "rb").read(),) if "-" in argv else ()):
        p = subprocess.run([sys.executable, SCRIPT] + argv, input=stdin, capture_output=True, env=env, cwd=work)
        print("RUN", argv, "stdin=%d" % len(stdin), "rc=%d" % p.returncode)
        print("  stdout[%d] %s" % (len(p.stdout), digest(p.stdout)))
        for l in p.stdout.decode("utf-8", "replace").splitlines()[:60]: print("   O|", l)
        print("  stderr[%d] %s" % (len(p.stderr), digest(p.stderr)))
        for l in p.stderr.decode("utf-8", "replace").splitlines()[-12:]: print("   E|", l.replace(work, "<W>"))
# run with a different program name (symlink) - affects the messages built from sys.argv[0]
os.symlink(SCRIPT, os.path.join(work, "pc with space"))
for argv in (["--version"], ["custom.json", "custom.json", "-f", "zzz"], ["--help"]):
    p = subprocess.run([sys.executable, os.path.join(work, "pc with space")] + argv, capture_output=True, env=env, cwd=work)
    print("RUN-symlink", argv, p.returncode, digest(p.stdout), digest(p.stderr), repr(p.stderr.decode()[-120:].replace(work, "<W>")))

# in-process: load the script as a module and call main()/helpers directly
loader = importlib.machinery.SourceFileLoader("prov_compare_mod", SCRIPT)
spec = importlib.util.spec_from_loader("prov_compare_mod", loader)
mod = importlib.util.module_from_spec(spec)
loader.exec_module(mod)
print("module attrs", mod.__version__, mod.__date__, mod.__updated__, mod.__all__, mod.DEBUG, mod.TESTRUN, mod.PROFILE)
print("CLIError", str(mod.CLIError("boom")), call(mod.CLIError, ("a", "b")), str(mod.CLIError(("x",))))
def inproc(argv0, argv_param, extra):
    old = sys.argv
    sys.argv = [argv0] + list(extra)
    out, err = io.StringIO(), io.StringIO()
    try:
        with contextlib.redirect_stdout(out), contextlib.redirect_stderr(err):
            r = call(mod.main, argv_param) if argv_param is not None else call(mod.main)
        after = list(sys.argv)
    finally:
        sys.argv = old
    print("INPROC", argv0, argv_param, extra, "->", r, "argv after", after)
    print("   out", repr(out.getvalue()[:3000]))
    e = err.getvalue()
    if e.startswith("Traceback"):
        # DEBUG mode prints a traceback: its frames/line numbers inside the script
        # necessarily move with any edit, so only keep the first and the last line
        e = e.splitlines()[0] + " ... " + e.splitlines()[-1]
    print("   err", repr(e[:3000].replace(work, "<W>")))
inproc("prov-compare", None, ["custom.json", "Primer.json"])
inproc("prov-compare", ["custom.json", "custom.json"], [])
inproc("/some/dir/tool.py", ["custom.json"], ["custom.xml", "-F", "xml"])
inproc("x", ["custom.json", "custom.json", "-f", "bad%sfmt"], [])
inproc("x", ["--version"], [])
inproc("", ["--help"], [])
inproc("prov-compare", ["missing1", "missing2"], [])
mod.DEBUG = 1
inproc("prov-compare", ["custom.json", "custom.json", "-f", "nosuch"], [])
mod.DEBUG = 0
# open-file bookkeeping: are the inputs closed afterwards?
import argparse
opened = []
class SpyFileType(argparse.FileType):
    def __call__(self, string):
        f = super().__call__(string); opened.append(f); return f
mod.FileType = SpyFileType
for argv in (["custom.json", "Primer.json"], ["custom.json", "garbage.json"], ["custom.json", "custom.json", "-f", "nosuch"], ["custom.json", "missing"]):
    del opened[:]
    inproc("prov-compare", argv, [])
    print("   opened/closed", [(os.path.basename(f.name), f.closed) for f in opened])
os.chdir("/")
shutil.rmtree(work)
