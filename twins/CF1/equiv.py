"""Differential script for dot.prov_to_dot (node creation, labels, ids, annotations).

Prints the complete DOT text for many documents and option combinations plus a
digest.  Must give identical output on the clean and on the changed tree.
"""
import os
import sys

if os.environ.get("PYTHONHASHSEED") != "0":
    os.environ["PYTHONHASHSEED"] = "0"
    os.execv(sys.executable, [sys.executable] + sys.argv)

import datetime
import hashlib
import itertools

from prov.model import ProvDocument, Namespace, Literal, Identifier, PROV
from prov.dot import prov_to_dot, _quoted, htlm_link_if_uri
from prov.tests import examples

OUT = []


def emit(*parts):
    line = " ".join(str(p) for p in parts)
    OUT.append(line)
    print(line)


def doc_plain():
    d = ProvDocument()
    ex = Namespace("ex", "http://example.org/")
    d.add_namespace(ex)
    d.set_default_namespace("http://default.example/")
    d.entity("ex:e1")
    d.entity("ex:e2", {"prov:label": "ex:e2"})  # label is a str, id a qname
    d.entity("ex:e3", {"prov:label": "A <b>bold</b> & \"quoted\" label"})
    d.entity("ex:e4", {"prov:label": "Größe – 漢字 ☃"})
    d.entity("ex:e5", {"prov:label": Literal("bonjour", langtag="fr")})
    d.entity("ex:e6", {"prov:label": ""})
    d.entity("localname", {"prov:label": "in default ns", "ex:attr": 1})
    d.entity('ex:q"uote', {"ex:path": "C:\\dir\\file"})
    d.entity("ex:back\\slash")
    d.activity(
        "ex:a1",
        "2012-03-31T09:21:00",
        "2012-04-01T15:21:00",
        {"prov:type": ex["Edit"], "ex:when": datetime.datetime(2020, 1, 2, 3, 4, 5)},
    )
    d.activity("ex:a2", other_attributes={"prov:label": "act two", "ex:n": 2.5})
    d.agent("ex:ag1", {"prov:type": PROV["Person"], "ex:name": "Zoë", "ex:tag": "x"})
    d.agent("ex:ag2", {"ex:home": Identifier("http://example.org/home?a=1&b=2")})
    d.agent("ex:ag3", {"ex:v": Literal("1", datatype=ex["custom"])})
    # relations between declared nodes
    d.wasGeneratedBy("ex:e1", "ex:a1", "2012-04-01T00:00:00", identifier="ex:g1")
    d.used("ex:a1", "ex:e2", other_attributes={"prov:role": "input", "ex:w": "é"})
    d.wasAssociatedWith("ex:a1", "ex:ag1", plan="ex:e3")
    d.wasAssociatedWith("ex:a2", "ex:ag2")
    d.actedOnBehalfOf("ex:ag1", "ex:ag2", "ex:a1")
    d.wasDerivedFrom("ex:e1", "ex:e2", "ex:a1", "ex:g1", None, {"ex:k": "v"})
    d.wasAttributedTo("ex:e1", "ex:ag1")
    # relations to undeclared nodes of every inferred kind
    d.wasGeneratedBy("ex:ghost_e", "ex:ghost_a")
    d.wasAssociatedWith("ex:ghost_a2", "ex:ghost_ag", "ex:ghost_plan")
    d.wasStartedBy("ex:ghost_a3", "ex:ghost_trigger", "ex:ghost_starter")
    d.wasEndedBy("ex:a1", None, "ex:ghost_ender", "2012-04-01T15:21:00")
    d.wasInformedBy("ex:ghost_informed", "ex:ghost_informant")
    d.wasInfluencedBy("ex:ghost_x", "ex:ghost_y")
    d.alternateOf("ex:e1", "ex:ghost_alt")
    d.specializationOf("ex:ghost_spec", "ex:e2")
    d.hadMember("ex:ghost_coll", "ex:e1")
    d.mentionOf("ex:ghost_m1", "ex:ghost_m2", "ex:ghost_bundle")
    d.wasInvalidatedBy("ex:e2", None, "2013-01-01T00:00:00")
    d.wasGeneratedBy("ex:e3", None, "2013-01-01T00:00:00", other_attributes={"ex:z": 1})
    # the same undeclared node used again (must be reused, not recreated)
    d.used("ex:ghost_a", "ex:ghost_e")
    d.used("ex:ghost_a", "ex:ghost_e")
    return d


def doc_bundles():
    d = doc_plain()
    ex = Namespace("ex", "http://example.org/")
    b1 = d.bundle("ex:bundle1")
    b1.entity("ex:e1", {"prov:label": "e1 inside bundle1"})  # repeated identifier
    b1.entity("ex:only_b1")
    b1.activity("ex:a1")
    b1.wasGeneratedBy("ex:e1", "ex:a1")
    b1.used("ex:a1", "ex:ghost_e")  # undeclared here, generic in the document
    b1.wasAttributedTo("ex:only_b1", "ex:ghost_b1_agent", {"ex:why": "because"})
    b2 = d.bundle(ex['b"2'])
    b2.set_default_namespace("http://other-default.example/")
    b2.entity("local2", {"prov:label": "ラベル"})
    b2.agent("ex:ag1")
    b2.wasAttributedTo("local2", "ex:ag1")
    d.bundle("ex:empty_bundle")
    d.entity("ex:bundle1", {"prov:type": PROV["Bundle"]})
    return d


def doc_repeated():
    # records that repeat an identifier: unified() merges them; a clash in
    # formal attributes makes unified() fail -> original document is drawn
    d = ProvDocument()
    d.add_namespace("ex", "http://example.org/")
    d.entity("ex:e", {"ex:a": 1})
    d.entity("ex:e", {"ex:b": 2, "prov:label": "second"})
    d.activity("ex:act", "2012-03-31T09:21:00")
    d.activity("ex:act", "2014-03-31T09:21:00")  # cannot be unified
    d.wasGeneratedBy("ex:e", "ex:act", identifier="ex:gen")
    d.wasGeneratedBy("ex:e", "ex:act", identifier="ex:gen")
    return d


def doc_empty():
    return ProvDocument()


def all_docs():
    yield "plain", doc_plain()
    yield "bundles", doc_bundles()
    yield "repeated", doc_repeated()
    yield "empty", doc_empty()
    bdoc = doc_bundles()
    for b in sorted(bdoc.bundles, key=lambda b: str(b.identifier)):
        yield "bundle-alone:%s" % b.identifier, b
    for name, fn in (
        ("primer", examples.primer_example),
        ("primer_alt", examples.primer_example_alternate),
        ("w3c1", examples.w3c_publication_1),
        ("w3c2", examples.w3c_publication_2),
        ("bundles1", examples.bundles1),
        ("bundles2", examples.bundles2),
        ("collections", examples.collections),
        ("datatypes", examples.datatypes),
        ("long_literals", examples.long_literals),
    ):
        yield name, fn()


OPTIONS = [
    {},
    {"use_labels": True},
    {"show_nary": False},
    {"show_element_attributes": False},
    {"show_relation_attributes": False},
    {"use_labels": True, "show_element_attributes": False, "show_nary": False},
    {"direction": "LR", "show_relation_attributes": False, "use_labels": True},
    {"direction": "nonsense"},
]


def main():
    for value in [
        "plain",
        'with "quotes"',
        "back\\slash",
        "",
        "ünï ☃",
        42,
        None,
        Identifier("http://example.org/x?a=1&b=2"),
        Namespace("ex", "http://example.org/")["q\"n"],
        Literal("lit", langtag="en"),
        ("a", "b"),
        ("single",),
    ]:
        emit("_quoted", repr(value), "->", _quoted(value))
        emit("htlm_link_if_uri", repr(value), "->", htlm_link_if_uri(value))

    for name, doc in all_docs():
        before = doc.get_provn()
        for opts in OPTIONS:
            try:
                text = prov_to_dot(doc, **opts).to_string()
            except Exception as e:  # same exception expected on both trees
                text = "EXC %s: %s" % (type(e).__name__, e)
            emit("=== %s %s sha=%s" % (name, sorted(opts.items()),
                                      hashlib.sha256(text.encode("utf-8")).hexdigest()))
            emit(text)
        # positional call form and the ProvBundle.plot entry point arguments
        text = prov_to_dot(doc, True, True, "TB", True, True).to_string()
        emit("=== %s positional sha=%s" % (name, hashlib.sha256(text.encode("utf-8")).hexdigest()))
        # the document itself must be unchanged by drawing it
        emit("unchanged-by-drawing", name, before == doc.get_provn())

    digest = hashlib.sha256("\n".join(OUT).encode("utf-8")).hexdigest()
    print("DIGEST", digest)


main()
