"""Differential script for refactoring 2: ProvRecord.get_provn (and callers)."""
import os, sys
if os.environ.get("PYTHONHASHSEED") != "0":
    os.environ["PYTHONHASHSEED"] = "0"
    os.execv(sys.executable, [sys.executable] + sys.argv)

import datetime, hashlib, glob, io
from prov.model import (ProvDocument, ProvBundle, ProvRecord, Literal, Identifier,
                        PROV_REC_CLS, PROV_N_MAP, PROV_TYPE, PROV_LABEL, PROV_VALUE,
                        PROV_LOCATION, PROV_ROLE, XSD_ANYURI, XSD_DATETIME, XSD_INT)
from prov.identifier import Namespace, QualifiedName
# Harness-only: Identifier.__hash__ mixes in hash(cls), which is address based and
# makes the iteration order of attribute-value sets vary from run to run. Make it
# reproducible (same patch in the clean and in the refactored run).
Identifier.__hash__ = lambda self: hash((self.uri, self.__class__.__name__))

out = []
def emit(*a):
    out.append(" ".join(str(x) for x in a))

EX = Namespace("ex", "http://example.org/")
OTHER = Namespace("o-t.h_er", "urn:other:")
d = ProvDocument()
d.add_namespace(EX)
d.add_namespace(OTHER)
d.set_default_namespace("http://default.example/")
t1 = datetime.datetime(2020, 1, 2, 3, 4, 5)
t2 = datetime.datetime(2021, 12, 31, 23, 59, 59, 123456, tzinfo=datetime.timezone.utc)

weird = 'a "quoted" \\ back\nnew line \t tab é 中 \U0001F600 %s %(x)s {braces} {0}'
attrs_many = [
    ("prov:label", "plain"),
    ("prov:label", Literal("bonjour", langtag="fr")),
    ("prov:label", weird),
    ("prov:label", ""),
    ("prov:type", EX["Type"]),
    ("prov:type", "a string type"),
    ("prov:type", Literal("http://example.org/u", XSD_ANYURI)),
    ("prov:value", 42),
    ("prov:location", Identifier("http://example.org/loc")),
    ("ex:int", 1), ("ex:neg", -5), ("ex:big", 2 ** 70), ("ex:float", 1.5), ("ex:nan", float("inf")),
    ("ex:bool", True), ("ex:bool", False),
    ("ex:dt", t1), ("ex:dt", t2),
    ("ex:lit", Literal("10", XSD_INT)),
    ("ex:qn", OTHER["loc-al.1"]),
    ("o-t.h_er:at%tr", "percent in name"),
    ("default_attr", "in default ns"),
]

recs = []
recs.append(d.entity("ex:e1"))
recs.append(d.entity("ex:e1", attrs_many))
recs.append(d.entity("e-default", {"ex:k": "v"}))
recs.append(d.entity("ex:e_%s", {"ex:k": "%d"}))
recs.append(d.activity("ex:a1"))
recs.append(d.activity("ex:a1", t1))
recs.append(d.activity("ex:a1", None, t2))
recs.append(d.activity("ex:a1", t1, t2, attrs_many))
recs.append(d.activity("ex:a2", "2012-03-04T05:06:07", "2012-03-04T05:06:07.5+01:00"))
recs.append(d.agent("ex:ag", {"prov:type": "prov:Person"}))
recs.append(d.collection("ex:c"))
recs.append(d.generation("ex:e1"))
recs.append(d.generation("ex:e1", "ex:a1", t1, "ex:gen1", {"prov:role": "r", "ex:k": 1}))
recs.append(d.generation("ex:e1", time=t2))
recs.append(d.usage("ex:a1"))
recs.append(d.usage("ex:a1", "ex:e1", t1, "ex:use1", attrs_many))
recs.append(d.start("ex:a1", "ex:e1", "ex:a2", t1, "ex:st"))
recs.append(d.start("ex:a1"))
recs.append(d.end("ex:a1", None, "ex:a2", None, None, {"ex:k": "v"}))
recs.append(d.invalidation("ex:e1", "ex:a1", t2))
recs.append(d.communication("ex:a1", "ex:a2"))
recs.append(d.communication("ex:a1", "ex:a2", "ex:comm", [("ex:k", "v1"), ("ex:k", "v2")]))
recs.append(d.attribution("ex:e1", "ex:ag"))
recs.append(d.association("ex:a1"))
recs.append(d.association("ex:a1", "ex:ag", "ex:plan", "ex:assoc", {"prov:role": EX["role"]}))
recs.append(d.delegation("ex:ag", "ex:ag2", "ex:a1"))
recs.append(d.influence("ex:e1", "ex:e2", "ex:inf"))
recs.append(d.derivation("ex:e2", "ex:e1"))
recs.append(d.derivation("ex:e2", "ex:e1", "ex:a1", "ex:gen1", "ex:use1", "ex:der", {"ex:k": "v"}))
recs.append(d.revision("ex:e2", "ex:e1"))
recs.append(d.quotation("ex:e2", "ex:e1", identifier="ex:q"))
recs.append(d.primary_source("ex:e2", "ex:e1"))
recs.append(d.specialization("ex:e1", "ex:e2"))
recs.append(d.alternate("ex:e1", "ex:e2"))
recs.append(d.membership("ex:c", "ex:e2"))
b = d.bundle("ex:b1")
b.add_namespace("bn", "urn:bundle-ns:")
recs.append(b.entity("bn:e", {"bn:k": "v"}))
recs.append(b.mention("ex:e1", "ex:e2", "ex:b1"))
b2 = d.bundle("ex:b2")  # empty bundle

for i, r in enumerate(recs):
    emit(i, type(r).__name__, repr(r.get_provn()))
    emit("   str", repr(str(r)))
    emit("   copy", repr(r.copy().get_provn()))

dp = ProvDocument()  # scratch document for the destructive probes
dp.add_namespace(EX)
# a relation whose identifier was removed, an element whose identifier is falsy
rel = dp.usage("ex:a1", "ex:e1", identifier="ex:tmpid")
rel._identifier = None
emit("noid rel", repr(rel.get_provn()))
el = dp.entity("ex:tmp")
el._identifier = None
emit("noid el", repr(el.get_provn()))

# empty formal attribute set (key present, empty set) must give "-"
g = dp.generation("ex:e1", "ex:a1")
g._attributes[g.FORMAL_ATTRIBUTES[1]] = set()
emit("empty formal", repr(g.get_provn()))
# get_provn must not insert keys into the defaultdict of attributes
g2 = dp.generation("ex:e9")
before = sorted(map(str, g2._attributes.keys()))
g2.get_provn()
emit("keys unchanged", before == sorted(map(str, g2._attributes.keys())), before)

# untyped base record -> KeyError(None), raised at the very end
raw = ProvRecord(dp, EX["raw"], {"ex:k": "v"})
try:
    emit("raw", raw.get_provn())
except Exception as ex:
    emit("raw exc", type(ex).__name__, repr(ex))

# values with a custom provn_representation / raising AttributeError / other errors
class Custom(object):
    def __init__(self, mode): self.mode = mode
    def provn_representation(self):
        if self.mode == "attr": raise AttributeError("inner")
        if self.mode == "val": raise ValueError("custom failure")
        if self.mode == "tuple": return ("a", 1)
        if self.mode == "int": return 7
        return "<<custom %s>>" % self.mode
    def __str__(self): return "Custom(%s)" % self.mode
    def __hash__(self): return hash(self.mode)
    def __eq__(self, o): return isinstance(o, Custom) and o.mode == self.mode
for mode in ("ok", "attr", "val", "tuple", "int", "%s"):
    e = dp.entity("ex:cust")
    e._attributes[EX["c"]].add(Custom(mode))
    try:
        emit("custom", mode, repr(e.get_provn()))
    except Exception as ex:
        emit("custom", mode, "exc", type(ex).__name__, ex)

# order of evaluation: formal attributes are rendered before extras (first failure wins)
class BadStr(object):
    def __str__(self): raise RuntimeError("formal str failed")
u = dp.usage("ex:a1", "ex:e1")
u._attributes[u.FORMAL_ATTRIBUTES[1]] = {BadStr()}
u._attributes[EX["c"]].add(Custom("val"))
try:
    emit("order", u.get_provn())
except Exception as ex:
    emit("order exc", type(ex).__name__, ex)

# whole document / bundles
emit(d.get_provn())
emit(b.get_provn())
emit(b2.get_provn(3))
emit(ProvDocument().get_provn())
emit(repr(d.unified().get_provn()))
emit(repr(d.flattened().get_provn()))

# PROV-N serializer and example files shipped with the tests
buf = io.StringIO()
d.serialize(buf, format="provn")
emit(hashlib.sha256(buf.getvalue().encode("utf-8")).hexdigest())
for path in sorted(glob.glob("src/prov/tests/json/*.json"))[:120]:
    try:
        doc = ProvDocument.deserialize(path)
        txt = doc.get_provn()
        recs_txt = "|".join(r.get_provn() for r in doc.get_records())
        emit(os.path.basename(path), hashlib.sha256((txt + recs_txt).encode("utf-8")).hexdigest())
    except Exception as ex:
        emit(os.path.basename(path), "exc", type(ex).__name__, ex)

import prov.tests.examples as examples
for name, fn in examples.tests:
    emit(name, hashlib.sha256(fn().get_provn().encode("utf-8")).hexdigest())

text = "\n".join(out)
print(text)
print("DIGEST", hashlib.sha256(text.encode("utf-8")).hexdigest())
