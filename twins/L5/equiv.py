"""Differential script for prov.serializers.provrdf (encode/decode of values and containers)."""
import os
import sys

if os.environ.get("PYTHONHASHSEED") != "0":
    os.environ["PYTHONHASHSEED"] = "0"
    os.execv(sys.executable, [sys.executable] + sys.argv)

import datetime
import decimal
import glob
import hashlib
import io
import re
import warnings
import logging

warnings.simplefilter("ignore")
logging.disable(logging.CRITICAL)

import uuid
import rdflib.term

# deterministic blank node ids (rdflib draws them from uuid4)
_seq = iter(range(1, 10 ** 9))
rdflib.term.uuid4 = lambda: uuid.UUID(int=next(_seq))
import rdflib.plugins.parsers.notation3 as _n3

_n3.uuid4 = rdflib.term.uuid4

from rdflib.term import URIRef, BNode, Literal as RDFLiteral
from rdflib.namespace import XSD as RXSD, RDF
from rdflib.graph import ConjunctiveGraph, Graph
from rdflib.compare import to_canonical_graph

import prov.model as pm
from prov.model import ProvDocument, Namespace, PROV, Identifier, Literal, XSD_QNAME
from prov.constants import XSD, XSD_STRING, XSD_INT, XSD_ANYURI, XSD_DOUBLE, XSD_DATETIME

XSD_BASE64BINARY = XSD["base64Binary"]
PROV_INTERNATIONALIZEDSTRING = PROV["InternationalizedString"]
from prov.serializers.provrdf import ProvRDFSerializer, literal_rdf_representation
from prov.tests import examples

EX = Namespace("ex", "http://example.org/")
BNODE_RE = re.compile(r"\b(_:)?[Nnf][0-9a-f]{32}(b\d+)?\b")


def sha(text):
    return hashlib.sha256(text.encode("utf-8")).hexdigest()


def show(x):
    if isinstance(x, pm.Literal):
        return "pm.Literal(%r, %r, %r)" % (x.value, x.datatype, x.langtag)
    if isinstance(x, RDFLiteral):
        return "RDFLiteral(%r, dt=%r, lang=%r, value=%r)" % (str(x), x.datatype, x.language, x.value)
    return "%s:%r" % (type(x).__name__, x)


ADDR_RE = re.compile(r" at 0x[0-9a-f]+")


def attempt(label, fn, *args):
    try:
        res = show(fn(*args))
    except Exception as exc:
        res = "EXC %s: %s" % (type(exc).__name__, exc)
    print(ADDR_RE.sub("", label), "=>", ADDR_RE.sub("", BNODE_RE.sub("BNODE", res)))


class MyInt(int):
    pass


class MyStr(str):
    pass


class MyDT(datetime.datetime):
    pass


print("#### encode_rdf_representation / literal_rdf_representation")
ser = ProvRDFSerializer(ProvDocument())
enc_values = [
    URIRef("http://example.org/u"), URIRef(""),
    Literal("abc", XSD_STRING), Literal("", XSD_STRING), Literal(0, XSD_INT), Literal(5, XSD_INT),
    Literal("hello", PROV_INTERNATIONALIZEDSTRING, "en"), Literal("", None, "fr"),
    Literal("aGVsbG8=", XSD_BASE64BINARY), Literal("", XSD_BASE64BINARY),
    Literal("ex:qn", XSD_QNAME), Literal(1.5, XSD_DOUBLE), Literal("x<y>&\"'\n☃", XSD_STRING),
    Literal("http://a/b", XSD_ANYURI),
    datetime.datetime(2012, 1, 2, 3, 4, 5), datetime.datetime(2012, 1, 2, 3, 4, 5, 678, datetime.timezone.utc),
    MyDT(2000, 1, 1), datetime.date(2012, 1, 2), datetime.time(1, 2),
    EX["q"], EX[""], PROV["Entity"], Identifier("http://example.org/i"), Identifier(""),
    1.5, float("inf"), 0, 7, -3, 2 ** 40, "text", "", "é☃", True, False, None,
    MyInt(4), MyStr("sub"), decimal.Decimal("1.10"), b"bytes", [1, 2], (1,), {"a": 1},
    RDFLiteral("raw", lang="de"), BNode("fixedbnode"), XSD_STRING,
]
for v in enc_values:
    attempt("enc %s" % show(v), ser.encode_rdf_representation, v)
    if isinstance(v, pm.Literal):
        attempt("lit %s" % show(v), literal_rdf_representation, v)


class FakeLiteral:
    def __init__(self, value, datatype, langtag):
        self.value, self.datatype, self.langtag = value, datatype, langtag


for fake in [FakeLiteral("v", None, None), FakeLiteral(None, XSD_STRING, None),
             FakeLiteral(b"", XSD_BASE64BINARY, None), FakeLiteral(12, XSD_BASE64BINARY, None),
             FakeLiteral("v", None, "en"), FakeLiteral(0, XSD_INT, "")]:
    attempt("lit fake(%r,%r,%r)" % (fake.value, fake.datatype, fake.langtag),
            lambda f: str(literal_rdf_representation(f)) if f.value else show(RDFLiteral("x")) and
            type(literal_rdf_representation(f)).__name__, fake)

print("#### decode_rdf_representation")
doc = ProvDocument()
doc.add_namespace(EX)
ser = ProvRDFSerializer(doc)
g = Graph()
g.bind("ex", EX.uri)
g.bind("other", "http://other.example/ns#")
dec_values = [
    RDFLiteral("plain"), RDFLiteral(""), RDFLiteral("chat", lang="fr"),
    RDFLiteral("5", datatype=RXSD.int), RDFLiteral("abc", datatype=RXSD.int), RDFLiteral("1.5", datatype=RXSD.double),
    RDFLiteral("true", datatype=RXSD.boolean), RDFLiteral("s", datatype=RXSD.string),
    RDFLiteral("<a>x</a>", datatype=RDF.XMLLiteral), RDFLiteral("aGVsbG8=", datatype=RXSD.base64Binary),
    RDFLiteral("", datatype=RXSD.base64Binary),
    RDFLiteral("ex:qn", datatype=RXSD.QName), RDFLiteral("2012-01-02T03:04:05", datatype=RXSD.dateTime),
    RDFLiteral("2012-01-02T03:04:05.000678+01:00", datatype=RXSD.dateTime),
    RDFLiteral("not a date", datatype=RXSD.dateTime),
    RDFLiteral("2012", datatype=RXSD.gYear), RDFLiteral("0099", datatype=RXSD.gYear),
    RDFLiteral("2012-03", datatype=RXSD.gYearMonth), RDFLiteral("2012-11", datatype=RXSD.gYearMonth),
    RDFLiteral("garbage", datatype=RXSD.gYearMonth),
    RDFLiteral("http://x/y", datatype=RXSD.anyURI), RDFLiteral("v", datatype=URIRef("http://unknown.example/dt#T")),
    RDFLiteral("v", datatype=URIRef("http://example.org/customType")),
    RDFLiteral("0", datatype=RXSD.int), RDFLiteral("2012-01-02", datatype=RXSD.date),
    URIRef("http://example.org/known"), URIRef("http://www.w3.org/ns/prov#Entity"),
    URIRef("http://other.example/ns#thing"), URIRef("http://brandnew.example/path/leaf"),
    URIRef("http://brandnew.example/path/leaf2"), URIRef("urn:uuid:1234"), URIRef("http://nosplit.example/"),
    URIRef(""), BNode("fixed"), "python str", None, 5, EX["qn"], datetime.datetime(2000, 1, 1),
]
for v in dec_values:
    attempt("dec %s" % show(v), ser.decode_rdf_representation, v, g)
class NoDatatype(RDFLiteral):
    @property
    def datatype(self):
        raise AttributeError("no datatype here")


class NoLanguage(RDFLiteral):
    @property
    def language(self):
        raise AttributeError("no language here")


class BrokenValue(RDFLiteral):
    @property
    def value(self):
        raise RuntimeError("value is broken")


for v in [NoDatatype("nd"), NoDatatype("5", datatype=RXSD.int), NoLanguage("nl", lang="en"),
          NoLanguage("2012-05", datatype=RXSD.gYearMonth), BrokenValue("bv"),
          RDFLiteral("0999-01", datatype=RXSD.gYearMonth), RDFLiteral("12345-01", datatype=RXSD.gYearMonth),
          RDFLiteral("", datatype=RXSD.gYear),
          RDFLiteral("", datatype=RXSD.dateTime), RDFLiteral("x", datatype=URIRef("")),
          RDFLiteral("q", datatype=URIRef("http://example.org/XMLLiteralLike")),
          RDFLiteral("cXE=", datatype=URIRef("http://example.org/base64BinaryLike"))]:
    attempt("dec+ %s %s" % (type(v).__name__, str(v)), ser.decode_rdf_representation, v, g)
for bad_graph in (None, "not a graph"):
    attempt("dec badgraph known", ser.decode_rdf_representation, URIRef("http://example.org/known2"), bad_graph)
    attempt("dec badgraph unknown", ser.decode_rdf_representation, URIRef("http://zzz.example/a/b"), bad_graph)
attempt("dec kw", lambda: ser.decode_rdf_representation(literal=RDFLiteral("kw"), graph=g))
print("namespaces now:", sorted((ns.prefix, ns.uri) for ns in doc.namespaces))

print("#### whole documents: encode_document -> canonical quads; serialize; deserialize")


def custom_doc():
    d = ProvDocument()
    d.add_namespace(EX)
    d.add_namespace("odd", "http://example.org/odd/")
    e1 = d.entity("ex:e1", {
        "prov:label": "entity <one> & \"co\"", "ex:when": datetime.datetime(2012, 3, 4, 5, 6, 7),
        "ex:link": Identifier("http://example.org/a?b=1&c=2"), "ex:qn": EX["target"], "ex:empty": "",
        "ex:num": 5, "ex:float": 1.5, "ex:lang": Literal("bonjour", langtag="fr"), "ex:bool": True,
        "prov:type": EX["Thing"], "prov:location": "Paris", "prov:value": 42,
        "ex:b64": Literal("aGVsbG8=", XSD_BASE64BINARY),
    })
    d.entity("ex:e1", {"ex:num": 6, "prov:location": EX["place"]})  # repeated identifier
    d.entity("ex:e2")
    d.entity("ex:e3", {"prov:label": Literal("etiket", langtag="nl")})
    a1 = d.activity("ex:a1", datetime.datetime(2011, 1, 1), datetime.datetime(2011, 1, 2),
                    {"prov:label": "activité ☃", "ex:x": "y", "prov:type": "ex:string-type"})
    d.activity("ex:a2", None, datetime.datetime(2011, 5, 5))
    ag = d.agent("ex:ag", {"prov:type": PROV["Person"], "ex:name": "A&B"})
    d.wasGeneratedBy(e1, a1, datetime.datetime(2011, 1, 2), "ex:g1", {"ex:how": "<fast>", "prov:role": "out"})
    d.wasGeneratedBy("ex:e2", None, None)
    d.wasGeneratedBy("ex:e2", a1)
    d.wasGeneratedBy("ex:e2", a1, datetime.datetime(2011, 1, 3))
    d.wasGeneratedBy(None, a1, None, "ex:g2")
    d.used(a1, "ex:unknownEntity", None, None, {"prov:role": "input", "prov:location": "Lab"})
    d.used(a1, e1, datetime.datetime(2011, 1, 1, 12), "ex:u1")
    d.used(a1, None, None)
    d.wasDerivedFrom("ex:e2", e1, a1, "ex:g1", "ex:u1", None, {"prov:type": PROV["Revision"]})
    d.wasDerivedFrom("ex:e2", e1, None, None, None, "ex:d1", {"prov:type": PROV["Quotation"], "ex:k": 1})
    d.wasDerivedFrom("ex:e3", "ex:e2", None, None, None, None, {"prov:type": PROV["PrimarySource"]})
    d.wasDerivedFrom("ex:e3", "ex:e2")
    d.wasDerivedFrom("ex:e3", None, a1)
    d.wasAssociatedWith(a1, ag, "ex:plan", None, {"prov:role": "operator"})
    d.wasAssociatedWith(a1, None, "ex:plan2")
    d.wasAssociatedWith(a1, ag)
    d.wasAssociatedWith(a1, ag, None, "ex:assoc1")
    d.actedOnBehalfOf("ex:ag2", ag, a1)
    d.actedOnBehalfOf("ex:ag2", ag)
    d.actedOnBehalfOf("ex:ag2", ag, None, "ex:del1", {"prov:type": "x"})
    d.wasAttributedTo(e1, ag)
    d.wasAttributedTo(e1, ag, "ex:attr1", {"ex:k": "v"})
    d.wasStartedBy(a1, "ex:trigger", "ex:starter", datetime.datetime(2011, 1, 1, 1))
    d.wasStartedBy(a1, "ex:trigger")
    d.wasStartedBy(a1, None, "ex:starter")
    d.wasEndedBy(a1, None, None, None)
    d.wasEndedBy(a1, "ex:trigger", "ex:ender", datetime.datetime(2011, 1, 2, 1), "ex:end1", {"prov:location": EX["loc"]})
    d.wasInvalidatedBy(e1, a1, datetime.datetime(2013, 1, 1), None, {"prov:role": "destroyer"})
    d.wasInvalidatedBy(e1, a1)
    d.wasInformedBy(a1, "ex:a0")
    d.wasInformedBy(a1, "ex:a0", "ex:inf1", {"ex:k": 2})
    d.specializationOf("ex:e3", e1)
    d.alternateOf("ex:e3", "ex:e2")
    d.alternateOf("ex:e3", None) if False else None
    d.mentionOf("ex:e3", "ex:e2", "ex:b1")
    d.mentionOf("ex:e3", "ex:e2", None)
    d.hadMember("ex:coll", e1)
    d.wasInfluencedBy("ex:e3", ag, None, {"ex:why": Identifier("urn:x:y")})
    d.wasInfluencedBy("ex:e3", ag)
    d.wasInfluencedBy("ex:e3", ag, "ex:infl1")
    b1 = d.bundle("ex:b1")
    b1.add_namespace("inb", "http://example.org/inbundle/")
    b1.entity("ex:e1", {"ex:inbundle": True, "inb:x": 1})
    b1.activity("ex:ba")
    b1.wasGeneratedBy("ex:e1", "ex:ba", None, None, {"ex:k": EX["v"]})
    b2 = d.bundle("ex:b2")
    b2.wasAttributedTo("ex:nobody", "ex:noone")
    d.bundle("ex:emptybundle")
    return d


def canonical_lines(container):
    lines = []
    contexts = list(container.contexts()) if hasattr(container, "contexts") else [container]
    for ctx in contexts:
        name = "BNODECTX" if isinstance(ctx.identifier, BNode) else str(ctx.identifier)
        cg = to_canonical_graph(ctx)
        for s, p, o in cg:
            lines.append("%s | %s %s %s" % (name, s.n3(), p.n3(), o.n3()))
    return sorted(lines)


def norm_provn(text):
    return BNODE_RE.sub("BNODE", text)


def doc_signature(document):
    """Order-independent, blank-node-independent description of a document."""
    lines = []
    for bundle in [document] + sorted(document.bundles, key=lambda b: str(b.identifier)):
        bname = str(bundle.identifier) if bundle.is_bundle() else "-"
        lines.append("%s NS %s" % (bname, sorted((ns.prefix, str(ns.uri)) for ns in bundle.namespaces)))
        for rec in bundle.get_records():
            attrs = sorted("%s=%s" % (k, show(v)) for k, v in rec.attributes)
            lines.append(norm_provn("%s %s %s %s" % (bname, rec.get_type(), rec.identifier, attrs)))
    return "\n".join(sorted(lines))


docs = [("custom", custom_doc()), ("empty", ProvDocument())]
docs += [(name, fn()) for name, fn in examples.tests]
docs.append(("primer_alt", examples.primer_example_alternate()))

for name, d in docs:
    ser = ProvRDFSerializer(d)
    container = ser.encode_document(d)
    lines = canonical_lines(container)
    print("== %s quads=%d %s" % (name, len(lines), sha("\n".join(lines))))
    if name == "custom":
        print("\n".join(lines))
    # single container API with explicit arguments
    for rec_bundle in [d] + list(d.bundles):
        c2 = ser.encode_container(rec_bundle, identifier="http://example.org/ctx")
        l2 = canonical_lines(c2)
        print("   container %s triples=%d %s nsbindings=%s" % (
            rec_bundle.identifier if rec_bundle.is_bundle() else "doc", len(l2), sha("\n".join(l2)),
            sha(repr(sorted((p, str(u)) for p, u in c2.namespaces())))))
    for fmt in ("trig",) if d.has_bundles() else ("trig", "nquads", "xml", "turtle"):
        try:
            text = d.serialize(format="rdf", rdf_format=fmt)
            back = ProvDocument.deserialize(content=text, format="rdf", rdf_format=fmt)
            provn = doc_signature(back)
            print("   %s roundtrip records=%d %s equal=%s" % (fmt, len(back.get_records()), sha(provn), back == d))
            if name == "custom" and fmt == "trig":
                print(provn)
        except Exception as exc:
            print("   %s EXC %s: %s" % (fmt, type(exc).__name__, norm_provn(str(exc))))

print("#### deserialize the test fixtures")
base = os.path.join(os.path.dirname(examples.__file__), "rdf")
for path in sorted(glob.glob(os.path.join(base, "*"))):
    fname = os.path.basename(path)
    fmt = "trig" if fname.endswith(".trig") else "turtle"
    try:
        with open(path, "rb") as f:
            back = ProvDocument.deserialize(content=f.read(), format="rdf", rdf_format=fmt)
        provn = doc_signature(back)
        out = io.StringIO()
        back.serialize(out, format="rdf", rdf_format="trig")
        ser = ProvRDFSerializer(back)
        again = canonical_lines(ser.encode_document(back))
        print(fname, sha(provn), len(again), sha(norm_provn("\n".join(again))))
    except Exception as exc:
        print(fname, "EXC %s: %s" % (type(exc).__name__, norm_provn(str(exc))[:200]))
