"""Differential script for prov.identifier: prints a deterministic digest of the
observable behaviour of Identifier / QualifiedName / Namespace."""
import copy
import hashlib
import pickle

from prov.identifier import Identifier, Namespace, QualifiedName
from prov.model import ProvDocument

lines = []


def rec(label, fn):
    try:
        value = fn()
        lines.append("%s -> %s %r" % (label, type(value).__name__, value))
    except Exception as e:  # noqa
        lines.append("%s !! %s %r" % (label, type(e).__name__, e.args))


class SubId(Identifier):
    pass


class StrSub(str):
    def __str__(self):
        return "STR<%s>" % str.__str__(self)

    def __format__(self, spec):
        return "FMT<%s>" % str.__str__(self)


class Trace(str):
    log = []

    def __hash__(self):
        Trace.log.append("hash")
        return str.__hash__(self)

    def __eq__(self, other):
        Trace.log.append("eq")
        return str.__eq__(self, other)

    def __ne__(self, other):
        Trace.log.append("ne")
        return str.__ne__(self, other)


class Duck(object):
    """Has uri/prefix but is neither Identifier nor Namespace."""

    uri = "http://example.org/"
    prefix = "ex"

    def __repr__(self):
        return "<Duck>"


URIS = [
    "http://example.org/",
    "http://example.org/a",
    "",
    " ",
    "\t\n",
    "urn:x:%s %% {0} {name}",
    "http://example.org/é中'\"\\",
    "x",
]
PREFIXES = ["ex", "", None, "p%s{0}", "é", 0]
LOCALS = ["a", "", "a b", "%s", "{0}", "'q'", "é", "a:b", "a", StrSub("sub")]

# ---- Namespace construction -------------------------------------------------
namespaces = []
for p in PREFIXES:
    for u in URIS:
        rec("Namespace(%r,%r)" % (p, u), lambda: Namespace(p, u))
        try:
            namespaces.append(Namespace(p, u))
        except Exception:
            pass
for bad in [None, 0, b"http://b/", b"  ", b"", [], ["x"]]:
    rec("Namespace('p',%r)" % (bad,), lambda: Namespace("p", bad))
rec("Namespace kw", lambda: Namespace(uri="http://k/", prefix="k"))
rec("Namespace()", lambda: Namespace())

for ns in namespaces:
    rec("ns.uri", lambda: ns.uri)
    rec("ns.prefix", lambda: ns.prefix)
    rec("repr(ns)", lambda: repr(ns))
    rec("str(ns)==repr", lambda: str(ns) == repr(ns))
    rec("hash(ns)==", lambda: hash(ns) == hash((ns.uri, ns.prefix)))

# ---- Namespace eq / ne / hash ------------------------------------------------
others = namespaces[:12] + [None, 1, "http://example.org/", Duck(), Identifier("http://example.org/")]
for i, a in enumerate(namespaces[:12]):
    for j, b in enumerate(others):
        rec("ns%d==o%d" % (i, j), lambda: a == b)
        rec("ns%d!=o%d" % (i, j), lambda: a != b)
        rec("ns%d.__eq__(o%d)" % (i, j), lambda: a.__eq__(b))
        rec("ns%d.__ne__(o%d)" % (i, j), lambda: a.__ne__(b))
rec("ns set", lambda: len(set(namespaces + [Namespace("ex", "http://example.org/")])))

tns = Namespace(Trace("tp"), Trace("http://t/"))
tns2 = Namespace(Trace("tp"), Trace("http://t/"))
tns3 = Namespace(Trace("tq"), Trace("http://t/"))
tns4 = Namespace(Trace("tp"), Trace("http://u/"))
for label, o in [("same", tns2), ("prefix", tns3), ("uri", tns4), ("self", tns), ("none", None)]:
    del Trace.log[:]
    rec("trace eq " + label, lambda: tns == o)
    lines.append("  ops=%s" % ",".join(Trace.log))
    del Trace.log[:]
    rec("trace ne " + label, lambda: tns != o)
    lines.append("  ops=%s" % ",".join(Trace.log))
    del Trace.log[:]
    rec("trace hash " + label, lambda: hash(tns) == hash(tns2))
    lines.append("  ops=%s" % ",".join(Trace.log))

# ---- Identifier --------------------------------------------------------------
idents = []
for u in URIS + [None, 0, 1.5, b"bytes", StrSub("http://example.org/s"), Identifier("http://n/")]:
    rec("Identifier(%r)" % (u,), lambda: Identifier(u))
    idents.append(Identifier(u))
    idents.append(SubId(u))
rec("Identifier()", lambda: Identifier())
rec("Identifier kw", lambda: Identifier(uri="u"))
for x in idents:
    rec("id.uri", lambda: x.uri)
    rec("type(id.uri)", lambda: type(x.uri).__name__)
    rec("str(id)", lambda: str(x))
    rec("repr(id)", lambda: repr(x))
    rec("provn(id)", lambda: x.provn_representation())
    rec("hash(id)==", lambda: hash(x) == hash((x.uri, x.__class__)))

# ---- QualifiedName ---------------------------------------------------------------
qnames = []
for ns in namespaces[:14]:
    for lp in LOCALS:
        rec("QualifiedName(%r,%r)" % (ns, lp), lambda: QualifiedName(ns, lp))
        try:
            qnames.append(QualifiedName(ns, lp))
        except Exception:
            pass
        rec("ns[%r]" % (lp,), lambda: ns[lp])
        rec("ns[] identity", lambda: ns[lp] is ns[lp])
        rec("ns[] fresh", lambda: ns[lp] is not QualifiedName(ns, lp) and ns[lp] == QualifiedName(ns, lp))
for bad in [None, 0, b"x", ["a"], ("a",)]:
    rec("QualifiedName(ns,%r)" % (bad,), lambda: QualifiedName(namespaces[0], bad))
    rec("ns[%r]" % (bad,), lambda: namespaces[0][bad])
rec("QualifiedName(None,'a')", lambda: QualifiedName(None, "a"))
rec("QualifiedName(Duck,'a')", lambda: QualifiedName(Duck(), "a"))
rec("QualifiedName(Identifier,'a')", lambda: QualifiedName(Identifier("http://i/"), "a"))
rec("ns[[]]", lambda: namespaces[0][[]])
rec("ns[{}]", lambda: namespaces[0][{}])
qnames.append(QualifiedName(Duck(), "a"))

for q in qnames:
    rec("q.uri", lambda: q.uri)
    rec("q.namespace", lambda: q.namespace)
    rec("q.namespace is", lambda: q.namespace is q._namespace if hasattr(q, "_namespace") else True)
    rec("q.localpart", lambda: (type(q.localpart).__name__, str.__str__(q.localpart)))
    rec("str(q)", lambda: str(q))
    rec("q._str", lambda: (type(q._str).__name__, str.__str__(q._str)))
    rec("repr(q)", lambda: repr(q))
    rec("provn(q)", lambda: q.provn_representation())
    rec("hash(q)==", lambda: hash(q) == hash(q.uri))

# trace hashing order of __getitem__
trace_ns = Namespace("t", "http://t/")
for key in [Trace("k1"), Trace("k1"), Trace("k2")]:
    del Trace.log[:]
    rec("trace ns[%s]" % str.__str__(key), lambda: trace_ns[key])
    lines.append("  ops=%s" % ",".join(Trace.log))

# ---- cross-type eq / hash ----------------------------------------------------
mixed = idents[:10] + qnames[:25] + [None, "http://example.org/a", 5, Duck(), namespaces[0]]
for i, a in enumerate(mixed[:35]):
    for j, b in enumerate(mixed):
        rec("m%d==m%d" % (i, j), lambda: a == b)
        rec("m%d!=m%d" % (i, j), lambda: a != b)
        if isinstance(a, Identifier):
            rec("m%d.__eq__(m%d)" % (i, j), lambda: a.__eq__(b))
rec("mixed set", lambda: len(set(x for x in mixed if isinstance(x, Identifier))))
rec("dict lookup", lambda: {Identifier("http://example.org/a"): 1}.get(Namespace("ex", "http://example.org/")["a"]))
rec("dict lookup2", lambda: {Namespace("ex", "http://example.org/")["a"]: 1}.get(Namespace("zz", "http://example.org/")["a"]))

# ---- contains / qname --------------------------------------------------------
probes = (
    URIS
    + ["http://example.org/a/b", "http://example.org", "HTTP://EXAMPLE.ORG/a"]
    + [Identifier(u) for u in URIS]
    + qnames[:12]
    + [SubId("http://example.org/zz"), None, 0, 1, b"http://example.org/a", [], Duck(), namespaces[0],
       StrSub("http://example.org/sub")]
)
for ns in namespaces[:14]:
    for pr in probes:
        rec("%r.contains(%r)" % (ns, pr), lambda: ns.contains(pr))
        rec("%r.qname(%r)" % (ns, pr), lambda: ns.qname(pr))
        q = ns.qname(pr)
        if q is not None:
            rec("  parts", lambda: (q.namespace is ns, q.localpart, q.uri, str(q), q.provn_representation()))
            rec("  not cached", lambda: ns.qname(pr) is not ns.qname(pr))
rec("contains kw", lambda: namespaces[0].contains(identifier="http://example.org/k"))
rec("qname kw", lambda: namespaces[0].qname(identifier="http://example.org/k"))
rec("contains()", lambda: namespaces[0].contains())
rec("qname()", lambda: namespaces[0].qname())

# ---- copy / pickle round trips (observable behaviour only) -----------------------
for obj in [namespaces[0], qnames[0], qnames[3], idents[1], idents[2]]:
    for how, fn in [("copy", copy.copy), ("deepcopy", copy.deepcopy),
                    ("pickle", lambda o: pickle.loads(pickle.dumps(o)))]:
        rec("%s %r" % (how, obj), lambda: (fn(obj) == obj, repr(fn(obj)), hash(fn(obj)) == hash(obj), str(fn(obj))))
ns_c = copy.deepcopy(namespaces[0])
rec("deepcopy ns getitem", lambda: (ns_c["a"] is ns_c["a"], ns_c["a"] == namespaces[0]["a"], ns_c["a"].namespace is ns_c))

# ---- end to end: a small document ---------------------------------------------
doc = ProvDocument()
doc.add_namespace("ex", "http://example.org/")
doc.set_default_namespace("http://default.example/")
doc.entity("ex:e1", {"ex:attr": Identifier("http://example.org/val"), "ex:q": doc.valid_qualified_name("ex:other")})
doc.entity("e2")
doc.entity("http://example.org/full")
b = doc.bundle("ex:b")
b.activity("ex:a1")
b.wasGeneratedBy("ex:e1", "ex:a1")
rec("provn", lambda: doc.get_provn())
rec("json", lambda: doc.serialize(format="json"))
rec("xml", lambda: doc.serialize(format="xml"))
rec("records", lambda: sorted(repr(r.identifier) for r in doc.get_records() if r.identifier))

# ---- class layout --------------------------------------------------------------
for cls in (Identifier, QualifiedName, Namespace):
    public = sorted(n for n in vars(cls) if not n.startswith("_") or (n.startswith("__") and n.endswith("__")))
    lines.append("%s public/dunder members: %s" % (cls.__name__, public))
    lines.append("%s mro: %s" % (cls.__name__, [c.__name__ for c in cls.__mro__]))

text = "\n".join(lines)
print(text)
print("LINES", len(lines))
print("SHA256", hashlib.sha256(text.encode("utf-8")).hexdigest())
