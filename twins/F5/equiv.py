"""Differential check for refactoring 5 (with-statement in ProvRDFSerializer.serialize)."""
import os
import sys

if os.environ.get("PYTHONHASHSEED") != "0":
    os.environ["PYTHONHASHSEED"] = "0"
    os.execv(sys.executable, [sys.executable] + sys.argv)

import hashlib
import io
import itertools
import logging
import tempfile
import warnings

warnings.simplefilter("ignore")
logging.disable(logging.CRITICAL)

import rdflib.term


class _FakeUUID:
    _counter = itertools.count(1)

    def __init__(self):
        self.hex = "%032x" % next(self._counter)


rdflib.term.uuid4 = _FakeUUID

from prov.serializers.provrdf import ProvRDFSerializer
from prov.constants import PROV_N_MAP
from docs_common import all_docs


def norm(data):
    if isinstance(data, bytes):
        data = data.decode("utf-8")
    return hashlib.sha256("\n".join(sorted(data.splitlines())).encode()).hexdigest()[:16]


class FailingStream(io.RawIOBase):
    def writable(self):
        return True

    def write(self, b):
        raise OSError("disk full (simulated)")


class Recorder:
    """Non-io object with a write method; records what it was given."""

    def __init__(self):
        self.calls = []

    def write(self, data):
        self.calls.append((type(data).__name__, len(data)))


def attempt(label, fn):
    try:
        print(label, fn())
    except BaseException as e:  # noqa
        print(label, "EXC", type(e).__name__, str(e)[:150])


for name, doc in all_docs():
    ser = ProvRDFSerializer(doc)

    def to_bytes(fmt=None, **kw):
        b = io.BytesIO()
        if fmt is None:
            r = ser.serialize(b, **kw)
        else:
            r = ser.serialize(b, rdf_format=fmt, **kw)
        return "ret=%r closed=%s len=%d %s" % (r, b.closed, len(b.getvalue()), norm(b.getvalue()))

    def to_text(fmt):
        t = io.StringIO()
        r = ser.serialize(t, rdf_format=fmt)
        return "ret=%r closed=%s len=%d %s" % (r, t.closed, len(t.getvalue()), norm(t.getvalue()))

    def to_file(fmt, mode):
        with tempfile.TemporaryDirectory() as tmp:
            path = os.path.join(tmp, "out.rdf")
            kw = {"encoding": "utf-8"} if "b" not in mode else {}
            with open(path, mode, **kw) as fh:
                r = ser.serialize(fh, rdf_format=fmt)
            with open(path, "rb") as fh:
                data = fh.read()
        return "ret=%r len=%d %s" % (r, len(data), norm(data))

    def to_recorder(fmt):
        rec = Recorder()
        r = ser.serialize(rec, rdf_format=fmt)
        return "ret=%r calls=%r" % (r, rec.calls)

    attempt("%s default" % name, lambda: to_bytes())
    for fmt in ("trig", "turtle", "xml", "nt", "json-ld", "n3", "no-such-format"):
        attempt("%s bytes %s" % (name, fmt), lambda: to_bytes(fmt))
        attempt("%s text %s" % (name, fmt), lambda: to_text(fmt))
    attempt("%s file wb" % name, lambda: to_file("trig", "wb"))
    attempt("%s file w" % name, lambda: to_file("trig", "w"))
    attempt("%s recorder" % name, lambda: to_recorder("turtle"))
    attempt("%s stream=None" % name, lambda: ser.serialize(None))
    attempt("%s no args" % name, lambda: ser.serialize())
    attempt("%s failing stream" % name, lambda: ser.serialize(FailingStream()))
    attempt("%s closed stream" % name, lambda: (lambda b: (b.close(), ser.serialize(b)))(io.BytesIO()))
    attempt("%s extra kwarg" % name, lambda: to_bytes("turtle", base="http://base.example/"))
    attempt("%s bad kwarg" % name, lambda: to_bytes("turtle", format="xml"))
    attempt("%s custom PROV_N_MAP" % name, lambda: to_bytes("turtle", PROV_N_MAP=dict(PROV_N_MAP)))
    attempt("%s empty PROV_N_MAP" % name, lambda: to_bytes("turtle", PROV_N_MAP={}))
    # through the public API
    attempt("%s doc.serialize str" % name, lambda: norm(doc.serialize(format="rdf", rdf_format="trig")))
