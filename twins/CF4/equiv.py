"""Differential script for prov.serializers (Serializer, Registry, get, DoNotExist)
and prov.serializers.provn.ProvNSerializer.  Nothing here uses anything new."""
import os
import sys

if os.environ.get("PYTHONHASHSEED") != "0":
    os.environ["PYTHONHASHSEED"] = "0"
    os.execv(sys.executable, [sys.executable] + sys.argv)

import hashlib
import inspect
import io
import subprocess
import tempfile

OUT = []


def emit(*parts):
    line = " ".join(str(p) for p in parts)
    OUT.append(line)
    print(line)


def attempt(label, fn):
    try:
        res = fn()
        emit(label, "->", repr(res))
        return res
    except BaseException as e:
        emit(
            label, "-> EXC", type(e).__module__ + "." + type(e).__name__, repr(str(e)),
            "mro=" + ",".join(c.__name__ for c in type(e).__mro__),
            "cause=" + type(e.__cause__).__name__,
            "context=" + type(e.__context__).__name__,
            "suppress=" + str(e.__suppress_context__),
        )


# --- import order in fresh interpreters (cyclic import model <-> serializers) ---
for stmt in (
    "import prov.serializers.provn as m; print(m.ProvNSerializer.__mro__)",
    "import prov.serializers as s; print(s.Registry.serializers, sorted(s.__all__)); print(s.get('provn')); print(sorted(s.Registry.serializers))",
    "from prov.serializers import *; print(sorted(n for n in dir() if not n.startswith('_')))",
    "import prov.model, prov.serializers as s; print(s.Registry.serializers is None)",
    "from prov.serializers.provn import ProvNSerializer as P; import prov.serializers as s; print(s.Registry.serializers is None, P.__module__)",
):
    r = subprocess.run([sys.executable, "-c", stmt], capture_output=True, text=True, env=dict(os.environ))
    emit("fresh:", stmt, "| rc", r.returncode, "| out", r.stdout.strip(), "| err", r.stderr.strip()[-200:])

import prov
import prov.serializers as S
from prov.model import ProvDocument, Namespace, Literal

emit("registry before first get:", S.Registry.serializers)
for name in ["json", "rdf", "provn", "xml"]:
    cls = attempt("get(%r)" % name, lambda: S.get(name))
    emit("  is Serializer subclass:", issubclass(cls, S.Serializer), cls.__module__, cls.__qualname__)
emit("registry after:", sorted((k, v.__name__) for k, v in S.Registry.serializers.items()))
emit("same dict object on second load?", S.Registry.serializers is (S.get("json"), S.Registry.serializers)[1])

for bad in ["", "JSON", "provn ", "turtle", "ünï", None, 0, 1.5, ("provn",), ("a", "b"), (), frozenset(["x"]), b"json", "%s", "%(x)s", "{0}"]:
    attempt("get(%r)" % (bad,), lambda: S.get(bad))
for unhashable in [["provn"], {"a": 1}]:
    attempt("get(%r)" % (unhashable,), lambda: S.get(unhashable))

emit("DoNotExist bases:", [c.__name__ for c in S.DoNotExist.__mro__], issubclass(S.DoNotExist, prov.Error))
emit("DoNotExist():", repr(S.DoNotExist()), repr(S.DoNotExist("a", 1)), str(S.DoNotExist("msg")))
emit("__all__:", S.__all__)

# --- base class ---
emit("Serializer.document class attr:", S.Serializer.document)
s0 = S.Serializer()
emit("Serializer().document:", s0.document, vars(s0))
marker = object()
s1 = S.Serializer(marker)
emit("Serializer(obj).document is obj:", s1.document is marker, list(vars(s1)))
s2 = S.Serializer(document="anything")
emit("Serializer(document=...):", s2.document)
attempt("Serializer(1, 2)", lambda: S.Serializer(1, 2))
attempt("base.serialize(stream)", lambda: s0.serialize(io.StringIO()))
attempt("base.serialize(stream, indent=2)", lambda: s0.serialize(io.StringIO(), indent=2))
attempt("base.serialize(stream=None)", lambda: s0.serialize(stream=None))
attempt("base.serialize()", lambda: s0.serialize())
attempt("base.deserialize(stream)", lambda: s0.deserialize(io.StringIO("x")))
attempt("base.deserialize(stream, a=1)", lambda: s0.deserialize(io.BytesIO(b"x"), a=1))
for fn in (S.Serializer.__init__, S.Serializer.serialize, S.Serializer.deserialize, S.get, S.Registry.load_serializers):
    sig = inspect.signature(fn)
    emit("params", fn.__qualname__, [(p.name, str(p.kind), p.default is inspect.Parameter.empty or p.default) for p in sig.parameters.values()])
attempt("Registry.load_serializers()", lambda: S.Registry.load_serializers())
attempt("Registry().load_serializers()", lambda: S.Registry().load_serializers())

# --- PROV-N serializer ---
from prov.serializers.provn import ProvNSerializer


def make_doc(kind):
    d = ProvDocument()
    if kind == "empty":
        return d
    ex = Namespace("ex", "http://example.org/")
    d.add_namespace(ex)
    d.set_default_namespace("http://default.example/")
    d.entity("ex:e1", {"prov:label": "Größe – 漢字 ☃", "ex:q": 'say "hi"\\n'})
    d.entity("local", {"prov:label": Literal("bonjour", langtag="fr"), "ex:empty": ""})
    d.activity("ex:a", "2012-03-31T09:21:00")
    d.wasGeneratedBy("ex:e1", "ex:a", identifier="ex:g")
    d.entity("ex:e1", {"ex:again": 1})  # repeated identifier
    if kind == "bundles":
        b = d.bundle("ex:b1")
        b.set_default_namespace("http://bundle-default.example/")
        b.entity("inb", {"prov:label": "ラベル"})
        b.entity("ex:e1")
        d.bundle("ex:empty")
    return d


class Sink(object):
    """Not an io.TextIOBase: receives bytes."""

    def __init__(self):
        self.got = []

    def write(self, data):
        self.got.append(data)
        return "ret"


class TextSink(io.TextIOBase):
    def __init__(self):
        self.got = []

    def write(self, data):
        self.got.append(data)
        return len(data)


def sha(x):
    if isinstance(x, str):
        x = b"str:" + x.encode("utf-8")
    return hashlib.sha256(x).hexdigest()[:16]


closed = io.BytesIO()
closed.close()

for kind in ["empty", "plain", "bundles"]:
    d = make_doc(kind)
    ser = ProvNSerializer(d)
    emit(kind, "serializer document is doc:", ser.document is d, isinstance(ser, S.Serializer))
    t = io.StringIO()
    emit(kind, "StringIO ret:", repr(ser.serialize(t)), sha(t.getvalue()), len(t.getvalue()))
    emit(t.getvalue())
    b = io.BytesIO()
    emit(kind, "BytesIO ret:", repr(ser.serialize(b, indent=4, unknown="x")), sha(b.getvalue()), len(b.getvalue()))
    emit(kind, "bytes == utf8(text):", b.getvalue() == t.getvalue().encode("utf-8"))
    sk = Sink()
    ser.serialize(sk)
    emit(kind, "Sink:", [(type(x).__name__, sha(x)) for x in sk.got])
    ts = TextSink()
    ser.serialize(ts)
    emit(kind, "TextSink:", [(type(x).__name__, sha(x)) for x in ts.got])
    tw = io.TextIOWrapper(io.BytesIO(), encoding="utf-16", newline="")
    ser.serialize(tw)
    tw.flush()
    emit(kind, "TextIOWrapper utf-16:", sha(tw.buffer.getvalue()))
    with tempfile.TemporaryDirectory() as tmp:
        p1 = os.path.join(tmp, "t.provn")
        with open(p1, "w", encoding="utf-8", newline="") as f:
            ser.serialize(f)
        p2 = os.path.join(tmp, "b.provn")
        with open(p2, "wb") as f:
            ser.serialize(f)
        with open(p1, "rb") as f1, open(p2, "rb") as f2:
            emit(kind, "files:", sha(f1.read()), sha(f2.read()))
    attempt(kind + " serialize(None)", lambda: ser.serialize(None))
    attempt(kind + " serialize()", lambda: ser.serialize())
    attempt(kind + " closed BytesIO", lambda: ser.serialize(closed))
    attempt(kind + " BufferedWriter", lambda: ser.serialize(io.BufferedWriter(io.BytesIO())))
    attempt(kind + " deserialize(stream)", lambda: ser.deserialize(io.StringIO("document\nendDocument")))
    attempt(kind + " deserialize(stream, x=1)", lambda: ser.deserialize(io.BytesIO(b""), x=1))
    attempt(kind + " deserialize()", lambda: ser.deserialize())
    # through the model API
    emit(kind, "doc.serialize(format='provn'):", sha(d.serialize(format="provn")))
    s_io = io.StringIO()
    d.serialize(s_io, format="provn")
    emit(kind, "doc.serialize(StringIO):", sha(s_io.getvalue()))
    b_io = io.BytesIO()
    d.serialize(b_io, format="provn")
    emit(kind, "doc.serialize(BytesIO):", sha(b_io.getvalue()))
    attempt(kind + " doc.serialize(format='nope')", lambda: d.serialize(format="nope"))
    attempt(kind + " ProvDocument.deserialize provn", lambda: ProvDocument.deserialize(content=t.getvalue(), format="provn"))
    attempt(kind + " ProvDocument.deserialize nope", lambda: ProvDocument.deserialize(content="x", format="nope"))

attempt("no document: ProvNSerializer().serialize", lambda: ProvNSerializer().serialize(io.StringIO()))
attempt("closed stream", lambda: ProvNSerializer(make_doc("plain")).serialize(closed))

print("DIGEST", hashlib.sha256("\n".join(OUT).encode("utf-8")).hexdigest())
