# Differential script for refactoring 6:
# prov.read, ProvDocument.serialize, ProvDocument.deserialize
import contextlib, io, os, shutil, sys, tempfile
sys.path.insert(0, os.path.join(os.path.dirname(os.path.abspath(__file__)), ".."))
from harness import *
import prov
from prov.serializers import Registry

work = tempfile.mkdtemp(prefix="equiv6-")
tmpd = os.path.join(work, "tmp"); os.mkdir(tmpd)
outd = os.path.join(work, "out"); os.mkdir(outd)
tempfile.tempdir = tmpd          # ProvDocument.serialize makes its temporary file here
os.chdir(outd)


def listing():
    return sorted(os.listdir(outd)), sorted(os.listdir(tmpd))


def fdig(path):
    with open(path, "rb") as fh:
        data = fh.read()
    return "%d bytes" % len(data) if b"_:" in data or b"nodeID" in data else dig(data)


def captured(fn, *a, **k):
    buf = io.StringIO()
    with contextlib.redirect_stdout(buf):
        r = outcome(fn, *a, **k)
    return r, buf.getvalue()


class CountingStream(io.StringIO):
    reads = 0
    def read(self, *a):
        self.reads += 1
        return super().read(*a)


class WriteOnly:
    def __init__(self): self.chunks = []
    def write(self, data): self.chunks.append(data)


docs = all_docs()
FORMATS = [("json", {}), ("xml", {}), ("rdf", {}), ("provn", {}), ("json", {"indent": 2}), ("rdf", {"rdf_format": "turtle"})]

print("== ProvDocument.serialize")
for name, fn in docs:
    doc = fn()
    for fmt, args in FORMATS:
        (kind, res), out = captured(doc.serialize, format=fmt, **args)
        canon_txt = rdig(res, args.get("rdf_format", "trig")) if (kind == "ok" and fmt == "rdf") else (dig(res) if kind == "ok" else res[:120])
        print(name, fmt, args, "None ->", kind, type(res).__name__, canon_txt, repr(out))
        for mk in (io.StringIO, io.BytesIO, WriteOnly):
            st = mk()
            (kind, res), out = captured(doc.serialize, st, fmt, **args)
            if isinstance(st, WriteOnly):
                got = [type(c).__name__ for c in st.chunks][:3], sum(len(c) for c in st.chunks)
            else:
                got = type(st.getvalue()).__name__, len(st.getvalue()), st.closed
            print(name, fmt, mk.__name__, "->", kind, res if kind == "ok" else res[:120], got, repr(out))
doc = examples.primer_example()
targets = ["plain.json", "with#hash.json", "with?query;param.json", "sub dir/x.json", "unicodé.json",
           "file://" + outd + "/via_url.json", "file:rel_url.json", "file:///" + outd.lstrip("/") + "/a%20b.json",
           "http://example.org/remote.json", "//netloc/path.json", "ftp://host/x", "", ".", outd]
for fmt, args in FORMATS[:4]:
    for t in targets:
        (kind, res), out = captured(doc.serialize, t, fmt, **args)
        print("file", fmt, repr(t.replace(work, "<W>")), "->", kind, res if kind == "ok" else res.replace(work, "<W>")[:160], repr(out), [x for x in listing()[1]][:1] and "tmp-left:%d" % len(listing()[1]))
    files = listing()[0]
    # moving onto a directory keeps mkstemp's random name: show it as tmp*
    print("  out dir:", sorted(("tmp*" if f.startswith("tmp") else f, fdig(f) if os.path.isfile(f) else "dir") for f in files))
    for f in files:
        if os.path.isfile(f): os.remove(f)
    for f in os.listdir(tmpd): os.remove(os.path.join(tmpd, f))
os.mkdir("sub dir")
print("subdir", captured(doc.serialize, "sub dir/x.json"), listing())
print("overwrite", captured(doc.serialize, "sub dir/x.json", "xml"), fdig("sub dir/x.json"), listing())
# argument names that could clash with a helper's parameters
for bad in ({"location": 1}, {"serializer": 1}, {"args": 1}, {"stream": 1}, {"destination2": 1}, {"name": "n"}, {"path": "p"}):
    r, out = captured(doc.serialize, "clash.json", "json", **bad)
    print("clash", sorted(bad), r[0], r[1] if r[0] == "ok" else r[1][:100], listing()[0].count("clash.json"), len(listing()[1]))
    for f in os.listdir(tmpd): os.remove(os.path.join(tmpd, f))
print("unknown format", captured(doc.serialize, None, "nope"), captured(doc.serialize, "f.x", "nope"), captured(doc.serialize, format=None))
print("int destination", captured(doc.serialize, 5)[0][0], "bytes destination", captured(doc.serialize, b"bytes.json")[0][0], listing())
for f in os.listdir(tmpd): os.remove(os.path.join(tmpd, f))


class Sub(ProvDocument):
    pass
sub = Sub()
sub.set_default_namespace("http://d/")
sub.entity("e1")
print("subclass", captured(sub.serialize, "subclass.json"), fdig("subclass.json"))

print("== ProvDocument.deserialize")
for name, fn in docs:
    doc = fn()
    for fmt, args in FORMATS:
        if fmt == "provn":
            continue
        text = doc.serialize(format=fmt, **args)
        dargs = {k: v for k, v in args.items() if k == "rdf_format"}
        fname = "in_%s.%s" % (dig(name)[:6], fmt)
        with open(fname, "w", encoding="utf-8") as fh:
            fh.write(text)
        cases = {
            "content-str": dict(content=text), "content-bytes": dict(content=text.encode("utf-8")),
            "source-StringIO": dict(source=io.StringIO(text)), "source-BytesIO": dict(source=io.BytesIO(text.encode("utf-8"))),
            "source-path": dict(source=fname), "both": dict(source=io.StringIO("garbage"), content=text),
            "neither": dict(), "content-empty": dict(content=""), "content-bytes-empty": dict(content=b""),
            "source-missing": dict(source="does-not-exist." + fmt), "source-empty-name": dict(source=""),
            "content-bytearray": dict(content=bytearray(text.encode("utf-8"))), "content-int": dict(content=5),
            "source-int": dict(source=0) if False else dict(source=3.5),
        }
        for cname, kw in cases.items():
            kind, res = outcome(ProvDocument.deserialize, format=fmt, **kw, **dargs)
            if kind == "ok":
                print(name, fmt, cname, "ok", type(res).__name__, (res == doc, dig(provn_sorted(res))) if res is not None else None)
            else:
                print(name, fmt, cname, "exc", res[:110])
        os.remove(fname)
print("positional", outcome(lambda: ProvDocument.deserialize(io.StringIO("{}"), None, "json").get_provn()))
print("content first", outcome(lambda: ProvDocument.deserialize(None, "{}").get_provn()))
print("instance call", outcome(lambda: ProvDocument().deserialize(content="{}").get_provn()))
print("bad format", outcome(ProvDocument.deserialize, content="{}", format="nope"), outcome(ProvDocument.deserialize, format="nope"))
print("provn", outcome(ProvDocument.deserialize, content="document\nendDocument", format="provn"))
print("bad kw", outcome(ProvDocument.deserialize, content="{}", format="json", bogus=1)[0])

print("== prov.read")
doc = examples.bundles1()
texts = {}
for fmt, args in [("json", {}), ("xml", {}), ("rdf", {}), ("rdf-ttl", {"rdf_format": "turtle"}), ("provn", {})]:
    texts[fmt] = doc.serialize(format=fmt.split("-")[0], **args)
texts["garbage"] = "this is not provenance <<<{"
texts["empty"] = ""
texts["json-empty"] = "{}"
for key, text in texts.items():
    fname = "read_" + key
    with open(fname, "w", encoding="utf-8") as fh:
        fh.write(text)
    for fmt in (None, "", "json", "JSON", "Xml", "rdf", "RDF", "provn", "nope", 5):
        variants = {
            "StringIO": lambda: CountingStream(text), "BytesIO": lambda: io.BytesIO(text.encode("utf-8")),
            "path": lambda: fname, "none": lambda: None, "text": lambda: text,
        }
        for vname, mk in variants.items():
            src = mk()
            kind, res = outcome(prov.read, src, fmt) if fmt is not None else outcome(prov.read, src)
            extra = ""
            if isinstance(src, CountingStream):
                extra = "reads=%d pos=%d" % (src.reads, src.tell())
            elif isinstance(src, io.BytesIO):
                extra = "pos=%d closed=%s" % (src.tell() if not src.closed else -1, src.closed)
            if kind == "ok":
                print(key, repr(fmt), vname, "ok", type(res).__name__, (res == doc, dig(provn_sorted(res))) if res is not None else None, extra)
            else:
                print(key, repr(fmt), vname, "exc", res[:130], extra)
print("kw", outcome(lambda: prov.read(source=io.StringIO("{}"), format="json").get_provn()))
print("registry", sorted(Registry.serializers.keys()))
print("final listing", [f for f in listing()[0] if not f.startswith("read_")], listing()[1])
os.chdir("/")
shutil.rmtree(work)
