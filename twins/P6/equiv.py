"""Differential script: exercises prov.model module-level helpers, Literal and
ProvRecord.add_attributes/_auto_literal_conversion, prints a deterministic digest."""
import datetime
import hashlib
import logging
import os
import sys

# set iteration order (first() of a multi-valued set) depends on str hashing: pin the seed
if os.environ.get("PYTHONHASHSEED") != "0":
    os.environ["PYTHONHASHSEED"] = "0"
    os.execv(sys.executable, [sys.executable] + sys.argv)

import prov.model as pm
from prov.constants import (
    PROV, XSD_STRING, XSD_DOUBLE, XSD_LONG, XSD_INT, XSD_BOOLEAN, XSD_DATETIME,
    XSD_ANYURI, XSD_QNAME, PROV_TYPE, PROV_LABEL, PROV_VALUE, PROV_ATTR_COLLECTION,
    PROV_ATTR_TIME, PROV_ATTR_STARTTIME, PROV_ATTR_ENDTIME, PROV_ATTR_ENTITY,
    PROV_ATTR_ACTIVITY,
)
from prov.identifier import Identifier, QualifiedName, Namespace

LINES = []


def emit(*parts):
    LINES.append(" | ".join(str(p) for p in parts))


class ListHandler(logging.Handler):
    def __init__(self):
        super().__init__(level=logging.DEBUG)
        self.records = []

    def emit(self, record):
        self.records.append("%s:%s" % (record.levelname, record.getMessage()))


handler = ListHandler()
pm.logger.addHandler(handler)
pm.logger.setLevel(logging.DEBUG)
pm.logger.propagate = False


def desc(v):
    """Deterministic description of a value, with its exact type."""
    if isinstance(v, (set, frozenset)):
        return "%s{%s}" % (type(v).__name__, ", ".join(sorted(desc(x) for x in v)))
    if isinstance(v, (list, tuple)):
        return "%s[%s]" % (type(v).__name__, ", ".join(desc(x) for x in v))
    if isinstance(v, pm.Literal):
        return "Literal(%r, %s, %r)#%s" % (
            v.value, desc(v.datatype), v.langtag, v.provn_representation())
    if isinstance(v, QualifiedName):
        return "QName<%s|%s>" % (v.uri, str(v))
    if isinstance(v, pm.ProvRecord):
        return "Record<%s>" % v.get_provn()
    return "%s:%r" % (type(v).__name__, v)


def attempt(label, fn, *args, **kwargs):
    n = len(handler.records)
    try:
        res = fn(*args, **kwargs)
        out = "OK " + desc(res)
    except BaseException as e:  # noqa
        out = "EXC %s: %s" % (type(e).__name__, e)
    logs = handler.records[n:]
    emit(label, out, "LOGS=%r" % (logs,))


class Weird:
    def __str__(self):
        return 'we"ird\\\nobj'

    def __repr__(self):
        return "<Weird>"

    def __format__(self, spec):
        return "FORMATTED(%s)" % spec


class FloatSub(float):
    def __repr__(self):
        return "FloatSub!"

    def __str__(self):
        return "FloatSubStr"


class StrSub(str):
    def lower(self):
        return "TRUE"


# ---------------------------------------------------------------- helpers
dt = datetime.datetime(2020, 2, 29, 12, 30, 15, 123456)
dt_tz = datetime.datetime(2001, 1, 1, 0, 0, tzinfo=datetime.timezone.utc)
for v in ["2012-12-03T21:08:16.686Z", "2011-11-16", "", "not a date", dt, None, 5, b"2011",
          datetime.date(2020, 1, 1)]:
    attempt("_ensure_datetime(%r)" % (v,), pm._ensure_datetime, v)
for v in ["2012-12-03T21:08:16.686Z", "2011-11-16T16:05:00", "", "not a date", "25:61",
          None, 5, dt, b"2011-11-16", "99999999999999999999"]:
    attempt("parse_xsd_datetime(%r)" % (v,), pm.parse_xsd_datetime, v)
for v in ["false", "0", "true", "1", "TRUE", "False", "FaLsE", " true", "", "2", "yes",
          StrSub("x"), None, 1, True, b"true"]:
    attempt("parse_boolean(%r)" % (v,), pm.parse_boolean, v)

emit("DATATYPE_PARSERS", sorted((k.__name__, f.__name__) for k, f in pm.DATATYPE_PARSERS.items()))
emit("XSD_DATATYPE_PARSERS", [(str(k), f.__name__) for k, f in pm.XSD_DATATYPE_PARSERS.items()])
emit("parsers identity",
     pm.XSD_DATATYPE_PARSERS[XSD_BOOLEAN] is pm.parse_boolean,
     pm.XSD_DATATYPE_PARSERS[XSD_DATETIME] is pm.parse_xsd_datetime,
     pm.DATATYPE_PARSERS[datetime.datetime] is pm.parse_xsd_datetime)

for val, dtp in [
    ("abc", XSD_STRING), (12, XSD_STRING), ("1.5", XSD_DOUBLE), ("x", XSD_DOUBLE),
    ("10", XSD_LONG), ("10", XSD_INT), ("1.5", XSD_INT), ("true", XSD_BOOLEAN),
    ("maybe", XSD_BOOLEAN), ("2011-11-16", XSD_DATETIME), ("junk", XSD_DATETIME),
    ("http://example.org/x", XSD_ANYURI), ("ex:x", XSD_QNAME), ("v", None),
    ("v", "xsd:string"), ("v", PROV["InternationalizedString"]), ("", XSD_DOUBLE),
    (None, XSD_INT), (None, XSD_BOOLEAN),
]:
    attempt("parse_xsd_types(%r, %s)" % (val, dtp), pm.parse_xsd_types, val, dtp)
attempt("parse_xsd_types(unhashable dt)", pm.parse_xsd_types, "v", [])
attempt("parse_xsd_types(kw)", lambda: pm.parse_xsd_types(value="7", datatype=XSD_INT))


def gen():
    yield "g1"
    yield "g2"


it = iter([1, 2, 3])
for label, v in [("empty set", set()), ("list", [3, 2, 1]), ("tuple", (None, 1)), ("str", "xyz"),
                 ("empty str", ""), ("dict", {"k": "v"}), ("gen", gen()), ("iter", it),
                 ("iter again", it), ("None", None), ("int", 5), ("one set", {"only"}),
                 ("frozenset", frozenset())]:
    attempt("first(%s)" % label, pm.first, v)
emit("iterator rest after first()", list(it))

for v in ["", "plain", 'say "hi"', "back\\slash", "two\nlines", 'mix "q" \\ and\nnl\n', '\\"', '"""',
          "tab\tcr\r", "unicode é中\U0001F600", 5, 1.5, None, True, dt, Weird(), b"bytes",
          ("a", "b"), ("single",), (), [1, "x"]]:
    attempt("_ensure_multiline(%r)" % (v,), pm._ensure_multiline_string_triple_quoted, v)

ex = Namespace("ex", "http://example.org/")
for v in ["", "s", 'q"uo\\te', "multi\nline", dt, dt_tz, datetime.datetime.min, 1.5, -0.0, float("nan"),
          float("inf"), 1e300, FloatSub(2.5), True, False, 0, 42, 10 ** 30, None, ex["qn"],
          Identifier("http://example.org/id"), Weird(), datetime.date(2020, 1, 1), b"b", (1, 2), (1.5,),
          [1], {"a": 1}, pm.Literal("x", XSD_STRING), StrSub("Sub")]:
    attempt("encoding_provn_value(%r)" % (v,), pm.encoding_provn_value, v)

# ---------------------------------------------------------------- Literal
INTL = PROV["InternationalizedString"]
lit_args = [
    ("abc",), ("abc", XSD_STRING), ("abc", None, "en"), ("abc", INTL, "en"), ("abc", XSD_STRING, "en"),
    ("abc", XSD_STRING, ""), ("abc", None, ""), (5, XSD_INT), (5.5,), (None,), ("", None, None),
    ("x\ny", XSD_STRING), ('q"q', None, "fr-CA"), ("abc", None, 0), ("abc", None, 7),
    ("abc", XSD_INT, 7), (Weird(), None, "en"), (Weird(), XSD_INT, Weird()), (("a", "b"), None, "en"),
    (("t",), XSD_STRING, "de"), ("abc", "xsd:string"), ("abc", "xsd:string", "en"), (dt, XSD_DATETIME),
    (True, XSD_BOOLEAN), ("abc", INTL), ("abc", ex["custom"], None),
]
lits = []
for a in lit_args:
    n = len(handler.records)
    try:
        l = pm.Literal(*a)
    except BaseException as e:  # noqa
        emit("Literal%r" % (a,), "EXC %s: %s" % (type(e).__name__, e), handler.records[n:])
        continue
    lits.append(l)
    emit("Literal%r" % (a,), desc(l), "str=%s" % str(l), "repr=%r" % (l,),
         "types=%s/%s/%s" % (type(l.value).__name__, type(l.datatype).__name__, type(l.langtag).__name__),
         "nolang=%r" % l.has_no_langtag(), "LOGS=%r" % (handler.records[n:],))
attempt("Literal kw", lambda: pm.Literal(value="kw", datatype=XSD_STRING, langtag=None))
attempt("Literal kw lang", lambda: pm.Literal(langtag="en", value="kw"))
attempt("Literal no args", lambda: pm.Literal())
emit("Literal public attrs", sorted(n for n in dir(pm.Literal) if not n.startswith("__")))
emit("Literal methods in __dict__", sorted(n for n in vars(pm.Literal) if n.startswith("__") and callable(vars(pm.Literal)[n])))
for n in ("value", "datatype", "langtag"):
    attempt("Literal set %s" % n, setattr, lits[0], n, "zz")

others = lits + ["abc", None, 5, ("abc", None, None), ex["custom"], object]
eqm = []
for i, a in enumerate(lits):
    row = ""
    for b in others:
        e = a == b
        ne = a != b
        assert type(e) is bool and type(ne) is bool, (a, b, e, ne)
        row += ("1" if e else "0") + ("1" if ne else "0")
    eqm.append(row)
emit("eq/ne matrix", hashlib.sha256("\n".join(eqm).encode()).hexdigest(), eqm[:4])
emit("reflected eq", "abc" == lits[0], lits[0].__eq__("abc"), lits[0].__ne__("abc"), lits[0].__eq__(lits[0]))


class Duck:
    value = "abc"
    datatype = None
    langtag = None


emit("duck eq", lits[0] == Duck(), lits[0] != Duck())
hm = []
for i, a in enumerate(lits):
    for j, b in enumerate(lits):
        hm.append("%d" % (hash(a) == hash(b)))
    assert hash(a) == hash((a.value, a.datatype, a.langtag))
emit("hash-equality matrix", hashlib.sha256("".join(hm).encode()).hexdigest())
emit("hash == hash(tuple)", all(hash(a) == hash((a.value, a.datatype, a.langtag)) for a in lits))
emit("set size", len(set(lits)), len({l: 1 for l in lits}))
attempt("hash unhashable datatype", lambda: hash(pm.Literal("a", [1])))
attempt("provn unusual datatype", lambda: pm.Literal("a", [1]).provn_representation())
attempt("eq with unhashable", lambda: pm.Literal("a", [1]) == pm.Literal("a", [1]))

# ---------------------------------------------------------------- ProvRecord
doc = pm.ProvDocument()
doc.add_namespace(ex)
doc.add_namespace("other", "http://other.org/")
b = doc.bundle("ex:bundle1")
e1 = doc.entity("ex:e1")
a1 = doc.activity("ex:a1")
be = b.entity("ex:e1")

conv_inputs = [
    "plain", StrSub("sub"), "", ex["q"], QualifiedName(Namespace("zz", "http://zz.org/"), "l"),
    QualifiedName(Namespace("ex2", "http://example.org/"), "same"), e1, a1, be,
    pm.Literal("5", XSD_INT), pm.Literal("x", XSD_INT), pm.Literal("1.5", XSD_DOUBLE),
    pm.Literal("true", XSD_BOOLEAN), pm.Literal("perhaps", XSD_BOOLEAN),
    pm.Literal("2011-11-16T16:05:00", XSD_DATETIME), pm.Literal("bad", XSD_DATETIME),
    pm.Literal("http://e.org/a", XSD_ANYURI), pm.Literal("s", XSD_STRING), pm.Literal("", XSD_STRING),
    pm.Literal("ex:q", XSD_QNAME), pm.Literal("nodt"), pm.Literal(""), pm.Literal("hi", None, "en"),
    pm.Literal("hi", INTL), pm.Literal("v", "xsd:int"), pm.Literal("v", ex["dt"]),
    5, 5.5, True, None, dt, Identifier("http://e.org/i"), (1, 2), [1], Weird(),
]
for rec_label, rec in [("doc-entity", e1), ("bundle-entity", be)]:
    for v in conv_inputs:
        attempt("_auto_literal_conversion[%s](%s)" % (rec_label, desc(v)), rec._auto_literal_conversion, v)
conv_lit = pm.Literal("nochange", None, "en")
emit("conversion identity", e1._auto_literal_conversion(conv_lit) is conv_lit,
     e1._auto_literal_conversion(None) is None, type(e1._auto_literal_conversion(StrSub("s"))).__name__)


def record_state(rec):
    return desc(sorted((str(k), desc(v)) for k, v in rec._attributes.items())) + " provn=" + " ".join(
        sorted(rec.get_provn().replace("[", ", ").replace("]", ", ").split(", ")))


def add_case(label, make, attrs):
    rec = make()
    n = len(handler.records)
    try:
        r = rec.add_attributes(attrs)
        out = "OK ret=%r" % (r,)
    except BaseException as e:  # noqa
        out = "EXC %s: %s" % (type(e).__name__, e)
    emit("add_attributes[%s]" % label, out, record_state(rec), "LOGS=%r" % (handler.records[n:],))
    return rec


counter = [0]


def new_entity(bundle=doc):
    def make():
        counter[0] += 1
        return bundle.entity("ex:ent%d" % counter[0])
    return make


def new_gen(bundle=doc, time=None):
    def make():
        return bundle.generation("ex:e1", "ex:a1", time)
    return make


def new_activity(start=None, end=None):
    def make():
        counter[0] += 1
        return doc.activity("ex:act%d" % counter[0], start, end)
    return make


add_case("None", new_entity(), None)
add_case("empty dict", new_entity(), {})
add_case("empty list", new_entity(), [])
add_case("empty tuple", new_entity(), ())
add_case("empty gen", new_entity(), (x for x in []))
add_case("dict basic", new_entity(), {"ex:a": 1, "ex:b": "two", ex["c"]: 3.5, "prov:label": "L"})
add_case("list repeated", new_entity(), [("ex:a", 1), ("ex:a", 1), ("ex:a", 2), ("ex:a", "1"), ("ex:a", True)])
add_case("none values", new_entity(), [("ex:a", None), ("bad name", None), ("ex:b", 0), ("ex:c", ""), ("ex:d", False)])
add_case("invalid name", new_entity(), [("ex:ok", 1), ("nope:x", 2), ("ex:later", 3)])
add_case("invalid name2", new_entity(), [(5, 1)])
add_case("invalid name none", new_entity(), [(None, 1)])
add_case("uri name", new_entity(), [("http://example.org/full", 1), ("http://unknown.org/zz", 2)])
add_case("generator", new_entity(), ((k, v) for k, v in [("ex:g", 1), ("ex:h", 2)]))
add_case("iterator one-shot", new_entity(), iter([("ex:g", 1), ("ex:h", 2)]))
add_case("malformed item", new_entity(), [("ex:a", 1), ("ex:b",)])
add_case("malformed item first", new_entity(), [5, ("ex:b", 1)])
add_case("triple item", new_entity(), [("ex:a", 1, 2)])
add_case("string items", new_entity(), ["ab", "cd"])
add_case("non iterable", new_entity(), 5)
add_case("literals", new_entity(), [
    ("ex:l", pm.Literal("5", XSD_INT)), ("ex:l", pm.Literal("hi", None, "en")),
    ("ex:l", pm.Literal("nodt")), ("ex:l", pm.Literal("perhaps", XSD_BOOLEAN)), ("ex:l", pm.Literal("bad", XSD_DATETIME)),
    ("ex:l", pm.Literal("q", ex["dt"])), ("ex:l", dt), ("ex:l", ex["qn"]), ("ex:l", e1), ("ex:l", Weird()),
    ("ex:l", 'quote"\nnl'), ("ex:l", "unicode é中"),
])
add_case("literal bad int", new_entity(), [("ex:k", 1), ("ex:l", pm.Literal("x", XSD_INT)), ("ex:m", 2)])
add_case("prov:type repeated", new_entity(), [(PROV_TYPE, "a"), (PROV_TYPE, "b"), (PROV_TYPE, PROV["Plan"]), ("prov:type", "a")])
add_case("prov:label value", new_entity(), [(PROV_LABEL, "l1"), (PROV_LABEL, pm.Literal("l2", None, "fr")), (PROV_VALUE, 4), (PROV_VALUE, 5)])
# formal qualified-name attributes
add_case("gen same entity", new_gen(), [(PROV_ATTR_ENTITY, "ex:e1")])
add_case("gen same entity record", new_gen(), [(PROV_ATTR_ENTITY, e1), ("prov:activity", a1)])
add_case("gen same entity bundle record", new_gen(), [(PROV_ATTR_ENTITY, be)])
add_case("gen different entity", new_gen(), [(PROV_ATTR_ENTITY, "ex:e2")])
add_case("gen different then more", new_gen(), [("ex:before", 1), (PROV_ATTR_ACTIVITY, "ex:other"), ("ex:after", 2)])
add_case("gen invalid qname value", new_gen(), [(PROV_ATTR_ENTITY, "unknownprefix:e")])
add_case("gen qname value int", new_gen(), [(PROV_ATTR_ENTITY, 5)])
add_case("gen qname literal", new_gen(), [(PROV_ATTR_ENTITY, pm.Literal("ex:e1", XSD_QNAME))])
add_case("gen qname uri", new_gen(), [(PROV_ATTR_ENTITY, "http://example.org/e1")])
add_case("gen qname Identifier", new_gen(), [(PROV_ATTR_ENTITY, Identifier("http://example.org/e1"))])
add_case("bundle gen", new_gen(b), [(PROV_ATTR_ENTITY, "ex:e1"), (PROV_ATTR_ENTITY, e1)])
# time literals
add_case("gen time str", new_gen(), [(PROV_ATTR_TIME, "2011-11-16T16:05:00")])
add_case("gen time dt", new_gen(), [(PROV_ATTR_TIME, dt)])
add_case("gen time twice same", new_gen(), [(PROV_ATTR_TIME, "2020-02-29T12:30:15.123456"), (PROV_ATTR_TIME, dt)])
add_case("gen time twice different", new_gen(), [(PROV_ATTR_TIME, dt), (PROV_ATTR_TIME, "2011-11-16T16:05:00")])
add_case("gen time bad", new_gen(), [(PROV_ATTR_TIME, "rubbish")])
add_case("gen time empty", new_gen(), [(PROV_ATTR_TIME, "")])
add_case("gen time int", new_gen(), [(PROV_ATTR_TIME, 5)])
add_case("gen time date", new_gen(), [(PROV_ATTR_TIME, datetime.date(2020, 1, 1))])
add_case("gen time literal", new_gen(), [(PROV_ATTR_TIME, pm.Literal("2011-11-16T16:05:00", XSD_DATETIME))])
add_case("gen preset time same", new_gen(time=dt), [(PROV_ATTR_TIME, dt)])
add_case("gen preset time naive vs aware", new_gen(time=dt), [(PROV_ATTR_TIME, dt_tz)])
add_case("gen preset time aware vs naive", new_gen(time=dt_tz), [(PROV_ATTR_TIME, dt)])
add_case("activity times", new_activity(dt, None), [(PROV_ATTR_STARTTIME, dt), (PROV_ATTR_ENDTIME, "2021-01-01")])
add_case("activity times conflict", new_activity(dt, dt), {PROV_ATTR_STARTTIME: dt, PROV_ATTR_ENDTIME: dt_tz})
# collection marker
add_case("collection marker allows many", new_gen(), [(PROV_ATTR_COLLECTION, "ex:c"), (PROV_ATTR_ENTITY, "ex:e2"), (PROV_ATTR_ENTITY, "ex:e3")])
add_case("collection marker str no effect", new_gen(), [("prov:collection", "ex:c"), (PROV_ATTR_ENTITY, "ex:e2")])
add_case("collection marker last", new_gen(), [(PROV_ATTR_ENTITY, "ex:e2"), (PROV_ATTR_COLLECTION, "ex:c")])
add_case("collection marker None value", new_gen(), [(PROV_ATTR_COLLECTION, None), (PROV_ATTR_ENTITY, "ex:e2")])
add_case("collection in dict", new_gen(), {PROV_ATTR_COLLECTION: "ex:c", PROV_ATTR_ENTITY: "ex:e9"})
m = doc.membership("ex:c1", "ex:e1")
emit("membership", record_state(m))
attempt("hadMember multi", lambda: doc.membership("ex:c1", "ex:e2").add_attributes([(PROV_ATTR_ENTITY, "ex:e3")]))

# repeated add on the same record + constructor paths
rec = doc.entity("ex:rep", {"ex:a": 1})
for attrs in [{"ex:a": 1}, {"ex:a": 2}, [("ex:a", 2), ("ex:b", pm.Literal("2", XSD_INT))], None]:
    attempt("repeat add", rec.add_attributes, attrs)
    emit("repeat state", record_state(rec))
attempt("ctor attrs", lambda: doc.entity("ex:ctor", [("ex:a", pm.Literal("1", XSD_LONG)), ("prov:type", "ex:T")]))
attempt("ctor bad attrs", lambda: doc.entity("ex:ctor2", [("zz:a", 1)]))
attempt("asserted type", lambda: (rec.add_asserted_type("ex:T"), rec.add_asserted_type(ex["T2"]), rec.get_asserted_types())[2])
attempt("activity ctor str times", lambda: doc.activity("ex:actS", "2011-11-16T16:05:00", "2011-11-16T17:00:00"))
attempt("activity ctor bad time", lambda: doc.activity("ex:actB", "junk"))
attempt("wasStartedBy", lambda: doc.start("ex:a1", "ex:e1", time="2012-01-01", identifier="ex:st"))

# whole document output
parts = sorted(str(r) for r in doc.get_records())
emit("doc provn records sha", hashlib.sha256("\n".join(
    " ".join(sorted(p.replace("[", ", ").replace("]", ", ").split(", "))) for p in parts).encode()).hexdigest())
emit("n records", len(parts), "total logs", len(handler.records))

text = "\n".join(LINES)
sys.stdout.write(text + "\n")
sys.stdout.write("DIGEST " + hashlib.sha256(text.encode("utf-8")).hexdigest() + "\n")
