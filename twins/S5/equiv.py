"""Differential script: exercises ProvDocument.serialize/deserialize, prov.read and
the PROV-N / PROV-JSON serializers on representative inputs and prints a
deterministic digest (one line per probe)."""
import contextlib
import datetime
import hashlib
import io
import os
import stat
import sys
import tempfile

import prov
from prov.model import ProvDocument, Literal, Identifier, PROV
from prov.serializers import provjson, provn, get as get_serializer

if os.environ.get("PYTHONHASHSEED") != "0":
    # set/dict-of-set iteration order must not vary between runs
    os.environ["PYTHONHASHSEED"] = "0"
    os.execv(sys.executable, [sys.executable] + sys.argv)

import shutil

WORK = os.path.join(os.path.dirname(os.path.abspath(__file__)), "_work")
shutil.rmtree(WORK, ignore_errors=True)
os.mkdir(WORK)
TMP = os.path.join(WORK, "tmp")
os.mkdir(TMP)
tempfile.tempdir = TMP
os.chdir(WORK)

LINES = []
LOOSE = False


def h(data):
    if isinstance(data, str):
        data = data.encode("utf-8", "surrogatepass")
    return hashlib.sha256(data).hexdigest()[:16]


def show(value):
    if isinstance(value, ProvDocument) and LOOSE:
        # RDF round trips mint random blank-node ids: compare the shape only
        return "DOC[records=%d bundles=%d types=%s]" % (
            len(value.get_records()),
            len(list(value.bundles)),
            sorted(str(r.get_type()) for r in value.get_records()),
        )
    if isinstance(value, ProvDocument):
        return "DOC[%s]" % h(value.get_provn())
    if isinstance(value, (str, bytes)):
        return "%s(len=%d,%s)" % (type(value).__name__, len(value), h(value))
    return repr(value)


def probe(label, fn):
    out = io.StringIO()
    try:
        with contextlib.redirect_stdout(out):
            res = fn()
        line = "%s -> %s" % (label, show(res))
    except BaseException as e:  # noqa
        msg = str(e).replace(WORK, "<WORK>")
        line = "%s !! %s: %s" % (label, type(e).__name__, msg)
    printed = out.getvalue()
    if printed:
        line += " | stdout=%r" % printed
    leftovers = sorted(os.listdir(TMP))
    line += " | tmp=%d" % len(leftovers)
    for n in leftovers:
        os.remove(os.path.join(TMP, n))
    LINES.append(line)


def doc_empty():
    return ProvDocument()


def doc_simple():
    d = ProvDocument()
    d.add_namespace("ex", "http://example.org/")
    d.set_default_namespace("http://default.example/")
    e = d.entity("ex:e1", {"prov:label": "hello", "ex:n": 1, "ex:f": 1.5, "ex:b": True})
    d.entity("ex:e1", {"ex:other": Literal("bonjour", langtag="fr")})
    a = d.activity(
        "ex:a1", datetime.datetime(2020, 1, 2, 3, 4, 5), None, {"prov:type": PROV["Plan"]}
    )
    d.wasGeneratedBy(e, a, datetime.datetime(2020, 1, 2, 3, 4, 6))
    d.wasGeneratedBy(e, a)
    d.agent("ex:ag", {"ex:uri": Identifier("http://example.org/x y")})
    return d


def doc_unicode():
    d = ProvDocument()
    d.add_namespace("ex", "http://example.org/é/")
    d.entity("ex:café", {"ex:名": "東京 \U0001F600", "ex:q": 'a"b\\c\n'})
    d.entity("ex:e", {"ex:multi": "one"})
    d.entity("ex:e", {"ex:multi": "two", "ex:m2": [1, 2, 3] and 2})
    return d


def doc_bundles():
    d = doc_simple()
    b = d.bundle("ex:b1")
    b.add_namespace("other", "http://other.example/")
    b.entity("other:x", {"other:v": 3})
    b.entity("ex:e1")
    b2 = d.bundle("ex:b2")
    b2.collection("ex:c")
    b2.hadMember("ex:c", "ex:m1")
    b2.hadMember("ex:c", "ex:m2")
    return d


DOCS = [
    ("empty", doc_empty),
    ("simple", doc_simple),
    ("unicode", doc_unicode),
    ("bundles", doc_bundles),
]


class Unclosable(io.BytesIO):
    pass


def read_file(path):
    with open(path, "rb") as f:
        data = f.read()
    mode = stat.S_IMODE(os.stat(path).st_mode)
    os.remove(path)
    return "%s mode=%o" % (show(data), mode)


def ser_to_path(d, dest, real, fmt, **kw):
    def run():
        r = d.serialize(dest, format=fmt, **kw)
        return "ret=%r file=%s" % (r, read_file(real))

    return run


def ser_to_stream(d, stream, fmt, **kw):
    def run():
        r = d.serialize(stream, format=fmt, **kw)
        return "ret=%r closed=%r data=%s" % (r, stream.closed, show(stream.getvalue()))

    return run


class WriteOnly:
    """Minimal object with write() only."""

    def __init__(self):
        self.chunks = []

    def write(self, x):
        self.chunks.append(x)


def ser_to_writeonly(d, fmt):
    def run():
        w = WriteOnly()
        r = d.serialize(w, format=fmt)
        return "ret=%r types=%r data=%s" % (
            r,
            [type(c).__name__ for c in w.chunks],
            [show(c) for c in w.chunks],
        )

    return run


class FailingStream(io.BytesIO):
    def write(self, x):
        raise IOError("disk full")


for name, mk in DOCS:
    for fmt in ("json", "provn", "xml"):
        d = mk()
        probe("ser/%s/%s/None" % (name, fmt), lambda: d.serialize(format=fmt))
        probe("ser/%s/%s/StringIO" % (name, fmt), ser_to_stream(d, io.StringIO(), fmt))
        probe("ser/%s/%s/BytesIO" % (name, fmt), ser_to_stream(d, io.BytesIO(), fmt))
        probe("ser/%s/%s/writeonly" % (name, fmt), ser_to_writeonly(d, fmt))
        p = os.path.join(WORK, "out_%s.%s" % (name, fmt))
        probe("ser/%s/%s/path" % (name, fmt), ser_to_path(d, p, p, fmt))
    d = mk()
    probe("ser/%s/json/indent" % name, lambda: d.serialize(format="json", indent=2))
    probe(
        "ser/%s/json/sort_keys" % name,
        lambda: d.serialize(io.BytesIO(), format="json", sort_keys=True),
    )
    probe("ser/%s/default" % name, lambda: d.serialize())
    probe("ser/%s/positional" % name, lambda: d.serialize(None, "provn"))

d = doc_bundles()
# destination dispatch edge cases
probe("dest/relative", ser_to_path(d, "rel.json", os.path.join(WORK, "rel.json"), "json"))
probe("dest/hash", ser_to_path(d, "a#b?c;d.json", os.path.join(WORK, "a#b?c;d.json"), "json"))
probe(
    "dest/fileurl",
    ser_to_path(d, "file://" + WORK + "/url%20x.provn", os.path.join(WORK, "url x.provn"), "provn"),
)
probe(
    "dest/fileurl-frag",
    ser_to_path(d, "file://" + WORK + "/frag.json#zzz", os.path.join(WORK, "frag.json"), "json"),
)
probe("dest/file-colon", ser_to_path(d, "file:" + WORK + "/colon.json", os.path.join(WORK, "colon.json"), "json"))
probe("dest/netloc-http", lambda: d.serialize("http://example.org/out.json"))
probe("dest/netloc-file", lambda: d.serialize("file://host/out.json", format="provn"))
probe("dest/netloc-slashes", lambda: d.serialize("//host/share/out.json"))
probe("dest/empty-string", lambda: d.serialize("", format="json"))
probe("dest/missing-dir", lambda: d.serialize(os.path.join(WORK, "nodir", "x.json")))
os.mkdir(os.path.join(WORK, "adir"))
probe("dest/is-dir", lambda: (d.serialize(os.path.join(WORK, "adir")), len(os.listdir(os.path.join(WORK, "adir")))))
probe("dest/int", lambda: d.serialize(12345))
probe("dest/bytes-path", lambda: d.serialize(os.fsencode(os.path.join(WORK, "bytes.json"))))
probe("dest/pathlike", lambda: d.serialize(__import__("pathlib").Path(WORK) / "pl.json"))
probe("dest/failing-stream", lambda: d.serialize(FailingStream(), format="json"))
probe("dest/failing-stream-provn", lambda: d.serialize(FailingStream(), format="provn"))
probe("dest/closed-stream", lambda: d.serialize(open(os.devnull, "w").close() or io.StringIO(), "json"))
probe("fmt/unknown", lambda: d.serialize(format="nope"))
probe("fmt/unknown-path", lambda: d.serialize(os.path.join(WORK, "never.x"), format="nope"))
probe("fmt/None", lambda: d.serialize(format=None))
probe("fmt/badkw-json", lambda: d.serialize(format="json", bogus=1))
probe("fmt/badkw-json-path", lambda: d.serialize(os.path.join(WORK, "kw.json"), format="json", bogus=1))
probe("fmt/kw-provn", lambda: d.serialize(format="provn", bogus=1))
probe("overwrite/1", ser_to_path(doc_simple(), os.path.join(WORK, "ow.json"), os.path.join(WORK, "ow.json"), "json"))
open(os.path.join(WORK, "ow2.json"), "w").write("old content")
probe("overwrite/2", ser_to_path(doc_simple(), os.path.join(WORK, "ow2.json"), os.path.join(WORK, "ow2.json"), "json"))

# direct serializer classes
for name, mk in DOCS:
    d = mk()
    for cls in (provjson.ProvJSONSerializer, provn.ProvNSerializer):
        for sname, smk in (("StringIO", io.StringIO), ("BytesIO", io.BytesIO)):
            def run(cls=cls, smk=smk, d=d):
                s = smk()
                r = cls(d).serialize(s)
                return "ret=%r closed=%r pos=%d data=%s" % (r, s.closed, s.tell(), show(s.getvalue()))
            probe("direct/%s/%s/%s" % (name, cls.__name__, sname), run)
        probe("direct/%s/%s/writeonly" % (name, cls.__name__),
              lambda cls=cls, d=d: (lambda w: (cls(d).serialize(w), [show(c) for c in w.chunks]))(WriteOnly()))
        probe("direct/%s/%s/failing" % (name, cls.__name__),
              lambda cls=cls, d=d: cls(d).serialize(FailingStream()))
probe("direct/provn/no-document", lambda: provn.ProvNSerializer().serialize(io.StringIO()))
probe("direct/json/no-document", lambda: provjson.ProvJSONSerializer().serialize(io.StringIO()))
probe("direct/json/kw", lambda: (lambda s: (provjson.ProvJSONSerializer(doc_simple()).serialize(s, indent=1, sort_keys=True), show(s.getvalue())))(io.StringIO()))
probe("direct/provn/kw", lambda: (lambda s: (provn.ProvNSerializer(doc_simple()).serialize(s, anything=1), show(s.getvalue())))(io.StringIO()))
probe("direct/provn/deser", lambda: provn.ProvNSerializer().deserialize(io.StringIO("document\nendDocument")))
probe("direct/provn/deser-kw", lambda: provn.ProvNSerializer().deserialize(stream=None, x=1))
probe("direct/provn/stream-kw", lambda: (lambda s: (provn.ProvNSerializer(doc_simple()).serialize(stream=s), show(s.getvalue())))(io.BytesIO()))
probe("direct/json/stream-kw", lambda: (lambda s: (provjson.ProvJSONSerializer(doc_simple()).serialize(stream=s), show(s.getvalue())))(io.BytesIO()))

# deserialization
JSONS = {}
for name, mk in DOCS:
    JSONS[name] = mk().serialize(format="json")
JSONS["dup-list"] = '{"prefix": {"ex": "http://e/"}, "entity": {"ex:e": [{"ex:a": 1}, {"ex:a": [2, {"$": "x", "lang": "en"}]}]}}'
JSONS["membership-hack"] = '{"prefix": {"ex": "http://e/"}, "hadMember": {"_:id1": {"prov:collection": "ex:c", "prov:entity": ["ex:a", "ex:b", "ex:c"]}}}'
JSONS["multi-prov-attr"] = '{"prefix": {"ex": "http://e/"}, "wasGeneratedBy": {"_:id1": {"prov:entity": ["ex:a", "ex:b"]}}}'
JSONS["bad-json"] = "{not json"
JSONS["empty"] = ""
JSONS["empty-obj"] = "{}"
JSONS["list"] = "[]"
JSONS["unknown-rec"] = '{"nonsense": {"a": {}}}'
JSONS["bom"] = "﻿{}"
JSONS["unicode-raw"] = '{"prefix": {"ex": "http://e/é"}, "entity": {"ex:café": {"ex:l": "東"}}}'

for name, text in sorted(JSONS.items()):
    probe("deser/content-str/%s" % name, lambda: ProvDocument.deserialize(content=text))
    probe("deser/content-bytes/%s" % name, lambda: ProvDocument.deserialize(content=text.encode("utf-8")))
    probe("deser/source-StringIO/%s" % name, lambda: ProvDocument.deserialize(io.StringIO(text)))
    probe("deser/source-BytesIO/%s" % name, lambda: ProvDocument.deserialize(source=io.BytesIO(text.encode("utf-8"))))
    p = os.path.join(WORK, "in_%s.json" % name)
    with open(p, "wb") as f:
        f.write(text.encode("utf-8"))
    probe("deser/source-path/%s" % name, lambda: ProvDocument.deserialize(p))
    probe("deser/source-path-positional/%s" % name, lambda: ProvDocument.deserialize(p, None, "json"))
    probe("read/path/%s" % name, lambda: prov.read(p))
    probe("read/path-fmt/%s" % name, lambda: prov.read(p, format="JSON"))
    probe("read/StringIO/%s" % name, lambda: prov.read(io.StringIO(text)))
    probe("read/BytesIO/%s" % name, lambda: prov.read(io.BytesIO(text.encode("utf-8"))))
    probe("read/BytesIO-fmt/%s" % name, lambda: prov.read(io.BytesIO(text.encode("utf-8")), "json"))
    probe("direct-deser/StringIO/%s" % name, lambda: provjson.ProvJSONSerializer().deserialize(io.StringIO(text)))
    probe("direct-deser/BytesIO/%s" % name, lambda: provjson.ProvJSONSerializer().deserialize(io.BytesIO(text.encode("utf-8"))))
    probe("direct-deser/file-text/%s" % name, lambda: provjson.ProvJSONSerializer().deserialize(open(p, "r", encoding="utf-8")))
    probe("direct-deser/file-bin/%s" % name, lambda: provjson.ProvJSONSerializer().deserialize(stream=open(p, "rb")))

good = JSONS["bundles"]
probe("deser/latin1-bytes", lambda: ProvDocument.deserialize(content=JSONS["unicode-raw"].encode("latin-1")))
probe("deser/latin1-stream", lambda: ProvDocument.deserialize(source=io.BytesIO(JSONS["unicode-raw"].encode("latin-1"))))
probe("deser/none", lambda: ProvDocument.deserialize())
probe("deser/none-badfmt", lambda: ProvDocument.deserialize(format="nope"))
probe("deser/both", lambda: ProvDocument.deserialize(source=io.StringIO("{bad"), content=good))
probe("deser/both-bad-content", lambda: ProvDocument.deserialize(source=io.StringIO(good), content="{bad"))
probe("deser/content-empty-bytes", lambda: ProvDocument.deserialize(content=b""))
probe("deser/content-int", lambda: ProvDocument.deserialize(content=5))
probe("deser/content-bytearray", lambda: ProvDocument.deserialize(content=bytearray(good.encode())))
probe("deser/source-missing", lambda: ProvDocument.deserialize(os.path.join(WORK, "missing.json")))
probe("deser/source-dir", lambda: ProvDocument.deserialize(WORK))
probe("deser/source-empty-str", lambda: ProvDocument.deserialize(""))
probe("deser/source-zero", lambda: ProvDocument.deserialize(0, format="provn"))
probe("deser/source-false", lambda: ProvDocument.deserialize(False))
probe("deser/provn-content", lambda: ProvDocument.deserialize(content="document\nendDocument", format="provn"))
probe("deser/provn-path-missing", lambda: ProvDocument.deserialize("nofile.provn", format="provn"))
probe("deser/kw", lambda: ProvDocument.deserialize(content=good, format="json", parse_float=str))
probe("deser/kw-bad", lambda: ProvDocument.deserialize(content=good, format="json", bogus=True))
probe("deser/kw-bad-source", lambda: ProvDocument.deserialize(source=io.BytesIO(good.encode()), bogus=True))
probe("deser/instance-call", lambda: ProvDocument().deserialize(content=good))

for fmt in ("xml", "provn", "rdf"):
    LOOSE = fmt == "rdf"
    for name in ("simple", "bundles", "unicode"):
        try:
            text = dict(DOCS)[name]().serialize(format=fmt)
        except Exception as e:  # noqa
            LINES.append("gen/%s/%s failed %s" % (fmt, name, type(e).__name__))
            continue
        p = os.path.join(WORK, "in_%s.%s" % (name, fmt))
        with open(p, "w", encoding="utf-8") as f:
            f.write(text)
        probe("read/%s/%s/path" % (fmt, name), lambda: prov.read(p))
        probe("read/%s/%s/path-fmt" % (fmt, name), lambda: prov.read(p, fmt))
        probe("read/%s/%s/path-FMT" % (fmt, name), lambda: prov.read(p, fmt.upper()))
        probe("read/%s/%s/StringIO" % (fmt, name), lambda: prov.read(io.StringIO(text)))
        probe("read/%s/%s/BytesIO" % (fmt, name), lambda: prov.read(io.BytesIO(text.encode("utf-8"))))
        probe("read/%s/%s/content-deser" % (fmt, name), lambda: ProvDocument.deserialize(content=text, format=fmt))

LOOSE = False
probe("read/missing", lambda: prov.read(os.path.join(WORK, "missing.json")))
probe("read/missing-fmt", lambda: prov.read(os.path.join(WORK, "missing.json"), "json"))
probe("read/none", lambda: prov.read(None))
probe("read/none-fmt", lambda: prov.read(None, "json"))
probe("read/badfmt", lambda: prov.read(io.StringIO(good), "nope"))
probe("read/fmt-empty", lambda: prov.read(io.StringIO(good), ""))
probe("read/fmt-nonstr", lambda: prov.read(io.StringIO(good), 5))


class OnceStream:
    def __init__(self, text):
        self.text = text
        self.reads = 0

    def read(self, *a):
        self.reads += 1
        t, self.text = self.text, ""
        return t


def once():
    s = OnceStream(good)
    r = prov.read(s)
    return "%s reads=%d" % (show(r), s.reads)


probe("read/once-stream", once)


class KI:
    def read(self):
        raise KeyboardInterrupt()


probe("read/kbdint-in-read", lambda: prov.read(KI()))
probe("get/json", lambda: get_serializer("json").__name__)

for line in LINES:
    print(line)
print("TOTAL %d %s" % (len(LINES), h("\n".join(LINES))))
os.chdir("/")
shutil.rmtree(WORK, ignore_errors=True)
