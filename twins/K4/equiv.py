"""Differential check for refactoring 4 (ProvJSONSerializer / ProvRDFSerializer serialize+deserialize)."""
import sys, os, io, decimal, logging
sys.path.insert(0, "/tmp/twin/out/K")
from common import digest, docs, call, canon
logging.basicConfig(stream=sys.stdout, format="LOG %(levelname)s %(message)s")
from prov.model import ProvDocument
from prov.serializers.provjson import ProvJSONSerializer, ProvJSONEncoder
from prov.serializers.provrdf import ProvRDFSerializer

class Sink:
    def __init__(self): self.got = []
    def write(self, x): self.got.append(x); return 3
class TextSink(io.TextIOBase):
    def __init__(self): self.got = []
    def write(self, x): self.got.append(x); return len(x)
class BadSink:
    def write(self, x): raise OSError("full " + type(x).__name__)
class Src:
    """non-TextIOBase source returning whatever it is given"""
    def __init__(self, data): self.data = data; self.reads = 0
    def read(self, *a): self.reads += 1; return self.data

def show(label, res):
    kind, val = res
    if kind == "ok" and isinstance(val, ProvDocument):
        val = "Doc records=%d bundles=%d %s" % (len(val.get_records()), len(list(val.bundles)), digest(canon(val)))
    print(label, "->", kind, val)

def sinks(label, fn, **kw):
    s = io.StringIO(); show(label + " StringIO", call(fn, s, **kw)); print("    ", len(s.getvalue()), digest(s.getvalue()))
    b = io.BytesIO(); show(label + " BytesIO", call(fn, b, **kw)); print("    ", len(b.getvalue()), digest(b.getvalue()))
    k = Sink(); show(label + " Sink", call(fn, k, **kw)); print("    ", [(type(x).__name__, len(x), digest(x)) for x in k.got])
    k = TextSink(); show(label + " TextSink", call(fn, k, **kw)); print("    ", [(type(x).__name__, len(x), digest(x)) for x in k.got])
    show(label + " BadSink", call(fn, BadSink(), **kw))
    show(label + " None", call(fn, None, **kw))

all_docs = docs()
for name, d in all_docs:
    js = ProvJSONSerializer(d)
    for kw in ({}, {"indent": 1}, {"sort_keys": True, "separators": (",", ":")}, {"ensure_ascii": False},
               {"cls": ProvJSONEncoder}, {"bogus": 1}, {"default": str}):
        if name not in ("custom", "empty", "datatypes") and kw:
            continue
        sinks("json ser %s %s" % (name, sorted(kw)), js.serialize, **kw)
    text = d.serialize(format="json")
    raw = text.encode("utf-8")
    D = ProvJSONSerializer().deserialize
    for kw in ({}, {"parse_float": decimal.Decimal}, {"bogus": 1}, {"cls": None}):
        if name not in ("custom", "datatypes") and kw:
            continue
        l = "json deser %s %s" % (name, sorted(kw))
        show(l + " StringIO", call(D, io.StringIO(text), **kw))
        show(l + " BytesIO", call(D, io.BytesIO(raw), **kw))
        s = Src(raw); show(l + " Src bytes", call(D, s, **kw)); print("     reads", s.reads)
        show(l + " Src str", call(D, Src(text), **kw))
        show(l + " Src utf16", call(D, Src(text.encode("utf-16")), **kw))
        show(l + " None", call(D, None, **kw))
        w = io.TextIOWrapper(io.BytesIO(raw), encoding="utf-8"); show(l + " wrapper", call(D, w, **kw))
show("json ser no document", call(ProvJSONSerializer().serialize, io.StringIO()))
show("json deser empty", call(ProvJSONSerializer().deserialize, io.StringIO("")))
show("json deser empty bytes", call(ProvJSONSerializer().deserialize, io.BytesIO(b"")))
show("json deser badutf", call(ProvJSONSerializer().deserialize, io.BytesIO(b"\xff{}")))
show("json deser list", call(ProvJSONSerializer().deserialize, io.BytesIO(b"[]")))

for name, d in all_docs:
    rs = ProvRDFSerializer(d)
    variants = [{}, {"rdf_format": "turtle"}, {"rdf_format": "xml"}, {"rdf_format": "nt"}, {"rdf_format": "nquads"},
                {"rdf_format": "nosuchformat"}, {"format": "xml"}, {"rdf_format": "turtle", "format": "nt", "base": "http://base/"},
                {"bogus": 1}, {"rdf_format": None}, {"encoding": "latin-1"}, {"PROV_N_MAP": {}}]
    for kw in variants:
        if name not in ("custom", "empty", "Bundle1") and kw not in ({}, {"rdf_format": "turtle"}):
            continue
        sinks("rdf ser %s %s" % (name, sorted(kw.items(), key=str)), rs.serialize, **kw)
    show("rdf ser default stream %s" % name, call(rs.serialize))
    for fmt in ("trig", "turtle", "xml", "nt"):
        if name not in ("custom", "Bundle1", "Primer", "datatypes") and fmt != "trig":
            continue
        text = d.serialize(format="rdf", rdf_format=fmt)
        raw = text.encode("utf-8")
        for kw in ({"rdf_format": fmt}, {}, {"format": "nt", "rdf_format": fmt}, {"rdf_format": fmt, "publicID": "http://pub/"},
                   {"rdf_format": fmt, "bogus": 1}, {"rdf_format": "nosuchformat"}):
            l = "rdf deser %s %s %s" % (name, fmt, sorted(kw.items(), key=str))
            ser = ProvRDFSerializer()
            r = call(ser.deserialize, io.StringIO(text), **kw); show(l + " StringIO", r)
            print("     self.document is result:", ser.document is r[1], type(ser.document).__name__)
            show(l + " BytesIO", call(ProvRDFSerializer().deserialize, io.BytesIO(raw), **kw))
            show(l + " None", call(ProvRDFSerializer().deserialize, None, **kw))
            old = ProvDocument(); ser = ProvRDFSerializer(old)
            call(ser.deserialize, io.StringIO("garbage {{{"), **kw)
            print("     after failure document unchanged:", ser.document is old)
show("rdf ser no document", call(ProvRDFSerializer().serialize, io.StringIO()))
