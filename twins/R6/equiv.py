# The library keeps attribute values in sets, so output order depends on string
# hashing: the script re-runs itself under fixed PYTHONHASHSEED values (0, 1, 2).
import os, subprocess, sys
if "--child" not in sys.argv:
    for seed in ("0", "1", "2"):
        env = dict(os.environ, PYTHONHASHSEED=seed)
        r = subprocess.run([sys.executable, os.path.abspath(__file__), "--child"], env=env,
                           stdout=subprocess.PIPE, stderr=subprocess.STDOUT)
        sys.stdout.write("==== PYTHONHASHSEED=%s rc=%d\n" % (seed, r.returncode))
        sys.stdout.write(r.stdout.decode("utf-8"))
    sys.exit(0)
# shared fixture builders / digest helpers (copied verbatim into each equiv.py)
import datetime, hashlib, sys
from prov.model import (ProvDocument, ProvBundle, ProvException, ProvEntity, ProvActivity,
                        ProvAgent, ProvElement, ProvRelation, ProvRecord, Namespace,
                        PROV_ENTITY, PROV_ACTIVITY, PROV_GENERATION, PROV, Literal,
                        PROV_ATTR_ENTITY, PROV_ATTR_ACTIVITY, PROV_TYPE, PROV_LABEL)
from prov.identifier import QualifiedName, Identifier

EX = Namespace("ex", "http://example.org/")
OT = Namespace("other", "http://other.example/ns#")
LINES = []


def out(*parts):
    LINES.append(" ".join(str(p) for p in parts))


def attempt(label, fn):
    try:
        res = fn()
    except BaseException as e:  # noqa
        out(label, "RAISED", type(e).__name__, str(e))
        return None
    out(label, "OK", describe(res))
    return res


def describe(x):
    if isinstance(x, ProvDocument):
        return "DOC<<\n%s\n>> ns=%s default=%s bundles=%s" % (
            x.get_provn(), sorted((n.prefix, n.uri) for n in x.namespaces), x.default_ns_uri,
            [str(b.identifier) for b in x.bundles])
    if isinstance(x, ProvBundle):
        return "BUNDLE<<\n%s\n>> ns=%s default=%s doc=%s" % (
            x.get_provn(), sorted((n.prefix, n.uri) for n in x.namespaces), x.default_ns_uri,
            type(x.document).__name__)
    if isinstance(x, ProvRecord):
        return "REC %s | %s | bundle=%r | attrs=%r" % (type(x).__name__, x.get_provn(), x.bundle, x.attributes)
    if isinstance(x, (list, tuple)):
        return type(x).__name__ + "[" + "; ".join(describe(i) for i in x) + "]"
    return "%s:%r" % (type(x).__name__, x)


def doc_plain():
    d = ProvDocument()
    d.add_namespace(EX)
    d.entity("ex:e1", {"ex:k": "v1"})
    d.activity("ex:a1", datetime.datetime(2020, 1, 2, 3, 4, 5))
    d.wasGeneratedBy("ex:e1", "ex:a1", identifier="ex:g1")
    d.agent("ex:ag1")
    d.wasAttributedTo("ex:e1", "ex:ag1")
    return d


def doc_repeated():
    d = ProvDocument()
    d.add_namespace(EX)
    d.add_namespace(OT)
    d.set_default_namespace("http://default.example/")
    d.entity("ex:e1", {"ex:k": "v1", PROV_TYPE: EX["T1"]})
    d.entity("ex:e1", {"ex:k": "v2", "other:z": 3})
    d.entity("ex:e1", {"ex:k": "v1"})
    d.entity("ex:e1", {"ex:k": "v1"})  # equal to the previous one
    d.activity("ex:e1")  # same id, other type
    d.activity("ex:a1", datetime.datetime(2020, 1, 2, 3, 4, 5))
    d.activity("ex:a1", None, datetime.datetime(2021, 1, 2, 3, 4, 5), {"ex:x": 1.5})
    d.entity("plain")
    d.entity("plain", {PROV_LABEL: Literal("café \"q\" \\ \n", langtag="fr")})
    d.wasGeneratedBy("ex:e1", "ex:a1", identifier="ex:g1")
    d.wasGeneratedBy("ex:e1", "ex:a1", time=datetime.datetime(2019, 5, 5), identifier="ex:g1")
    d.wasGeneratedBy("ex:e1", "ex:a1")
    d.used("ex:a1", "ex:e1")
    d.used("ex:a1", None)
    d.wasDerivedFrom("ex:e2", "ex:e1", "ex:a1")
    d.specializationOf("ex:e2", "ex:e1")
    d.hadMember("ex:c", "ex:e1")
    d.mentionOf("ex:e3", "ex:e1", "ex:b1")
    d.actedOnBehalfOf("ex:ag2", "ex:ag1", "ex:a1")
    d.wasAssociatedWith("ex:a1", "ex:ag1", "ex:plan")
    d.wasStartedBy("ex:a1", "ex:trig", "ex:starter")
    d.wasEndedBy("ex:a1", None, "ex:ender")
    d.wasInformedBy("ex:a2", "ex:a1")
    d.wasInfluencedBy("ex:x", "ex:y")
    d.alternateOf("ex:e4", "ex:e1")
    return d


def doc_bundles():
    d = doc_repeated()
    b1 = d.bundle("ex:b1")
    b1.add_namespace("bns", "http://bundle.example/")
    b1.entity("bns:e", {"bns:p": 1})
    b1.entity("bns:e", {"bns:p": 2})
    b1.entity("ex:e1")
    b1.wasDerivedFrom("bns:e", "ex:e1")
    b2 = d.bundle("ex:b2")
    b2.set_default_namespace("http://b2.default/")
    b2.activity("act")
    b2.activity("act", datetime.datetime(2000, 1, 1))
    d.bundle("ex:empty")
    return d


def doc_empty():
    return ProvDocument()


def all_docs():
    return [("plain", doc_plain), ("repeated", doc_repeated), ("bundles", doc_bundles), ("empty", doc_empty)]


def finish():
    text = "\n".join(LINES) + "\n"
    sys.stdout.write(text)
    sys.stdout.write("DIGEST " + hashlib.sha256(text.encode("utf-8")).hexdigest() + "\n")

# ---- refactoring 6: message literals hoisted to module constants, independent statements
# reordered, keyword arguments, walrus: ProvDocument.add_bundle / bundle, ProvBundle.add_record,
# ProvDocument.unified, prov.graph edge key
import networkx as nx
from prov.graph import prov_to_graph, graph_to_prov


def host():
    d = ProvDocument()
    d.add_namespace(EX)
    d.entity("ex:host-e")
    d.bundle("ex:existing").entity("ex:in-existing")
    return d


def bstate(b):
    if not isinstance(b, ProvBundle):
        return repr(b)
    return "id=%r doc=%s parent_ns=%s" % (b.identifier, type(b.document).__name__,
                                           type(b._namespaces.parent).__name__)


def mk_bundle(ident, ns=(EX,)):
    b = ProvBundle(identifier=ident, namespaces=list(ns))
    b.entity("ex:inner", {"ex:p": 1})
    b.entity("ex:inner", {"ex:p": 2})
    return b


def mk_doc_nobundles():
    d = ProvDocument()
    d.add_namespace(OT)
    d.set_default_namespace("http://dd.example/")
    d.entity("other:x")
    d.entity("local")
    return d


add_cases = [
    ("None", lambda: None, None),
    ("string", lambda: "ex:b", None),
    ("record", lambda: ProvEntity(None, EX["e"]), None),
    ("bundle no id", lambda: mk_bundle(None), None),
    ("bundle no id + str id", lambda: mk_bundle(None), "ex:given"),
    ("bundle no id + qname id", lambda: mk_bundle(None), EX["given-q"]),
    ("bundle no id + empty str id", lambda: mk_bundle(None), ""),
    ("bundle qname id", lambda: mk_bundle(EX["nb"]), None),
    ("bundle str id", lambda: mk_bundle("ex:strid"), None),
    ("bundle id overridden", lambda: mk_bundle(EX["nb"]), "ex:override"),
    ("bundle duplicate", lambda: mk_bundle(EX["existing"]), None),
    ("bundle duplicate via override", lambda: mk_bundle(EX["fine"]), "ex:existing"),
    ("bundle unknown prefix id", lambda: mk_bundle(None), "zz:unknown"),
    ("bundle other ns", lambda: mk_bundle(OT["ob"], ns=(OT, EX)), None),
    ("bundle uri id", lambda: mk_bundle(None), Identifier("http://example.org/uri-b")),
    ("doc without bundles no id", mk_doc_nobundles, None),
    ("doc without bundles + id", mk_doc_nobundles, "ex:from-doc"),
    ("doc with bundles", doc_bundles, "ex:nested"),
    ("empty doc + id", ProvDocument, "ex:empty-doc"),
    ("sub-bundle of other doc", lambda: list(doc_bundles().bundles)[0], None),
]
for label, mk, ident in add_cases:
    d = host()
    b = mk()
    attempt("add_bundle %s" % label, lambda: d.add_bundle(b, ident) if ident is not None else d.add_bundle(b))
    out("   bundle state", bstate(b))
    out("   host", describe(d))
    attempt("   again", lambda: d.add_bundle(b, ident))
    out("   bundle state", bstate(b))
    out("   host bundles", [(repr(k), bstate(v), v is b) for k, v in d._bundles.items()])
    attempt("   keyword form", lambda: host().add_bundle(bundle=mk(), identifier=ident))

d = host()
attempt("bundle() duplicate", lambda: d.bundle("ex:existing"))
attempt("bundle() none", lambda: d.bundle(None))
attempt("bundle() invalid", lambda: d.bundle("zz:q"))
attempt("bundle() ok", lambda: bstate(d.bundle("ex:new")))

# add_record (documents, bundles, records from elsewhere, odd arguments)
for name, mk in all_docs():
    src = mk()
    tgt = ProvDocument()
    tb = tgt.bundle(EX["tb"])
    for r in src.get_records():
        a = attempt(name + " add_record->doc", lambda: tgt.add_record(r))
        c = attempt(name + " add_record->bundle", lambda: tb.add_record(r))
        out("   new objects", a is not r, c is not r, a == r, c == r)
    out(name, "target", describe(tgt))
    attempt(name + " add_record(self record)", lambda: src.add_record(src.get_records()[0]) if src.get_records() else None)
attempt("add_record(None)", lambda: ProvDocument().add_record(None))
attempt("add_record(str)", lambda: ProvDocument().add_record("ex:e"))
attempt("add_record(bundle)", lambda: ProvDocument().add_record(ProvBundle(identifier=EX["b"])))
attempt("records ctor", lambda: ProvDocument(records=doc_plain().get_records()))

# ProvDocument.unified
for name, mk in all_docs():
    d = mk()
    before = describe(d)
    u = attempt(name + ".unified", d.unified)
    out(name, "source unchanged", before == describe(d))
    if u is not None:
        out(name, "new object", u is not d, [bstate(b) for b in u.bundles])
        attempt(name + ".unified.unified equal", lambda: u.unified() == u)
nd = ProvDocument()
nd.set_default_namespace("http://only-default.example/")
nd.entity("a")
nd.entity("a", {"b": 1})
attempt("default-only unified", nd.unified)

# graph edge key
for name, mk in all_docs():
    g = prov_to_graph(mk())
    out(name, "edge keys", sorted(set(k for _, _, dd in g.edges(data=True) for k in dd)))
    out(name, "round", describe(graph_to_prov(g)))
h = nx.MultiDiGraph()
recs = list(doc_plain().get_records())
h.add_edge(1, 2)
h.add_edge(1, 2, Relation=recs[2])
h.add_edge(1, 2, relation=recs[2])
h.add_edge(2, 3, relation=None)
h.add_edge(recs[0], 3, relation=recs[4], other=recs[2])
attempt("hand-made graph", lambda: graph_to_prov(h))
finish()
