"""Differential script for change 2 (ProvRecord.add_attributes control flow)."""
import os
import sys

if os.environ.get("PYTHONHASHSEED") != "0":
    os.environ["PYTHONHASHSEED"] = "0"
    os.execv(sys.executable, [sys.executable] + sys.argv)

import datetime
import hashlib

from prov.model import ProvDocument, Literal, ProvException
from prov.identifier import Namespace, QualifiedName, Identifier
from prov.constants import (
    PROV,
    PROV_ATTR_COLLECTION,
    PROV_ATTR_ENTITY,
    PROV_ATTR_ACTIVITY,
    PROV_ATTR_TIME,
    PROV_ATTR_STARTTIME,
    PROV_ATTR_ENDTIME,
    PROV_TYPE,
    PROV_LABEL,
    XSD_DATETIME,
    XSD_INT,
    XSD_STRING,
    XSD_BOOLEAN,
)

OUT = []
EX = Namespace("ex", "http://example.org/")
UNK = Namespace("unk", "http://unknown.example/")


def dump(rec):
    """Full internal state of a record: every key (also empty ones), in insertion order."""
    parts = []
    for k, vals in rec._attributes.items():
        parts.append(
            "%s=%s"
            % (k, sorted("%s:%r" % (type(v).__name__, str(v)) for v in vals))
        )
    return "{%s} provn=%s" % ("; ".join(parts), rec.get_provn())


def attempt(tag, rec, attrs):
    try:
        r = rec.add_attributes(attrs)
        OUT.append("%s -> ret=%r %s" % (tag, r, dump(rec)))
    except Exception as e:  # noqa
        OUT.append(
            "%s -> EXC %s: %s | %s" % (tag, type(e).__name__, e, dump(rec))
        )


def fresh():
    d = ProvDocument()
    d.add_namespace(EX)
    d.set_default_namespace("http://default.example/")
    return d


DT = datetime.datetime(2020, 2, 29, 12, 30, 15, 250)
DT_AWARE = datetime.datetime(2020, 2, 29, 12, 30, 15, tzinfo=datetime.timezone.utc)

# --- container forms -------------------------------------------------------
d = fresh()
e = d.entity("ex:e")
attempt("empty dict", e, {})
attempt("None", e, None)
attempt("empty list", e, [])
attempt("dict", e, {"ex:a": 1, "ex:b": "två ☃", "ex:none": None})
attempt("list pairs repeated keys", e, [("ex:a", 1), ("ex:a", 2), ("ex:a", 1.5)])
attempt("tuple pairs", e, (("ex:t", True), ("ex:t", False)))
attempt("generator (one-shot)", e, ((k, v) for k, v in [("ex:gen", 1)]))
attempt("iterator (one-shot)", e, iter([("ex:it", 1)]))
attempt("dict items view", e, {"ex:view": 3}.items())
attempt("bad pair shape", e, [("ex:x",)])
attempt("non-subscriptable item", e, [5])
attempt("invalid name", e, [("ex:ok", 1), ("nosuch:prefix", 1), ("ex:after", 1)])
attempt("qualified name from unknown ns", e, [(UNK["k"], UNK["v"])])
attempt("name is int", e, [(5, 1)])

# --- 'other' branch: literal conversion ------------------------------------
d = fresh()
e = d.entity("ex:e2")
attempt(
    "literals",
    e,
    [
        ("ex:int", Literal("5", XSD_INT)),
        ("ex:badint", Literal("five", XSD_STRING)),
        ("ex:bool", Literal("TRUE", XSD_BOOLEAN)),
        ("ex:lang", Literal("chaîne", langtag="fr")),
        ("ex:custom", Literal("x", UNK["dt"])),
        ("ex:dt", Literal("2001-02-03T04:05:06", XSD_DATETIME)),
        ("ex:rec", e),
        ("ex:qn", EX["q"]),
        ("ex:id", Identifier("http://id.example/1")),
        ("ex:empty", ""),
        ("ex:zero", 0),
        ("ex:false", False),
        (PROV_TYPE, EX["T"]),
        (PROV_TYPE, "prov:Plan"),
        (PROV_LABEL, "lbl"),
        (PROV_LABEL, "lbl2"),
    ],
)
attempt("bad bool literal -> None -> error", e, [("ex:bb", Literal("maybe", XSD_BOOLEAN))])
attempt("bad dateTime literal in other attr", e, [("ex:bd", Literal("not a date", XSD_DATETIME))])
attempt("bad int literal", e, [("ex:bi", Literal("x", XSD_INT))])

# --- reference branch --------------------------------------------------------
d = fresh()
e = d.entity("ex:e3")
a = d.activity("ex:a3")
g = d.wasGeneratedBy(e, a)
attempt("same entity again (record)", g, [(PROV_ATTR_ENTITY, e)])
attempt("same entity again (str)", g, {"prov:entity": "ex:e3"})
attempt("same entity again (qname)", g, [(PROV_ATTR_ENTITY, EX["e3"])])
attempt("other entity", g, [(PROV_ATTR_ENTITY, "ex:other")])
attempt("invalid ref", g, [(PROV_ATTR_ACTIVITY, "bad:prefix")])
attempt("ref is int", g, [(PROV_ATTR_ACTIVITY, 5)])
attempt("ref is Literal", g, [(PROV_ATTR_ACTIVITY, Literal("ex:a3"))])
attempt("ref none skipped", g, [(PROV_ATTR_ACTIVITY, None)])
attempt("default-ns ref", g, [(PROV_ATTR_ACTIVITY, "plain")])
g2 = d.wasGeneratedBy(e)
attempt("fill missing activity", g2, [(PROV_ATTR_ACTIVITY, "plain")])
attempt("partial then fail", g2, [("ex:k", 1), (PROV_ATTR_ENTITY, "ex:zzz"), ("ex:never", 1)])

# collection flag permits several values
d = fresh()
m = d.membership("ex:c", "ex:m1")
attempt("no collection flag", m, [(PROV_ATTR_ENTITY, "ex:m2")])
attempt(
    "collection flag",
    m,
    [(PROV_ATTR_COLLECTION, "ex:c2"), (PROV_ATTR_ENTITY, "ex:m2"), (PROV_ATTR_ENTITY, "ex:m3")],
)
attempt("collection flag as str key does not count", m, [("prov:collection", "ex:c3")])
attempt("collection flag dict", m, {PROV_ATTR_COLLECTION: "ex:c4", PROV_ATTR_ENTITY: "ex:m4"})
attempt("collection flag None value", m, [(PROV_ATTR_COLLECTION, None), (PROV_ATTR_ENTITY, "ex:m5")])
attempt("collection flag generator", m, (p for p in [(PROV_ATTR_COLLECTION, "ex:c5")]))

# --- time branch -------------------------------------------------------------
for label, val in [
    ("datetime", DT),
    ("aware datetime", DT_AWARE),
    ("iso str", "2020-02-29T12:30:15.000250"),
    ("loose str", "29 Feb 2020 12:30:15"),
    ("bad str", "not a time"),
    ("empty str", ""),
    ("int", 2020),
    ("date", datetime.date(2020, 2, 29)),
    ("Literal dateTime", Literal("2020-02-29T12:30:15.000250", XSD_DATETIME)),
    ("Literal no type", Literal("2020-02-29T12:30:15.000250")),
    ("Literal bad", Literal("garbage", XSD_DATETIME)),
    ("Literal empty", Literal("", XSD_DATETIME)),
    ("Literal lang", Literal("2020-02-29", langtag="en")),
    ("bytes", b"2020-02-29"),
]:
    d = fresh()
    a = d.activity("ex:act")
    attempt("time first / " + label, a, [(PROV_ATTR_STARTTIME, val)])
    attempt("time again same / " + label, a, [(PROV_ATTR_STARTTIME, val)])
    attempt("time vs DT / " + label, a, [(PROV_ATTR_STARTTIME, DT)])
    u = d.used("ex:act", "ex:ent", time=DT)
    attempt("usage time / " + label, u, {"prov:time": val})
    attempt("end time str key / " + label, a, {"prov:endTime": val, "ex:n": 1})

# naive vs aware comparison, and an un-comparable existing value (TypeError path)
d = fresh()
a = d.activity("ex:cmp", DT)
attempt("aware over naive", a, [(PROV_ATTR_STARTTIME, DT_AWARE)])


class Weird(object):
    def __eq__(self, other):
        raise TypeError("no eq")

    def __ne__(self, other):
        raise TypeError("no ne")

    def __hash__(self):
        return 7

    def __str__(self):
        return "weird"


class Truthy(object):
    """!= returns a non-bool object"""

    def __init__(self, answer):
        self.answer = answer

    def __ne__(self, other):
        return [] if not self.answer else ["x"]

    def __eq__(self, other):
        return not self.answer

    def __hash__(self):
        return 9

    def __str__(self):
        return "truthy%s" % self.answer


a.set_time(endTime=Weird())
attempt("TypeError on compare", a, [(PROV_ATTR_ENDTIME, DT)])
attempt("after TypeError, other attrs", a, [("ex:z", 1)])
a2 = d.activity("ex:cmp2")
a2.set_time(startTime=Truthy(False), endTime=Truthy(True))
attempt("non-bool != falsy", a2, [(PROV_ATTR_STARTTIME, DT)])
attempt("non-bool != truthy", a2, [(PROV_ATTR_ENDTIME, DT)])

# constructor path and the high-level API go through add_attributes too
d = fresh()
for tag, fn in [
    ("activity bad start", lambda: d.activity("ex:x1", "nonsense")),
    ("activity ok", lambda: d.activity("ex:x2", "2020-01-01", DT, {"ex:k": "v"})),
    ("activity literal time", lambda: d.activity("ex:x3", Literal("2020-01-01", XSD_DATETIME))),
    ("generation", lambda: d.wasGeneratedBy("ex:e", "ex:x2", "2020-01-01T00:00:00Z")),
    ("collection", lambda: d.collection("ex:col", {PROV_TYPE: PROV["EmptyCollection"]})),
    ("same twice", lambda: d.entity("ex:same", [("ex:k", 1), ("ex:k", 1)])),
]:
    try:
        OUT.append("%s -> %s" % (tag, dump(fn())))
    except Exception as e:  # noqa
        OUT.append("%s -> EXC %s: %s" % (tag, type(e).__name__, e))
OUT.append(d.get_provn())

text = "\n".join(OUT) + "\n"
sys.stdout.write(text)
sys.stdout.write("DIGEST %s\n" % hashlib.sha256(text.encode("utf-8")).hexdigest())
