"""Differential driver for ProvRDFSerializer (serialize / encode_ / decode_rdf_representation)."""
import datetime
import hashlib
import io
import logging
import os
import sys
import warnings

if os.environ.get("PYTHONHASHSEED") != "0":
    # rdflib iterates over hash-ordered stores: pin the seed so that two runs are comparable
    os.environ["PYTHONHASHSEED"] = "0"
    os.execv(sys.executable, [sys.executable] + sys.argv)

logging.disable(logging.CRITICAL)
warnings.simplefilter("ignore")

from rdflib.term import URIRef, BNode, Literal as RDFLiteral
from rdflib.graph import ConjunctiveGraph
from rdflib.namespace import XSD as RXSD, RDF

import prov.model as pm
from prov.identifier import Identifier, Namespace, QualifiedName
from prov.constants import XSD_QNAME, PROV, XSD, XSD_ANYURI, XSD_STRING, XSD_INT

XSD_BASE64BINARY = XSD["base64Binary"]
from prov.serializers.provrdf import ProvRDFSerializer

lines = []


def fmt(v):
    if isinstance(v, RDFLiteral):
        return "RDFLit(%s|dt=%r|lang=%r|val=%r)" % (v.n3(), v.datatype, v.language, v.value)
    if isinstance(v, (URIRef, BNode)):
        return "%s(%r)" % (type(v).__name__, str(v))
    if isinstance(v, pm.Literal):
        return "PLit(%r|%s|%r|%s)" % (v.value, fmt(v.datatype), v.langtag, type(v.value).__name__)
    if isinstance(v, QualifiedName):
        return "QN(%r|%r|%r)" % (v.namespace.prefix, v.namespace.uri, v.localpart)
    if isinstance(v, Identifier):
        return "ID(%r)" % v.uri
    return "%s:%r" % (type(v).__name__, v)


def attempt(tag, fn, *args, **kw):
    try:
        r = fn(*args, **kw)
        lines.append("%s => %s" % (tag, fmt(r)))
        return r
    except Exception as e:  # noqa
        lines.append("%s !! %s: %s" % (tag, type(e).__name__, str(e)[:200]))


class MyInt(int):
    pass


class MyStr(str):
    pass


EX = Namespace("ex", "http://example.org/")
doc = pm.ProvDocument()
doc.add_namespace(EX)
ser = ProvRDFSerializer(doc)

tz = datetime.timezone(datetime.timedelta(hours=5, minutes=30))
enc_values = [
    URIRef("http://example.org/u"), URIRef(""), BNode("b1"),
    pm.Literal("text", XSD_STRING), pm.Literal("bonjour", None, "fr"), pm.Literal("", XSD_STRING),
    pm.Literal("aGVsbG8=", XSD_BASE64BINARY), pm.Literal(5, XSD_INT), pm.Literal(0, XSD_INT),
    pm.Literal("ex:q", XSD_QNAME), pm.Literal("é ü", EX["dt"]),
    datetime.datetime(2020, 1, 2, 3, 4, 5), datetime.datetime(2020, 1, 2, 3, 4, 5, 678, tzinfo=tz),
    datetime.date(2020, 1, 2),
    EX["qn"], PROV["Entity"], QualifiedName(Namespace("", "http://d/"), "x y"),
    Identifier("http://example.org/id"), Identifier(""), Identifier("not a uri"),
    1, 0, -7, 2 ** 40, True, False, MyInt(3), 1.5, float("inf"), float("nan"), 0.0,
    "s", "", "é\n\"quoted\"", MyStr("sub"), b"bytes", None, (1, 2), [1], {"a": 1},
    RDFLiteral("already", lang="en"), RDFLiteral(5), 3 + 4j, datetime.time(1, 2), EX,
]
for i, v in enumerate(enc_values):
    attempt("enc[%d]" % i, ser.encode_rdf_representation, v)

# ---- decode
g = ConjunctiveGraph()
g.bind("ex", "http://example.org/")
g.bind("zz", "http://zz.example/ns#")
dec_values = [
    RDFLiteral("plain"), RDFLiteral(""), RDFLiteral("hola", lang="es"),
    RDFLiteral("5", datatype=RXSD["int"]), RDFLiteral("abc", datatype=RXSD["int"]),
    RDFLiteral("1.5", datatype=RXSD["double"]), RDFLiteral("true", datatype=RXSD["boolean"]),
    RDFLiteral("s", datatype=RXSD["string"]),
    RDFLiteral("<a>x</a>", datatype=RDF.XMLLiteral), RDFLiteral("not xml <", datatype=RDF.XMLLiteral),
    RDFLiteral("aGVsbG8=", datatype=RXSD["base64Binary"]),
    RDFLiteral("ex:qn", datatype=RXSD["QName"]), RDFLiteral("", datatype=RXSD["QName"]),
    RDFLiteral("2020-01-02T03:04:05", datatype=RXSD["dateTime"]),
    RDFLiteral("2020-01-02T03:04:05.000678+05:30", datatype=RXSD["dateTime"]),
    RDFLiteral("garbage", datatype=RXSD["dateTime"]),
    RDFLiteral("2001", datatype=RXSD["gYear"]), RDFLiteral("nope", datatype=RXSD["gYear"]),
    RDFLiteral("2001-10", datatype=RXSD["gYearMonth"]), RDFLiteral("2001-03", datatype=RXSD["gYearMonth"]),
    RDFLiteral("x", datatype=URIRef("http://example.org/mytype")),
    RDFLiteral("x", datatype=URIRef("http://unknown.example/ns#mytype")),
    RDFLiteral("http://example.org/a", datatype=RXSD["anyURI"]),
    RDFLiteral("2020-01-02", datatype=RXSD["date"]),
    URIRef("http://example.org/thing"), URIRef("http://example.org/"), URIRef("http://zz.example/ns#abc"),
    URIRef("http://www.w3.org/ns/prov#Entity"), URIRef("http://brand.new/ns/path/leaf"),
    URIRef("http://brand.new/ns/path/leaf2"), URIRef("urn:uuid:123"), URIRef("nocolon"), URIRef(""),
    BNode("bn"), "str", 5, None, 1.5, EX["already"], datetime.datetime(2020, 1, 1),
]
for i, v in enumerate(dec_values):
    attempt("dec[%d]" % i, ser.decode_rdf_representation, v, g)
lines.append("doc namespaces after decode: %r" % sorted(
    (n.prefix, n.uri) for n in doc.namespaces))

# ---- serialize
def build():
    d = pm.ProvDocument()
    d.add_namespace("ex", "http://example.org/")
    d.set_default_namespace("http://default.example/")
    e = d.entity("ex:e1", {"prov:label": pm.Literal("étiquette", None, "fr"), "ex:n": 5, "ex:f": 1.5,
                           "ex:t": datetime.datetime(2020, 1, 2, 3, 4, 5), "ex:u": Identifier("http://x/y"),
                           "ex:q": EX["val"], "ex:b": True, "prov:type": EX["Type"],
                           "prov:location": "Paris", "ex:s": ""})
    d.entity("ex:e1", {"ex:n": 6})
    a = d.activity("ex:a1", datetime.datetime(2020, 1, 1), None, {"prov:type": "x"})
    d.agent("plainagent")
    d.wasGeneratedBy(e, a, datetime.datetime(2020, 1, 1, 12), identifier="ex:gen1", other_attributes={"prov:role": "r"})
    d.used(a, e)
    d.wasDerivedFrom("ex:e2", e, a, other_attributes={"prov:type": PROV["Revision"]})
    d.wasAssociatedWith(a, "plainagent", "ex:plan")
    d.alternateOf("ex:e2", e)
    b = d.bundle("ex:bundle1")
    b.entity("ex:e1")
    b.mentionOf("ex:e3", "ex:e1", "ex:bundle1")
    b2 = d.bundle("ex:bundle2")
    b2.add_namespace("ex", "http://example.org/other/")
    b2.entity("ex:e1", {"ex:k": "ü"})
    return d


import re

_BNODE = re.compile(r"\bN?[0-9a-f]{32}\b")


def norm_text(t):
    # blank-node labels are random (uuid based): blot them out, then sort the lines
    return "\n".join(sorted(_BNODE.sub("BNODE", t).splitlines()))


d = build()
for fmt_name in ["trig", "nquads", "turtle", "xml", "nt", "json-ld", "no-such-format"]:
    for kind in ("bytes", "text"):
        stream = io.BytesIO() if kind == "bytes" else io.StringIO()
        try:
            r = ProvRDFSerializer(d).serialize(stream, rdf_format=fmt_name)
            out = stream.getvalue()
            if isinstance(out, bytes):
                out = out.decode("utf-8")
            lines.append("ser[%s/%s] => ret=%r len=%d sha=%s" % (
                fmt_name, kind, r, len(out), hashlib.sha256(norm_text(out).encode("utf-8")).hexdigest()))
        except Exception as e:  # noqa
            lines.append("ser[%s/%s] !! %s: %s" % (fmt_name, kind, type(e).__name__, str(e)[:160]))

# streams that are neither: None, a list, a closed stream, a custom writer
class Sink(object):
    def __init__(self):
        self.chunks = []

    def write(self, data):
        self.chunks.append((type(data).__name__, len(data)))


class BadSink(object):
    def write(self, data):
        raise RuntimeError("sink refuses %s" % type(data).__name__)


class TextSink(io.TextIOBase):
    def __init__(self):
        self.got = []

    def write(self, data):
        self.got.append((type(data).__name__, len(data)))
        return len(data)


closed = io.BytesIO()
closed.close()
for name, stream in [("none", None), ("list", []), ("closed", closed), ("bad", BadSink())]:
    attempt("ser-stream[%s]" % name, ProvRDFSerializer(d).serialize, stream, rdf_format="nt")
s = Sink()
attempt("ser-sink", ProvRDFSerializer(d).serialize, s, rdf_format="nt")
lines.append("sink %r" % s.chunks)
t = TextSink()
attempt("ser-textsink", ProvRDFSerializer(d).serialize, t, "nt")
lines.append("textsink %r" % t.got)
attempt("ser-kwargs", ProvRDFSerializer(d).serialize, io.BytesIO(), rdf_format="turtle", base="http://base/")
attempt("ser-format-kw", ProvRDFSerializer(d).serialize, io.BytesIO(), format="nt")
attempt("ser-badkw", ProvRDFSerializer(d).serialize, io.BytesIO(), rdf_format="nt", destination="x")
attempt("ser-empty", ProvRDFSerializer(pm.ProvDocument()).serialize, io.StringIO(), rdf_format="nt")
attempt("ser-nodoc", ProvRDFSerializer(None).serialize, io.StringIO())

# via the public API + round trip
def roundtrip(tag, document, f):
    txt = document.serialize(format="rdf", rdf_format=f)
    lines.append("api[%s] type=%s sha=%s" % (tag, type(txt).__name__, hashlib.sha256(norm_text(txt).encode()).hexdigest()))
    back = pm.ProvDocument.deserialize(content=txt, format="rdf", rdf_format=f)
    lines.append("roundtrip[%s] equal=%r records=%d bundles=%d" % (tag, back == document, len(back.get_records()), len(list(back.bundles))))
    lines.append(norm_provn(back.get_provn()))
    return len(txt)


def norm_provn(t):
    # the order of attributes / records read back depends on random blank-node labels
    t = _BNODE.sub("BNODE", t)
    return "\n".join(sorted(" ".join(sorted(re.split(r"[ ,\[\]()]+", ln))) for ln in t.splitlines()))


simple = pm.ProvDocument()
simple.add_namespace("ex", "http://example.org/")
se = simple.entity("ex:e1", {"ex:n": 5, "ex:f": 1.5, "ex:t": datetime.datetime(2020, 1, 2, 3, 4, 5),
                             "prov:label": pm.Literal("étiquette", None, "fr"), "ex:q": EX["val"],
                             "ex:y": pm.Literal("2001", pm.XSD["gYear"]), "ex:ym": pm.Literal("2001-10", pm.XSD["gYearMonth"]),
                             "ex:bin": pm.Literal("aGVsbG8=", XSD_BASE64BINARY), "ex:qn": pm.Literal("ex:x", XSD_QNAME)})
sa = simple.activity("ex:a1", datetime.datetime(2020, 1, 1), datetime.datetime(2020, 1, 2))
simple.wasGeneratedBy(se, sa, datetime.datetime(2020, 1, 1, 12), identifier="ex:gen1")
simple.used(sa, se)
sb = simple.bundle("ex:bundle1")
sb.entity("ex:inb")
for f in ["turtle", "xml"]:
    # (trig / nquads read-back order of named graphs is random in the unchanged library: left out)
    attempt("rt-simple[%s]" % f, roundtrip, "simple/" + f, simple, f)
    attempt("rt-full[%s]" % f, roundtrip, "full/" + f, d, f)

text = "\n".join(lines)
print(text)
print("DIGEST", hashlib.sha256(text.encode("utf-8")).hexdigest())
