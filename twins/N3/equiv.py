"""Differential script: exercises NamespaceManager and the ProvBundle namespace
wrappers and prints a deterministic transcript plus a digest."""
import hashlib
import io
import os
import sys

if os.environ.get("PYTHONHASHSEED") != "0":
    # set iteration order (e.g. of ProvBundle.namespaces) depends on the hash
    # seed: pin it so that the transcript is deterministic
    os.environ["PYTHONHASHSEED"] = "0"
    os.execv(sys.executable, [sys.executable] + sys.argv)

from prov.identifier import Identifier, Namespace, QualifiedName
from prov.model import NamespaceManager, ProvBundle, ProvDocument

LINES = []


def out(*parts):
    LINES.append(" ".join(str(p) for p in parts))


def call(label, fn, *args, **kwargs):
    try:
        res = fn(*args, **kwargs)
    except BaseException as e:  # noqa
        out(label, "-> EXC", type(e).__name__, str(e))
        return None
    out(label, "->", type(res).__name__, repr(res))
    return res


def snap(label, nm):
    out(label, "items", sorted((repr(k), repr(v)) for k, v in nm.items()))
    out(label, "order", [repr(k) for k in nm.keys()])
    reg = nm.get_registered_namespaces()
    out(label, "registered", type(reg).__name__, [repr(v) for v in reg])
    out(label, "default", repr(nm.get_default_namespace()))
    out(label, "parent", type(nm.parent).__name__)
    priv = []
    for v in vars(nm).values():
        if isinstance(v, dict):
            priv.append(repr(sorted((repr(a), repr(b)) for a, b in v.items())))
        elif isinstance(v, int):
            priv.append(repr(v))
    out(label, "private", sorted(priv))


EX = "http://example.org/"

# ---- 1. construction
for label, kwargs in [
    ("ctor-empty", {}),
    ("ctor-none", {"namespaces": None}),
    ("ctor-emptydict", {"namespaces": {}}),
    ("ctor-emptylist", {"namespaces": []}),
    ("ctor-dict", {"namespaces": {"ex": EX, "ex2": EX + "2/", "prov": "http://other/prov#"}}),
    ("ctor-list", {"namespaces": [Namespace("ex", EX), Namespace("ex", EX + "b/")]}),
    ("ctor-tuple", {"namespaces": (Namespace("a", "urn:a:"),)}),
    ("ctor-gen", {"namespaces": (Namespace(p, "urn:%s:" % p) for p in "xyz")}),
    ("ctor-default", {"default": EX + "default/"}),
    ("ctor-default-empty", {"default": ""}),
    ("ctor-default-space", {"default": "  "}),
    ("ctor-both", {"namespaces": {"": "urn:blank:", "ex": EX}, "default": "urn:def:"}),
    ("ctor-bad-uri", {"namespaces": {"ok": "urn:ok:", "bad": ""}}),
    ("ctor-int", {"namespaces": 5}),
    ("ctor-str", {"namespaces": "ab"}),
]:
    try:
        nm = NamespaceManager(**kwargs)
    except BaseException as e:  # noqa
        out(label, "EXC", type(e).__name__, str(e))
        continue
    snap(label, nm)

parent = NamespaceManager({"par": "urn:parent:"}, default="urn:pdefault:")
child = NamespaceManager({"ch": "urn:child:"}, parent=parent)
snap("child", child)
out("class-parent", NamespaceManager.parent)

# ---- 2. add_namespace
nm = NamespaceManager()
ns_ex = Namespace("ex", EX)
r = call("add ex", nm.add_namespace, ns_ex)
out("same-object", r is ns_ex)
r2 = call("add ex again", nm.add_namespace, ns_ex)
out("same-object", r2 is ns_ex)
ns_ex_copy = Namespace("ex", EX)
r3 = call("add ex equal copy", nm.add_namespace, ns_ex_copy)
out("is-copy", r3 is ns_ex_copy, "is-orig", r3 is ns_ex)
ns_other_prefix = Namespace("other", EX)
r4 = call("add same uri other prefix", nm.add_namespace, ns_other_prefix)
out("is-orig", r4 is ns_ex)
r4b = call("add same uri other prefix again", nm.add_namespace, Namespace("other", EX))
out("is-orig", r4b is ns_ex)
ns_conflict = Namespace("ex", "urn:conflict:")
r5 = call("add conflicting prefix", nm.add_namespace, ns_conflict)
r6 = call("add conflicting prefix again", nm.add_namespace, ns_conflict)
out("same-renamed", r5 is r6)
r7 = call("add second conflict", nm.add_namespace, Namespace("ex", "urn:conflict2:"))
r8 = call("add renamed itself", nm.add_namespace, r5)
out("is", r8 is r5)
call("add prov conflict", nm.add_namespace, Namespace("prov", "urn:notprov:"))
call("add prov same", nm.add_namespace, Namespace("prov", "http://www.w3.org/ns/prov#"))
call("add ex_1 explicit", nm.add_namespace, Namespace("ex_1", "urn:explicit:"))
call("add empty prefix", nm.add_namespace, Namespace("", "urn:emptyprefix:"))
call("add empty prefix 2", nm.add_namespace, Namespace("", "urn:emptyprefix2:"))
call("add unicode", nm.add_namespace, Namespace("ünï", "urn:ü:"))
call("add None", nm.add_namespace, None)
call("add str", nm.add_namespace, "ex")
call("add int prefix", nm.add_namespace, Namespace(1, "urn:int1:"))
call("add int prefix conflict", nm.add_namespace, Namespace(1, "urn:int2:"))
call("add unhashable prefix", nm.add_namespace, Namespace(["l"], "urn:list:"))
snap("after-adds", nm)

# ---- 3. add_namespaces
nm = NamespaceManager()
call("adds dict", nm.add_namespaces, {"a": "urn:a:", "b": "urn:b:", "a_1": "urn:a1:"})
call("adds list conflict", nm.add_namespaces, [Namespace("a", "urn:a-other:"), Namespace("c", "urn:b:")])
call("adds bad dict", nm.add_namespaces, {"good": "urn:good:", "bad": " "})
call("adds partial list", nm.add_namespaces, [Namespace("p1", "urn:p1:"), None, Namespace("p2", "urn:p2:")])
call("adds none", nm.add_namespaces, None)
call("adds zero", nm.add_namespaces, 0)
call("adds int", nm.add_namespaces, 7)
call("adds empty", nm.add_namespaces, ())
call("adds iter", nm.add_namespaces, iter([Namespace("it", "urn:it:")]))
call("adds nm", nm.add_namespaces, NamespaceManager({"viaNM": "urn:vianm:"}))
snap("after-add_namespaces", nm)

# ---- 4. get_namespace
nm = NamespaceManager({"ex": EX, "dup": "urn:dup:"}, default="urn:dup:")
for uri in [EX, "urn:dup:", "http://www.w3.org/ns/prov#", "urn:nothing:", None, "", 5,
            "http://www.w3.org/2001/XMLSchema#"]:
    r = call("get_namespace %r" % (uri,), nm.get_namespace, uri)
nm["weird"] = "not a namespace"
call("get_namespace weird", nm.get_namespace, "zzz")
call("get_namespace before weird", nm.get_namespace, EX)

# ---- 5. set/get default
nm = NamespaceManager()
call("get default none", nm.get_default_namespace)
call("set default", nm.set_default_namespace, "urn:d1:")
d1 = call("get default", nm.get_default_namespace)
out("in dict", nm[""] is d1)
call("set default again", nm.set_default_namespace, "urn:d2:")
out("changed", nm.get_default_namespace() is d1, repr(nm[""]))
call("set default empty", nm.set_default_namespace, "")
call("set default None", nm.set_default_namespace, None)
snap("after-default", nm)

# ---- 6. valid_qualified_name
def vq(label, nm, value):
    r = call("vqn " + label, nm.valid_qualified_name, value)
    if isinstance(r, QualifiedName):
        out("   ns", repr(r.namespace), "local", repr(r.localpart), "uri", r.uri, "same-obj", r is value)
    return r


nm = NamespaceManager({"ex": EX})
ex = nm["ex"]
for v in [None, "", 0, 5, 5.5, [], ["ex:a"], ("ex", "a"), b"ex:a", object]:
    vq(repr(v), nm, v)
vq("registered same obj", nm, ex["a"])
vq("registered equal ns", nm, Namespace("ex", EX)["a"])
vq("prefix conflict", nm, Namespace("ex", "urn:otherex:")["a"])
vq("prefix conflict again", nm, Namespace("ex", "urn:otherex:")["b"])
vq("new ns", nm, Namespace("fresh", "urn:fresh:")["x y/ü"])
vq("same uri other prefix", nm, Namespace("alias", "urn:fresh:")["k"])
dq = Namespace("", "urn:defA:")["local"]
vq("default adopt", nm, dq)
out("default now", repr(nm.get_default_namespace()), repr(nm.get("")))
call("get_namespace adopted", nm.get_namespace, "urn:defA:")
vq("default same", nm, Namespace("", "urn:defA:")["again"])
vq("default different", nm, Namespace("", "urn:defB:")["dn-one"])
vq("default different 2", nm, Namespace("", "urn:defC:")["dn-two"])
vq("default different again", nm, Namespace("", "urn:defB:")["dn-three"])
vq("empty localpart", nm, ex[""])
for s in ["ex:foo", "ex:", "ex:a:b:c", ":x", "_:b1", "_:", "unknown:foo", "alias:z", "ex_1:q",
          EX + "compact", "urn:fresh:tail", "http://nowhere/else", "nocolon", "with space",
          "prov:Entity", "xsd:string", "dn:t", "ü:é", "urn:defA:abc"]:
    vq(repr(s), nm, s)
for i in [Identifier(EX + "ident"), Identifier("ex:viaIdentifier"), Identifier("_:blank"),
          Identifier("plainidentifier"), Identifier("zzz:unknown")]:
    vq(repr(i), nm, i)
snap("after-vqn", nm)

nm = NamespaceManager()
vq("nodefault nocolon", nm, "nocolon")
vq("nodefault unknown", nm, "unk:foo")

parent = NamespaceManager({"par": "urn:parent:"}, default="urn:pdefault:")
child = NamespaceManager({"ch": "urn:child:"}, parent=parent)
for s in ["par:x", "ch:y", "nocolon", "urn:parent:compact", "urn:pdefault:q", "zz:none", "_:b"]:
    vq("child " + repr(s), child, s)
vq("child ident", child, Identifier("urn:parent:zzz"))
vq("child qn", child, parent["par"]["shared"])
snap("child-after", child)
snap("parent-after", parent)

# ---- 7. anonymous identifiers


class Fmt(object):
    def __str__(self):
        return "STR"

    def __format__(self, spec):
        return "FORMAT"

    def __repr__(self):
        return "REPR"


nm = NamespaceManager()
for args in [(), ("b",), ("",), (5,), (None,), (("a", "b"),), (Fmt(),), ("%s",), ("{x}",), ("ü",)]:
    r = call("anon %r" % (args,), nm.get_anonymous_identifier, *args)
    if r is not None:
        out("   uri", r.uri)
call("anon kw", nm.get_anonymous_identifier, local_prefix="kw")
snap("after-anon", nm)

# ---- 8. _get_unused_prefix
nm = NamespaceManager({"ex": EX, "ex_1": "urn:1:", "ex_2": "urn:2:", "q": "urn:q:"})
for p in ["ex", "q", "free", "", "prov", "ex_1", 3, None]:
    call("unused %r" % (p,), nm._get_unused_prefix, p)
nm[3] = Namespace("three", "urn:three:")
call("unused int taken", nm._get_unused_prefix, 3)

# ---- 9. ProvBundle / ProvDocument wrappers
doc = ProvDocument()
call("doc.add_namespace(ns)", doc.add_namespace, Namespace("ex", EX))
call("doc.add_namespace(prefix, uri)", doc.add_namespace, "foo", "urn:foo:")
call("doc.add_namespace(prefix, uri=)", doc.add_namespace, "bar", uri="urn:bar:")
call("doc.add_namespace(conflict)", doc.add_namespace, "foo", "urn:foo-other:")
call("doc.add_namespace(prefix only)", doc.add_namespace, "lonely")
call("doc.add_namespace(prefix, '')", doc.add_namespace, "empty", "")
call("doc.add_namespace(ns, uri)", doc.add_namespace, Namespace("nsobj", "urn:nsobj:"), "urn:override:")
call("doc.add_namespace(None)", doc.add_namespace, None)
call("doc.add_namespace()", doc.add_namespace)
call("doc.get_default_namespace none", doc.get_default_namespace)
out("default_ns_uri", doc.default_ns_uri)
call("doc.set_default_namespace", doc.set_default_namespace, "urn:docdefault:")
call("doc.get_default_namespace", doc.get_default_namespace)
call("doc.set_default_namespace bad", doc.set_default_namespace, " ")
out("default_ns_uri", doc.default_ns_uri)
reg = doc.get_registered_namespaces()
out("doc registered", type(reg).__name__, [repr(n) for n in reg])
nss = doc.namespaces
out("doc namespaces", type(nss).__name__, sorted(repr(n) for n in nss))
out("fresh set", doc.namespaces is not doc.namespaces)
for v in ["ex:e1", "foo:x", "plain", "_:b", None, Identifier("urn:bar:zz"), Namespace("n2", "urn:n2:")["v"]]:
    vq("doc " + repr(v), doc, v)

b = doc.bundle("ex:bundle1")
call("bundle.add_namespace", b.add_namespace, "bns", "urn:bns:")
call("bundle.add_namespace ex other", b.add_namespace, "ex", "urn:bundle-ex:")
out("bundle namespaces", sorted(repr(n) for n in b.namespaces))
out("bundle registered", [repr(n) for n in b.get_registered_namespaces()])
call("bundle default", b.get_default_namespace)
for v in ["bns:k", "foo:via-parent", "plain-in-bundle", "n2:v2", "nope:zz", "urn:foo:compact"]:
    vq("bundle " + repr(v), b, v)
call("bundle.set_default_namespace", b.set_default_namespace, "urn:bundledefault:")
vq("bundle plain after default", b, "plain2")
out("bundle parent is doc nm", b._namespaces.parent is doc._namespaces)

standalone = ProvBundle(namespaces={"s": "urn:s:"})
out("standalone namespaces", sorted(repr(n) for n in standalone.namespaces))
vq("standalone", standalone, "s:x")
vq("standalone plain", standalone, "plain")
standalone2 = ProvBundle(namespaces=[Namespace("l", "urn:l:")], identifier="id")
out("standalone2", [repr(n) for n in standalone2.get_registered_namespaces()], repr(standalone2))

# realistic document, several serializations (output text)
d = ProvDocument()
d.set_default_namespace("http://example.org/default/")
d.add_namespace("ex", EX)
e1 = d.entity("ex:e1", {"ex:attr": "v", "prov:label": "läbel"})
e2 = d.entity("e2")
d.entity(Namespace("ex", "urn:clash:")["e3"])
d.entity(Namespace("", "urn:otherdefault:")["e4"])
a1 = d.activity("ex:a1")
d.wasGeneratedBy(e1, a1)
d.wasDerivedFrom("e2", "ex:e1")
bb = d.bundle("ex:b")
bb.set_default_namespace("urn:bbdefault:")
bb.add_namespace("ex", "urn:bb-ex:")
bb.entity("ex:inbundle")
bb.entity("nocolon")
bb.agent(Namespace("late", "urn:late:")["ag"])
out(d.get_provn())
out(d.serialize(format="json", indent=1, sort_keys=True))
try:
    buf = io.BytesIO()
    d.serialize(buf, format="xml")
    out(buf.getvalue().decode("utf-8"))
except BaseException as e:  # noqa
    out("xml EXC", type(e).__name__, str(e))
u = d.unified()
out(u.get_provn())
f = d.flattened()
out(f.get_provn())
out("doc ns", sorted(repr(n) for n in d.namespaces), "bundle ns", sorted(repr(n) for n in bb.namespaces))
snap("doc-nm", d._namespaces)
snap("bb-nm", bb._namespaces)
d2 = ProvDocument.deserialize(content=d.serialize(format="json"), format="json")
out("roundtrip equal", d2 == d)
snap("d2-nm", d2._namespaces)

text = "\n".join(LINES)
sys.stdout.write(text + "\n")
sys.stdout.write("DIGEST " + hashlib.sha256(text.encode("utf-8")).hexdigest() + "\n")
