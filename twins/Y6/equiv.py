# differential script for refactoring 6: ProvRecord.__eq__, ProvBundle.__eq__, ProvDocument.__eq__, ProvActivity.set_time
import datetime, hashlib, io, logging
from prov.model import ProvDocument, ProvBundle, Literal, PROV, Namespace, ProvRecord, ProvEntity, ProvAgent
from prov.constants import *

stream = io.StringIO()
h = logging.StreamHandler(stream); h.setFormatter(logging.Formatter("%(levelname)s|%(message)s"))
lg = logging.getLogger("prov.model"); lg.addHandler(h); lg.setLevel(logging.DEBUG)
def logged():
    v = stream.getvalue(); stream.seek(0); stream.truncate(); return v

EX = Namespace("ex", "http://example.org/")
EX2 = Namespace("ex", "http://example.org/")            # equal namespace, other object
OTHER = Namespace("ex", "http://elsewhere.example.org/")

def base(ns=EX, extra=None, bundles=("ex:b1",), in_bundle=("ex:inner",)):
    d = ProvDocument()
    d.add_namespace(ns)
    d.entity("ex:e1", {"ex:k": "v"})
    d.entity("ex:e1", {"ex:k": "v"})                     # repeated identifier, equal record
    d.entity("ex:e1", {"ex:k2": 2})                      # repeated identifier, different attributes
    d.activity("ex:a1", "2001-01-01T00:00:00")
    d.wasGeneratedBy("ex:e1", "ex:a1", identifier="ex:g")
    d.wasGeneratedBy("ex:e1", "ex:a1")                   # unnamed relation
    if extra:
        extra(d)
    for b_id in bundles:
        b = d.bundle(b_id)
        for name in in_bundle:
            b.entity(name, {"ex:p": Literal("x", None, "en")})
    return d

out = []
def cmp(name, x, y, log_ok=True):
    logged()
    try:
        r = (x == y, x != y, y == x, y != x)
    except Exception as ex:
        r = ("EXC", type(ex).__name__, str(ex))
    text = logged()
    out.append((name, r, sorted(text.splitlines()) if log_ok else len(text.splitlines()) > 0))

d0 = base()
cmp("same-object", d0, d0)
cmp("equal-docs", d0, base())
cmp("equal-ns-object", d0, base(EX2))
cmp("other-ns-uri", d0, base(OTHER), log_ok=False)
cmp("extra-record", d0, base(extra=lambda d: d.agent("ex:ag")))
cmp("one-differs", base(extra=lambda d: d.agent("ex:ag", {"ex:n": 1})), base(extra=lambda d: d.agent("ex:ag", {"ex:n": 2})))
cmp("type-differs", base(extra=lambda d: d.agent("ex:x")), base(extra=lambda d: d.entity("ex:x")))
cmp("id-differs", base(extra=lambda d: d.agent("ex:x")), base(extra=lambda d: d.agent("ex:y")))
cmp("multiplicity", base(extra=lambda d: (d.agent("ex:x"), d.agent("ex:x"))), base(extra=lambda d: (d.agent("ex:x"), d.agent("ex:z"))), log_ok=False)
cmp("no-bundles-vs-one", base(bundles=()), d0)
cmp("bundle-id-differs", base(bundles=("ex:b1",)), base(bundles=("ex:b2",)))
cmp("two-bundles", base(bundles=("ex:b1", "ex:b2")), base(bundles=("ex:b2", "ex:b1")))
cmp("bundle-content-differs", base(in_bundle=("ex:inner",)), base(in_bundle=("ex:inner2",)))
cmp("bundle-content-more", base(in_bundle=("ex:inner",)), base(in_bundle=("ex:inner", "ex:second")))
cmp("empty-docs", ProvDocument(), ProvDocument())
cmp("empty-vs-full", ProvDocument(), d0, log_ok=False)
b1 = list(d0.bundles)[0]
cmp("doc-vs-bundle", d0, b1, log_ok=False)
cmp("bundle-vs-bundle", b1, list(base().bundles)[0])
cmp("bundle-vs-plain-bundle", b1, ProvBundle(identifier=EX["b1"]))
eb = ProvBundle(identifier=EX["zz"]); cmp("empty-bundle-vs-empty-doc", eb, ProvDocument())
for other in [None, 5, "doc", [], object()]:
    cmp("doc-vs-" + type(other).__name__, d0, other)
    cmp("bundle-vs-" + type(other).__name__, b1, other)
cmp("flattened", d0.flattened(), base().flattened())
cmp("unified", d0.unified(), base().unified())

# records
recs = {}
def mk(d):
    recs["e"] = d.entity("ex:r", {"ex:k": "v", "ex:k2": Literal("1", XSD_INT)})
    recs["e_same"] = d.entity("ex:r", [("ex:k2", 1), ("ex:k", "v")])
    recs["e_attr"] = d.entity("ex:r", {"ex:k": "w"})
    recs["e_noattr"] = d.entity("ex:r")
    recs["ag"] = d.agent("ex:r", {"ex:k": "v", "ex:k2": 1})
    recs["e_id"] = d.entity("ex:r2", {"ex:k": "v", "ex:k2": 1})
    recs["u1"] = d.used("ex:a", "ex:r")
    recs["u2"] = d.used("ex:a", "ex:r")
    recs["u3"] = d.used("ex:a", "ex:r", identifier="ex:u")
    recs["g"] = d.wasGeneratedBy("ex:r", "ex:a")
    recs["a"] = d.activity("ex:a")
dd = base(extra=mk)
inb = list(dd.bundles)[0].entity("ex:r", {"ex:k": "v", "ex:k2": 1})
recs["e_in_bundle"] = inb
names = sorted(recs)
out.append(("rec-names", names))
out.append(("rec-eq", ["".join("1" if recs[x] == recs[y] else "0" for y in names) for x in names]))
out.append(("rec-ne", ["".join("1" if recs[x] != recs[y] else "0" for y in names) for x in names]))
out.append(("rec-hash", all(hash(recs[x]) == hash(recs[y]) for x in names for y in names if recs[x] == recs[y])))
for other in [None, "ex:r", EX["r"], 5, ("ex:r",), dd]:
    out.append(("rec-vs", type(other).__name__, recs["e"] == other, recs["e"] != other, other == recs["e"]))
class NoId(object):
    def get_type(self): return PROV_ENTITY
out.append(("rec-vs-duck", recs["e"] == NoId()))
raw = ProvRecord(dd, EX["r"]); raw2 = ProvRecord(dd, EX["r"])
out.append(("raw", raw == raw2, raw == recs["e_noattr"], recs["e_noattr"] == raw))

# set_time
def times(a):
    return (a.get_startTime(), a.get_endTime(), sorted((str(k), sorted(map(str, v))) for k, v in a._attributes.items()), a.get_provn())
T = datetime.datetime(2012, 12, 12, 12, 12, 12)
cases = [(), (None, None), (T,), (None, T), (T, T), ("2001-01-01T01:01:01", "2002-02-02"), (T, "junk"), ("junk", T),
         (5, None), ("", None), (None, "")]
for c in cases:
    dt = ProvDocument(); dt.add_namespace(EX)
    a = dt.activity("ex:act", "1999-09-09T09:09:09", "1999-10-10T10:10:10", {"ex:x": 1})
    try:
        r = a.set_time(*c)
        out.append(("set_time", repr(c), r, times(a)))
    except Exception as ex:
        out.append(("set_time", repr(c), "EXC", type(ex).__name__, str(ex), times(a)))
    b = dt.activity("ex:fresh")
    try:
        b.set_time(endTime=c[1] if len(c) > 1 else None, startTime=c[0] if c else None)
        out.append(("set_time-kw", repr(c), times(b)))
    except Exception as ex:
        out.append(("set_time-kw", repr(c), "EXC", type(ex).__name__, str(ex), times(b)))
for o in out:
    print(o)
print(hashlib.sha256(repr(out).encode()).hexdigest())
