"""Differential check for refactoring 1 (renames inside prov_to_dot helpers)."""
import hashlib
import itertools
from docs_common import all_docs
from prov.dot import prov_to_dot


def digest(s):
    return hashlib.sha256(s.encode("utf-8")).hexdigest()[:16]


combos = list(itertools.product([True, False], repeat=4))
for name, doc in all_docs():
    for show_nary, use_labels, sea, sra in combos:
        for direction in ("BT", "LR", "bogus"):
            try:
                dot = prov_to_dot(doc, show_nary=show_nary, use_labels=use_labels,
                                  direction=direction, show_element_attributes=sea,
                                  show_relation_attributes=sra)
                s = dot.to_string()
                res = "%s len=%d nodes=%d edges=%d sub=%d" % (
                    digest(s), len(s), len(dot.get_nodes()), len(dot.get_edges()),
                    len(dot.get_subgraphs()))
            except Exception as e:  # noqa
                res = "EXC %s: %s" % (type(e).__name__, e)
            print(name, int(show_nary), int(use_labels), int(sea), int(sra), direction, res)
# Full text for the edge-case documents
for name, doc in all_docs()[:3]:
    print("=====", name)
    print(prov_to_dot(doc, use_labels=True).to_string())
# bundle passed directly (not a document)
from docs_common import doc_bundles
for b in doc_bundles().bundles:
    print("=====", b.identifier)
    print(prov_to_dot(b).to_string())
