import os, sys
if os.environ.get("PYTHONHASHSEED") != "0":
    os.environ["PYTHONHASHSEED"] = "0"
    os.execv(sys.executable, [sys.executable] + sys.argv)

import datetime
import prov.model as pm
from prov.model import ProvDocument, ProvBundle, Namespace, QualifiedName
from prov.graph import prov_to_graph, graph_to_prov
from prov.tests import examples

EX = Namespace("ex", "http://example.org/")


def describe(node):
    bundle = getattr(node, "bundle", "n/a")
    if isinstance(node, ProvBundle):
        return ("BUNDLE", type(node).__name__, repr(node.identifier), len(node.records))
    return (
        type(node).__name__,
        repr(node.identifier),
        "bundle=None" if bundle is None else "bundle=%s" % type(bundle).__name__,
        sorted((str(k), repr(v)) for k, v in node.attributes),
    )


def digest(title, doc):
    print("==", title)
    try:
        g = prov_to_graph(doc)
    except Exception as e:  # noqa
        print("  EXC", type(e).__name__, e)
        return
    nodes = list(g.nodes())
    index = {id(n): i for i, n in enumerate(nodes)}
    for i, n in enumerate(nodes):
        print("  N%d" % i, describe(n))
    for u, v, k, data in g.edges(keys=True, data=True):
        rel = data["relation"]
        print(
            "  E N%d -> N%d key=%s %s %s"
            % (index[id(u)], index[id(v)], k, sorted(data), rel.get_provn())
        )
    print("  counts", g.number_of_nodes(), g.number_of_edges())
    try:
        back = graph_to_prov(g)
        print("  back", len(back.records), sorted(r.get_provn() for r in back.records))
    except Exception as e:  # noqa
        print("  back EXC", type(e).__name__, e)


# 1. all the example documents of the test-suite
for name, fn in sorted(examples.tests):
    digest("example " + name, fn())

# 2. declared and undeclared ends, missing ends, repeated identifiers
d = ProvDocument()
d.add_namespace(EX)
d.set_default_namespace("http://default.example/")
d.entity("ex:e1", {"prov:label": "café ☃"})
d.entity("ex:e1", {"ex:extra": 1})
d.agent("ex:e1")  # same identifier, other type
d.activity("ex:a1", datetime.datetime(2020, 1, 1), None)
d.entity("local")  # default namespace
d.wasGeneratedBy("ex:e1", "ex:a1")
d.wasGeneratedBy("ex:e1", "ex:a1")  # repeated relation
d.wasGeneratedBy("ex:e2", None, datetime.datetime(2020, 1, 2))  # no 2nd end
d.used("ex:a2", "ex:e3")  # both undeclared
d.used("ex:a2", "ex:e3", identifier="ex:u1")
d.wasDerivedFrom("ex:e3", "local")
d.wasAttributedTo("local", "ex:agént")
d.wasAssociatedWith("ex:a1", "ex:agént", "ex:plan")
d.wasAssociatedWith("ex:a1", None, "ex:plan")
d.actedOnBehalfOf("ex:ag2", "ex:agént", "ex:a1")
d.wasStartedBy("ex:a1", "ex:trigger", "ex:a0")
d.wasEndedBy("ex:a1", None, "ex:a0")
d.wasInvalidatedBy("ex:e1", "ex:a9")
d.wasInformedBy("ex:a1", "ex:a0")
d.specializationOf("ex:e1", "ex:e0")
d.alternateOf("ex:e1", "ex:e0")
d.hadMember("ex:coll", "ex:e1")
d.mentionOf("ex:e1", "ex:e0", "ex:bundle1")
# influence: attributes not in INFERRED_ELEMENT_CLASS
d.wasInfluencedBy("ex:e1", "ex:a1")  # both declared -> edge
d.wasInfluencedBy("ex:e1", "ex:zz")  # 2nd undeclared -> skipped
d.wasInfluencedBy("ex:yy", "ex:e1")  # 1st undeclared -> skipped
d.wasInfluencedBy("ex:a2", "ex:e3")  # both only inferred earlier
b = d.bundle("ex:bundle1")
b.entity("ex:inbundle")
b.wasGeneratedBy("ex:inbundle", "ex:a1")
digest("handmade", d)
digest("handmade flattened", d.flattened())
digest("bundle only", b)
digest("empty", ProvDocument())


# 3. a stub 'document' to reach the combination: first end inferred, second
#    end not inferable, and the inferred node used again by a later relation
class FakeRel(object):
    def __init__(self, name, pairs):
        self.name = name
        self.formal_attributes = tuple(pairs)

    def get_provn(self):
        return "fake(%s)" % self.name


class FakeUnified(object):
    def __init__(self, elements, relations):
        self.elements, self.relations = elements, relations

    def get_records(self, cls=None):
        return list(self.elements if cls is pm.ProvElement else self.relations)


class FakeDoc(object):
    def __init__(self, elements, relations):
        self._u = FakeUnified(elements, relations)

    def unified(self):
        return self._u


q = lambda s: EX[s]
scratch = ProvDocument()
e_decl = scratch.entity(q("decl"))
rels = [
    FakeRel("r1", [(pm.PROV_ATTR_ENTITY, q("x")), (pm.PROV_ATTR_INFLUENCER, q("y")), (pm.PROV_ATTR_TIME, None)]),
    FakeRel("r2", [(pm.PROV_ATTR_AGENT, q("x")), (pm.PROV_ATTR_ACTIVITY, q("y"))]),
    FakeRel("r3", [(pm.PROV_ATTR_INFLUENCER, q("y")), (pm.PROV_ATTR_INFLUENCEE, q("x"))]),
    FakeRel("r4", [(pm.PROV_ATTR_INFLUENCER, q("decl")), (pm.PROV_ATTR_BUNDLE, q("bb"))]),
    FakeRel("r5", [(pm.PROV_ATTR_ENTITY, q("same")), (pm.PROV_ATTR_AGENT, q("same"))]),
    FakeRel("r6", [(pm.PROV_ATTR_ENTITY, None), (pm.PROV_ATTR_INFLUENCER, q("never"))]),
    FakeRel("r7", [(pm.PROV_ATTR_INFLUENCER, q("never")), (pm.PROV_ATTR_ENTITY, q("decl"))]),
    FakeRel("r8", [("not-a-qname-attr", q("w")), (pm.PROV_ATTR_ENTITY, q("w2"))]),
    FakeRel("r9", [(pm.PROV_ATTR_ENTITY, q("w2")), (pm.PROV_ATTR_ENTITY, q("w"))]),
]
digest("stub with bundle end", FakeDoc([e_decl], rels))
digest("stub", FakeDoc([e_decl], [r for r in rels if r.name != "r4"]))

for bad in (
    FakeRel("short", [(pm.PROV_ATTR_ENTITY, q("x"))]),
    FakeRel("empty", []),
):
    digest("stub bad " + bad.name, FakeDoc([], [bad]))
