import os
import sys

# Hash randomisation changes set iteration order (multi-valued attributes);
# pin it so that the digest is deterministic and order sensitive.
if os.environ.get("PYTHONHASHSEED") != "0":
    os.environ["PYTHONHASHSEED"] = "0"
    os.execv(sys.executable, [sys.executable] + sys.argv)

import datetime
import glob
import hashlib
import io
import json
import logging

logging.disable(logging.CRITICAL)

import prov
import prov.constants as C
import prov.model as M
from prov.model import (
    ProvDocument,
    ProvBundle,
    Literal,
    Identifier,
    QualifiedName,
    Namespace,
    ProvException,
)
from prov.serializers import provjson as PJ
from prov.tests import examples

SRC = os.path.dirname(os.path.dirname(os.path.abspath(prov.__file__)))
JSON_DIR = os.path.join(SRC, "prov", "tests", "json")


def sha(text):
    if not isinstance(text, bytes):
        text = text.encode("utf-8")
    return hashlib.sha256(text).hexdigest()[:16]


def show(label, fn, *args, **kwargs):
    """Print the result (or the exception) of a call in a stable way."""
    try:
        res = fn(*args, **kwargs)
        text = res if isinstance(res, str) else repr(res)
        print("%s -> OK %s len=%d %s" % (label, sha(text), len(text), text[:300]))
    except BaseException as e:  # noqa
        print("%s -> EXC %s: %s" % (label, type(e).__name__, e))


def handmade_documents():
    docs = []

    docs.append(("empty", ProvDocument()))

    d = ProvDocument()
    d.set_default_namespace("http://default.example/")
    d.add_namespace("ex", "http://example.org/")
    d.add_namespace("o-dd", "http://odd.example/a#b?c=")
    EX = Namespace("ex", "http://example.org/")
    e1 = d.entity(
        "ex:e1",
        [
            ("prov:label", "plain"),
            ("prov:label", Literal("bonjour", langtag="fr")),
            ("ex:int", 42),
            ("ex:neg", -7),
            ("ex:float", 1.5),
            ("ex:bool", True),
            ("ex:boolf", False),
            ("ex:empty", ""),
            ("ex:uni", "café ☃ \"quoted\" \\ back\nnewline\ttab"),
            ("ex:dt", datetime.datetime(2012, 3, 4, 5, 6, 7, 890000)),
            ("ex:uri", Identifier("http://example.org/some thing?x=1&y=<2>")),
            ("ex:qn", EX["other"]),
            ("ex:lit_int", Literal("12", C.XSD_INT)),
            ("ex:lit_dbl", Literal("1e3", C.XSD_DOUBLE)),
            ("ex:lit_bool", Literal("TRUE", C.XSD_BOOLEAN)),
            ("ex:lit_badbool", Literal("maybe", C.XSD_BOOLEAN)),
            ("ex:lit_dt", Literal("2001-02-03T04:05:06", C.XSD_DATETIME)),
            ("ex:lit_str", Literal("s", C.XSD_STRING)),
            ("ex:lit_any", Literal("http://a/b", C.XSD_ANYURI)),
            ("ex:lit_custom", Literal("zzz", EX["customType"])),
            ("ex:lit_untyped", Literal("untyped")),
            ("ex:multi", 1),
            ("ex:multi", 2),
            ("ex:multi", "three"),
            ("prov:type", EX["Thing"]),
            ("prov:type", C.PROV["Plan"]),
            ("prov:location", "here"),
            ("prov:value", 3.25),
        ],
    )
    d.entity("ex:e1", {"ex:again": "second record with same id"})
    d.entity("ex:e1", {"ex:again": "third record with same id"})
    d.entity("e-default")
    a1 = d.activity(
        "ex:a1",
        datetime.datetime(2011, 1, 1, 0, 0, 0),
        "2011-01-02T03:04:05.678+01:00",
        {"prov:type": "ex:edit", "ex:n": 0},
    )
    ag = d.agent("ex:ag", {"prov:type": C.PROV["Person"], "ex:name": "Alïce"})
    d.wasGeneratedBy(e1, a1, time=datetime.datetime(2011, 1, 1, 12, 0, 0))
    d.wasGeneratedBy(e1, a1, identifier="ex:gen1", other_attributes={"ex:k": "v"})
    d.used(a1, "ex:e0")
    d.used(a1, "ex:e0", identifier="ex:u1")
    d.used(a1, "ex:e0", identifier="ex:u1", other_attributes={"prov:role": "r"})
    d.wasAssociatedWith(a1, ag, plan="ex:plan")
    d.wasAssociatedWith(a1, None, plan="ex:plan")
    d.wasAttributedTo(e1, ag)
    d.actedOnBehalfOf(ag, "ex:boss", a1)
    d.wasDerivedFrom("ex:e2", e1, a1, None, None, {"prov:type": C.PROV["Revision"]})
    d.wasInformedBy("ex:a2", a1)
    d.wasStartedBy(a1, "ex:trig", "ex:starter", "2012-01-01T00:00:00")
    d.wasEndedBy(a1, None, None, None)
    d.wasInvalidatedBy(e1, a1, datetime.datetime(2013, 1, 1))
    d.wasInfluencedBy(e1, ag)
    d.alternateOf(e1, "ex:e2")
    d.specializationOf(e1, "ex:e2")
    d.mentionOf("ex:e3", e1, "ex:b1")
    c = d.collection("ex:c1")
    d.hadMember(c, e1)
    d.hadMember(c, "ex:e2")
    d.hadMember("ex:c2", "ex:e3")
    b = d.bundle("ex:b1")
    b.add_namespace("bn", "http://bundle.example/ns#")
    b.entity("bn:x", {"bn:attr": Literal("hi", langtag="en-GB"), "ex:n": 5})
    b.entity("bn:x", {"bn:attr": "dup id in bundle"})
    b.activity("ex:a1")
    b.wasGeneratedBy("bn:x", "ex:a1")
    b.wasGeneratedBy("bn:x", "ex:a1")
    d.bundle("ex:b-empty")
    docs.append(("rich", d))

    return docs


def example_documents():
    return [(name, fn()) for name, fn in examples.tests]


def all_documents():
    return handmade_documents() + example_documents()


def json_fixture_files(step=1):
    files = sorted(glob.glob(os.path.join(JSON_DIR, "*.json")))
    return files[::step]


# NOTE: Identifier.__hash__ involves hash(class), i.e. a memory address, so the
# iteration order of value sets holding Identifier/Literal objects can differ
# from run to run even for identical code.  All digests below are therefore
# taken over a canonical form in which the members of multi-valued attributes
# are sorted; everything else (record order, key order, text) is kept as is.
def _canon_record(rec):
    if not isinstance(rec, dict):
        return rec
    out = {}
    for k, v in rec.items():
        if isinstance(v, list):
            v = sorted(v, key=lambda x: json.dumps(x, sort_keys=True))
        out[k] = v
    return out


def canon_container(c):
    if not isinstance(c, dict):
        return c
    out = {}
    for label, records in c.items():
        if label == "prefix" or not isinstance(records, dict):
            out[label] = records
        elif label == "bundle":
            out[label] = {k: canon_container(v) for k, v in records.items()}
        else:
            out[label] = {
                k: [_canon_record(r) for r in v]
                if isinstance(v, list)
                else _canon_record(v)
                for k, v in records.items()
            }
    return out


def canon_json_text(text, **kw):
    return "rawlen=%d " % len(text) + json.dumps(canon_container(json.loads(text)), **kw)


def to_json(doc, **kw):
    return canon_json_text(doc.serialize(format="json", **kw), **kw)


def raw_json(doc, **kw):
    return doc.serialize(format="json", **kw)


def from_json(text):
    return ProvDocument.deserialize(content=text, format="json")


def _canon_value(v):
    return "%s:%r" % (type(v).__name__, v)


def canon_records(bundle):
    lines = []
    for ns in bundle.get_registered_namespaces():
        lines.append("ns %s=%s" % (ns.prefix, ns.uri))
    dns = bundle.get_default_namespace()
    lines.append("default %s" % (dns.uri if dns else None))
    for rec in bundle.get_records():
        attrs = [
            "%s=%s" % (a, sorted(_canon_value(v) for v in vs))
            for a, vs in rec._attributes.items()
            if vs
        ]
        lines.append(
            "%s id=%r args=%d attrs=%s"
            % (rec.get_type(), rec.identifier, len(rec.args), attrs)
        )
    return lines


def canon_doc(doc):
    lines = canon_records(doc)
    for b in doc.bundles:
        lines.append("bundle %r" % (b.identifier,))
        lines.extend("  " + line for line in canon_records(b))
    provn = doc.get_provn()
    lines.append("provn len=%d lines=%d" % (len(provn), provn.count("\n")))
    return "\n".join(lines)


# ---- refactoring 6: parse_xsd_types, ProvRecord._auto_literal_conversion,
# ---- AnonymousIDGenerator, ProvJSONSerializer.serialize ----
EX = Namespace("ex", "http://example.org/")
OTHER = Namespace("other", "http://other.example/")


def describe(x):
    if isinstance(x, Literal):
        return "Literal(%r, %r, %r)" % (x.value, x.datatype, x.langtag)
    return "%s:%r" % (type(x).__name__, x)


# 1. parse_xsd_types
DATATYPES = [
    ("string", C.XSD_STRING), ("double", C.XSD_DOUBLE), ("long", C.XSD_LONG), ("int", C.XSD_INT),
    ("boolean", C.XSD_BOOLEAN), ("dateTime", C.XSD_DATETIME), ("anyURI", C.XSD_ANYURI),
    ("float", C.XSD_FLOAT), ("integer", C.XSD_INTEGER), ("custom", EX["T"]),
    ("equal-but-other-object", QualifiedName(Namespace("x", "http://www.w3.org/2001/XMLSchema#"), "int")),
    ("str", "xsd:int"), ("none", None), ("identifier", Identifier("http://www.w3.org/2001/XMLSchema#int")),
    ("unhashable", ["xsd:int"]),
]
RAW = ["", "0", "1", "12", "-3", " 7 ", "1.5", "1e3", "nan", "abc", "true", "TRUE", "False", "yes",
       "2012-01-02T03:04:05", "2012-01-02T03:04:05.5+01:00", "not a date", "http://x/y", "ü☃", 5, 2.5, None, True]
for tname, t in DATATYPES:
    for raw in RAW:
        show("parse_xsd_types[%s|%r]" % (tname, raw), lambda: describe(M.parse_xsd_types(raw, t)))

# 2. _auto_literal_conversion
doc = ProvDocument()
doc.add_namespace(EX)
doc.set_default_namespace("http://default/")
bundle = doc.bundle("ex:bundle")
bundle.add_namespace("bn", "http://bn/")
rec_doc = doc.entity("ex:holder")
rec_bundle = bundle.entity("bn:holder")
other_rec = doc.activity("ex:act")
anon_rec = doc.used("ex:act", "ex:holder")


class MyStr(str):
    pass


class Overriding(M.ProvEntity):
    """A subclass overriding the hook: recursion must still go through it."""

    def _auto_literal_conversion(self, literal):
        if isinstance(literal, str):
            return "<<%s>>" % literal
        return super()._auto_literal_conversion(literal)


LITS = [
    ("str", "s"), ("empty", ""), ("mystr", MyStr("sub")), ("int", 3), ("float", 2.5), ("bool", False), ("none", None),
    ("bytes", b"b"), ("list", [1]), ("dt", datetime.datetime(2000, 1, 1)),
    ("qn", EX["q"]), ("qn-foreign", OTHER["q"]), ("qn-bundle-ns", Namespace("bn", "http://bn/")["q"]),
    ("qn-same-uri-other-prefix", Namespace("ex2", "http://example.org/")["q"]),
    ("qn-default", Namespace("", "http://default/")["q"]),
    ("identifier", Identifier("http://example.org/i")),
    ("record", other_rec), ("record-anon", anon_rec),
    ("lit-untyped", Literal("u")), ("lit-untyped-empty", Literal("")), ("lit-lang", Literal("l", langtag="en")),
    ("lit-lang-typed", Literal("l", C.XSD_STRING, "en")), ("lit-lang-empty", Literal("l", langtag="")),
    ("lit-int", Literal("5", C.XSD_INT)), ("lit-int-bad", Literal("five", C.XSD_INT)),
    ("lit-long", Literal("5", C.XSD_LONG)), ("lit-double", Literal("5", C.XSD_DOUBLE)),
    ("lit-bool", Literal("1", C.XSD_BOOLEAN)), ("lit-bool-bad", Literal("2", C.XSD_BOOLEAN)),
    ("lit-dt", Literal("2012-01-02", C.XSD_DATETIME)), ("lit-dt-bad", Literal("zzz", C.XSD_DATETIME)),
    ("lit-uri", Literal("http://u/", C.XSD_ANYURI)), ("lit-string", Literal("s", C.XSD_STRING)),
    ("lit-string-empty", Literal("", C.XSD_STRING)), ("lit-custom", Literal("c", EX["T"])),
    ("lit-float", Literal("1.0", C.XSD_FLOAT)), ("lit-strtype", Literal("c", "xsd:int")),
    ("lit-zero", Literal("0", C.XSD_INT)), ("lit-false", Literal("false", C.XSD_BOOLEAN)),
]
holders = [("doc", rec_doc), ("bundle", rec_bundle), ("overriding", Overriding(doc, EX["ov"]))]
for hname, holder in holders:
    for name, lit in LITS:
        show("auto[%s/%s]" % (hname, name), lambda: describe(holder._auto_literal_conversion(lit)))
for name, lit in LITS:
    try:
        print("auto-same[%s]" % name, rec_doc._auto_literal_conversion(lit) is lit)
    except Exception as e:
        print("auto-same[%s]" % name, type(e).__name__)
# through add_attributes
for hname, holder in holders:
    for name, lit in LITS:
        e = type(holder)(holder.bundle, EX["tmp"])
        show("add[%s/%s]" % (hname, name), lambda: (e.add_attributes([("ex:attr", lit)]), sorted(describe(v) for v in e.get_attribute("ex:attr")))[1])

# 3. AnonymousIDGenerator


class Fmt:
    def __str__(self):
        return "STR"

    def __format__(self, spec):
        return "FORMAT"

    def __repr__(self):
        return "REPR"


g = PJ.AnonymousIDGenerator()
a, b, c = object(), "key", (1, 2)
seq = [(a, "id"), (b, "id"), (a, "id"), (a, "other"), (c, "x-"), (b, ""), (5, None), (6, 7), (7, Fmt()), (8, "%s"), (9, "{}"),
       (10, "ü"), (5, "again"), (11, b"by")]
for obj, prefix in seq:
    show("anon[%r]" % (prefix,), lambda: repr(g.get_anon_id(obj, prefix)))
show("anon-default-prefix", lambda: repr(g.get_anon_id("fresh")))
show("anon-identity", lambda: g.get_anon_id(a) is g.get_anon_id(a, "zzz"))
show("anon-unhashable", lambda: g.get_anon_id([1]))
show("anon-after-unhashable", lambda: repr(g.get_anon_id("next")))
show("anon-public-attrs", lambda: sorted(n for n in dir(g) if not n.startswith("_")))
g2 = PJ.AnonymousIDGenerator()
show("anon-independent", lambda: repr(g2.get_anon_id("k")))

# 4. ProvJSONSerializer.serialize / deserialize with several kinds of streams


class Collect:
    def __init__(self):
        self.chunks = []

    def write(self, data):
        self.chunks.append(data)


class Failing:
    def write(self, data):
        raise IOError("disk full")


for name, d in all_documents():
    ser = PJ.ProvJSONSerializer(d)
    t = io.StringIO(); ser.serialize(t)
    bio = io.BytesIO(); ser.serialize(bio)
    col = Collect(); ser.serialize(col, indent=2)
    print("serialize[%s]" % name, "text/bytes equal:", t.getvalue().encode("utf-8") == bio.getvalue(),
          "chunks:", [type(x).__name__ for x in col.chunks], canon_json_text(t.getvalue())[:60],
          sha(canon_json_text(t.getvalue())), sha(canon_json_text(col.chunks[0].decode("utf-8"), indent=2)))
    show("serialize-failing-stream[%s]" % name, lambda: ser.serialize(Failing()))
    show("serialize-bad-kwarg[%s]" % name, lambda: ser.serialize(io.StringIO(), nonsense=1))
    show("serialize-closed-stream[%s]" % name, lambda: (t.close(), ser.serialize(t))[1])
    show("serialize-ascii[%s]" % name, lambda: to_json(d, ensure_ascii=False, indent=1))
    show("roundtrip[%s]" % name, lambda: canon_doc(PJ.ProvJSONSerializer().deserialize(io.BytesIO(bio.getvalue()))))
    show("anon-ids[%s]" % name, lambda: sorted(k for recs in PJ.encode_json_container(d).values() for k in recs if k.startswith("_:")))
show("serialize-no-document", lambda: PJ.ProvJSONSerializer().serialize(io.StringIO()))
