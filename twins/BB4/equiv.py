"""Differential script for change 4 (f-strings / class statement / literal dict /
conditional expression in prov.identifier)."""
import os
import sys

if os.environ.get("PYTHONHASHSEED") != "0":
    os.environ["PYTHONHASHSEED"] = "0"
    os.execv(sys.executable, [sys.executable] + sys.argv)

import copy
import hashlib
import pickle

from prov.identifier import Identifier, Namespace, QualifiedName
from prov.model import ProvDocument

OUT = []


def emit(*parts):
    OUT.append(" | ".join(str(p) for p in parts))


def attempt(label, fn):
    try:
        r = fn()
    except BaseException as e:  # noqa
        emit(label, "EXC", type(e).__name__, e)
        return None
    emit(label, type(r).__name__, r if isinstance(r, str) else repr(r))
    return r


class FancyStr(str):
    """A str subclass with its own __str__ / __format__ / __repr__."""

    def __str__(self):
        return "STR<" + str.__str__(self) + ">"

    def __format__(self, spec):
        return "FORMAT<" + str.__str__(self) + ">"

    def __repr__(self):
        return "REPR<" + str.__str__(self) + ">"


class Stringy:
    def __init__(self, v):
        self.v = v

    def __str__(self):
        return "stringy-" + self.v

    def __format__(self, spec):
        return "formatted-" + self.v

    def __repr__(self):
        return "repr-" + self.v

    def isspace(self):
        return False


class MyId(Identifier):
    pass


class MyQN(QualifiedName):
    pass


class MyNS(Namespace):
    pass


def show_obj(label, o):
    attempt(label + " repr", lambda: repr(o))
    attempt(label + " str", lambda: str(o))
    attempt(label + " ascii", lambda: ascii(o))
    attempt(label + " %r", lambda: "%r and %s" % (o, o))
    attempt(label + " format", lambda: "{0!r} {0!s} {0}".format(o))
    if hasattr(o, "provn_representation"):
        attempt(label + " provn", lambda: o.provn_representation())


URIS = [
    "http://example.org/",
    "http://example.org/é/中文#",
    "urn:with%percent%%s%d",
    "urn:{braces}{{double}}{0}{uri}",
    "urn:'quotes'\"double\"\\backslash",
    "urn:new\nline\ttab",
    "%s",
    "{",
    "}",
    " leading space",
    FancyStr("urn:fancy#"),
]

# ------------------------------------------------------------------ Identifier
for u in URIS + ["", None, 5, 3.5, ("t", "u"), b"bytes", Stringy("id"), Identifier("urn:nested")]:
    for cls in (Identifier, MyId):
        o = attempt("%s(%r)" % (cls.__name__, u), lambda: cls(u))
        if o is not None:
            show_obj("  %s(%r)" % (cls.__name__, u), o)
            emit("  uri type", type(o.uri).__name__, repr(o.uri))

# ------------------------------------------------------------------ Namespace
PREFIXES = ["ex", "", None, "ü", "%s", "{p}", "{", "}}", "a b", 5, ("t",), FancyStr("fp"), Stringy("pre")]
namespaces = []
for p in PREFIXES:
    for u in URIS[:5] + [FancyStr("urn:fancy#"), Stringy("uri")]:
        for cls in (Namespace, MyNS):
            ns = attempt("%s(%r,%r)" % (cls.__name__, p, u), lambda: cls(p, u))
            if ns is not None:
                show_obj("  ns", ns)
                emit("  cache", type(ns._cache).__name__, ns._cache)
                namespaces.append(ns)
for bad in ("", "   ", None, 0, 5):
    attempt("Namespace bad uri %r" % (bad,), lambda: Namespace("p", bad))

# ------------------------------------------------------------------ QualifiedName
LOCALS = ["a", "", "é中文", "%s%d%%", "{x}{{y}}{0}", "it's \"q\"", "a:b", " sp ", FancyStr("fl"), 5, None, Stringy("lp")]
for ns in namespaces[::3]:
    for lp in LOCALS:
        for how in ("getitem", "ctor", "sub"):
            lab = "qn %s %r[%r]" % (how, ns, lp)
            q = attempt(lab, lambda: ns[lp] if how == "getitem" else (QualifiedName(ns, lp) if how == "ctor" else MyQN(ns, lp)))
            if q is not None:
                show_obj("  qn", q)
                emit("  parts", type(q.localpart).__name__, repr(q.localpart), repr(q.uri), q.namespace is ns)

# ------------------------------------------------------------------ Namespace.qname / contains
ex = Namespace("ex", "http://example.org/")
br = Namespace("{b}", "urn:{braces}")
for ns in (ex, br, Namespace("", "urn:d#"), Namespace(None, "urn:d#")):
    for ident in [
        "http://example.org/", "http://example.org/abc", "http://example.org", "http://example.org/é %s {x}",
        "urn:{braces}{rest}", "urn:d#", "urn:d#x", "", None, 0, 5, b"http://example.org/x", ["http://example.org/x"],
        Identifier("http://example.org/id"), Identifier("urn:other"), Identifier(""), ex["q"], br["q"],
        MyId("http://example.org/sub"), FancyStr("http://example.org/fancy"),
    ]:
        q = attempt("qname %r <- %r" % (ns, ident), lambda: ns.qname(ident))
        if q is not None:
            show_obj("  qname", q)
            emit("  fresh object", q is not ns.qname(ident), q.namespace is ns, type(q).__name__)
        attempt("contains %r <- %r" % (ns, ident), lambda: ns.contains(ident))

# ------------------------------------------------------------------ class layout, equality, hashing, copying
for cls in (Identifier, QualifiedName, Namespace):
    emit(cls.__name__, "bases", cls.__bases__, "mro", [c.__name__ for c in cls.__mro__], "dict?", hasattr({Identifier: Identifier("a"), QualifiedName: ex["a"], Namespace: ex}[cls], "__dict__"),
         "slots", getattr(cls, "__slots__", None), "type", type(cls).__name__, "qualname", cls.__qualname__, "module", cls.__module__)
q = ex["pick"]
for o in (Identifier("urn:x"), q, ex):
    c1, c2, c3 = copy.copy(o), copy.deepcopy(o), pickle.loads(pickle.dumps(o))
    emit("copies", repr(o), repr(c1), repr(c2), repr(c3), o == c1 == c2 == c3, len({o, c1, c2, c3}), sorted(vars(o)))
emit("eq", Identifier("http://example.org/a") == ex["a"], ex["a"] == Identifier("http://example.org/a"), ex["a"] == "http://example.org/a",
     ex == Namespace("ex", "http://example.org/"), ex != Namespace("ex", "http://example.org/"), ex == "ex", ex != 5,
     len({Identifier("http://example.org/a"), ex["a"]}), len({ex, Namespace("ex", "http://example.org/")}))

# ------------------------------------------------------------------ in documents
doc = ProvDocument()
doc.add_namespace(ex)
doc.add_namespace("ü", "http://ü.example/é#")
doc.set_default_namespace("urn:d#")
doc.entity("ex:e1", {"ex:uri": Identifier("urn:with%percent{brace}"), "ü:q": ex["value%s{x}"], "ex:s": "plain é"})
doc.entity("ex:e1", {"ex:uri": Identifier("http://example.org/é")})
doc.entity("dflt")
b = doc.bundle("ex:b")
b.entity(Namespace("", "urn:other-default#")["x"])
b.entity("ü:é")
attempt("doc provn", lambda: doc.get_provn())
attempt("doc json", lambda: doc.serialize(format="json", indent=1))
attempt("doc repr", lambda: repr(doc.get_records()) + repr(sorted(doc.namespaces, key=repr)) + repr(b))
for rec in list(doc.get_records()) + list(b.get_records()):
    emit("rec", repr(rec.identifier), rec.identifier.provn_representation(), [(repr(k), repr(v)) for k, v in rec.attributes])

text = "\n".join(OUT)
print(text)
print("DIGEST", hashlib.sha256(text.encode("utf-8", "backslashreplace")).hexdigest())
