"""Differential script for change 1 (encode_container: compute
record.formal_attributes / record.extra_attributes once per record).

Encodes every corpus document with ProvRDFSerializer.encode_document /
encode_container and prints a digest of the resulting quads, of the N-Triples /
TriG text written by serialize(), and of the state of the documents afterwards
(encoding must not modify the records).
"""
import io
import itertools
import os
import sys

sys.path.insert(0, os.path.join(os.path.dirname(os.path.abspath(__file__)), ".."))
import corpus

corpus.reexec()

import rdflib
from rdflib.term import BNode as RealBNode

import prov.model as pm
import prov.serializers.provrdf as provrdf
from prov.constants import PROV_N_MAP

_counter = itertools.count(1)


class _Meta(type(RealBNode)):
    def __instancecheck__(cls, inst):
        return isinstance(inst, RealBNode)


class DetBNode(RealBNode, metaclass=_Meta):
    """Blank nodes with predictable labels (the library calls BNode())."""

    def __new__(cls, value=None):
        if value is None:
            value = "det%d" % next(_counter)
        return RealBNode.__new__(RealBNode, value)


provrdf.BNode = DetBNode


def quads_text(container):
    lines = []
    for s, p, o, ctx in container.quads():
        cid = ctx.identifier if hasattr(ctx, "identifier") else ctx
        c = cid.n3() if isinstance(cid, rdflib.URIRef) else "<default>"
        lines.append(" ".join((s.n3(), p.n3(), o.n3(), c)))
    lines.sort()
    ns = sorted("%s=%s" % (p, u) for p, u in container.namespaces())
    return "\n".join(lines + ["--ns--"] + ns)


doc_state = corpus.doc_state


def run(name, doc):
    global _counter
    res = []
    owner = doc if not doc.is_bundle() else doc.document
    ser = provrdf.ProvRDFSerializer(owner)
    before = doc_state(doc)

    _counter = itertools.count(1)
    try:
        if doc.is_bundle():
            container = ser.encode_container(doc, identifier=doc.identifier.uri)
        else:
            container = ser.encode_document(doc)
        res.append("quads " + corpus.digest(quads_text(container)))
    except Exception as e:
        res.append("quads EXC %s %s" % (type(e).__name__, e))

    # encode_container into a caller-supplied container + explicit PROV_N_MAP
    _counter = itertools.count(1)
    try:
        g = rdflib.ConjunctiveGraph(identifier=rdflib.URIRef("http://ctx.example/g"))
        ret = ser.encode_container(doc, PROV_N_MAP=dict(PROV_N_MAP), container=g)
        res.append("into %s %s" % (ret is g, corpus.digest(quads_text(g))))
    except Exception as e:
        res.append("into EXC %s %s" % (type(e).__name__, e))

    # a PROV_N_MAP without any relation: KeyError for relations, and the
    # triples added to the caller's container before the error are observable
    _counter = itertools.count(1)
    g = rdflib.ConjunctiveGraph(identifier=rdflib.URIRef("http://ctx.example/g"))
    try:
        ser.encode_container(doc, PROV_N_MAP={}, container=g)
        res.append("nomap ok " + corpus.digest(quads_text(g)))
    except Exception as e:
        res.append(
            "nomap EXC %s %s %s" % (type(e).__name__, e, corpus.digest(quads_text(g)))
        )

    if not doc.is_bundle():
        for fmt in ("nt", "trig"):
            _counter = itertools.count(1)
            try:
                buf = io.BytesIO()
                ser.serialize(buf, rdf_format=fmt)
                text = buf.getvalue().decode("utf-8")
                if fmt == "nt":
                    text = "\n".join(sorted(text.splitlines()))
                    res.append("nt " + corpus.digest(text))
                else:
                    # TriG text of a graph with a random default-graph id is
                    # only compared by size class: parse it back instead
                    back = rdflib.ConjunctiveGraph()
                    back.parse(data=text, format="trig")
                    res.append("trig triples=%d" % len(back))
            except Exception as e:
                res.append("%s EXC %s %s" % (fmt, type(e).__name__, e))

    after = doc_state(doc)
    res.append("unchanged=%s state %s" % (before == after, corpus.digest(after)))
    print(name)
    for r in res:
        print("   ", r)


def extra_documents():
    out = []
    # relation with two values for a formal attribute is impossible through the
    # API, but extra attributes repeated / relations with only one end are not
    d = pm.ProvDocument()
    d.add_namespace("ex", "http://example.org/")
    d.wasGeneratedBy("ex:e", None, None, "ex:g1")
    d.wasGeneratedBy("ex:e", None, None, None, {"ex:k": "v"})
    d.used(None, "ex:e", None, "ex:u1")
    d.wasDerivedFrom("ex:e2", "ex:e", None, None, None, None, {"prov:type": pm.PROV["PrimarySource"]})
    d.wasDerivedFrom("ex:e2", "ex:e", None, None, None, "ex:d", {"prov:type": pm.PROV["Revision"], "ex:t": pm.PROV["Quotation"]})
    d.mentionOf("ex:e2", "ex:e", None)
    d.mentionOf("ex:e2", "ex:e", "ex:b")
    d.alternateOf("ex:e2", "ex:e")
    d.actedOnBehalfOf("ex:ag1", "ex:ag2", "ex:act", "ex:del", {"prov:role": "r"})
    d.wasStartedBy("ex:act", "ex:e", "ex:starter", None, "ex:s", {"prov:location": "loc"})
    d.wasEndedBy("ex:act", "ex:e", "ex:ender")
    d.activity("ex:act", "2011-11-16T16:05:00", "2011-11-16T16:06:00", {"prov:label": "α"})
    out.append(("x:odd-relations", d))
    return out


def main():
    docs = corpus.all_documents() + extra_documents()
    for name, doc in docs:
        if doc is None:
            print(name, "BUILD-FAILED")
            continue
        run(name, doc)


main()
