"""Differential script for prov.dot: prints a deterministic digest of DOT output."""
import os
import sys

if os.environ.get("PYTHONHASHSEED") != "0":
    os.environ["PYTHONHASHSEED"] = "0"
    os.execv(sys.executable, [sys.executable] + sys.argv)

import datetime
import hashlib
import itertools

from prov.model import ProvDocument, Identifier, Literal, Namespace, PROV
from prov.dot import prov_to_dot, _quoted, htlm_link_if_uri
from prov.tests import examples

EX = Namespace("ex", "http://example.org/")


def custom_doc():
    d = ProvDocument()
    d.add_namespace(EX)
    d.add_namespace("odd", "http://example.org/odd?x=1&y=<2>#")
    e1 = d.entity(
        "ex:e1",
        {
            "prov:label": "entity <one> & \"co\"",
            "ex:when": datetime.datetime(2012, 3, 4, 5, 6, 7, 890),
            "ex:link": Identifier("http://example.org/a?b=1&c=2"),
            "ex:qn": EX["tar<get>"],
            "ex:empty": "",
            "ex:num": 5,
            "ex:float": 1.5,
            "ex:lang": Literal("bonjour", langtag="fr"),
            "odd:k\\ey": 'back\\slash "quoted"',
            "prov:type": EX["Thing"],
        },
    )
    # repeated identifier: same entity declared twice with different attributes
    d.entity("ex:e1", {"ex:num": 6, "ex:num2": 5})
    d.entity("ex:e2")
    d.entity("ex:e3", {"prov:label": "ex:e3"})
    a1 = d.activity(
        "ex:a1",
        datetime.datetime(2011, 1, 1),
        None,
        {"prov:label": "activité ☃", "ex:x": "y"},
    )
    ag = d.agent("ex:ag", {"prov:type": PROV["Person"], "ex:name": "A&B"})
    d.wasGeneratedBy(e1, a1, datetime.datetime(2011, 1, 2), "ex:g1", {"ex:how": "<fast>"})
    d.wasGeneratedBy("ex:e2", None, None)
    d.used(a1, "ex:unknownEntity", None, None, {"prov:role": "input"})
    d.wasDerivedFrom("ex:e2", e1, a1, "ex:g1", "ex:u1", None, {"prov:type": PROV["Revision"]})
    d.wasDerivedFrom("ex:e3", "ex:e2")
    d.wasAssociatedWith(a1, ag, "ex:plan", None, {"prov:role": "operator"})
    d.wasAssociatedWith(a1, None, "ex:plan2")
    d.actedOnBehalfOf("ex:ag2", ag, a1)
    d.wasStartedBy(a1, "ex:trigger", "ex:starter", datetime.datetime(2011, 1, 1, 1))
    d.wasEndedBy(a1, None, None, None)
    d.specializationOf("ex:e3", e1)
    d.alternateOf("ex:e3", "ex:e2")
    d.mentionOf("ex:e3", "ex:e2", "ex:b1")
    d.hadMember("ex:coll", e1)
    d.wasInfluencedBy("ex:e3", ag, None, {"ex:why": Identifier("urn:x:<y>")})
    b1 = d.bundle("ex:b1")
    b1.entity("ex:e1", {"ex:inbundle": True})
    b1.activity("ex:ba")
    b1.wasGeneratedBy("ex:e1", "ex:ba", None, None, {"ex:k": EX["v"]})
    b2 = d.bundle("ex:b2")
    b2.wasAttributedTo("ex:nobody", "ex:noone")
    d.bundle("ex:emptybundle")
    return d


def digest(text):
    return hashlib.sha256(text.encode("utf-8")).hexdigest()


docs = [("custom", custom_doc()), ("empty", ProvDocument())]
docs += [(name, fn()) for name, fn in examples.tests]
docs.append(("primer_alt", examples.primer_example_alternate()))
custom = docs[0][1]
docs.append(("custom-bundle-b1", list(custom.bundles)[0]))

for name, doc in docs:
    for show_nary, use_labels, sea, sra in itertools.product([True, False], repeat=4):
        for direction in ("BT", "LR", "bogus"):
            if direction != "BT" and not (show_nary and sea and sra):
                continue
            dot = prov_to_dot(
                doc,
                show_nary=show_nary,
                use_labels=use_labels,
                direction=direction,
                show_element_attributes=sea,
                show_relation_attributes=sra,
            )
            text = dot.to_string()
            print(
                name, int(show_nary), int(use_labels), int(sea), int(sra), direction,
                len(text), digest(text),
            )

print("---- full text of custom document (defaults)")
print(prov_to_dot(custom).to_string())
print("---- full text of custom document (labels, no nary)")
print(prov_to_dot(custom, show_nary=False, use_labels=True, direction="RL").to_string())

print("---- helpers")
for v in ["", "plain", 'a"b', "back\\slash", 5, None, EX["x"], Identifier("http://x/\"q\"")]:
    print(repr(_quoted(v)), repr(htlm_link_if_uri(v)))
