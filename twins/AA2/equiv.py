# Differential script for refactoring 2 (consistent renames in provjson.py).
import io
import json
import logging
import os
import sys

sys.path.insert(0, os.path.dirname(os.path.abspath(__file__)))
import corpus  # noqa: E402
from prov.serializers import provjson  # noqa: E402
from prov.model import ProvDocument, ProvBundle, Literal, Identifier  # noqa: E402
from prov.constants import XSD_INT, XSD_STRING, PROV  # noqa: E402

logging.basicConfig(stream=sys.stdout, format="LOG %(levelname)s %(name)s %(message)s")


def show(tag, text):
    print("== %s  sha=%s len=%d" % (tag, corpus.digest(text), len(text)))
    print(text)


# AnonymousIDGenerator: only public behaviour (returned ids, caching, prefix)
g = provjson.AnonymousIDGenerator()
objs = ["a", "b", "a", ("t", 1), 5, "b"]
print([repr(g.get_anon_id(o)) for o in objs])
print(repr(g.get_anon_id("new", local_prefix="b")), repr(g.get_anon_id("a", local_prefix="zz")))
print(corpus.attempt(g.get_anon_id, []))
print(sorted(k for k in vars(g) if not k.startswith("_")))

# valid_qualified_name
b = ProvDocument()
b.add_namespace("ex", "http://example.org/")
for v in [None, "ex:x", "unknown:x", "nolocal", "", Identifier("http://example.org/y"), b.valid_qualified_name("ex:q")]:
    print("vqn", repr(v), corpus.attempt(provjson.valid_qualified_name, b, v))

# decode_json_representation / literal_json_representation
b.set_default_namespace("http://d/")
for lit in [1, "s", None, True, 2.5, [1, 2],
            {"$": "5", "type": "xsd:int"}, {"$": 5, "type": "xsd:int"},
            {"$": "x", "lang": "en"}, {"$": "x", "lang": "en", "type": "xsd:string"},
            {"$": "http://u/", "type": "xsd:anyURI"},
            {"$": "ex:q", "type": "prov:QUALIFIED_NAME"},
            {"$": "bad:q", "type": "prov:QUALIFIED_NAME"},
            {"$": "untyped"}, {"$": "x", "type": "zz:unknown"}, {"type": "xsd:int"}, {},
            {"$": "x", "type": None}, {"$": "", "lang": ""}]:
    r = corpus.attempt(provjson.decode_json_representation, lit, b)
    if r[0] == "ok":
        r = ("ok", type(r[1]).__name__, repr(r[1]))
    print("djr", json.dumps(lit), r)
for lit in [Literal("a", XSD_STRING), Literal("5", XSD_INT), Literal("x", langtag="fr"),
            Literal("x", PROV["InternationalizedString"], "en"), Literal("plain"),
            Literal(5), Literal("", langtag="")]:
    print("ljr", repr(lit), provjson.literal_json_representation(lit))

# whole pipeline: encode_json_document, decode_json_document, decoder class
for name, make in corpus.DOCS:
    d = make()
    text = d.serialize(format="json", indent=1)
    show("serialize " + name, text)
    show("doc_json " + name, json.dumps(provjson.encode_json_document(d), ensure_ascii=False))
    d2 = ProvDocument.deserialize(content=text, format="json")
    show("roundtrip " + name, corpus.describe_doc(d2))
    print("equal:", d == d2)
    d3 = json.loads(text, cls=provjson.ProvJSONDecoder)
    print("decoder equal:", d3 == d2, type(d3).__name__)

for name, text in corpus.JSON_INPUTS.items():
    r = corpus.attempt(ProvDocument.deserialize, content=text, format="json")
    if r[0] == "ok":
        show("input " + name, corpus.describe_doc(r[1]))
        show("input-reser " + name, r[1].serialize(format="json"))
    else:
        print("input", name, r)
    # decode_json_document mutates the content it is given ("bundle"/"prefix" removed)
    content = json.loads(text)
    doc = ProvDocument()
    r = corpus.attempt(provjson.decode_json_document, content, doc)
    print("ddoc", name, r[0] if r[0] == "ok" else r, json.dumps(content))
