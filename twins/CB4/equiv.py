"""Differential script: ProvDocument.serialize to None / streams / paths / URLs.

Records the bytes that end up at the destination, what is left in the
temporary directory, what is printed, and the exceptions, for all formats and
for serializers that fail before, while and after writing.
"""
import os
import sys

if os.environ.get("PYTHONHASHSEED") != "0":
    os.environ["PYTHONHASHSEED"] = "0"
    os.execv(sys.executable, [sys.executable] + sys.argv)

import contextlib
import datetime
import gc
import hashlib
import io
import logging
import re
import shutil
import tempfile
import warnings

logging.disable(logging.CRITICAL)
warnings.simplefilter("ignore")

import prov
from prov.model import ProvDocument, Literal, XSD_INT
from prov.serializers import Registry, Serializer

BASE = "/tmp/twin7/out/CB/equiv_tmp4"
if os.path.isdir(BASE):
    shutil.rmtree(BASE)
os.mkdir(BASE)
TMP = os.path.join(BASE, "tmp")
DST = os.path.join(BASE, "dst")
os.mkdir(TMP)
os.mkdir(DST)
tempfile.tempdir = TMP
os.chdir(DST)

out = []


def emit(*parts):
    out.append(" | ".join(str(p) for p in parts))


NORMALISE = False


def h(data):
    if isinstance(data, str):
        data = data.encode("utf-8")
    if NORMALISE:
        # rdflib prints the statements of a graph in an order that depends on
        # object addresses: compare the sorted lines
        data = b"\n".join(sorted(data.split(b"\n")))
    return "%d:%s" % (len(data), hashlib.sha256(data).hexdigest()[:16])


def make_docs():
    docs = {}
    docs["empty"] = ProvDocument()
    d = ProvDocument()
    d.add_namespace("ex", "http://example.org/")
    d.set_default_namespace("http://default.example/")
    e = d.entity("ex:e", {"ex:k": "café 中文", "ex:n": 5, "ex:empty": "",
                          "prov:label": Literal("bonjour", langtag="fr"),
                          "ex:t": datetime.datetime(2012, 1, 2, 3, 4, 5)})
    d.entity("plain")
    a = d.activity("ex:a", "2012-01-02T03:04:05", None, {"prov:type": "ex:Thing"})
    d.wasGeneratedBy(e, a, None, "ex:g", {"ex:k": Literal("7", XSD_INT)})
    d.wasGeneratedBy(e, a)
    d.wasGeneratedBy(e, a)
    b = d.bundle("ex:b")
    b.add_namespace("in", "http://inner/")
    b.entity("in:e", {"in:k": "v"})
    b.entity("ex:e")
    d.bundle("ex:b2")
    docs["full"] = d
    return docs


def snapshot_tmp():
    gc.collect()
    res = []
    for n in sorted(os.listdir(TMP)):
        with open(os.path.join(TMP, n), "rb") as f:
            res.append(h(f.read()))
    return sorted(res)


def clear_tmp():
    for n in os.listdir(TMP):
        os.remove(os.path.join(TMP, n))


def listing():
    res = []
    for root, dirs, files in os.walk(DST):
        dirs.sort()
        for n in sorted(files):
            p = os.path.join(root, n)
            with open(p, "rb") as f:
                # a file moved INTO an existing directory keeps its random
                # temporary name: normalise it
                rel = re.sub(r"(^|/)tmp[a-z0-9_]{8}$", r"\1tmpXXXXXXXX", os.path.relpath(p, DST))
                res.append((rel, h(f.read()), oct(os.stat(p).st_mode & 0o777)))
    return sorted(res)


def reset_dst():
    os.chdir(BASE)
    shutil.rmtree(DST)
    os.mkdir(DST)
    os.chdir(DST)


def attempt(label, doc, destination, fmt, **kw):
    global NORMALISE
    NORMALISE = fmt == "rdf"
    buf = io.StringIO()
    try:
        with contextlib.redirect_stdout(buf):
            res = doc.serialize(destination, format=fmt, **kw)
        r = "-> %r" % (res if res is None else h(res),)
    except BaseException as e:  # noqa
        r = "EXC %s: %s" % (type(e).__name__, str(e).replace("\n", "\\n")[:300])
        del e
    emit(label, fmt, sorted(kw), r, "printed=%r" % buf.getvalue())
    emit("    dst", listing())
    emit("    tmp", snapshot_tmp())
    clear_tmp()


docs = make_docs()
FORMATS = [("json", {}), ("json", {"indent": 2}), ("xml", {}), ("xml", {"force_types": True}),
           ("provn", {}), ("rdf", {}), ("rdf", {"rdf_format": "turtle"})]

for dname in sorted(docs):
    doc = docs[dname]
    for fmt, kw in FORMATS:
        # to a string and to streams
        attempt(dname + "/none", doc, None, fmt, **kw)
        for mk in (io.BytesIO, io.StringIO):
            s = mk()
            attempt(dname + "/" + mk.__name__, doc, s, fmt, **kw)
            emit("    stream", s.closed, None if s.closed else h(s.getvalue()))
        with open(os.path.join(DST, "opened.bin"), "wb") as f:
            attempt(dname + "/binfile", doc, f, fmt, **kw)
            emit("    closed", f.closed)
        with open(os.path.join(DST, "opened.txt"), "w", encoding="utf-8") as f:
            attempt(dname + "/textfile", doc, f, fmt, **kw)
            emit("    closed", f.closed)
        reset_dst()
        # to locations
        os.mkdir(os.path.join(DST, "sub"))
        os.mkdir(os.path.join(DST, "a dir"))
        with open(os.path.join(DST, "existing.out"), "wb") as f:
            f.write(b"old content that is longer than anything" * 200)
        os.chmod(os.path.join(DST, "existing.out"), 0o644)
        for loc in (
            "rel.out",
            "sub/rel.out",
            "./a dir/with space.out",
            os.path.join(DST, "abs.out"),
            "existing.out",
            "odd#name?x;y.out",
            "café-中.out",
            "%41percent.out",
            "file:" + os.path.join(DST, "url1.out"),
            "file://" + os.path.join(DST, "url2.out"),
            "file://" + os.path.join(DST, "url%20space.out"),
            "file://" + os.path.join(DST, "url3.out") + "#frag",
            "file://localhost" + os.path.join(DST, "url4.out"),
            "http://example.org/x.out",
            "//host/share/x.out",
            "missing_dir/x.out",
            "sub",
            "",
        ):
            attempt(dname + "/loc " + loc.replace(DST, "<DST>"), doc, loc, fmt, **kw)
        reset_dst()
    # objects that are neither a stream nor a str
    for dest in (b"bytes.out", 5, 0):
        attempt(dname + "/odd %r" % (dest,), doc, dest, "json")
    try:
        import pathlib

        attempt(dname + "/pathlib", doc, pathlib.Path("pl.out"), "json")
    except Exception as e:  # noqa
        emit("pathlib failed", type(e).__name__)
    reset_dst()
    # failures: unknown format, bad keyword (fails before anything is written)
    attempt(dname + "/unknown-format", doc, "x.out", "nope")
    attempt(dname + "/bad-kw", doc, "x.out", "json", nonsense=1)
    attempt(dname + "/bad-kw-stream", doc, io.BytesIO(), "json", nonsense=1)
    attempt(dname + "/bad-kw-none", doc, None, "json", nonsense=1)
    attempt(dname + "/bad-kw-xml", doc, "x.out", "xml", nonsense=1)
    reset_dst()


# serializers that misbehave in different ways
class FailFirst(Serializer):
    def serialize(self, stream, **kw):
        raise RuntimeError("fail before writing")


class FailMid(Serializer):
    def serialize(self, stream, **kw):
        stream.write(b"partial \xc3\xa9")
        raise RuntimeError("fail after a partial write")


class FailMidFlushed(Serializer):
    def serialize(self, stream, **kw):
        stream.write(b"x" * 100000)
        stream.flush()
        stream.write(b"tail")
        raise KeyboardInterrupt("interrupted")


class Closes(Serializer):
    def serialize(self, stream, **kw):
        stream.write(b"closed by serializer")
        stream.close()


class Big(Serializer):
    def serialize(self, stream, **kw):
        for i in range(2000):
            stream.write(b"%d line \xe4\xb8\xad\n" % i)


class WritesText(Serializer):
    def serialize(self, stream, **kw):
        stream.write("text into a binary file")


class Keeps(Serializer):
    kept = []

    def serialize(self, stream, **kw):
        stream.write(b"kept")
        Keeps.kept.append(stream)


Registry.load_serializers()
for cls in (FailFirst, FailMid, FailMidFlushed, Closes, Big, WritesText, Keeps):
    Registry.serializers[cls.__name__] = cls
    for dest in ("custom.out", "file://" + os.path.join(DST, "customurl.out"), "missing/custom.out", None):
        attempt("custom/%s" % (dest and dest.replace(DST, "<DST>")), docs["full"], dest, cls.__name__)
    s = io.BytesIO()
    attempt("custom/stream", docs["full"], s, cls.__name__)
    emit("    stream", s.closed, None if s.closed else h(s.getvalue()))
    reset_dst()
emit("kept streams closed", [s.closed for s in Keeps.kept])

# writing then reading back gives the same document
os.chdir(DST)
NORMALISE = True
for fmt in ("json", "xml", "rdf"):
    docs["full"].serialize("rt." + fmt, format=fmt)
    back = ProvDocument.deserialize("rt." + fmt, format=fmt)
    emit("roundtrip", fmt, back == docs["full"], h(back.get_provn()))
    back2 = prov.read("rt." + fmt)
    emit("roundtrip-read", fmt, back2 == docs["full"])
emit("    tmp", snapshot_tmp())

os.chdir("/tmp/twin7/CB")
shutil.rmtree(BASE)
print("\n".join(out).replace(BASE, "<BASE>"))
print("TOTAL", len(out), hashlib.sha256("\n".join(out).encode("utf-8")).hexdigest())
