# Differential script for refactoring 3: ProvRDFSerializer.decode_rdf_representation
import io, os, sys
sys.path.insert(0, os.path.join(os.path.dirname(os.path.abspath(__file__)), ".."))
from harness import *
from rdflib.term import URIRef, BNode, Literal as RDFLiteral
from rdflib.graph import ConjunctiveGraph, Graph
from rdflib.namespace import XSD, RDF
from prov.serializers.provrdf import ProvRDFSerializer


def show(v):
    if isinstance(v, pm.Literal):
        return "pm.Literal(value=%r/%s, datatype=%r, langtag=%r)" % (v.value, type(v.value).__name__, v.datatype, v.langtag)
    if isinstance(v, pm.QualifiedName):
        return "QName(ns=%s|%s, local=%r)" % (v.namespace.prefix, v.namespace.uri, v.localpart)
    return "%s(%r)" % (type(v).__name__, v)


def fresh():
    doc = ProvDocument()
    doc.add_namespace("ex", "http://example.org/")
    ser = ProvRDFSerializer(doc)
    g = ConjunctiveGraph()
    g.bind("kn", "http://known.example/ns#")
    return doc, ser, g


lits = [
    RDFLiteral("plain"), RDFLiteral(""), RDFLiteral("bonjour", lang="fr"), RDFLiteral("", lang="en"),
    RDFLiteral("abc", datatype=XSD.string), RDFLiteral("", datatype=XSD.string),
    RDFLiteral("5", datatype=XSD.int), RDFLiteral("notanint", datatype=XSD.int), RDFLiteral("0", datatype=XSD.integer),
    RDFLiteral("1.5", datatype=XSD.double), RDFLiteral("1.0", datatype=XSD.float), RDFLiteral("2.50", datatype=XSD.decimal),
    RDFLiteral("true", datatype=XSD.boolean), RDFLiteral("false", datatype=XSD.boolean),
    RDFLiteral("ex:q", datatype=XSD.QName), RDFLiteral("", datatype=XSD.QName),
    RDFLiteral("2012-03-04T05:06:07.000008+01:00", datatype=XSD.dateTime), RDFLiteral("2012-03-04T05:06:07", datatype=XSD.dateTime),
    RDFLiteral("garbage", datatype=XSD.dateTime), RDFLiteral("", datatype=XSD.dateTime),
    RDFLiteral("2002", datatype=XSD.gYear), RDFLiteral("0099", datatype=XSD.gYear), RDFLiteral("xx", datatype=XSD.gYear),
    RDFLiteral("2002-05", datatype=XSD.gYearMonth), RDFLiteral("2002-12", datatype=XSD.gYearMonth), RDFLiteral("0987-01", datatype=XSD.gYearMonth), RDFLiteral("zz", datatype=XSD.gYearMonth),
    RDFLiteral("--05", datatype=XSD.gMonth), RDFLiteral("---31", datatype=XSD.gDay), RDFLiteral("--12-25", datatype=XSD.gMonthDay),
    RDFLiteral("2012-03-04", datatype=XSD.date), RDFLiteral("05:06:07", datatype=XSD.time),
    RDFLiteral("aGVsbG8=", datatype=XSD.base64Binary), RDFLiteral("", datatype=XSD.base64Binary), RDFLiteral("!!!", datatype=XSD.base64Binary),
    RDFLiteral("68656c6c6f", datatype=XSD.hexBinary),
    RDFLiteral("<a>b</a>", datatype=RDF.XMLLiteral), RDFLiteral("<a><unclosed>", datatype=RDF.XMLLiteral),
    RDFLiteral("http://example.org/x", datatype=XSD.anyURI),
    RDFLiteral("P1D", datatype=XSD.duration),
    RDFLiteral("x", datatype=URIRef("http://example.org/mytype")),
    RDFLiteral("x", datatype=URIRef("http://unknown.example/types#T")),
    RDFLiteral("x", datatype=URIRef("http://known.example/ns#T")),
    RDFLiteral("café 中文"), RDFLiteral(5), RDFLiteral(1.5), RDFLiteral(True),
]
others = [
    URIRef("http://example.org/thing"), URIRef("http://example.org/"), URIRef("http://www.w3.org/ns/prov#Entity"),
    URIRef("http://known.example/ns#item"), URIRef("http://unknown.example/path/leaf"), URIRef("http://unknown.example/frag#leaf"),
    URIRef("http://unknown.example/a%20b"), URIRef("urn:uuid:1234"), URIRef("nocolon"), URIRef(""),
    URIRef("http://unknown.example/trailing/"),
    BNode("b1"), "string", "", 5, None, 1.5, (1, 2),
]
print("== literals")
for lit in lits:
    doc, ser, g = fresh()
    kind, res = outcome(ser.decode_rdf_representation, lit, g)
    print(repr(lit)[:100], "->", kind, show(res) if kind == "ok" else res)
    print("     ns:", sorted((n.prefix, n.uri) for n in doc.namespaces))
print("== others")
for o in others:
    doc, ser, g = fresh()
    kind, res = outcome(ser.decode_rdf_representation, o, g)
    print(repr(o)[:100], "->", kind, show(res) if kind == "ok" else res)
    print("     ns:", sorted((n.prefix, n.uri) for n in doc.namespaces))
    # same with a graph that is None (only used for unknown URIs)
    doc, ser, g = fresh()
    kind, res = outcome(ser.decode_rdf_representation, o, None)
    print("   graph=None ->", kind, show(res) if kind == "ok" else res)
# repeated unknown namespace: second call finds it
doc, ser, g = fresh()
for u in ("http://unknown.example/p/a", "http://unknown.example/p/b", "http://unknown.example/q#a"):
    print("rep", show(ser.decode_rdf_representation(URIRef(u), g)), sorted((n.prefix, n.uri) for n in doc.namespaces))
# serializer without a document
ser = ProvRDFSerializer()
for v in (RDFLiteral("x"), URIRef("http://e/x"), "s"):
    print("nodoc", outcome(lambda: show(ser.decode_rdf_representation(v, ConjunctiveGraph()))))

print("== round trips")
for name, fn in all_docs():
    doc = fn()
    text = doc.serialize(format="rdf", rdf_format="trig")
    kind, res = outcome(ProvDocument.deserialize, content=text, format="rdf", rdf_format="trig")
    print(name, kind, (res == doc, dig(provn_sorted(res))) if kind == "ok" else res[:150])
print("== test files")
for f in rdf_files(step=3):
    ser = ProvRDFSerializer()
    with open(f, "rb") as fh:
        kind, res = outcome(ser.deserialize, fh, rdf_format="turtle")
    print(os.path.basename(f), kind, dig(provn_sorted(res)) if kind == "ok" else res[:120])
