# differential script for refactoring 5: Literal (construction, equality, hash, accessors, PROV-N, round trips)
import copy, hashlib, io, logging, pickle
from prov.model import ProvDocument, Literal, PROV, Namespace
from prov.identifier import Identifier
from prov.constants import XSD_INT, XSD_STRING, XSD_DOUBLE, PROV_LABEL

stream = io.StringIO()
h = logging.StreamHandler(stream); h.setFormatter(logging.Formatter("%(levelname)s|%(message)s"))
lg = logging.getLogger("prov.model"); lg.addHandler(h); lg.setLevel(logging.DEBUG)

EX = Namespace("ex", "http://example.org/")
args = [
    ("abc",), ("",), ("abc", None), ("abc", XSD_STRING), ("abc", XSD_STRING, None), ("5", XSD_INT), (5, XSD_INT),
    (5.0, XSD_DOUBLE), ("a\nb", EX["T"]), ('q"\\', EX["T"]), ("hi", None, "en"), ("hi", None, "EN"),
    ("hi", PROV["InternationalizedString"], "en"), ("hi", XSD_STRING, "en"), ("hi", None, ""), ("hi", XSD_INT, ""),
    ("hi", None, 0), ("hi", None, 7), (None,), (None, None, None), ("abc", "xsd:string"), ("abc", Identifier("http://dt")),
    ("unié中",), ("hi", None, "fr-CA"),
]
lits = [Literal(*a) for a in args]
out = []
for a, l in zip(args, lits):
    out.append(("lit", repr(a), repr(l.value), str(l.datatype), type(l.datatype).__name__, repr(l.langtag),
                l.has_no_langtag(), l.provn_representation(), str(l), repr(l)))
    out.append(("attrs", sorted(n for n in dir(l) if not n.startswith("_"))))
# equality / hash matrices
out.append(("eq", ["".join("1" if x == y else "0" for y in lits) for x in lits]))
out.append(("ne", ["".join("1" if x != y else "0" for y in lits) for x in lits]))
out.append(("hash-consistent", all(hash(x) == hash(y) for x in lits for y in lits if x == y)))
out.append(("hash-formula", all(hash(l) == hash((l.value, l.datatype, l.langtag)) for l in lits)))
out.append(("set-size", len(set(lits)), len({l: 1 for l in lits})))
for other in ["abc", 5, None, ("abc", None, None), Identifier("abc"), object]:
    out.append(("eq-other", repr(other)[:30], lits[0] == other, lits[0] != other, other == lits[0]))
class Duck(object):
    value = "abc"; datatype = None; langtag = None
out.append(("duck", lits[0] == Duck(), Duck() == lits[0]))
class Sub(Literal):
    pass
out.append(("sub", Sub("abc") == lits[0], lits[0] == Sub("abc"), hash(Sub("abc")) == hash(lits[0]), repr(Sub("abc", None, "de"))))
# copies and pickles behave like the originals
for l in lits[:12]:
    c = copy.copy(l); dc = copy.deepcopy(l); pk = pickle.loads(pickle.dumps(l))
    out.append(("copies", c == l, dc == l, pk == l, hash(pk) == hash(l), pk.provn_representation() == l.provn_representation()))
# through documents and serializers
d = ProvDocument(); d.add_namespace(EX)
d.entity("ex:e", [("ex:a", lits[8]), ("ex:b", lits[10]), (PROV_LABEL, lits[12]), ("ex:c", lits[5]), ("ex:d", Literal("x", EX["U"]))])
for fmt in ("json", "xml", "rdf", "provn"):
    kw = {"rdf_format": "nt"} if fmt == "rdf" else {}
    text = d.serialize(format=fmt, **kw)
    out.append(("ser", fmt, len(text), hashlib.sha256("".join(sorted(text)).encode()).hexdigest()))
    if fmt in ("json", "xml"):
        out.append(("roundtrip", fmt, ProvDocument.deserialize(content=text, format=fmt) == d))
out.append(("log", stream.getvalue()))
for o in out:
    print(o)
print(hashlib.sha256(repr(out).encode()).hexdigest())
