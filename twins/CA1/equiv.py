import os, sys
if os.environ.get("PYTHONHASHSEED") != "0":
    os.environ["PYTHONHASHSEED"] = "0"
    os.execv(sys.executable, [sys.executable] + sys.argv)
import hashlib
from prov.identifier import Identifier, QualifiedName, Namespace
from prov.model import ProvDocument

lines = []
def rec(label, fn):
    try:
        r = fn()
        if isinstance(r, QualifiedName):
            r = ("QN", type(r).__name__, r.uri, str(r), r.namespace.prefix, r.namespace.uri, r.localpart)
        lines.append("%s -> %r" % (label, r))
    except Exception as e:
        lines.append("%s !! %s: %s" % (label, type(e).__name__, e))

class MyStr(str):
    pass

class OddId(Identifier):
    @property
    def uri(self):
        return "http://example.org/odd#" + self._uri

class EmptyId(Identifier):
    @property
    def uri(self):
        return ""

class NoneId(Identifier):
    @property
    def uri(self):
        return None

class IntId(Identifier):
    @property
    def uri(self):
        return 42

namespaces = [
    Namespace("ex", "http://example.org/"),
    Namespace("", "http://example.org/"),
    Namespace(None, "http://example.org/odd#"),
    Namespace("é", "http://exämple.org/ü/"),
    Namespace("u", "urn:x:"),
]
ex = namespaces[0]
values = [
    "http://example.org/a", "http://example.org/", "http://example.org", "", " ",
    "http://exämple.org/ü/naïve", "urn:x:y:z", MyStr("http://example.org/sub"), MyStr(""),
    Identifier("http://example.org/id"), Identifier(""), Identifier("urn:x:"),
    ex["local"], Namespace("o", "http://other/")["x"], ex[""],
    QualifiedName(Namespace("", "http://example.org/odd#"), "q"),
    OddId("tail"), EmptyId("zzz"), NoneId("zzz"), IntId("zzz"),
    None, 0, 1, 3.5, b"http://example.org/a", ("http://example.org/a",), ["x"], {}, ex, object,
]
for ns in namespaces:
    for i, v in enumerate(values):
        rec("contains %r #%d %s" % (ns, i, type(v).__name__), lambda: ns.contains(v))
        rec("qname    %r #%d %s" % (ns, i, type(v).__name__), lambda: ns.qname(v))

# qname() must not use or fill the cache, and must mint a fresh object each time
n = Namespace("c", "http://c/")
a = n.qname("http://c/x"); b = n.qname("http://c/x")
lines.append("fresh %r %r %r" % (a is b, a == b, sorted(n._cache)))
c = n["x"]
lines.append("cache %r %r %r" % (c is n["x"], c is a, sorted(n._cache)))

# users of contains/qname elsewhere in the library
doc = ProvDocument()
doc.add_namespace("ex", "http://example.org/")
doc.set_default_namespace("http://default.example/")
e = doc.entity("ex:e1", {"ex:attr": Identifier("http://example.org/v"), "prov:label": "é"})
b1 = doc.bundle("ex:b1"); b1.entity("ex:e1"); b1.entity("inner")
for fmt in ("json", "xml", "provn", "rdf"):
    rec("ser " + fmt, lambda: doc.serialize(format=fmt, **({"rdf_format": "nt"} if fmt == "rdf" else {})))

text = "\n".join(lines)
print(text)
print("DIGEST", hashlib.sha256(text.encode("utf-8")).hexdigest())
