import os
import sys

# Hash randomisation changes set iteration order (multi-valued attributes);
# pin it so that the digest is deterministic and order sensitive.
if os.environ.get("PYTHONHASHSEED") != "0":
    os.environ["PYTHONHASHSEED"] = "0"
    os.execv(sys.executable, [sys.executable] + sys.argv)

import datetime
import glob
import hashlib
import io
import json
import logging

logging.disable(logging.CRITICAL)

import prov
import prov.constants as C
import prov.model as M
from prov.model import (
    ProvDocument,
    ProvBundle,
    Literal,
    Identifier,
    QualifiedName,
    Namespace,
    ProvException,
)
from prov.serializers import provjson as PJ
from prov.tests import examples

SRC = os.path.dirname(os.path.dirname(os.path.abspath(prov.__file__)))
JSON_DIR = os.path.join(SRC, "prov", "tests", "json")


def sha(text):
    if not isinstance(text, bytes):
        text = text.encode("utf-8")
    return hashlib.sha256(text).hexdigest()[:16]


def show(label, fn, *args, **kwargs):
    """Print the result (or the exception) of a call in a stable way."""
    try:
        res = fn(*args, **kwargs)
        text = res if isinstance(res, str) else repr(res)
        print("%s -> OK %s len=%d %s" % (label, sha(text), len(text), text[:300]))
    except BaseException as e:  # noqa
        print("%s -> EXC %s: %s" % (label, type(e).__name__, e))


def handmade_documents():
    docs = []

    docs.append(("empty", ProvDocument()))

    d = ProvDocument()
    d.set_default_namespace("http://default.example/")
    d.add_namespace("ex", "http://example.org/")
    d.add_namespace("o-dd", "http://odd.example/a#b?c=")
    EX = Namespace("ex", "http://example.org/")
    e1 = d.entity(
        "ex:e1",
        [
            ("prov:label", "plain"),
            ("prov:label", Literal("bonjour", langtag="fr")),
            ("ex:int", 42),
            ("ex:neg", -7),
            ("ex:float", 1.5),
            ("ex:bool", True),
            ("ex:boolf", False),
            ("ex:empty", ""),
            ("ex:uni", "café ☃ \"quoted\" \\ back\nnewline\ttab"),
            ("ex:dt", datetime.datetime(2012, 3, 4, 5, 6, 7, 890000)),
            ("ex:uri", Identifier("http://example.org/some thing?x=1&y=<2>")),
            ("ex:qn", EX["other"]),
            ("ex:lit_int", Literal("12", C.XSD_INT)),
            ("ex:lit_dbl", Literal("1e3", C.XSD_DOUBLE)),
            ("ex:lit_bool", Literal("TRUE", C.XSD_BOOLEAN)),
            ("ex:lit_badbool", Literal("maybe", C.XSD_BOOLEAN)),
            ("ex:lit_dt", Literal("2001-02-03T04:05:06", C.XSD_DATETIME)),
            ("ex:lit_str", Literal("s", C.XSD_STRING)),
            ("ex:lit_any", Literal("http://a/b", C.XSD_ANYURI)),
            ("ex:lit_custom", Literal("zzz", EX["customType"])),
            ("ex:lit_untyped", Literal("untyped")),
            ("ex:multi", 1),
            ("ex:multi", 2),
            ("ex:multi", "three"),
            ("prov:type", EX["Thing"]),
            ("prov:type", C.PROV["Plan"]),
            ("prov:location", "here"),
            ("prov:value", 3.25),
        ],
    )
    d.entity("ex:e1", {"ex:again": "second record with same id"})
    d.entity("ex:e1", {"ex:again": "third record with same id"})
    d.entity("e-default")
    a1 = d.activity(
        "ex:a1",
        datetime.datetime(2011, 1, 1, 0, 0, 0),
        "2011-01-02T03:04:05.678+01:00",
        {"prov:type": "ex:edit", "ex:n": 0},
    )
    ag = d.agent("ex:ag", {"prov:type": C.PROV["Person"], "ex:name": "Alïce"})
    d.wasGeneratedBy(e1, a1, time=datetime.datetime(2011, 1, 1, 12, 0, 0))
    d.wasGeneratedBy(e1, a1, identifier="ex:gen1", other_attributes={"ex:k": "v"})
    d.used(a1, "ex:e0")
    d.used(a1, "ex:e0", identifier="ex:u1")
    d.used(a1, "ex:e0", identifier="ex:u1", other_attributes={"prov:role": "r"})
    d.wasAssociatedWith(a1, ag, plan="ex:plan")
    d.wasAssociatedWith(a1, None, plan="ex:plan")
    d.wasAttributedTo(e1, ag)
    d.actedOnBehalfOf(ag, "ex:boss", a1)
    d.wasDerivedFrom("ex:e2", e1, a1, None, None, {"prov:type": C.PROV["Revision"]})
    d.wasInformedBy("ex:a2", a1)
    d.wasStartedBy(a1, "ex:trig", "ex:starter", "2012-01-01T00:00:00")
    d.wasEndedBy(a1, None, None, None)
    d.wasInvalidatedBy(e1, a1, datetime.datetime(2013, 1, 1))
    d.wasInfluencedBy(e1, ag)
    d.alternateOf(e1, "ex:e2")
    d.specializationOf(e1, "ex:e2")
    d.mentionOf("ex:e3", e1, "ex:b1")
    c = d.collection("ex:c1")
    d.hadMember(c, e1)
    d.hadMember(c, "ex:e2")
    d.hadMember("ex:c2", "ex:e3")
    b = d.bundle("ex:b1")
    b.add_namespace("bn", "http://bundle.example/ns#")
    b.entity("bn:x", {"bn:attr": Literal("hi", langtag="en-GB"), "ex:n": 5})
    b.entity("bn:x", {"bn:attr": "dup id in bundle"})
    b.activity("ex:a1")
    b.wasGeneratedBy("bn:x", "ex:a1")
    b.wasGeneratedBy("bn:x", "ex:a1")
    d.bundle("ex:b-empty")
    docs.append(("rich", d))

    return docs


def example_documents():
    return [(name, fn()) for name, fn in examples.tests]


def all_documents():
    return handmade_documents() + example_documents()


def json_fixture_files(step=1):
    files = sorted(glob.glob(os.path.join(JSON_DIR, "*.json")))
    return files[::step]


# NOTE: Identifier.__hash__ involves hash(class), i.e. a memory address, so the
# iteration order of value sets holding Identifier/Literal objects can differ
# from run to run even for identical code.  All digests below are therefore
# taken over a canonical form in which the members of multi-valued attributes
# are sorted; everything else (record order, key order, text) is kept as is.
def _canon_record(rec):
    if not isinstance(rec, dict):
        return rec
    out = {}
    for k, v in rec.items():
        if isinstance(v, list):
            v = sorted(v, key=lambda x: json.dumps(x, sort_keys=True))
        out[k] = v
    return out


def canon_container(c):
    if not isinstance(c, dict):
        return c
    out = {}
    for label, records in c.items():
        if label == "prefix" or not isinstance(records, dict):
            out[label] = records
        elif label == "bundle":
            out[label] = {k: canon_container(v) for k, v in records.items()}
        else:
            out[label] = {
                k: [_canon_record(r) for r in v]
                if isinstance(v, list)
                else _canon_record(v)
                for k, v in records.items()
            }
    return out


def canon_json_text(text, **kw):
    return "rawlen=%d " % len(text) + json.dumps(canon_container(json.loads(text)), **kw)


def to_json(doc, **kw):
    return canon_json_text(doc.serialize(format="json", **kw), **kw)


def raw_json(doc, **kw):
    return doc.serialize(format="json", **kw)


def from_json(text):
    return ProvDocument.deserialize(content=text, format="json")


def _canon_value(v):
    return "%s:%r" % (type(v).__name__, v)


def canon_records(bundle):
    lines = []
    for ns in bundle.get_registered_namespaces():
        lines.append("ns %s=%s" % (ns.prefix, ns.uri))
    dns = bundle.get_default_namespace()
    lines.append("default %s" % (dns.uri if dns else None))
    for rec in bundle.get_records():
        attrs = [
            "%s=%s" % (a, sorted(_canon_value(v) for v in vs))
            for a, vs in rec._attributes.items()
            if vs
        ]
        lines.append(
            "%s id=%r args=%d attrs=%s"
            % (rec.get_type(), rec.identifier, len(rec.args), attrs)
        )
    return lines


def canon_doc(doc):
    lines = canon_records(doc)
    for b in doc.bundles:
        lines.append("bundle %r" % (b.identifier,))
        lines.extend("  " + line for line in canon_records(b))
    provn = doc.get_provn()
    lines.append("provn len=%d lines=%d" % (len(provn), provn.count("\n")))
    return "\n".join(lines)


# ---- refactoring 4: prov.constants tables ----
import types


def describe(v):
    if isinstance(v, (set, frozenset)):
        return "%s{%s}" % (type(v).__name__, ", ".join(sorted(describe(x) for x in v)))
    if isinstance(v, dict):
        return "dict{%s}" % ", ".join("%s: %s" % (describe(k), describe(x)) for k, x in v.items())
    if isinstance(v, (list, tuple)):
        return "%s[%s]" % (type(v).__name__, ", ".join(describe(x) for x in v))
    if isinstance(v, QualifiedName):
        return "QN(%s|%s|%s)" % (v, v.uri, v.namespace.prefix)
    if isinstance(v, Namespace):
        return "NS(%s=%s)" % (v.prefix, v.uri)
    return "%s:%r" % (type(v).__name__, v)


# 1. the public namespace of the module (what `import *` gives) and its values
public = sorted(n for n in vars(C) if not n.startswith("_"))
print("public names:", len(public), sha(" ".join(public)))
star = {}
exec("from prov.constants import *", star)
star.pop("__builtins__", None)
print("star-import names:", len(star), sha(" ".join(sorted(star))))
print("star == public:", sorted(star) == public)
for n in public:
    v = getattr(C, n)
    if isinstance(v, (types.ModuleType, types.FunctionType, type)):
        print("%s = <%s>" % (n, type(v).__name__))
        continue
    text = describe(v)
    print("%s = [%s] %s" % (n, sha(text), text[:200]))

# 2. insertion order of the derived tables (order sensitive digests)
for n in ("PROV_N_MAP", "ADDITIONAL_N_MAP", "PROV_BASE_CLS", "PROV_RECORD_IDS_MAP",
          "PROV_ID_ATTRIBUTES_MAP", "PROV_ATTRIBUTES_ID_MAP"):
    d = getattr(C, n)
    print("order[%s]" % n, type(d).__name__, len(d), sha(repr([(str(k), str(v)) for k, v in d.items()])))
print("order[PROV_RECORD_ATTRIBUTES]", type(C.PROV_RECORD_ATTRIBUTES).__name__,
      sha(repr([(str(a), b, type(a).__name__, type(b).__name__) for a, b in C.PROV_RECORD_ATTRIBUTES])))
print("id-map consistent:", all(C.PROV_ID_ATTRIBUTES_MAP[a] == s and C.PROV_ATTRIBUTES_ID_MAP[s] is a
                               for a, s in C.PROV_RECORD_ATTRIBUTES))
print("ids-map consistent:", all(C.PROV_RECORD_IDS_MAP[v] is k for k, v in C.PROV_N_MAP.items()))

# 3. object identity between tables and the namespace cache
print("PROV cache order:", sha(repr(list(C.PROV._cache.keys()))), len(C.PROV._cache), list(C.PROV._cache.keys())[:25])
print("XSD cache order:", sha(repr(list(C.XSD._cache.keys()))), len(C.XSD._cache))
print("XSI cache:", list(C.XSI._cache.keys()))
for k in C.ADDITIONAL_N_MAP:
    base_keys = [b for b in C.PROV_BASE_CLS if b == k]
    print("identity[%s]" % k, k is C.PROV[k.localpart], len(base_keys), base_keys[0] is k,
          C.PROV_BASE_CLS[k], C.PROV_BASE_CLS[k] is C.PROV[C.PROV_BASE_CLS[k].localpart])
for k, v in C.PROV_BASE_CLS.items():
    print("base[%s] -> %s" % (k, v), k is C.PROV[k.localpart], v is C.PROV[v.localpart])

# 4. lookups as done by the library
for name in ["entity", "hadMember", "bundle", "wasRevisionOf", "mentionOf", "nope"]:
    show("PROV_RECORD_IDS_MAP[%s]" % name, lambda: C.PROV_RECORD_IDS_MAP[name])
for name in ["prov:entity", "prov:time", "prov:type", "entity", ""]:
    show("PROV_ATTRIBUTES_ID_MAP[%s]" % name, lambda: C.PROV_ATTRIBUTES_ID_MAP[name])
for q in [C.PROV_ATTR_ENTITY, C.PROV_ATTR_ENDTIME, C.PROV_TYPE, C.PROV["Revision"]]:
    show("PROV_ID_ATTRIBUTES_MAP[%s]" % q, lambda: C.PROV_ID_ATTRIBUTES_MAP[q])

# 5. end to end: documents that use the extended types and every serializer
for name, d in all_documents():
    show("json[%s]" % name, to_json, d)
    show("provn[%s]" % name, lambda: canon_doc(d))
    show("xml-len[%s]" % name, lambda: len(d.serialize(format="xml")))
    show("xml-roundtrip[%s]" % name, lambda: canon_doc(ProvDocument.deserialize(content=d.serialize(format="xml"), format="xml")))
    show("rdf-len[%s]" % name, lambda: len(d.serialize(format="rdf", rdf_format="nt").splitlines()))
