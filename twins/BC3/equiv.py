# Differential script for change 3 (ProvDocument.serialize: with-statement for the temp file).
import os, sys
if os.environ.get("PYTHONHASHSEED") != "0":
    os.environ["PYTHONHASHSEED"] = "0"
    os.execv(sys.executable, [sys.executable] + sys.argv)

import io, shutil, tempfile, hashlib, gc, warnings
from prov.model import ProvDocument, Namespace, Literal
from prov.constants import PROV_LABEL

work = "/tmp/twin6/out/BC/3/work"   # fixed name: it appears in error messages
shutil.rmtree(work, ignore_errors=True); os.mkdir(work)
tmpd = os.path.join(work, "tmp"); os.mkdir(tmpd)
outd = os.path.join(work, "out"); os.mkdir(outd)
tempfile.tempdir = tmpd          # where serialize() puts its temporary file
os.chdir(outd)


def leftovers():
    return sorted(os.path.getsize(os.path.join(tmpd, n)) for n in os.listdir(tmpd))


def outdir():
    # mkstemp names are random: mask them
    return sorted("tmp*" if n.startswith("tmp") else n for n in os.listdir(outd))


def digest(b, label=""):
    # rdflib output contains random blank node ids: only its length is stable
    return "-" if "rdf" in label else hashlib.sha256(b).hexdigest()[:16]


CURRENT = [""]


def show_file(path):
    if os.path.exists(path):
        data = open(path, "rb").read()
        return ("file", len(data), digest(data, CURRENT[0]), oct(os.stat(path).st_mode & 0o777))
    return "absent"


def build():
    d = ProvDocument()
    d.add_namespace("ex", "http://example.org/")
    d.set_default_namespace("http://default.org/")
    d.entity("ex:e1", {"ex:v": "é中", PROV_LABEL: Literal("über", langtag="de")})
    d.entity("e2")
    d.activity("ex:a1", "2020-01-01T00:00:00")
    d.wasGeneratedBy("ex:e1", "ex:a1", identifier="ex:g")
    b = d.bundle("ex:b1"); b.entity("ex:e1"); b.entity("ex:e1", {"ex:k": 1})
    d.bundle("ex:empty")
    return d


docs = {"full": build(), "empty": ProvDocument()}


def attempt(label, fn, path=None):
    CURRENT[0] = label
    try:
        r = fn()
        print(label, "->", repr(r) if not isinstance(r, str) else ("str", len(r), digest(r.encode(), label)))
    except BaseException as e:
        print(label, "raised", type(e).__name__, str(e)[:200])
    gc.collect()
    if path is not None:
        print("   dest", show_file(path))
    print("   leftover temp files (sizes):", leftovers(), "| out dir:", outdir())


for name, d in docs.items():
    for fmt in ("json", "xml", "provn", "rdf"):
        kw = {"rdf_format": "trig"} if fmt == "rdf" else {}
        tag = "%s/%s" % (name, fmt)
        attempt(tag + " to string", lambda: d.serialize(format=fmt, **kw))
        s = io.StringIO()
        attempt(tag + " to StringIO", lambda: d.serialize(s, format=fmt, **kw))
        print("   StringIO", len(s.getvalue()), digest(s.getvalue().encode(), tag), s.closed)
        bs = io.BytesIO()
        attempt(tag + " to BytesIO", lambda: d.serialize(bs, format=fmt, **kw))
        print("   BytesIO", len(bs.getvalue()) if not bs.closed else "closed")
        p = os.path.join(outd, "%s.%s" % (name, fmt))
        attempt(tag + " to abs path", lambda: d.serialize(p, format=fmt, **kw), p)
        attempt(tag + " overwrite", lambda: d.serialize(p, format=fmt, **kw), p)
        try:
            back = ProvDocument.deserialize(p, format=fmt, **kw)
            print("   round trip equal:", back == d)
        except Exception as e:
            print("   round trip raised", type(e).__name__, str(e)[:100])

d = docs["full"]
attempt("relative path", lambda: d.serialize("rel.json"), "rel.json")
attempt("odd characters", lambda: d.serialize("a#b?c;d é.json"), "a#b?c;d é.json")
attempt("file url", lambda: d.serialize("file://" + os.path.join(outd, "url%20file.json")), os.path.join(outd, "url file.json"))
attempt("file url localhost-less path", lambda: d.serialize("file:" + os.path.join(outd, "url2.json")), os.path.join(outd, "url2.json"))
attempt("http url", lambda: d.serialize("http://example.org/x.json"), "x.json")
attempt("netloc only", lambda: d.serialize("//host/share/x.json"))
attempt("into a directory", lambda: d.serialize(outd + os.sep), None)
sub = os.path.join(outd, "sub"); os.mkdir(sub)
attempt("into an existing directory name", lambda: d.serialize(sub), os.path.join(sub, "x"))
print("   sub dir content count:", len(os.listdir(sub)))
attempt("missing directory", lambda: d.serialize(os.path.join(outd, "nope", "x.json")), os.path.join(outd, "nope", "x.json"))
attempt("unknown format", lambda: d.serialize("u.bin", format="nothing"), "u.bin")
attempt("bad serializer argument (file)", lambda: d.serialize("bad.json", format="json", no_such_option=1), "bad.json")
attempt("bad serializer argument (string)", lambda: d.serialize(format="json", no_such_option=1))
attempt("bad rdf format (file)", lambda: d.serialize("bad.rdf", format="rdf", rdf_format="no-such-format"), "bad.rdf")
attempt("xml failing midway", lambda: d.serialize("bad.xml", format="xml", pretty_print="x", bogus=2), "bad.xml")
attempt("bytes destination", lambda: d.serialize(b"bytes.json"), "bytes.json")
attempt("int destination", lambda: d.serialize(7), None)
attempt("pathlib destination", lambda: d.serialize(__import__("pathlib").Path("pl.json")), "pl.json")
attempt("json kwargs to file", lambda: d.serialize("ind.json", indent=2, sort_keys=True), "ind.json")

# a serializer raising after it has written something
from prov.serializers import Serializer
import prov.serializers as S
class Boom(Serializer):
    def serialize(self, stream, **kw):
        stream.write(b"partial output")
        raise RuntimeError("boom after partial write")
S.Registry.load_serializers()
S.Registry.serializers["boom"] = Boom
attempt("serializer raising midway", lambda: d.serialize("boom.out", format="boom"), "boom.out")
class Closer(Serializer):
    def serialize(self, stream, **kw):
        stream.write(b"closed by serializer")
        stream.close()
S.Registry.serializers["closer"] = Closer
attempt("serializer closing the stream itself", lambda: d.serialize("closer.out", format="closer"), "closer.out")
print("final out dir:", outdir())
shutil.rmtree(work)
