"""Differential script for change 2 (ProvBundle.get_provn gains the keyword-only
option sort_namespaces=False).  Only the call forms that exist on the clean
tree are used here."""
import os
import sys

if os.environ.get("PYTHONHASHSEED") != "0":
    os.environ["PYTHONHASHSEED"] = "0"
    os.execv(sys.executable, [sys.executable] + sys.argv)

import hashlib
import io

from prov.identifier import Namespace
from prov.model import ProvBundle, ProvDocument

OUT = []


def emit(*parts):
    OUT.append(" | ".join(str(p) for p in parts))


def attempt(label, fn):
    try:
        r = fn()
    except BaseException as e:  # noqa
        emit(label, "EXC", type(e).__name__, e)
        return None
    emit(label, "\n" + r if isinstance(r, str) else repr(r))
    return r


def regs(bundle):
    return [(k, v.prefix, v.uri) for k, v in bundle._namespaces._namespaces.items()]


def all_forms(label, doc):
    attempt(label + " get_provn()", lambda: doc.get_provn())
    attempt(label + " get_provn(0)", lambda: doc.get_provn(0))
    attempt(label + " get_provn(2)", lambda: doc.get_provn(2))
    attempt(label + " get_provn(_indent_level=1)", lambda: doc.get_provn(_indent_level=1))
    attempt(label + " serialize provn", lambda: doc.serialize(format="provn"))
    buf = io.StringIO()
    attempt(label + " serialize provn stream", lambda: (doc.serialize(buf, format="provn"), buf.getvalue())[1])
    attempt(label + " str", lambda: str(doc) if isinstance(doc, ProvDocument) else doc.get_provn())
    # wrong call forms keep failing the same way
    attempt(label + " too many positionals", lambda: doc.get_provn(0, True))
    attempt(label + " unknown kw", lambda: doc.get_provn(indent=1))
    attempt(label + " bad indent", lambda: doc.get_provn("x"))
    emit(label, "regs after", regs(doc))
    if isinstance(doc, ProvDocument):
        for b in doc.bundles:
            attempt(label + " bundle %s get_provn()" % b.identifier, lambda: b.get_provn())
            attempt(label + " bundle %s get_provn(3)" % b.identifier, lambda: b.get_provn(3))
            emit(label, "bundle regs after", regs(b))


# 1. empty document
all_forms("empty", ProvDocument())

# 2. default namespace only
d = ProvDocument()
d.set_default_namespace("urn:default#")
d.entity("e")
all_forms("default-only", d)

# 3. namespaces registered in non-alphabetical order, conflicts, aliases, non-ASCII
d = ProvDocument()
d.add_namespace("zeta", "http://z.example/")
d.add_namespace("alpha", "http://a.example/")
d.add_namespace("Beta", "http://B.example/")
d.add_namespace("ü", "http://ü.example/é#")
d.add_namespace("alpha", "http://a2.example/")  # conflicting prefix -> alpha_1
d.add_namespace("again", "http://z.example/")  # same URI -> existing namespace
d.add_namespace("_x", "http://underscore.example/")
d.add_namespace("alpha_10", "http://a10.example/")
d.add_namespace("alpha_2", "http://a2b.example/")
d.set_default_namespace("urn:default#")
d.entity("zeta:e1", {"alpha:k": "v", "ü:k": "välue é"})
d.entity("zeta:e1", {"alpha_1:k": 1})  # repeated identifier
d.entity("again:e2")
d.entity("plain")
d.agent(Namespace("alpha", "http://a3.example/")["ag"])  # second conflict
d.agent(Namespace("", "urn:other-default#")["ag"])  # dn prefix
b1 = d.bundle("zeta:b1")
b1.add_namespace("zeta", "http://bundle-z.example/")
b1.add_namespace("mid", "http://mid.example/")
b1.add_namespace("alpha", "http://a.example/")
b1.set_default_namespace("urn:bundle-default#")
b1.entity("zeta:e1")
b1.entity("local")
b1.wasDerivedFrom("zeta:e1", "local")
b2 = d.bundle("alpha:b2")  # no namespaces of its own
b2.entity("zeta:e1")
b3 = d.bundle("ü:b3")
b3.add_namespace("only", "http://only.example/")
all_forms("rich", d)

# 4. odd prefixes: None and the string "None", empty URI-ish values, numbers as text
d = ProvDocument()
d.add_namespace(Namespace(None, "urn:none-prefix#"))
d.add_namespace(Namespace("None", "urn:none-text#"))
d.add_namespace(Namespace("9", "urn:nine#"))
d.add_namespace(Namespace("10", "urn:ten#"))
d.add_namespace(Namespace("a b", "urn:space#"))
d.bundle("9:b").add_namespace("9", "urn:nine-in-bundle#")
all_forms("odd", d)

# 5. free-standing bundle (not in a document), flattened and unified documents
fb = ProvBundle(identifier=Namespace("q", "urn:q#")["free"], namespaces=[Namespace("y", "urn:y#"), Namespace("x", "urn:x#")])
fb.entity("y:e")
all_forms("free-bundle", fb)
all_forms("flattened", ProvDocument.deserialize(content=d.serialize(format="json"), format="json").flattened())
d3 = ProvDocument(namespaces={"n2": "urn:n2#", "n1": "urn:n1#"})
d3.entity("n1:e", {"n2:a": "x"})
d3.entity("n1:e", {"n2:b": "y"})
all_forms("unified", d3.unified())
# updating one document with another keeps registration order
d4 = ProvDocument(namespaces={"m": "urn:m#"})
d4.update(d3)
all_forms("updated", d4)

text = "\n".join(OUT)
print(text)
print("DIGEST", hashlib.sha256(text.encode("utf-8")).hexdigest())
