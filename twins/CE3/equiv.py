import os, sys
if os.environ.get("PYTHONHASHSEED") != "0":
    os.environ["PYTHONHASHSEED"] = "0"
    os.execv(sys.executable, [sys.executable] + sys.argv)

import datetime
from prov.model import ProvDocument, ProvBundle, Namespace, Literal
from prov.tests import examples

EX = Namespace("ex", "http://example.org/")
OT = Namespace("ot", "http://example.org/")  # other prefix, same URI
EX2 = Namespace("ex", "http://other.example/")


def state(b):
    return (
        sorted((n.prefix, n.uri) for n in b.namespaces),
        b.default_ns_uri,
        sorted((str(k), len(v)) for k, v in b._id_map.items()),
        [r.get_provn() for r in b._records],
    )


def show_records(title, owner, recs):
    orig = {id(r): i for i, r in enumerate(owner._records)}
    print("  ", title, len(recs))
    for r in recs:
        where = "orig#%d" % orig[id(r)] if id(r) in orig else "new(bundle=%s ns=%s)" % (
            type(r.bundle).__name__,
            sorted((n.prefix, n.uri) for n in r.bundle.namespaces),
        )
        print("     ", type(r).__name__, repr(r.identifier), where, r.get_provn())
        print("        attrs", sorted((str(k), repr(v)) for k, v in r.attributes))


def check(title, b):
    print("==", title, repr(b))
    before = state(b)
    try:
        recs = b._unified_records()
        show_records("_unified_records", b, recs)
        print("   fresh list:", recs is not b._records)
        recs2 = b._unified_records()
        print("   second call same provn:", [r.get_provn() for r in recs] == [r.get_provn() for r in recs2])
    except Exception as e:  # noqa
        print("   _unified_records EXC", type(e).__name__, e)
    try:
        u = b.unified()
        print("   unified:", repr(u), type(u).__name__, repr(u.identifier), u.document)
        print("   ", state(u))
        if u.is_document():
            for sub in u.bundles:
                print("    sub", repr(sub.identifier), sub.document is u, state(sub))
        print(u.get_provn())
        print("   equal to source:", u == b)
        uu = u.unified()
        print("   idempotent:", uu == u, uu.get_provn() == u.get_provn())
    except Exception as e:  # noqa
        print("   unified EXC", type(e).__name__, e)
    print("   source untouched:", state(b) == before)


def build(target, conflict=False):
    target.add_namespace(EX)
    target.entity("ex:e1", {"prov:label": "één ☃", "ex:v": Literal("x", langtag="fr")})
    target.entity("ex:single")
    target.agent("ex:e1", {"ex:role": "agent with the id of an entity"})
    target.entity("ex:e1", {"ex:v": 2, "prov:label": ""})
    target.entity("ex:e1")  # no attributes
    target.entity("ex:dup", {"ex:k": 1})
    target.entity("ex:dup", {"ex:k": 1})  # equal records
    target.activity("ex:a1", datetime.datetime(2020, 1, 1))
    target.activity("ex:a1", None, datetime.datetime(2020, 1, 2), {"ex:x": "y"})
    if conflict:
        target.activity("ex:a1", datetime.datetime(2021, 1, 1))  # conflicting start
    target.wasGeneratedBy("ex:e1", "ex:a1")  # no identifier
    target.wasGeneratedBy("ex:e1", "ex:a1")  # no identifier, equal
    target.wasGeneratedBy("ex:e1", "ex:a1", identifier="ex:g")
    target.wasGeneratedBy("ex:e1", None, datetime.datetime(2020, 2, 2), identifier="ex:g")
    target.used("ex:a1", "ex:e1", identifier="ex:g")  # usage with id of a generation
    target.used("ex:a1", "ex:e1", identifier="ex:u")
    target.wasDerivedFrom("ex:e1", "ex:single", identifier="ex:single")  # id of an entity
    return target


d = build(ProvDocument())
check("handmade document", d)

# after mutation: another record for a so far unique identifier, attribute added
d.entity("ex:single", {"ex:late": True})
d.get_records()[1].add_attributes({"ex:mut": "added later"})
check("handmade document, mutated", d)

# lookups create empty lists in the defaultdict _id_map
d2 = build(ProvDocument())
print("lookup", d2.get_record("ex:nothing"), d2.get_record("ex:single"), len(d2.get_record("ex:e1")))
check("after get_record of unknown id", d2)

# get_record hands out the internal list: a caller may have changed it
d5 = build(ProvDocument())
print("popped", d5.get_record("ex:dup").pop().get_provn(), d5.get_record("ex:e1").pop(0).get_provn())
del d5.get_record("ex:g")[:]
check("_id_map lists changed through get_record", d5)
d6 = build(ProvDocument())
d6.get_record("ex:single").append(d6.get_record("ex:e1")[0])  # foreign record in a list
d6.get_record("ex:u").append(d6.get_record("ex:u")[0])  # same object twice
check("_id_map lists extended through get_record", d6)

check("conflicting merge", build(ProvDocument(), conflict=True))
dc = ProvDocument()
build(dc.bundle(EX["bc"]), conflict=True)
check("conflicting merge in a bundle", dc)

# nothing to merge: originals are returned
d3 = ProvDocument()
d3.add_namespace(EX)
d3.entity("ex:e1")
d3.agent("ex:e1")
d3.activity("ex:a")
d3.used("ex:a", "ex:e1")
d3.used("ex:a", "ex:e1")
check("no merge (same id, different types)", d3)
check("empty document", ProvDocument())
check("empty bundle", ProvBundle(identifier=EX["b"]))

# same URI through different prefixes, default namespaces, bundles
d4 = ProvDocument()
d4.add_namespace(EX)
d4.set_default_namespace("http://example.org/")
d4.entity("ex:same", {"ex:a": 1})
d4.entity("same", {"ex:b": 2})  # default namespace: same URI
d4.entity(OT["same"], {OT["c"]: 3})  # other prefix: same URI
d4.entity(EX2["same"], {EX2["d"]: 4})  # same prefix, other URI
d4.entity(EX2["same"], {EX2["d"]: 5})
b1 = d4.bundle("ex:b1")
build(b1)
b1.set_default_namespace("http://bundle.default/")
b1.entity("same")
b1.entity("same", {"prov:value": "ü"})
b2 = d4.bundle("ex:b2")
b2.entity("ex:lonely")
d4.bundle("ex:b3")
check("document with bundles", d4)
check("bundle b1", b1)
check("bundle b2", b2)
check("flattened", d4.flattened())

free = build(ProvBundle(identifier=EX["free"]))
check("free bundle", free)

for name, fn in sorted(examples.tests):
    doc = fn()
    check("example " + name, doc)
    doc.update(fn())  # every identifier twice
    check("example doubled " + name, doc)
