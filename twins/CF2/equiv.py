"""Differential script for ProvBundle.__eq__ / ProvDocument.__eq__ (and __ne__).

Compares every ordered pair out of a pool of documents, bundles and foreign
objects, records the result of ==, != and the debug log lines emitted while
comparing (they are a side effect of ProvBundle.__eq__).
"""
import os
import sys

if os.environ.get("PYTHONHASHSEED") != "0":
    os.environ["PYTHONHASHSEED"] = "0"
    os.execv(sys.executable, [sys.executable] + sys.argv)

import hashlib
import logging

import prov.model as pm
from prov.model import ProvDocument, ProvBundle, Namespace, Literal
from prov.tests import examples

LOG = []


class Capture(logging.Handler):
    def emit(self, record):
        LOG.append(record.getMessage())


pm.logger.setLevel(logging.DEBUG)
pm.logger.addHandler(Capture())
pm.logger.propagate = False

EX = Namespace("ex", "http://example.org/")


def base(order=0, extra=None, label="héllo ☃"):
    d = ProvDocument()
    d.add_namespace(EX)
    d.set_default_namespace("http://default.example/")
    stmts = [
        lambda: d.entity("ex:e1", {"prov:label": label}),
        lambda: d.entity("ex:e2"),
        lambda: d.entity("local", {"ex:v": Literal("x", langtag="en")}),
        lambda: d.activity("ex:a1", "2012-03-31T09:21:00"),
        lambda: d.wasGeneratedBy("ex:e1", "ex:a1", identifier="ex:g"),
        lambda: d.used("ex:a1", "ex:e2"),
        lambda: d.used("ex:a1", None, "2012-03-31T10:00:00"),
    ]
    if order:
        stmts.reverse()
    for s in stmts:
        s()
    if extra:
        extra(d)
    return d


def with_bundles(ids, content=lambda b, i: b.entity("ex:in%d" % i), order=0):
    d = base(order)
    for i, bid in enumerate(ids):
        b = d.bundle(bid)
        content(b, i)
        b.entity("ex:e1", {"prov:label": "inside " + bid})  # repeated identifier
    return d


def pool():
    p = []
    p.append(("base", base()))
    p.append(("base-rev", base(1)))
    p.append(("base-label2", base(label="other")))
    p.append(("base-emptylabel", base(label="")))
    p.append(("base+dup", base(extra=lambda d: d.entity("ex:e2"))))  # duplicate record
    p.append(("base+e3", base(extra=lambda d: d.entity("ex:e3"))))
    p.append(("base+e4", base(extra=lambda d: d.entity("ex:e4"))))
    p.append(("base+e2attr", base(extra=lambda d: d.entity("ex:e2", {"ex:k": 1}))))
    p.append(("base+e2attr'", base(extra=lambda d: d.entity("ex:e2", {"ex:k": 2}))))
    p.append(("empty-doc", ProvDocument()))
    p.append(("empty-doc2", ProvDocument()))
    p.append(("b12", with_bundles(["ex:b1", "ex:b2"])))
    p.append(("b12-rev", with_bundles(["ex:b2", "ex:b1"], lambda b, i: b.entity("ex:in%d" % (1 - i)), 1)))
    p.append(("b21-othercontent", with_bundles(["ex:b2", "ex:b1"])))
    p.append(("b13", with_bundles(["ex:b1", "ex:b3"])))
    p.append(("b1", with_bundles(["ex:b1"])))
    p.append(("b123", with_bundles(["ex:b1", "ex:b2", "ex:b3"])))
    p.append(("b12-rel", with_bundles(["ex:b1", "ex:b2"], lambda b, i: (b.entity("ex:in%d" % i), b.used("ex:a", "ex:in%d" % i)))))
    # bundles on their own
    d = with_bundles(["ex:b1", "ex:b2"])
    for b in sorted(d.bundles, key=lambda b: str(b.identifier)):
        p.append(("bundle " + str(b.identifier), b))
    d2 = with_bundles(["ex:b1", "ex:b2"], order=1)
    for b in sorted(d2.bundles, key=lambda b: str(b.identifier)):
        p.append(("bundle' " + str(b.identifier), b))
    # a detached bundle with the same records as "base" and one without identifier
    fb = ProvBundle(identifier=EX["free"])
    fb.add_namespace(EX)
    fb.set_default_namespace("http://default.example/")
    for r in base().get_records():
        fb.add_record(r)
    p.append(("free-bundle=base-records", fb))
    p.append(("anon-empty-bundle", ProvBundle()))
    # flattened / unified variants and library examples
    p.append(("b12.flattened", with_bundles(["ex:b1", "ex:b2"]).flattened()))
    p.append(("base.unified", base().unified()))
    p.append(("base+dup.unified", base(extra=lambda d: d.entity("ex:e2")).unified()))
    for name, fn in (("primer", examples.primer_example), ("primer_alt", examples.primer_example_alternate),
                     ("bundles1", examples.bundles1), ("bundles2", examples.bundles2),
                     ("datatypes", examples.datatypes)):
        p.append((name, fn()))
        p.append((name + "'", fn()))
    # foreign objects
    p.append(("None", None))
    p.append(("str", "document"))
    p.append(("record", base().get_record("ex:e1")[0]))
    p.append(("list-of-records", list(base().get_records())))
    return p


def main():
    out = []
    items = pool()
    for na, a in items:
        for nb, b in items:
            del LOG[:]
            try:
                eq = a == b
            except Exception as e:
                eq = "EXC %s" % type(e).__name__
            log_eq = list(LOG)
            del LOG[:]
            try:
                ne = a != b
            except Exception as e:
                ne = "EXC %s" % type(e).__name__
            log_ne = list(LOG)
            line = "%-28s %-28s eq=%s ne=%s log_eq=%r log_ne=%r" % (na, nb, eq, ne, log_eq, log_ne)
            out.append(line)
            print(line)
    # direct calls of the dunder methods (what subclasses / super() users see)
    docs = [(n, o) for n, o in items if isinstance(o, ProvBundle)]
    for na, a in docs:
        for nb, b in items:
            del LOG[:]
            r1 = ProvBundle.__eq__(a, b)
            r2 = type(a).__eq__(a, b)
            line = "direct %-28s %-28s ProvBundle.__eq__=%r type.__eq__=%r nlog=%d" % (na, nb, r1, r2, len(LOG))
            out.append(line)
            print(line)
    # the operands are left untouched by comparing
    for n, o in docs:
        line = "after %-28s records=%d provn_sha=%s" % (
            n, len(o.get_records()), hashlib.sha256(o.get_provn().encode("utf-8")).hexdigest()[:16])
        out.append(line)
        print(line)
    print("DIGEST", hashlib.sha256("\n".join(out).encode("utf-8")).hexdigest())


main()
