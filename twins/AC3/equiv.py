"""Differential script for prov.dot (prov_to_dot, _quoted, htlm_link_if_uri).

Prints a deterministic digest (full DOT text + sha256) for many documents and options.
"""
import datetime
import hashlib
import itertools

import prov.dot as pd
from prov.dot import prov_to_dot
from prov.identifier import Identifier, QualifiedName, Namespace
from prov.model import ProvDocument, Literal, PROV_ATTR_ACTIVITY
from prov.tests import examples

EX = Namespace("ex", "http://example.org/")


def custom_docs():
    out = []
    out.append(("empty", ProvDocument()))

    d = ProvDocument()
    d.add_namespace("ex", "http://example.org/")
    d.add_namespace("odd", 'http://odd.example/a"b\\c<d>&e?x=1&y=2#')
    d.entity("ex:e1")
    d.entity("ex:e1", {"ex:a": 1, "ex:b": "two"})  # repeated identifier
    d.entity("ex:same", {"prov:label": "ex:same"})
    d.entity("ex:lab", {"prov:label": 'A "quoted" <b>label</b> & more \\ back'})
    d.entity("odd:we ird", {"prov:label": "é ü 漢字", "ex:when": datetime.datetime(2021, 2, 3, 4, 5, 6, 789)})
    d.entity(
        "ex:attrs",
        {
            "ex:id": Identifier("http://id.example/x?a=1&b=<2>"),
            "ex:qn": EX["qn"],
            "ex:lit": Literal("bonjour", langtag="fr"),
            "ex:typed": Literal("12", datatype=EX["myint"]),
            "ex:empty": "",
            "ex:zero": 0,
            "ex:float": 1.5,
            "ex:bool": True,
            "ex:dt": datetime.datetime(2020, 1, 1, tzinfo=datetime.timezone.utc),
            "prov:type": EX["Thing"],
            "prov:location": "somewhere <here>",
            "prov:value": 'v"al',
        },
    )
    d.activity("ex:a1", datetime.datetime(2020, 1, 1), datetime.datetime(2020, 1, 2), {"ex:k": 'q"uote'})
    d.activity("ex:a0")
    d.agent("ex:ag", {"prov:type": "prov:Person", "prov:label": "Agent Smith"})
    d.wasGeneratedBy("ex:e1", "ex:a1", datetime.datetime(2020, 1, 2))
    d.wasGeneratedBy("ex:e1", "ex:a1", None, "ex:g1", {"ex:role": "out", "ex:ref": EX["ref"]})
    d.wasGeneratedBy("ex:e2", None)  # missing second end
    d.wasGeneratedBy("ex:e2", None, datetime.datetime(2020, 5, 5), other_attributes={"ex:x": "y"})
    d.used("ex:a2", "ex:e3")  # both inferred
    d.used("ex:a2", "ex:e3", identifier="ex:u1")
    d.wasAssociatedWith("ex:a1", "ex:ag", "ex:plan")
    d.wasAssociatedWith("ex:a1", None, "ex:plan")
    d.wasAssociatedWith("ex:a1", "ex:ag", "ex:plan", "ex:assoc", {"ex:note": "n-ary & attrs"})
    d.actedOnBehalfOf("ex:ag2", "ex:ag", "ex:a1")
    d.actedOnBehalfOf("ex:ag2", "ex:ag")
    d.wasDerivedFrom("ex:e4", "ex:e1", "ex:a1", "ex:g", "ex:u")
    d.wasDerivedFrom("ex:e4", "ex:e1", None, None, "ex:u")
    d.wasDerivedFrom("ex:e4", "ex:e1", other_attributes={"prov:type": "prov:Revision"})
    d.hadMember("ex:c", "ex:e1")
    d.specializationOf("ex:e1", "ex:e5")
    d.alternateOf("ex:e5", "ex:e6")
    d.wasInformedBy("ex:a3", "ex:a1")
    d.wasStartedBy("ex:a3", "ex:trig", "ex:a1", datetime.datetime(2019, 1, 1))
    d.wasEndedBy("ex:a3", None, "ex:a1")
    d.wasEndedBy("ex:a3", "ex:trig2", None)
    d.wasInvalidatedBy("ex:e6", "ex:a3")
    d.wasAttributedTo("ex:e6", "ex:ag3")
    d.wasInfluencedBy("ex:x", "ex:y")
    d.wasInfluencedBy("odd:s p", 'odd:q"t')
    d.mentionOf("ex:e7", "ex:e1", "ex:b1")
    out.append(("mixed", d))

    d = ProvDocument()
    d.add_namespace("ex", "http://example.org/")
    d.entity("ex:e1", {"ex:top": "level"})
    b = d.bundle("ex:b1")
    b.entity("ex:e1", {"prov:label": "inner", "ex:in": 1})
    b.activity("ex:a1")
    b.wasGeneratedBy("ex:e1", "ex:a1", None, None, {"ex:r": "x"})
    b2 = d.bundle('ex:b"2')
    b2.used("ex:a9", "ex:e9")
    b2.used("ex:a9", "ex:e1")
    d.bundle("ex:emptybundle")
    d.wasAttributedTo("ex:b1", "ex:ag")
    d.entity("ex:b1", {"prov:type": "prov:Bundle"})
    out.append(("bundles", d))
    out.append(("bundle-only", b))
    out.append(("bundle2-only", b2))

    d = ProvDocument()
    d.set_default_namespace("http://default.example/")
    d.entity("plain", {"prov:label": "plain"})
    d.entity("other", {"prov:label": Literal("multi", langtag="en")})
    d.wasDerivedFrom("plain", "other")
    out.append(("default-ns", d))

    # a document that cannot be unified (conflicting formal attributes)
    d = ProvDocument()
    d.add_namespace("ex", "http://example.org/")
    d.activity("ex:a", datetime.datetime(2020, 1, 1))
    d.activity("ex:a", datetime.datetime(2021, 1, 1))
    d.wasInformedBy("ex:a", "ex:b")
    out.append(("not-unifiable", d))
    return out


def all_docs():
    for name, fn in examples.tests:
        yield name, fn()
    yield "primer_alt", examples.primer_example_alternate()
    for name, d in custom_docs():
        yield name, d


OPTIONS = [
    {},
    {"use_labels": True},
    {"show_nary": False},
    {"show_element_attributes": False},
    {"show_relation_attributes": False},
    {"show_nary": False, "show_relation_attributes": False, "show_element_attributes": False, "use_labels": True},
    {"direction": "LR"},
    {"direction": "TB", "use_labels": True, "show_nary": False},
    {"direction": "RL"},
    {"direction": "bogus"},
    {"direction": None},
]


def dot_digest(dot):
    text = dot.to_string()
    lines = ["  " + l for l in text.splitlines()]
    lines.append("  sha=%s" % hashlib.sha256(text.encode("utf-8")).hexdigest())
    return lines


def run(tag):
    lines = []
    for name, doc in all_docs():
        for opts in OPTIONS:
            lines.append("=== %s %s %s" % (tag, name, sorted(opts.items(), key=str)))
            try:
                dot = prov_to_dot(doc, **opts)
            except Exception as e:  # noqa
                lines.append("  %s: %s" % (type(e).__name__, e))
                continue
            lines.extend(dot_digest(dot))
            lines.append("  type=%s graph_type=%s" % (type(dot).__name__, dot.get_type()))
    # positional call
    doc = examples.primer_example()
    lines.append("=== positional")
    lines.extend(dot_digest(prov_to_dot(doc, False, True, "LR", False, False)))
    # calling twice restarts the id counters
    lines.append("=== twice")
    lines.append("  same=%s" % (prov_to_dot(doc).to_string() == prov_to_dot(doc).to_string()))
    return lines


class WithUri:
    def __init__(self, uri, text):
        self.uri = uri
        self._t = text

    def __str__(self):
        return self._t

    def __repr__(self):
        return "WithUri(%r, %r)" % (str.__repr__(self.uri) if isinstance(self.uri, str) else self.uri, str.__repr__(self._t))


class FmtStr(str):
    def __format__(self, spec):
        return "FORMATTED"

    def __str__(self):
        return "STR:" + str.__str__(self)


def helpers():
    lines = ["=== helpers"]
    values = [
        "",
        "plain",
        'a"b',
        "back\\slash",
        '\\"',
        "new\nline",
        "é漢",
        0,
        None,
        1.5,
        EX["q n"],
        Identifier('http://x/"y"'),
        WithUri("http://u/?a=1&b=2", "shown <text>"),
        WithUri(FmtStr("http://fmt/"), FmtStr("fmt")),
        WithUri(None, ""),
        FmtStr('f"s'),
        ("tu", "ple"),
        (1,),
        datetime.datetime(2020, 1, 1),
    ]
    for v in values:
        lines.append("  _quoted(%r) = %r" % (v, pd._quoted(v)))
        lines.append("  htlm_link_if_uri(%r) = %r" % (v, pd.htlm_link_if_uri(v)))
    return lines


def module_tables():
    lines = ["=== module tables"]
    for name in (
        "GENERIC_NODE_STYLE",
        "DOT_PROV_STYLE",
        "ANNOTATION_STYLE",
        "ANNOTATION_LINK_STYLE",
        "ANNOTATION_START_ROW",
        "ANNOTATION_ROW_TEMPLATE",
        "ANNOTATION_END_ROW",
    ):
        v = getattr(pd, name)
        if isinstance(v, dict):
            v = [(str(k), val) for k, val in v.items()]
        lines.append("  %s = %r" % (name, v))
    return lines


def missing_table_entries():
    """Remove an entry of the shared inference table in place: generic node style falls back."""
    table = pd.INFERRED_ELEMENT_CLASS
    saved = table.pop(PROV_ATTR_ACTIVITY)
    try:
        return run("without prov:activity")
    finally:
        table[PROV_ATTR_ACTIVITY] = saved


def bad_inputs():
    lines = ["=== bad inputs"]
    for bad in (None, 5, "abc"):
        try:
            prov_to_dot(bad)
            lines.append("  no error")
        except Exception as e:  # noqa
            lines.append("  %s: %s" % (type(e).__name__, e))
    return lines


def main():
    lines = run("normal")
    lines.extend(helpers())
    lines.extend(module_tables())
    lines.extend(missing_table_entries())
    lines.extend(bad_inputs())
    text = "\n".join(lines)
    print(text)
    print("SHA256", hashlib.sha256(text.encode("utf-8")).hexdigest())


main()
