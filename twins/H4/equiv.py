"""Differential script for prov.model.sorted_attributes (direct calls and via the
PROV-XML serializer and the DOT exporter).  Prints a deterministic digest."""
import os
import sys

if os.environ.get("PYTHONHASHSEED") != "0":
    os.environ["PYTHONHASHSEED"] = "0"
    os.execv(sys.executable, [sys.executable] + sys.argv)

import datetime
import hashlib
import io
import itertools
import random

import prov.model as pm
from prov.constants import *  # NOQA
from prov.identifier import Identifier, Namespace
from prov.model import sorted_attributes

EX = Namespace("ex", "http://example.org/")
EX2 = Namespace("ex2", "http://example.org/")  # same uri, other prefix
ZZ = Namespace("aa", "http://zz.example/")


def show(label, value):
    value = str(value)
    print("%-50s %s len=%d" % (label, hashlib.sha256(value.encode("utf-8")).hexdigest()[:16], len(value)))


def fmt(pairs):
    return "\n".join(
        "%r | %s | %r | %s | %r" % (p[0], type(p[1]).__name__, p[1], id_free(p[1]), tuple(p[2:])) for p in pairs
    )


def id_free(v):
    if isinstance(v, pm.Literal):
        return "L(%r,%s,%s)" % (v.value, v.datatype, v.langtag)
    return str(v)


def attempt(label, fn):
    try:
        res = fn()
    except Exception as exc:  # noqa
        res = "EXC %s: %s" % (type(exc).__name__, exc)
        print("    " + res[:160])
    show(label, res)


when = datetime.datetime(2012, 1, 2, 3, 4, 5)
POOL = [
    (PROV_ATTR_ENTITY, EX["e1"]),
    (PROV_ATTR_ACTIVITY, EX["a1"]),
    (PROV_ATTR_TIME, when),
    (PROV_ATTR_STARTTIME, when),
    (PROV_ATTR_ENDTIME, when + datetime.timedelta(1)),
    (PROV_ATTR_GENERATED_ENTITY, EX["e2"]),
    (PROV_ATTR_USED_ENTITY, EX["e1"]),
    (PROV_ATTR_AGENT, EX["ag"]),
    (PROV_ATTR_PLAN, EX["plan"]),
    (PROV_LABEL, "zeta"),
    (PROV_LABEL, "alpha"),
    (PROV_LABEL, pm.Literal("mid", langtag="en")),
    (PROV_LABEL, pm.Literal("alpha", langtag="de")),
    (PROV_LOCATION, "Paris"),
    (PROV_LOCATION, Identifier("urn:loc")),
    (PROV_ROLE, EX["role"]),
    (PROV_ROLE, "role"),
    (PROV_TYPE, PROV["Person"]),
    (PROV_TYPE, EX["Type"]),
    (PROV_TYPE, "Type"),
    (PROV_TYPE, pm.Literal(EX["Type"], datatype=XSD_QNAME)),
    (PROV_VALUE, 10),
    (PROV_VALUE, 9),
    (PROV_VALUE, "10"),
    (PROV_VALUE, 10.0),
    (PROV_VALUE, True),
    (EX["b"], 2),
    (EX["a"], 2),
    (EX["a"], 1),
    (EX["a"], "1"),
    (EX["a"], pm.Literal("1", datatype=XSD_INT)),
    (EX2["a"], 0),
    (ZZ["z"], ""),
    (EX["A"], None),
    (EX["when"], when),
    (EX["b"], 2),  # exact duplicate
    (PROV_LABEL, "alpha"),  # exact duplicate of a universal attribute
    (PROV_ATTR_ENTITY, EX["e1"]),  # duplicate of a formal attribute
]

ELEMENTS = [
    PROV_ENTITY, PROV_ACTIVITY, PROV_AGENT, PROV_GENERATION, PROV_USAGE, PROV_DERIVATION,
    PROV_ASSOCIATION, PROV_START, PROV_END, PROV_COMMUNICATION, PROV_ATTRIBUTION,
    PROV_DELEGATION, PROV_INFLUENCE, PROV_INVALIDATION, PROV_SPECIALIZATION,
    PROV_ALTERNATE, PROV_MENTION, PROV_MEMBERSHIP,
]


def direct():
    rnd = random.Random(12345)
    for el in ELEMENTS:
        attempt("empty %s" % el, lambda: fmt(sorted_attributes(el, [])))
        attempt("pool %s" % el, lambda: fmt(sorted_attributes(el, POOL)))
        attempt("reversed pool %s" % el, lambda: fmt(sorted_attributes(el, reversed(POOL))))
        for n in range(4):
            sample = rnd.sample(POOL, rnd.randint(1, len(POOL)))
            attempt("sample%d %s" % (n, el), lambda: fmt(sorted_attributes(el, sample)))
    # input is not modified, result is a new list, generators and sets accepted
    src = list(POOL)
    res = sorted_attributes(PROV_ENTITY, src)
    show("input untouched", "%s %s %s" % (src == POOL, res is src, len(res)))
    attempt("generator input", lambda: fmt(sorted_attributes(PROV_USAGE, (p for p in POOL))))
    attempt("tuple input", lambda: fmt(sorted_attributes(PROV_USAGE, tuple(POOL))))
    attempt("dict items input", lambda: fmt(sorted_attributes(PROV_ENTITY, {EX["k"]: 1, PROV_TYPE: "t", PROV_LABEL: "l"}.items())))
    attempt("list pairs (not tuples)", lambda: fmt(sorted_attributes(PROV_ENTITY, [[EX["k"], 1], [PROV_TYPE, "t"], [EX["a"], 3]])))
    attempt("string keys", lambda: fmt(sorted_attributes(PROV_ENTITY, [("prov:type", "t"), ("ex:a", 1), (PROV_TYPE, "u")])))
    # error cases
    attempt("unknown element", lambda: fmt(sorted_attributes(EX["nothing"], POOL)))
    attempt("None element", lambda: fmt(sorted_attributes(None, POOL)))
    attempt("attributes None", lambda: fmt(sorted_attributes(PROV_ENTITY, None)))
    attempt("pair too short", lambda: fmt(sorted_attributes(PROV_ENTITY, [(EX["a"],)])))
    attempt("pair too short universal", lambda: fmt(sorted_attributes(PROV_ENTITY, [(PROV_TYPE,), (PROV_TYPE,)])))
    attempt("non sequence item", lambda: fmt(sorted_attributes(PROV_ENTITY, [5])))
    attempt("triples", lambda: fmt(sorted_attributes(PROV_ENTITY, [(EX["a"], 1, "x"), (PROV_TYPE, 2, "y"), (EX["a"], 0, "z")])))
    # all permutations of a small list: stability / tie handling
    small = [(EX["a"], 1), (EX["a"], "1"), (EX2["a"], 1), (PROV_TYPE, "x"), (PROV_TYPE, pm.Literal("x"))]
    out = []
    for perm in itertools.permutations(small):
        out.append(fmt(sorted_attributes(PROV_ENTITY, perm)))
    show("permutations", "\n--\n".join(out))


def via_library():
    d = pm.ProvDocument()
    d.add_namespace(EX)
    d.add_namespace(ZZ)
    e = d.entity("ex:e1", [
        (PROV_LABEL, "zeta"), (PROV_LABEL, "alpha"), (PROV_TYPE, EX["Type"]), (PROV_TYPE, "Type"),
        (PROV_VALUE, 10), (PROV_LOCATION, "Paris"), (EX["b"], 2), (EX["a"], 2), (EX["a"], 1), (EX["a"], "1"), (ZZ["z"], ""),
    ])
    a = d.activity("ex:a1", when, None, {EX["host"]: "h", PROV_TYPE: EX["edit"], PROV_LABEL: "act"})
    ag = d.agent("ex:ag", {PROV_TYPE: PROV["Person"], EX["name"]: "Bob", EX["age"]: 30})
    d.wasGeneratedBy(e, a, when, "ex:g", {PROV_ROLE: "out", EX["z"]: 1, EX["y"]: 2})
    d.used(a, e, when, None, {PROV_ROLE: EX["in"], PROV_LOCATION: "x"})
    d.wasAssociatedWith(a, ag, "ex:plan", None, {PROV_ROLE: "r2", EX["q"]: "w"})
    d.wasDerivedFrom("ex:e2", e, a, "ex:g", "ex:u", None, {PROV_TYPE: PROV["Revision"], EX["c"]: 3})
    b = d.bundle("ex:b")
    b.entity("ex:e1", {EX["b"]: 1, EX["a"]: 2, PROV_LABEL: pm.Literal("l", langtag="en")})
    buf = io.BytesIO()
    d.serialize(buf, format="xml")
    show("xml", buf.getvalue().decode())
    buf = io.BytesIO()
    d.serialize(buf, format="xml", force_types=True)
    show("xml force_types", buf.getvalue().decode())
    from prov.dot import prov_to_dot

    show("dot", prov_to_dot(d).to_string())
    show("dot no element attrs", prov_to_dot(d, show_element_attributes=False).to_string())
    show("dot no relation attrs", prov_to_dot(d, show_relation_attributes=False).to_string())


if __name__ == "__main__":
    direct()
    via_library()
