# differential script for refactoring 1: text produced by Literal and ProvRecord.get_provn
import datetime, hashlib, logging, io
from prov.model import ProvDocument, Literal, PROV, Namespace, ProvRecord
from prov.identifier import Identifier, QualifiedName
from prov.constants import XSD_INT, XSD_STRING, PROV_TYPE, PROV_LABEL, XSD_ANYURI

stream = io.StringIO()
h = logging.StreamHandler(stream)
h.setFormatter(logging.Formatter("%(levelname)s|%(message)s"))
lg = logging.getLogger("prov.model")
lg.addHandler(h)
lg.setLevel(logging.DEBUG)

out = []
EX = Namespace("ex", "http://example.org/")
lits = [
    Literal("abc"),
    Literal("", XSD_STRING),
    Literal("a\nb", XSD_STRING),
    Literal('q"uo\\te', EX["dt"]),
    Literal("100%", EX["per%cent"]),
    Literal("bonjour", None, "fr"),
    Literal("multi\nline", None, "en-GB"),
    Literal("x", XSD_INT, "en"),
    Literal("x", PROV["InternationalizedString"], "en"),
    Literal(12, XSD_INT),
    Literal("%s %d {0} {x}", EX["{braces}"]),
    Literal("tag0", None, 0),
    Literal("empty-tag", None, ""),
    Literal(("t", 1), None, ("l",)),
]
for l in lits:
    out.append(("lit", l.provn_representation(), str(l), repr(l)))

d = ProvDocument()
d.add_namespace(EX)
d.set_default_namespace("http://default.example/")
e = d.entity("ex:e1", {"ex:s": "str", "ex:ml": "a\nb", "ex:i": 5, "ex:f": 1.5, "ex:b": True,
                       "ex:dt": datetime.datetime(2020, 1, 2, 3, 4, 5),
                       "ex:lit": Literal("v", EX["T"]), "ex:lang": Literal("hola", None, "es"),
                       "ex:q": EX["qn"], "ex:uri": Identifier("http://x.org/%41"),
                       "ex:pct": "50% {0}", PROV_TYPE: EX["Type"], PROV_LABEL: "lab\"el"})
e0 = d.entity("plain")
a = d.activity("ex:a1", "2011-11-16T16:05:00", None, {"ex:k": "v"})
a2 = d.activity("ex:a2", None, datetime.datetime(2012, 1, 1))
a3 = d.activity("ex:a3")
g = d.wasGeneratedBy(e, a, time="2012-03-04T05:06:07", identifier="ex:g1", other_attributes={"ex:role": "r"})
g2 = d.wasGeneratedBy(e, None)
u = d.used(a, e, identifier="ex:u1")
der = d.wasDerivedFrom("ex:e2", e, a, g, u, identifier="ex:d1")
ag = d.agent("ex:ag", [("ex:n", "1"), ("ex:n", "2")])
m = d.membership(d.collection("ex:c"), e)
b = d.bundle("ex:b1")
be = b.entity("ex:inb", {"ex:x": Literal("1", XSD_INT)})
men = d.mention("ex:e3", e, "ex:b1")
for r in [e, e0, a, a2, a3, g, g2, u, der, ag, m, be, men]:
    text = r.get_provn()
    # attribute order of sets is hash dependent: report sorted pieces and the frame
    out.append(("rec", type(r).__name__, len(text), sorted(text), str(r) == text,
                text.split("[")[0]))
out.append(("single", d.entity("ex:one", {"ex:only": "x%y"}).get_provn()))
out.append(("single", d.entity("ex:two", {"ex:only": Literal("a\nb", None, "en")}).get_provn()))
out.append(("single", d.activity("ex:act", "2001-01-01T00:00:00", "2001-01-02T00:00:00").get_provn()))
out.append(("single", d.wasAssociatedWith(a, ag, identifier="ex:assoc").get_provn()))
try:
    ProvRecord(d, EX["raw"]).get_provn()
except Exception as ex:
    out.append(("exc", type(ex).__name__, str(ex)))
out.append(("doc", sorted(d.get_provn().split("\n")).__len__()))
out.append(("log", stream.getvalue()))
for o in out:
    print(o)
print(hashlib.sha256(repr(out).encode()).hexdigest())
