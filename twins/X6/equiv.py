"""Differential driver for NamespaceManager (valid_qualified_name, add_namespace, ...)."""
import hashlib
from prov.identifier import Identifier, Namespace, QualifiedName
from prov.model import NamespaceManager, ProvDocument, PROV, XSD

lines = []


def show(tag, value):
    if isinstance(value, QualifiedName):
        text = "QN(%r|%r|%r|%r)" % (
            value.namespace.prefix, value.namespace.uri, value.localpart, str(value))
    elif isinstance(value, Namespace):
        text = "NS(%r|%r)" % (value.prefix, value.uri)
    elif isinstance(value, Identifier):
        text = "ID(%r)" % value.uri
    else:
        text = repr(value)
    lines.append("%s => %s" % (tag, text))


def dump(tag, nm):
    show(tag + ".keys", list(nm.keys()))
    for k, v in nm.items():
        show(tag + ".item[%r]" % (k,), v)
    show(tag + ".registered", [(p, n.prefix, n.uri) for p, n in nm._namespaces.items()])
    show(tag + ".default", nm.get_default_namespace())
    priv = {}
    for name, val in sorted(vars(nm).items()):
        if isinstance(val, dict) and name not in ("_namespaces", "_default_namespaces"):
            priv[len(priv)] = sorted(
                (repr(k), repr(v)) for k, v in val.items())
    show(tag + ".privmaps", sorted(priv.values()))


def attempt(tag, fn, *args):
    try:
        show(tag, fn(*args))
    except Exception as e:  # noqa
        lines.append("%s !! %s: %s" % (tag, type(e).__name__, e))


EX = Namespace("ex", "http://example.org/")
EX2 = Namespace("ex", "http://example.org/2/")
EX3 = Namespace("ex", "http://example.org/3/")
OTHER = Namespace("other", "http://example.org/")
DEF1 = Namespace("", "http://default.org/1/")
DEF2 = Namespace("", "http://default.org/2/")
UNI = Namespace("\u00e9x", "http://ex\u00e4mple.org/\u00fc#")

# ---- add_namespace / _get_unused_prefix / get_namespace / set_default_namespace
nm = NamespaceManager()
dump("fresh", nm)
for i, ns in enumerate([EX, EX, Namespace("ex", "http://example.org/"), EX2, EX3, EX2,
                        OTHER, UNI, Namespace("ex_1", "http://clash/"),
                        Namespace("prov", "http://not-prov/"), PROV, XSD,
                        Namespace("prov", PROV.uri), Namespace("p", PROV.uri)]):
    attempt("add[%d]" % i, nm.add_namespace, ns)
dump("after-add", nm)
for p in ["ex", "ex_1", "zzz", "", "prov", "xsd", "ex_2", "ex_3"]:
    attempt("unused[%r]" % p, nm._get_unused_prefix, p)
for u in ["http://example.org/", "http://example.org/2/", "http://nope/", PROV.uri, "",
          None, "http://clash/", Identifier("http://example.org/")]:
    attempt("get_namespace[%r]" % (u,), nm.get_namespace, u)
attempt("setdefault", nm.set_default_namespace, "http://default.org/1/")
dump("after-default", nm)
attempt("setdefault-bad", nm.set_default_namespace, "  ")
attempt("setdefault-none", nm.set_default_namespace, None)
attempt("setdefault-2", nm.set_default_namespace, "http://default.org/2/")
attempt("get_namespace-default", nm.get_namespace, "http://default.org/2/")
dump("after-default2", nm)

# ---- valid_qualified_name, QualifiedName argument
def qn_cases(tag, nm):
    cases = [
        EX["a"], Namespace("ex", "http://example.org/")["a"], EX2["b"], EX3["c c"],
        OTHER["d"], DEF1["e"], DEF1["e2"], Namespace("", "http://default.org/1/")["e3"],
        DEF2["f"], DEF2["g"], Namespace("", "http://default.org/3/")["h"],
        PROV["Entity"], Namespace("prov", PROV.uri)["Agent"], Namespace("prov", "http://x/")["y"],
        UNI["\u00f1ame"], Namespace("dn", "http://dn/")["z"], EX[""],
        Namespace("new", "http://new/")["1:2"],
    ]
    for i, q in enumerate(cases):
        try:
            r = nm.valid_qualified_name(q)
            show("%s.qn[%d]" % (tag, i), r)
            lines.append("%s.qn[%d].same=%r nssame=%r" % (
                tag, i, r is q, r is not None and r.namespace is q.namespace))
        except Exception as e:  # noqa
            lines.append("%s.qn[%d] !! %s: %s" % (tag, i, type(e).__name__, e))
    dump(tag + ".after-qn", nm)


qn_cases("A", NamespaceManager())
qn_cases("B", NamespaceManager([EX, OTHER], default="http://default.org/2/"))
parent = NamespaceManager({"ex": "http://parent.org/", "par": "http://par.org/"},
                          default="http://pdefault/")
qn_cases("C", NamespaceManager([EX2], parent=parent))
dump("C.parent", parent)

# ---- valid_qualified_name, strings / identifiers / other values
def str_cases(tag, nm):
    cases = [
        None, "", 0, 5, 1.5, (), ("ex", "a"), [EX, "a"], b"ex:a", object,
        "ex:a", "ex:", ":a", "ex:a:b", "ex_1:q", "other:x", "unknown:x", "par:local",
        "http://example.org/abc", "http://example.org/2/abc", "http://example.org/",
        "http://par.org/x#y", "http://nowhere/else", "urn:uuid:1234", "_:b1", "_:", "_x",
        "plain", "pl ain", "\u00e9x:\u00fc", "http://ex\u00e4mple.org/\u00fc#n",
        "prov:Entity", PROV.uri + "Entity", "xsd:string", "mailto:a@b",
        Identifier("ex:a"), Identifier("http://example.org/id"), Identifier("noColon"),
        Identifier("_:blank"), Identifier("http://nowhere/"), Identifier(""),
        "dn:x", "http://default.org/2/zz", "http://pdefault/q",
    ]
    for i, q in enumerate(cases):
        attempt("%s.str[%d]" % (tag, i), nm.valid_qualified_name, q)
    dump(tag + ".after-str", nm)


nm1 = NamespaceManager([EX, EX2, OTHER, UNI])
str_cases("S1", nm1)
str_cases("S2", NamespaceManager([EX, EX2], default="http://default.org/2/"))
child = NamespaceManager([EX3], parent=parent)
str_cases("S3", child)
child2 = NamespaceManager(None, parent=NamespaceManager(parent=parent))
str_cases("S4", child2)
nm5 = NamespaceManager()
nm5.valid_qualified_name(DEF1["x"])
nm5.valid_qualified_name(DEF2["y"])
str_cases("S5", nm5)

# ---- through the document API (bundles, repeated identifiers)
doc = ProvDocument()
doc.add_namespace("ex", "http://example.org/")
doc.set_default_namespace("http://default.org/1/")
e1 = doc.entity("ex:e1")
e1b = doc.entity("ex:e1", {"ex:attr": "v", "http://example.org/other": 1})
doc.entity("noprefix")
b = doc.bundle("ex:bundle1")
b.add_namespace("ex", "http://example.org/2/")
b.add_namespace("bb", "http://bb/")
b.entity("ex:e1")
b.entity("bb:e2", {"prov:type": EX["T"]})
b.entity("http://example.org/full")
b.activity(DEF2["act"])
show("doc.provn", doc.get_provn())
dump("doc.nm", doc._namespaces)
dump("bundle.nm", b._namespaces)
show("flat.provn", doc.flattened().get_provn())
show("unified.provn", doc.unified().get_provn())

text = "\n".join(lines)
print(text)
print("DIGEST", hashlib.sha256(text.encode("utf-8")).hexdigest())
