# Differential script for refactoring 4 (ProvDocument.add_bundle, ProvDocument.bundle and users of the bundle table)
import os, sys
if "PYTHONHASHSEED" not in os.environ:
    os.environ["PYTHONHASHSEED"] = "0"
    os.execv(sys.executable, [sys.executable] + sys.argv)
import hashlib
from prov.model import ProvDocument, ProvBundle, Namespace
from prov.identifier import QualifiedName

out = []
def show(label, fn):
    try:
        out.append("%s: OK %r" % (label, fn()))
    except Exception as e:
        out.append("%s: EXC %s %s" % (label, type(e).__name__, e))

EX = Namespace("ex", "http://example.org/ex/")

def state(d):
    return (
        d.get_provn(),
        d.has_bundles(),
        [(repr(b.identifier), type(b.identifier).__name__, b.document is d, b._namespaces.parent is d._namespaces) for b in d.bundles],
        sorted((n.prefix, n.uri) for n in d.namespaces),
    )

def fresh():
    d = ProvDocument()
    d.add_namespace(EX)
    return d

# --- bundle()
def t_bundle(ident):
    d = fresh()
    try:
        b = d.bundle(ident)
        r = ("ok", repr(b), b.identifier == ident, b.document is d)
    except Exception as e:
        r = ("exc", type(e).__name__, str(e))
    return r, state(d)

for ident in ["ex:b", EX["q"], "nocolon", "unk:x", None, "", 0, "ex:ü ñ", "http://example.org/ex/full", ("ex", "b"), 3.5]:
    show("bundle(%r)" % (ident,), lambda: t_bundle(ident))

def t_bundle_twice():
    d = fresh(); d.bundle("ex:b")
    try:
        d.bundle(EX["b"])
    except Exception as e:
        return type(e).__name__, str(e), state(d)
show("bundle twice", t_bundle_twice)

d0 = ProvDocument(); d0.set_default_namespace("http://d/")
show("bundle default ns", lambda: (repr(d0.bundle("plain")), state(d0)))

# --- add_bundle()
def t_add(make_bundle, identifier=None, pre=()):
    d = fresh()
    for p in pre:
        d.bundle(p)
    b = make_bundle()
    try:
        r = ("ok", d.add_bundle(b, identifier) if identifier is not None else d.add_bundle(b))
    except Exception as e:
        r = ("exc", type(e).__name__, str(e))
    after = (repr(getattr(b, "identifier", None)), getattr(b, "document", None) is d) if isinstance(b, ProvBundle) else None
    return r, after, state(d)

def free(identifier=None, ns=True):
    b = ProvBundle(identifier=identifier, namespaces=[Namespace("in", "http://in/")] if ns else None)
    b.entity("in:e" if ns else EX["e"])
    return b

def as_doc(nested=False):
    x = ProvDocument(); x.add_namespace("dd", "http://dd/"); x.entity("dd:e"); x.set_default_namespace("http://xd/")
    if nested:
        x.bundle("dd:inner")
    return x

show("add free with qn id", lambda: t_add(lambda: free(EX["b1"])))
show("add free with str id", lambda: t_add(lambda: free("ex:b1")))
show("add free no id", lambda: t_add(lambda: free()))
show("add free empty id", lambda: t_add(lambda: free("")))
show("add free explicit id", lambda: t_add(lambda: free(), "ex:given"))
show("add free explicit overrides", lambda: t_add(lambda: free(EX["own"]), EX["given"]))
show("add free own-ns id", lambda: t_add(lambda: free("in:b")))
show("add free unknown prefix", lambda: t_add(lambda: free("zz:b")))
show("add free unicode", lambda: t_add(lambda: free(), "ex:é/ü#1"))
show("add duplicate (identifier rewritten first)", lambda: t_add(lambda: free("ex:b1"), pre=["ex:b1"]))
show("add duplicate explicit", lambda: t_add(lambda: free(EX["other"]), "ex:b1", pre=["ex:b1", "ex:b2"]))
show("add document", lambda: t_add(lambda: as_doc(), "ex:fromdoc"))
show("add document no id", lambda: t_add(lambda: as_doc()))
show("add nested document", lambda: t_add(lambda: as_doc(True), "ex:fromdoc"))
for bad in [None, "ex:b", 5, object()]:
    show("add non-bundle %s" % type(bad).__name__, lambda: t_add(lambda: bad, "ex:x"))
show("add kw", lambda: (lambda d, b: (d.add_bundle(bundle=b, identifier="ex:kw"), state(d)))(fresh(), free()))

# --- users of the bundle table: eq, flattened, update, unified, has_bundles, bundles
def big():
    d = fresh()
    d.entity("ex:top")
    b = d.bundle("ex:b1"); b.entity("ex:in1"); b.entity("ex:in1", {"ex:k": 1})
    d.add_bundle(free("ex:b2"))
    return d
show("eq", lambda: (big() == big(), big() == fresh(), big() != big()))
show("flattened", lambda: (big().flattened().get_provn(), fresh().flattened().get_provn()))
show("unified", lambda: state(big().unified()))
def t_update():
    a = big(); c = fresh(); c.bundle("ex:b1").agent("ex:ag"); c.bundle("ex:b9").agent("ex:ag9")
    a.update(c)
    return state(a)
show("update", t_update)
show("bundles type", lambda: (type(big().bundles).__name__, type(ProvBundle().bundles).__name__, len(big().bundles)))
show("json roundtrip", lambda: ProvDocument.deserialize(content=big().serialize(format="json"), format="json") == big())
show("xml", lambda: big().serialize(format="xml"))

text = "\n".join(out)
print(text)
print("DIGEST", hashlib.sha256(text.encode("utf-8")).hexdigest())
