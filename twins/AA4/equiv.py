# Differential script for refactoring 4 (try/finally -> with, conditional restructuring
# in ProvJSONSerializer.serialize/deserialize and ProvNSerializer.serialize).
import io
import json
import logging
import os
import sys
import tempfile

sys.path.insert(0, os.path.dirname(os.path.abspath(__file__)))
import corpus  # noqa: E402
from prov.serializers.provjson import ProvJSONSerializer  # noqa: E402
from prov.serializers.provn import ProvNSerializer  # noqa: E402
from prov.model import ProvDocument  # noqa: E402

logging.basicConfig(stream=sys.stdout, format="LOG %(levelname)s %(name)s %(message)s")


class Recorder(object):
    """Not an io class: must receive bytes, exactly one write call."""

    def __init__(self):
        self.calls = []

    def write(self, data):
        self.calls.append((type(data).__name__, len(data), corpus.digest(data)))
        return 7


class TextRecorder(io.TextIOBase):
    def __init__(self):
        self.calls = []

    def write(self, data):
        self.calls.append((type(data).__name__, len(data), corpus.digest(data)))
        return len(data)


class Failing(io.TextIOBase):
    def write(self, data):
        raise OSError("disk full: %s" % type(data).__name__)


class FailingBinary(object):
    def write(self, data):
        raise OSError("pipe closed: %s" % type(data).__name__)


class NoWrite(object):
    pass


def run_serializer(cls, doc, tag, **kwargs):
    ser = cls(doc)
    s = io.StringIO()
    r = corpus.attempt(ser.serialize, s, **kwargs)
    print(tag, "StringIO", r, "closed=%s" % s.closed)
    if r[0] == "ok":
        print(s.getvalue())
    b = io.BytesIO()
    r = corpus.attempt(ser.serialize, b, **kwargs)
    print(tag, "BytesIO", r, type(b.getvalue()).__name__, corpus.digest(b.getvalue()), len(b.getvalue()))
    if r[0] == "ok" and s.getvalue():
        print(tag, "bytes==text.encode:", b.getvalue() == s.getvalue().encode("utf-8"))
    for stream_cls in (Recorder, TextRecorder):
        st = stream_cls()
        r = corpus.attempt(ser.serialize, st, **kwargs)
        print(tag, stream_cls.__name__, r, st.calls)
    for stream_cls in (Failing, FailingBinary, NoWrite):
        print(tag, stream_cls.__name__, corpus.attempt(ser.serialize, stream_cls(), **kwargs))
    tmp = tempfile.mkdtemp()
    for mode, enc in (("w", "utf-8"), ("wb", None), ("w", "latin-1"), ("w", "ascii")):
        path = os.path.join(tmp, "out")
        f = open(path, mode, encoding=enc) if enc else open(path, mode)
        r = corpus.attempt(ser.serialize, f, **kwargs)
        f.close()
        data = open(path, "rb").read()
        print(tag, "file", mode, enc, r, len(data), corpus.digest(data))
        os.remove(path)
    os.rmdir(tmp)


for name, make in corpus.DOCS:
    d = make()
    run_serializer(ProvJSONSerializer, d, "json " + name)
    run_serializer(ProvNSerializer, d, "provn " + name)
run_serializer(ProvJSONSerializer, corpus.doc_rich(), "json-indent", indent=2)
run_serializer(ProvJSONSerializer, corpus.doc_rich(), "json-sort", sort_keys=True, ensure_ascii=False, separators=(",", ":"))
run_serializer(ProvJSONSerializer, corpus.doc_rich(), "json-badkw", bogus=1)
run_serializer(ProvNSerializer, corpus.doc_rich(), "provn-kw", bogus=1, indent=3)
run_serializer(ProvJSONSerializer, None, "json-None")
run_serializer(ProvNSerializer, None, "provn-None")
run_serializer(ProvJSONSerializer, ProvJSONSerializer().document, "json-default")
# unencodable value -> the error propagates, nothing is written
bad = ProvDocument()
bad.add_namespace("ex", "http://example.org/")
bad.entity("ex:e", {"ex:k": 1 + 2j})
run_serializer(ProvJSONSerializer, bad, "json-unencodable")

# ProvDocument.serialize front door
d = corpus.doc_rich()
for fmt in ("json", "provn"):
    text = d.serialize(format=fmt)
    print(fmt, "front door", type(text).__name__, corpus.digest(text), len(text))
    tmp = tempfile.mkdtemp()
    path = os.path.join(tmp, "doc." + fmt)
    d.serialize(path, format=fmt)
    print(fmt, "path", corpus.digest(open(path, "rb").read()))
    os.remove(path)
    os.rmdir(tmp)


# deserialize
class Reader(object):
    def __init__(self, data):
        self.data = data
        self.reads = 0

    def read(self, *args):
        self.reads += 1
        return self.data


class TextReader(io.TextIOBase):
    def __init__(self, data):
        self.data = data
        self.reads = 0

    def read(self, *args):
        self.reads += 1
        out, self.data = self.data, ""
        return out


def show_doc(tag, r):
    if r[0] == "ok":
        print(tag, "ok", type(r[1]).__name__)
        print(corpus.describe_doc(r[1]))
    else:
        print(tag, r)


ser = ProvJSONSerializer()
inputs = dict(corpus.JSON_INPUTS)
inputs["rich"] = corpus.doc_rich().serialize(format="json")
inputs["not_json"] = "{not json"
inputs["blank"] = ""
inputs["list"] = "[1, 2]"
inputs["nonascii"] = '{"prefix": {"é": "http://é/"}, "entity": {"é:ü": {"é:k": "☃"}}}'
inputs["float_kw"] = '{"prefix": {"ex": "http://e/"}, "entity": {"ex:e": {"ex:k": 1.10}}}'
for name, text in inputs.items():
    show_doc("des StringIO " + name, corpus.attempt(ser.deserialize, io.StringIO(text)))
    show_doc("des BytesIO " + name, corpus.attempt(ser.deserialize, io.BytesIO(text.encode("utf-8"))))
    rd = Reader(text.encode("utf-8"))
    show_doc("des Reader " + name, corpus.attempt(ser.deserialize, rd))
    print("reads", rd.reads)
    tr = TextReader(text)
    show_doc("des TextReader " + name, corpus.attempt(ser.deserialize, tr))
    print("reads", tr.reads)
print(corpus.attempt(ser.deserialize, io.BytesIO(b'{"entity": {"\xff": {}}}')))
print(corpus.attempt(ser.deserialize, Reader("text from a non-text stream")))
print(corpus.attempt(ser.deserialize, Reader(None)))
print(corpus.attempt(ser.deserialize, object()))
print(corpus.attempt(ser.deserialize, None))
import decimal  # noqa: E402
r = corpus.attempt(ser.deserialize, io.StringIO(inputs["float_kw"]), parse_float=decimal.Decimal)
show_doc("des kwargs", r)
r = corpus.attempt(ser.deserialize, io.BytesIO(inputs["float_kw"].encode()), parse_float=decimal.Decimal)
show_doc("des kwargs bytes", r)
print(corpus.attempt(ser.deserialize, io.StringIO("{}"), bogus=1))
print(corpus.attempt(ser.deserialize, io.BytesIO(b"{}"), bogus=1))
st = io.StringIO("{}")
st.close()
print(corpus.attempt(ser.deserialize, st))
print(corpus.attempt(ProvNSerializer().deserialize, io.StringIO("document\nendDocument")))
show_doc("front door", corpus.attempt(ProvDocument.deserialize, content=inputs["rich"], format="json"))
show_doc("front door bytes", corpus.attempt(ProvDocument.deserialize, content=inputs["nonascii"].encode("utf-8"), format="json"))
