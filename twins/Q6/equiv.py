# Shared corpus builder (copied verbatim into every equiv.py so each is self-contained)
import datetime, hashlib, io, os, sys, tempfile, traceback, contextlib

# -- determinism: fixed string hashing (attribute sets) and counted rdflib blank nodes
if os.environ.get("PYTHONHASHSEED") != "0":
    os.environ["PYTHONHASHSEED"] = "0"
    os.execv(sys.executable, [sys.executable] + sys.argv)
import rdflib.term as _rt


class _CountedUUID:
    n = 0

    def __call__(self):
        type(self).n += 1
        return self

    @property
    def hex(self):
        return "%032x" % type(self).n


_rt.uuid4 = _CountedUUID()

from prov.model import ProvDocument, Namespace, Literal, PROV, Identifier, QualifiedName
from prov.tests import examples


def edge_doc(odd_ns=False):
    d = ProvDocument()
    d.set_default_namespace("http://default.example/")
    ex = d.add_namespace("ex", "http://example.org/")
    if odd_ns:
        d.add_namespace("odd", "http://example.org/odd path/#")
    e1 = d.entity("ex:e1", {"prov:label": "café ☃ <&> \"q\" 'a'", "ex:n": 1, "ex:f": 2.5,
                            "ex:b": True, "ex:s": "", "ex:uri": Identifier("http://x.org/a?b=c&d"),
                            "ex:q": ex["qn"], "ex:t": datetime.datetime(2020, 1, 2, 3, 4, 5, 678)})
    # repeated identifier, several values for one attribute
    d.entity("ex:e1", {"ex:n": 2, "prov:type": ex["T"]})
    d.entity("ex:e1", [("ex:tag", "a"), ("ex:tag", "b"), ("ex:tag", Literal("c", langtag="en"))])
    d.entity("noprefix")
    a = d.activity("ex:a1", datetime.datetime(2012, 3, 4, 5, 6, 7), None, {"prov:type": "ex:edit"})
    ag = d.agent("ex:ag", {"prov:type": PROV["Person"], "prov:location": "Paris",
                           "prov:value": Literal("10", datatype=ex["dt"])})
    d.wasGeneratedBy(e1, a, datetime.datetime(2012, 3, 4, 5, 6, 8), identifier="ex:g1",
                     other_attributes={"prov:role": "writer"})
    d.wasGeneratedBy(e1, a)
    d.used(a, e1)
    d.used(a, None, None, {"ex:why": "unknown"})
    d.wasAssociatedWith(a, ag, "ex:plan")
    d.actedOnBehalfOf(ag, "ex:boss", a)
    d.wasDerivedFrom("ex:e2", e1, other_attributes={"prov:type": PROV["Revision"]})
    d.alternateOf("ex:e2", e1)
    d.specializationOf("ex:e2", e1)
    d.hadMember("ex:coll", e1)
    d.hadMember("ex:coll", "ex:e2")
    d.wasStartedBy(a, e1, None, datetime.datetime(2012, 1, 1))
    d.wasEndedBy(a, None, None, None)
    d.wasInvalidatedBy(e1, a, identifier="ex:inv")
    d.wasInformedBy("ex:a2", a)
    d.wasAttributedTo(e1, ag)
    d.wasInfluencedBy(e1, ag, identifier="ex:infl")
    b = d.bundle("ex:bundle1")
    b.add_namespace("bx", "http://bundle.example/ns#")
    b.entity("bx:inner", {"prov:label": Literal("hallo", langtag="de")})
    b.entity("ex:e1")
    b.mentionOf("bx:inner", "ex:e1", "ex:bundle1") if hasattr(b, "mentionOf") else None
    d.bundle("ex:emptybundle")
    return d


def corpus():
    docs = [("empty", ProvDocument())]
    only_ns = ProvDocument()
    only_ns.add_namespace("ex", "http://example.org/")
    docs.append(("only_ns", only_ns))
    for name, fn in examples.tests:
        docs.append((name, fn()))
    docs.append(("edge", edge_doc()))
    docs.append(("edge_oddns", edge_doc(odd_ns=True)))
    return docs


def digest(data):
    if isinstance(data, str):
        data = data.encode("utf-8")
    return hashlib.sha256(data).hexdigest()[:16]


def attempt(label, fn):
    """Run fn, print a deterministic line for its result or its exception."""
    out = io.StringIO()
    try:
        with contextlib.redirect_stdout(out):
            res = fn()
        if isinstance(res, (bytes, str)):
            shown = "%s len=%d sha=%s" % (type(res).__name__, len(res), digest(res))
        else:
            shown = repr(res)
        print("%-60s OK  %s  stdout=%r" % (label, shown, out.getvalue()))
    except BaseException as exc:  # noqa
        ctx = type(exc.__context__).__name__ if exc.__context__ is not None else None
        print("%-60s EXC %s: %s  ctx=%s  stdout=%r" % (label, type(exc).__name__, exc, ctx, out.getvalue()))


# ---- refactoring 6: provjson.encode_json_container (and encode_json_document / serialize on top of it)
import json
from prov.serializers import provjson
from prov.serializers.provjson import encode_json_container, encode_json_document, ProvJSONSerializer


def ordered(obj):
    """repr that keeps dict insertion order and container types visible"""
    if isinstance(obj, dict):
        return "%s{%s}" % (type(obj).__name__, ", ".join("%r: %s" % (k, ordered(v)) for k, v in obj.items()))
    if isinstance(obj, list):
        return "[%s]" % ", ".join(ordered(v) for v in obj)
    return "%s(%r)" % (type(obj).__name__, obj)


def tricky_doc():
    d = ProvDocument()
    ex = d.add_namespace("ex", "http://example.org/")
    d.add_namespace("ex2", "http://example.org/")  # same uri, other prefix
    d.add_namespace("default", "http://named-default.example/")  # a prefix called "default"
    d.set_default_namespace("http://real-default.example/")
    t = datetime.datetime(2014, 6, 7, 8, 9, 10)
    # identifiers used once, twice, three times; across record types as well
    d.entity("ex:once")
    d.entity("ex:twice", {"ex:v": 1})
    d.entity("ex:twice", {"ex:v": 2})
    for i in range(3):
        d.entity("ex:thrice", {"ex:i": i, "ex:same": "x"})
    d.agent("ex:twice")
    a = d.activity("ex:act", t, t)
    d.activity("ex:act", None, None, {"ex:again": True})
    # anonymous relations (blank ids), some equal to each other
    d.used(a, "ex:once")
    d.used(a, "ex:once")
    d.used(a, "ex:twice", t, other_attributes=[("ex:k", "v1"), ("ex:k", "v2"), ("ex:k", 3), ("ex:k", 3.5)])
    d.wasGeneratedBy("ex:once", a, t)
    d.wasGeneratedBy("ex:once", a, t, identifier="ex:gen")
    d.wasGeneratedBy("ex:once", None, None, identifier="ex:gen")
    d.hadMember("ex:c", "ex:once")
    d.hadMember("ex:c", "ex:twice")
    e = d.entity("ex:vals", [("prov:type", ex["A"]), ("prov:type", ex["B"]), ("prov:type", "str"),
                             ("prov:label", Literal("l", langtag="en")), ("prov:label", "plain"),
                             ("ex:id", Identifier("http://x/y")), ("ex:dt", t), ("ex:lit", Literal("1", datatype=ex["T"])),
                             ("ex:none", ""), ("ex:bool", False), ("ex:uni", "ünï☃ \"q\" \\ \n")])
    # an attribute key that exists but has no value left
    e._attributes[ex["emptied"]]
    e._attributes[PROV["atTime"]]
    blank = d.entity("ex:noattrs")
    blank._attributes.clear()
    b = d.bundle("ex:b1")
    b.set_default_namespace("http://bundle-default.example/")
    b.entity("ex:once")
    b.entity("ex:once")
    b.used("ex:act", "ex:once")
    b2 = d.bundle("ex:b2")
    return d


docs = corpus() + [("tricky", tricky_doc())]
for name, doc in docs:
    attempt("%s container(doc) ordered" % name, lambda: ordered(encode_json_container(doc)))
    print("   type:", type(encode_json_container(doc)).__name__, "keys:", list(encode_json_container(doc)))
    attempt("%s document ordered" % name, lambda: ordered(encode_json_document(doc)))
    for b in doc.bundles:
        attempt("%s container(bundle %s)" % (name, b.identifier), lambda: ordered(encode_json_container(b)))
    attempt("%s serialize" % name, lambda: doc.serialize(format="json"))
    attempt("%s serialize indent sorted" % name, lambda: doc.serialize(format="json", indent=1, sort_keys=True))
    def roundtrip():
        again = ProvDocument.deserialize(content=doc.serialize(format="json"), format="json")
        return "equal=%s %s" % (again == doc, digest(again.serialize(format="json", sort_keys=True)))
    attempt("%s roundtrip" % name, roundtrip)

# the returned container is still a live defaultdict(dict): missing keys spring into existence
c = encode_json_container(tricky_doc())
print("missing key ->", ordered(c["nonexistent"]), "| now keys:", list(c))
# the complete text for the tricky document, for readability of any difference
print(json.dumps(encode_json_document(tricky_doc()), indent=1))
attempt("container(None)", lambda: encode_json_container(None))
attempt("container(object())", lambda: encode_json_container(object()))
print("helpers public names:", sorted(n for n in dir(provjson) if n.startswith("encode") or n.startswith("decode")))
