# The library keeps attribute values in sets, so output order depends on string
# hashing: the script re-runs itself under fixed PYTHONHASHSEED values (0, 1, 2).
import os, subprocess, sys
if "--child" not in sys.argv:
    for seed in ("0", "1", "2"):
        env = dict(os.environ, PYTHONHASHSEED=seed)
        r = subprocess.run([sys.executable, os.path.abspath(__file__), "--child"], env=env,
                           stdout=subprocess.PIPE, stderr=subprocess.STDOUT)
        sys.stdout.write("==== PYTHONHASHSEED=%s rc=%d\n" % (seed, r.returncode))
        sys.stdout.write(r.stdout.decode("utf-8"))
    sys.exit(0)
# shared fixture builders / digest helpers (copied verbatim into each equiv.py)
import datetime, hashlib, sys
from prov.model import (ProvDocument, ProvBundle, ProvException, ProvEntity, ProvActivity,
                        ProvAgent, ProvElement, ProvRelation, ProvRecord, Namespace,
                        PROV_ENTITY, PROV_ACTIVITY, PROV_GENERATION, PROV, Literal,
                        PROV_ATTR_ENTITY, PROV_ATTR_ACTIVITY, PROV_TYPE, PROV_LABEL)
from prov.identifier import QualifiedName, Identifier

EX = Namespace("ex", "http://example.org/")
OT = Namespace("other", "http://other.example/ns#")
LINES = []


def out(*parts):
    LINES.append(" ".join(str(p) for p in parts))


def attempt(label, fn):
    try:
        res = fn()
    except BaseException as e:  # noqa
        out(label, "RAISED", type(e).__name__, str(e))
        return None
    out(label, "OK", describe(res))
    return res


def describe(x):
    if isinstance(x, ProvDocument):
        return "DOC<<\n%s\n>> ns=%s default=%s bundles=%s" % (
            x.get_provn(), sorted((n.prefix, n.uri) for n in x.namespaces), x.default_ns_uri,
            [str(b.identifier) for b in x.bundles])
    if isinstance(x, ProvBundle):
        return "BUNDLE<<\n%s\n>> ns=%s default=%s doc=%s" % (
            x.get_provn(), sorted((n.prefix, n.uri) for n in x.namespaces), x.default_ns_uri,
            type(x.document).__name__)
    if isinstance(x, ProvRecord):
        return "REC %s | %s | bundle=%r | attrs=%r" % (type(x).__name__, x.get_provn(), x.bundle, x.attributes)
    if isinstance(x, (list, tuple)):
        return type(x).__name__ + "[" + "; ".join(describe(i) for i in x) + "]"
    return "%s:%r" % (type(x).__name__, x)


def doc_plain():
    d = ProvDocument()
    d.add_namespace(EX)
    d.entity("ex:e1", {"ex:k": "v1"})
    d.activity("ex:a1", datetime.datetime(2020, 1, 2, 3, 4, 5))
    d.wasGeneratedBy("ex:e1", "ex:a1", identifier="ex:g1")
    d.agent("ex:ag1")
    d.wasAttributedTo("ex:e1", "ex:ag1")
    return d


def doc_repeated():
    d = ProvDocument()
    d.add_namespace(EX)
    d.add_namespace(OT)
    d.set_default_namespace("http://default.example/")
    d.entity("ex:e1", {"ex:k": "v1", PROV_TYPE: EX["T1"]})
    d.entity("ex:e1", {"ex:k": "v2", "other:z": 3})
    d.entity("ex:e1", {"ex:k": "v1"})
    d.entity("ex:e1", {"ex:k": "v1"})  # equal to the previous one
    d.activity("ex:e1")  # same id, other type
    d.activity("ex:a1", datetime.datetime(2020, 1, 2, 3, 4, 5))
    d.activity("ex:a1", None, datetime.datetime(2021, 1, 2, 3, 4, 5), {"ex:x": 1.5})
    d.entity("plain")
    d.entity("plain", {PROV_LABEL: Literal("café \"q\" \\ \n", langtag="fr")})
    d.wasGeneratedBy("ex:e1", "ex:a1", identifier="ex:g1")
    d.wasGeneratedBy("ex:e1", "ex:a1", time=datetime.datetime(2019, 5, 5), identifier="ex:g1")
    d.wasGeneratedBy("ex:e1", "ex:a1")
    d.used("ex:a1", "ex:e1")
    d.used("ex:a1", None)
    d.wasDerivedFrom("ex:e2", "ex:e1", "ex:a1")
    d.specializationOf("ex:e2", "ex:e1")
    d.hadMember("ex:c", "ex:e1")
    d.mentionOf("ex:e3", "ex:e1", "ex:b1")
    d.actedOnBehalfOf("ex:ag2", "ex:ag1", "ex:a1")
    d.wasAssociatedWith("ex:a1", "ex:ag1", "ex:plan")
    d.wasStartedBy("ex:a1", "ex:trig", "ex:starter")
    d.wasEndedBy("ex:a1", None, "ex:ender")
    d.wasInformedBy("ex:a2", "ex:a1")
    d.wasInfluencedBy("ex:x", "ex:y")
    d.alternateOf("ex:e4", "ex:e1")
    return d


def doc_bundles():
    d = doc_repeated()
    b1 = d.bundle("ex:b1")
    b1.add_namespace("bns", "http://bundle.example/")
    b1.entity("bns:e", {"bns:p": 1})
    b1.entity("bns:e", {"bns:p": 2})
    b1.entity("ex:e1")
    b1.wasDerivedFrom("bns:e", "ex:e1")
    b2 = d.bundle("ex:b2")
    b2.set_default_namespace("http://b2.default/")
    b2.activity("act")
    b2.activity("act", datetime.datetime(2000, 1, 1))
    d.bundle("ex:empty")
    return d


def doc_empty():
    return ProvDocument()


def all_docs():
    return [("plain", doc_plain), ("repeated", doc_repeated), ("bundles", doc_bundles), ("empty", doc_empty)]


def finish():
    text = "\n".join(LINES) + "\n"
    sys.stdout.write(text)
    sys.stdout.write("DIGEST " + hashlib.sha256(text.encode("utf-8")).hexdigest() + "\n")

# ---- refactoring 3: guard clauses / early returns in ProvBundle.update and ProvDocument.update


class Odd(object):
    def __repr__(self):
        return "<Odd>"


class SubBundle(ProvBundle):
    pass


def fresh_bundle():
    b = ProvBundle(identifier=EX["tgt"], namespaces=[EX])
    b.entity("ex:own")
    return b


def fresh_doc():
    d = ProvDocument()
    d.add_namespace(EX)
    d.entity("ex:own")
    tb = d.bundle("ex:b1")
    tb.entity("ex:in-b1")
    return d


bad_others = [None, "a string", 42, [], Odd(), ProvEntity, {"ex:e": 1}]
for mkname, mk in [("bundle", fresh_bundle), ("doc", fresh_doc)]:
    for other in bad_others:
        t = mk()
        attempt("%s.update(%r)" % (mkname, other), lambda: t.update(other))
        out("  target after", describe(t))
    for name, mko in all_docs():
        t = mk()
        o = mko()
        o_before = o.get_provn()
        attempt("%s.update(doc %s)" % (mkname, name), lambda: t.update(o))
        out("  target after", describe(t))
        out("  other unchanged", o.get_provn() == o_before)
        # second time: bundles with the same identifiers get merged (document) / records doubled
        attempt("%s.update(doc %s) again" % (mkname, name), lambda: t.update(o))
        out("  target after 2nd", describe(t))
        for b in o.bundles:
            t2 = mk()
            attempt("%s.update(bundle %s of %s)" % (mkname, b.identifier, name), lambda: t2.update(b))
            out("  target after", describe(t2))
    # a plain bundle without document, a subclass, an empty bundle, itself
    solo = SubBundle(identifier=EX["solo"], namespaces=[OT])
    solo.entity("other:x", {"other:p": Literal("1", datatype=OT["dt"])})
    solo.wasDerivedFrom("other:x", "other:y")
    t = mk()
    attempt(mkname + ".update(solo)", lambda: t.update(solo))
    attempt(mkname + ".update(empty bundle)", lambda: t.update(ProvBundle()))
    attempt(mkname + ".update(empty doc)", lambda: t.update(ProvDocument()))
    attempt(mkname + ".update(self)", lambda: t.update(t))
    out("  target after", describe(t))
    # ProvBundle.update applied explicitly on a document target (base-class behaviour)
    t = fresh_doc()
    attempt(mkname + " ProvBundle.update(doc target, doc_bundles)", lambda: ProvBundle.update(t, doc_bundles()))
    attempt(mkname + " ProvBundle.update(doc target, plain)", lambda: ProvBundle.update(t, doc_plain()))
    out("  target after", describe(t))

# failure in the middle: a bundle whose identifier cannot be resolved in the target document
src = ProvDocument()
src.add_namespace("q", "http://q.example/")
src.entity("q:e")
src.bundle("q:bb").entity("q:inner")
tgt = ProvDocument()
attempt("doc.update(other with unknown prefix)", lambda: tgt.update(src))
out("  target after", describe(tgt))
finish()
