import os
import sys

if os.environ.get("PYTHONHASHSEED") != "0":
    # set iteration order must be reproducible between the two runs
    os.environ["PYTHONHASHSEED"] = "0"
    os.execv(sys.executable, [sys.executable] + sys.argv)

import datetime
import hashlib

from prov.constants import (
    XSD_INT, XSD_STRING, PROV, PROV_TYPE, PROV_LABEL, PROV_VALUE, PROV_LOCATION, PROV_ROLE,
    PROV_ATTR_TIME, PROV_ATTR_ENTITY, PROV_ATTR_STARTTIME,
)
from prov.identifier import Namespace, Identifier, QualifiedName
from prov.model import Literal, ProvDocument, ProvRecord

out = []


def emit(*a):
    out.append(" | ".join(str(x) for x in a))


class WithRepr:
    def provn_representation(self):
        return "custom<repr>"

    def __hash__(self):
        return 11


class ReprReturnsInt:
    def provn_representation(self):
        return 42

    def __hash__(self):
        return 12


class ReprRaisesAttributeError:
    def provn_representation(self):
        return self.missing_attribute

    def __str__(self):
        return "fallback-str"

    def __hash__(self):
        return 13


class ReprRaisesValueError:
    def provn_representation(self):
        raise ValueError("boom")

    def __hash__(self):
        return 14


class NotADatetime:
    def isoformat(self):
        return "should-not-be-used"

    def __str__(self):
        return "not-a-datetime"


EX = Namespace("ex", "http://example.org/")
d = ProvDocument()
d.add_namespace(EX)
d.set_default_namespace("http://default.org/")

T0 = datetime.datetime(2020, 1, 2, 3, 4, 5)
T1 = datetime.datetime(2021, 6, 7, 8, 9, 10, 123456, tzinfo=datetime.timezone.utc)
ATTRS = [
    ("ex:s", "str"), ("ex:s", "multi\nline"), ("ex:s", 'q"\\'), ("ex:s", ""), ("ex:u", "中é"),
    ("ex:i", 1), ("ex:f", 2.5), ("ex:b", True), ("ex:b0", False), ("ex:t", T1),
    ("ex:q", EX["qn"]), ("ex:id", Identifier("http://id/x")),
    ("ex:l", Literal("x", EX["dt"])), ("ex:l", Literal("bonjour", None, "fr")),
    (PROV_TYPE, EX["Type"]), (PROV_TYPE, "strtype"), (PROV_LABEL, "label"),
    (PROV_LOCATION, "here"), (PROV_VALUE, 5),
]

recs = []
recs.append(d.entity("ex:e0"))
recs.append(d.entity("ex:e1", ATTRS))
recs.append(d.entity("local"))
recs.append(d.activity("ex:a0"))
recs.append(d.activity("ex:a1", T0, None, ATTRS[:5]))
recs.append(d.activity("ex:a2", None, T1))
recs.append(d.activity("ex:a3", "2011-11-16T16:05:00", "2011-11-16T16:06:00.5+01:00", {"ex:x": 1}))
recs.append(d.agent("ex:ag", {PROV_TYPE: PROV["Person"], "ex:name": "Bob"}))
recs.append(d.collection("ex:col"))
recs.append(d.generation("ex:e0"))
recs.append(d.generation("ex:e0", "ex:a0", T0, "ex:gen", {PROV_ROLE: "role", "ex:x": 1.0}))
recs.append(d.generation("ex:e0", time=T1))
recs.append(d.usage("ex:a0", "ex:e0", identifier="ex:use"))
recs.append(d.usage("ex:a0"))
recs.append(d.communication("ex:a1", "ex:a0"))
recs.append(d.start("ex:a0", "ex:e0", "ex:a1", T0, "ex:start", ATTRS[5:9]))
recs.append(d.end("ex:a0", time="2012-01-01"))
recs.append(d.invalidation("ex:e0", None, T0))
recs.append(d.derivation("ex:e1", "ex:e0"))
recs.append(d.derivation("ex:e1", "ex:e0", "ex:a0", "ex:gen", "ex:use", "ex:der", {PROV_TYPE: PROV["Revision"]}))
recs.append(d.attribution("ex:e0", "ex:ag"))
recs.append(d.association("ex:a0", "ex:ag", "ex:plan", "ex:assoc"))
recs.append(d.association("ex:a0", plan="ex:plan"))
recs.append(d.delegation("ex:ag", "ex:ag2", "ex:a0"))
recs.append(d.influence("ex:e1", "ex:e0", "ex:inf", [("ex:k", "v")]))
recs.append(d.specialization("ex:e1", "ex:e0"))
recs.append(d.alternate("ex:e1", "ex:e0"))
recs.append(d.mention("ex:e1", "ex:e0", "ex:bundle"))
recs.append(d.membership("ex:col", "ex:e0"))
b = d.bundle("ex:bundle")
recs.append(b.entity("ex:inb", {"ex:k": Literal("v", Namespace("zz", "http://zz/")["dt"])}))
recs.append(b.usage("ex:a", "ex:inb", T0, "ex:u-in-b", {"ex:k": T0}))

for r in recs:
    emit(type(r).__name__, "get_provn", r.get_provn())
    emit(type(r).__name__, "str", str(r))

# values stored directly: custom PROV-N representations and fall-backs
x = d.entity("ex:custom")
x._attributes[EX["c1"]].add(WithRepr())
x._attributes[EX["c2"]].add(ReprReturnsInt())
x._attributes[EX["c3"]].add(ReprRaisesAttributeError())
x._attributes[EX["c4"]].add(None)
x._attributes[EX["c5"]].add((1, 2))
x._attributes[EX["c6"]]  # empty set created
emit("custom", x.get_provn())
x._attributes[EX["c7"]].add(ReprRaisesValueError())
try:
    emit("custom-valueerror", x.get_provn())
except Exception as e:
    emit("custom-valueerror", "EXC", type(e).__name__, str(e))
x._attributes[EX["c7"]].clear()

# formal attribute holding something that is not a datetime; an empty formal set
u = d.usage("ex:a0", "ex:e0", identifier="ex:odd")
u._attributes[PROV_ATTR_TIME].add(NotADatetime())
emit("odd-time", u.get_provn(), sorted(str(k) for k in u._attributes))
g = d.generation("ex:e9")
g._attributes[PROV_ATTR_TIME]  # empty set
emit("empty-formal", g.get_provn(), sorted(str(k) for k in g._attributes))
g2 = d.generation("ex:e9")
before = sorted(str(k) for k in g2._attributes)
text2 = g2.get_provn()
emit("no-key-creation", text2, before, sorted(str(k) for k in g2._attributes))

# identifier that is falsy / relation with identifier
n = ProvDocument()
n.add_namespace(EX)
emit("doc", n.get_provn())
emit("whole-doc", d.get_provn())

text = "\n".join(out)
print(text)
print("DIGEST", hashlib.sha256(text.encode("utf-8")).hexdigest())
