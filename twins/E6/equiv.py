import datetime
import hashlib
import io
import logging
import os
import sys
import tempfile
import traceback

# attribute sets iterate in hash order: pin the hash seed so that the
# order-sensitive dumps below are reproducible from run to run
if os.environ.get("PYTHONHASHSEED") != "0":
    os.environ["PYTHONHASHSEED"] = "0"
    os.execv(sys.executable, [sys.executable] + sys.argv)

import prov
from prov.model import (
    ProvBundle,
    ProvDocument,
    ProvException,
    ProvEntity,
    ProvActivity,
    ProvAgent,
    ProvRelation,
    ProvElement,
    Namespace,
    Literal,
    PROV_ENTITY,
    PROV_ACTIVITY,
    PROV_GENERATION,
    PROV_TYPE,
    PROV_LABEL,
)
from prov.tests import examples

logging.disable(logging.NOTSET)

_LINES = []


def emit(tag, value):
    text = "%s: %s" % (tag, value)
    _LINES.append(text)
    print(text)


def digest():
    h = hashlib.sha256("\n".join(_LINES).encode("utf-8")).hexdigest()
    print("DIGEST %s (%d lines)" % (h, len(_LINES)))


def attempt(tag, fn):
    """Run fn, emit result or exception type+message deterministically."""
    try:
        res = fn()
    except BaseException as e:  # noqa
        emit(tag, "EXC %s: %s" % (type(e).__name__, e))
        return None
    emit(tag, "OK %s" % (describe(res),))
    return res


def rec_key(r):
    return r.get_provn()


def describe(x):
    if isinstance(x, ProvDocument):
        return "DOC[%s]" % hashlib.sha256(x.get_provn().encode("utf-8")).hexdigest()[:16]
    if isinstance(x, ProvBundle):
        return "BUNDLE[%s|%s]" % (
            x.identifier,
            hashlib.sha256(x.get_provn().encode("utf-8")).hexdigest()[:16],
        )
    if isinstance(x, (list, tuple)):
        return "%s(%s)" % (type(x).__name__, ", ".join(describe(i) for i in x))
    if hasattr(x, "get_provn"):
        return "REC<%s>" % x.get_provn()
    if isinstance(x, (str, bytes, int, float, bool, type(None))):
        return repr(x)
    return "%s:%r" % (type(x).__name__, x)


def dump_bundle(tag, b):
    """Full structural dump of a bundle/document (order sensitive)."""
    emit(tag + ".repr", repr(b))
    emit(tag + ".identifier", repr(b.identifier))
    emit(tag + ".is_doc", (b.is_document(), b.is_bundle(), b.has_bundles()))
    emit(tag + ".default_ns", repr(b.default_ns_uri))
    emit(
        tag + ".registered_ns",
        [(n.prefix, n.uri) for n in b.get_registered_namespaces()],
    )
    emit(tag + ".namespaces_sorted", sorted((n.prefix, n.uri) for n in b.namespaces))
    emit(tag + ".records", [rec_key(r) for r in b.records])
    emit(tag + ".get_records", [rec_key(r) for r in b.get_records()])
    emit(
        tag + ".record_attrs",
        [
            (r.get_type().localpart, str(r.identifier), [(str(k), repr(v)) for k, v in r.attributes])
            for r in b._records
        ],
    )
    emit(
        tag + ".id_map",
        [(str(k), [rec_key(r) for r in v]) for k, v in b._id_map.items()],
    )
    emit(tag + ".record_bundle_is_self", all(r.bundle is b for r in b._records))
    emit(tag + ".provn", b.get_provn())
    if b.is_document():
        emit(tag + ".bundle_ids", [str(k) for k in b._bundles.keys()])
        for i, sub in enumerate(b.bundles):
            emit(tag + ".sub%d.doc_is_parent" % i, sub.document is b)
            emit(tag + ".sub%d.ns_parent" % i, sub._namespaces.parent is b._namespaces)
            dump_bundle(tag + ".sub%d" % i, sub)


EX = Namespace("ex", "http://example.org/")
OTHER = Namespace("other", "http://other.example/ns#")
WEIRD = Namespace("w", "http://weird.example/a b/é?x=1&y=<2>#")


def doc_empty():
    return ProvDocument()


def doc_simple():
    d = ProvDocument()
    d.add_namespace(EX)
    d.entity("ex:e1", {"prov:label": "hello", "ex:n": 1})
    d.activity("ex:a1", datetime.datetime(2020, 1, 2, 3, 4, 5), None, {"prov:type": EX["T"]})
    d.wasGeneratedBy("ex:e1", "ex:a1", datetime.datetime(2020, 1, 2, 3, 4, 6))
    d.agent("ex:ag", [("prov:type", PROV_TYPE), ("ex:s", "x"), ("ex:s", "y")])
    d.wasAssociatedWith("ex:a1", "ex:ag", identifier="ex:assoc1")
    return d


def doc_repeated_ids():
    d = ProvDocument()
    d.set_default_namespace("http://default.example/")
    d.add_namespace(EX)
    d.add_namespace(OTHER)
    d.entity("ex:e1", {"ex:a": 1})
    d.entity("ex:e1", {"ex:b": 2, "ex:a": 1})
    d.entity("ex:e1")
    d.activity("ex:e1")  # same identifier, different type
    d.entity("e-default", {"prov:label": Literal("bonjour", langtag="fr")})
    d.entity("e-default", {"prov:label": Literal("hello", langtag="en")})
    d.wasDerivedFrom("ex:e1", "e-default", identifier="ex:d1", other_attributes={"ex:x": "1"})
    d.wasDerivedFrom("ex:e1", "e-default", identifier="ex:d1", other_attributes={"ex:y": "2"})
    d.wasDerivedFrom("ex:e1", "e-default")
    d.wasDerivedFrom("ex:e1", "e-default")
    d.entity("other:z", {"other:q": "ünïcode \"quoted\" \\ back\nnewline"})
    return d


def doc_bundles():
    d = ProvDocument()
    d.add_namespace(EX)
    d.entity("ex:top", {"ex:v": 1.5})
    b1 = d.bundle("ex:b1")
    b1.add_namespace(OTHER)
    b1.entity("ex:e1", {"other:p": True})
    b1.entity("ex:e1", {"other:p": False})
    b1.activity("other:act")
    b1.used("other:act", "ex:e1")
    b2 = d.bundle("ex:b2")
    b2.set_default_namespace("http://b2.default/")
    b2.entity("in-default")
    b2.entity("ex:top", {"ex:v": 2})
    b3 = d.bundle("ex:empty")
    d.entity("ex:b1", {"prov:type": PROV["Bundle"]})
    return d


def doc_unusual():
    d = ProvDocument()
    d.add_namespace(WEIRD)
    d.add_namespace("ex", "http://example.org/")
    d.entity("w:a-b.c", {"w:k": "", "w:l": Literal("", langtag="en"), "w:m": "  spaces  "})
    d.entity("ex:e/with/slash")
    try:
        d.entity("http://full.uri.example/thing#frag")
    except ProvException as e:
        pass
    d.activity("ex:act", "2011-11-16T16:05:00", "2011-11-16T16:06:00.123456")
    d.specializationOf("w:a-b.c", "ex:e/with/slash")
    d.hadMember("ex:e/with/slash", "w:a-b.c")
    return d


PROV = Namespace("prov", "http://www.w3.org/ns/prov#")


def standalone_bundle():
    b = ProvBundle(identifier=EX["sb"], namespaces=[EX, OTHER])
    b.entity("ex:x", {"other:k": 3})
    b.entity("ex:x", {"other:k": 4})
    b.agent("other:ag")
    return b


def anonymous_bundle():
    b = ProvBundle()
    b.add_namespace(EX)
    b.entity("ex:anon")
    return b


BUILDERS = [
    ("empty", doc_empty),
    ("simple", doc_simple),
    ("repeated", doc_repeated_ids),
    ("bundles", doc_bundles),
    ("unusual", doc_unusual),
    ("primer", examples.primer_example),
    ("primer_alt", examples.primer_example_alternate),
    ("w3c_publication_1", examples.w3c_publication_1),
    ("w3c_publication_2", examples.w3c_publication_2),
    ("bundles1", examples.bundles1),
    ("bundles2", examples.bundles2),
    ("collections", examples.collections),
    ("datatypes", examples.datatypes),
    ("long_literals", examples.long_literals),
]

# ---------------------------------------------------------------------------
# Refactoring 6: ProvDocument.serialize split in two (file-location branch
# moved to a helper); keyword arguments at the new_record call site in
# ProvBundle.add_record
# ---------------------------------------------------------------------------
import contextlib

# add_record
for name, fn in BUILDERS:
    src = fn()
    for tn, tfn in [("doc", doc_empty), ("sb", standalone_bundle), ("anon", anonymous_bundle)]:
        t = tfn()
        rets = []
        for r in src.get_records():
            nr = t.add_record(r)
            rets.append((nr is not r, nr.bundle is t, nr == r, rec_key(nr)))
        emit("add_record.%s->%s.rets" % (name, tn), rets)
        dump_bundle("add_record.%s->%s" % (name, tn), t)
    for i, b in enumerate(src.bundles):
        t = doc_empty()
        for r in b.get_records():
            t.add_record(r)
        dump_bundle("add_record.%s/sub%d->doc" % (name, i), t)
t = doc_empty()
for bad in [None, "rec", 5, doc_simple()]:
    attempt("add_record.bad.%r" % (type(bad).__name__,), lambda: t.add_record(bad))
emit("add_record.bad.state", t.get_provn())

# serialize
# private temp area: mkstemp() inside serialize() lands here, so that leaked
# temporary files can be counted without interference from other processes
private_tmp = tempfile.mkdtemp()
tempfile.tempdir = private_tmp
tmpdir = tempfile.mkdtemp()
cwd = os.getcwd()
os.chdir(tmpdir)


import re

_BNODE = re.compile(r"N[0-9a-f]{32}")


def norm(s):
    return s.replace(tmpdir, "<TMP>")


def stable(data):
    """Hash of a serialization; rdflib's random blank node labels (and the
    statement order that depends on them) are normalised away."""
    if isinstance(data, str):
        data = data.encode("utf-8")
    text = data.decode("utf-8", "replace")
    if _BNODE.search(text) or "@prefix" in text or "<rdf:RDF" in text:
        # RDF: graph/statement order varies from run to run
        text = "\n".join(sorted(_BNODE.sub("BNODE", text).split("\n")))
    return "%d:%s" % (len(data), hashlib.sha256(text.encode("utf-8")).hexdigest()[:16])


def listing():
    out = []
    for root, dirs, files in os.walk(tmpdir):
        dirs.sort()
        for f in sorted(files):
            p = os.path.join(root, f)
            with open(p, "rb") as fh:
                data = fh.read()
            # a temp file moved into a directory keeps its random mkstemp name
            shown = re.sub(r"/tmp[a-z0-9_]{8}$", "/<MKSTEMP>", norm(p))
            out.append((shown, stable(data)))
    return sorted(out)


def run_serialize(tag, d, *a, **k):
    out = io.StringIO()
    with contextlib.redirect_stdout(out):
        try:
            res = d.serialize(*a, **k)
            status = "OK %s" % (res if res is None else "str " + stable(res))
        except BaseException as e:
            status = "EXC %s: %s" % (type(e).__name__, norm(str(e)))
    emit(tag, status)
    emit(tag + ".stdout", repr(out.getvalue()))
    emit(tag + ".files", listing())
    emit(tag + ".tmpfiles_leaked", len(set(os.listdir(private_tmp)) - {os.path.basename(tmpdir)}))


KW = {"json": [{}, {"indent": 2}], "xml": [{}], "rdf": [{}, {"rdf_format": "trig"}], "provn": [{}], "nosuch": [{}]}
for name, fn in BUILDERS[:8] + BUILDERS[9:11]:
    d = fn()
    for fmt, kws in KW.items():
        for ki, kw in enumerate(kws):
            tag = "ser.%s.%s.%d" % (name, fmt, ki)
            run_serialize(tag + ".string", d, format=fmt, **kw)
            run_serialize(tag + ".none_positional", d, None, fmt, **kw)
            s = io.StringIO()
            run_serialize(tag + ".stringio", d, s, format=fmt, **kw)
            emit(tag + ".stringio.value", stable(s.getvalue()))
            bs = io.BytesIO()
            run_serialize(tag + ".bytesio", d, bs, format=fmt, **kw)
            emit(tag + ".bytesio.value", stable(bs.getvalue()))
            emit(tag + ".stream_open", (s.closed, bs.closed))

d = doc_bundles()
os.mkdir(os.path.join(tmpdir, "sub dir"))
DESTS = [
    "plain.out",
    os.path.join(tmpdir, "abs.out"),
    os.path.join(tmpdir, "sub dir", "with space.out"),
    "hash#frag.out",
    "query?x=1;p.out",
    "file://" + os.path.join(tmpdir, "url.out"),
    "file://" + os.path.join(tmpdir, "sub%20dir", "pct.out"),
    "file:relative.out",
    "file:///" + os.path.join(tmpdir, "three.out").lstrip("/"),
    "http://example.org/doc.json",
    "//host/share/x.out",
    "file://localhost/" + os.path.join(tmpdir, "lh.out").lstrip("/"),
    os.path.join(tmpdir, "no", "such", "dir.out"),
    "plain.out",  # overwrite
    tmpdir,  # a directory
    "",
    "ünï.out",
    "C:colon.out",
    "weird:scheme/path.out",
]
for i, dest in enumerate(DESTS):
    for fmt in ("json", "xml", "provn"):
        run_serialize("ser.dest%d.%s[%s]" % (i, fmt, norm(dest)), d, dest, format=fmt)
    run_serialize("ser.dest%d.kw[%s]" % (i, norm(dest)), d, destination=dest)
run_serialize("ser.dest.bad_format_file", d, "bad.out", format="nosuch")
run_serialize("ser.dest.bad_kwarg_file", d, "badkw.out", format="json", nosuchkw=1)
# extra keyword arguments whose names could clash with helper parameters
for kwname in ("location", "serializer", "args", "stream", "destination", "self", "path"):
    run_serialize("ser.dest.kwclash.%s.file" % kwname, d, "clash.out", format="json", **{kwname: 1})
    run_serialize("ser.dest.kwclash.%s.stream" % kwname, d, io.StringIO(), format="json", **{kwname: 1})
    run_serialize("ser.dest.kwclash.%s.string" % kwname, d, None, "json", **{kwname: 1})
for bad in [0, 5, [], b"bytes.out"]:
    run_serialize("ser.dest.badtype.%r" % (bad,), d, bad)

def describe6(res, unordered):
    if isinstance(res, str):
        return "str " + stable(res)
    if unordered and isinstance(res, ProvDocument):
        # the RDF reader yields records (and attributes) in a varying order
        text = _BNODE.sub("BNODE", res.get_provn())
        return "DOC~ %d lines, chars %s" % (
            len(text.split("\n")),
            hashlib.sha256("".join(sorted(text)).encode("utf-8")).hexdigest()[:16],
        )
    return describe(res)


def attempt6(tag, fn):
    try:
        res = fn()
    except BaseException as e:
        emit(tag, "EXC %s: %s" % (type(e).__name__, norm(str(e))))
        return None
    emit(tag, "OK %s" % describe6(res, tag.endswith(".rdf")))
    return res


# round trips through deserialize
for fmt in ("json", "xml", "rdf"):
    for name, fn in BUILDERS[:6]:
        d = fn()
        p = os.path.join(tmpdir, "rt.%s.%s" % (name, fmt))
        attempt6("rt.write.%s.%s" % (name, fmt), lambda: d.serialize(p, format=fmt))
        attempt6("rt.file.%s.%s" % (name, fmt), lambda: ProvDocument.deserialize(p, format=fmt))
        text = attempt6("rt.text.%s.%s" % (name, fmt), lambda: d.serialize(format=fmt))
        if text is None:
            continue
        attempt6("rt.content.%s.%s" % (name, fmt), lambda: ProvDocument.deserialize(content=text, format=fmt))
        attempt6("rt.bytes.%s.%s" % (name, fmt), lambda: ProvDocument.deserialize(content=text.encode("utf-8"), format=fmt))
        attempt6("rt.stream.%s.%s" % (name, fmt), lambda: ProvDocument.deserialize(io.StringIO(text), format=fmt))
attempt6("deser.nothing", lambda: ProvDocument.deserialize())
attempt6("deser.bad_format", lambda: ProvDocument.deserialize(content="{}", format="nosuch"))
attempt6("deser.provn", lambda: ProvDocument.deserialize(content="document\nendDocument", format="provn"))
attempt6("deser.missing", lambda: norm(str(ProvDocument.deserialize(os.path.join(tmpdir, "missing.json")))))
os.chdir(cwd)
import shutil as _sh

_sh.rmtree(private_tmp)
digest()
