"""Differential check for refactoring 3 (prov.serializers registry/get, ProvNSerializer)."""
import sys, os, io, tempfile, shutil
sys.path.insert(0, "/tmp/twin/out/K")
from common import digest, docs, call
import prov.serializers as S
from prov.serializers import Registry, get, DoNotExist, Serializer

def exc_info(fn, *a):
    try:
        r = fn(*a)
        return "ok %s" % (getattr(r, "__name__", r),)
    except BaseException as e:
        return "exc %s: %s | context=%s cause=%s suppress=%s" % (
            type(e).__name__, e, type(e.__context__).__name__, type(e.__cause__).__name__, e.__suppress_context__)

print("initial", Registry.serializers)
class H:
    def __init__(self, h): self.h = h
    def __hash__(self):
        if isinstance(self.h, BaseException): raise self.h
        return self.h
    def __repr__(self): return "H"
names = ["json", "rdf", "provn", "xml", "JSON", "nosuch", "", None, 0, 1.5, ("json",), ("a", "b"), (), ["json"], {}, b"json",
         "%s", "%(x)s", frozenset(), H(1), H(KeyError("k")), H(ValueError("v"))]
print("first get", exc_info(get, "nosuch"))
print("after first get keys", list(Registry.serializers))
for n in names:
    print("get %r -> %s" % (n, exc_info(get, n)))
print("classes", [(k, v.__module__, v.__name__, issubclass(v, Serializer)) for k, v in Registry.serializers.items()])
print("loader type", type(Registry.__dict__["load_serializers"]).__name__, Registry.load_serializers.__doc__)
old = Registry.serializers
print("load returns", Registry.load_serializers(), "same dict", Registry.serializers is old, "equal", Registry.serializers == old)
print("instance call", Registry().load_serializers(), list(Registry.serializers))
class Sub(Registry): pass
Registry.serializers = None
print("sub load", Sub.load_serializers(), "Sub own attr", "serializers" in Sub.__dict__, list(Registry.serializers))
# user supplied table is respected, not reloaded
Registry.serializers = {}
print("empty table", exc_info(get, "json"))
Registry.serializers = {"x": int, ("t",): str}
print("custom table", exc_info(get, "x"), exc_info(get, ("t",)), exc_info(get, "json"))
# monkeypatched loader
calls = []
orig = Registry.load_serializers
def fake():
    calls.append(1)
    Registry.serializers = {"fake": float}
Registry.load_serializers = staticmethod(fake)
Registry.serializers = None
print("patched", exc_info(get, "fake"), exc_info(get, "json"), "calls", len(calls))
def fake_none():
    calls.append(1)
Registry.load_serializers = staticmethod(fake_none)
Registry.serializers = None
print("patched none", exc_info(get, "json"), exc_info(get, "json"), "calls", len(calls))
Registry.load_serializers = orig
Registry.serializers = None
print("restored", exc_info(get, "xml"), list(Registry.serializers))
print("public", sorted(n for n in dir(S) if not n.startswith("_")), S.__all__)

# PROV-N serializer
from prov.serializers.provn import ProvNSerializer
class Sink:
    def __init__(self): self.got = []
    def write(self, x): self.got.append(x); return 7
class TextSink(io.TextIOBase):
    def __init__(self): self.got = []
    def write(self, x): self.got.append(x); return len(x)
class BadSink:
    def write(self, x): raise OSError("disk full %s" % type(x).__name__)
work = tempfile.mkdtemp()
for name, d in docs():
    ser = ProvNSerializer(d)
    s = io.StringIO(); r = call(ser.serialize, s); print(name, "StringIO", r, digest(s.getvalue()), len(s.getvalue()))
    b = io.BytesIO(); r = call(ser.serialize, b); print(name, "BytesIO", r, digest(b.getvalue()), len(b.getvalue()))
    k = Sink(); r = call(ser.serialize, k, extra=1); print(name, "Sink", r, [(type(x).__name__, digest(x)) for x in k.got])
    k = TextSink(); r = call(ser.serialize, k); print(name, "TextSink", r, [(type(x).__name__, digest(x)) for x in k.got])
    print(name, "BadSink", call(ser.serialize, BadSink()))
    print(name, "None stream", call(ser.serialize, None))
    print(name, "no-write stream", call(ser.serialize, object()))
    p = os.path.join(work, "t.provn")
    with open(p, "w", encoding="utf-8", newline="") as f: r = call(ser.serialize, f)
    print(name, "textfile", r, digest(open(p, "rb").read()))
    with open(p, "w", encoding="latin-1", errors="replace") as f: r = call(ser.serialize, f)
    print(name, "latin1 textfile", r, digest(open(p, "rb").read()))
    with open(p, "wb") as f: r = call(ser.serialize, f)
    print(name, "binfile", r, digest(open(p, "rb").read()))
    w = io.TextIOWrapper(io.BytesIO(), encoding="utf-16"); r = call(ser.serialize, w); w.flush()
    print(name, "wrapper", r, digest(w.buffer.getvalue()))
    print(name, "via document", digest(d.serialize(format="provn")), call(d.serialize, io.BytesIO(), format="provn"))
    print(name, "deserialize", call(ser.deserialize, io.StringIO("document\nendDocument")), call(ProvNSerializer().deserialize, None, x=1))
print("no document", call(ProvNSerializer().serialize, io.StringIO()))
shutil.rmtree(work)
