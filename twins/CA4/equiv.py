import os, sys
if os.environ.get("PYTHONHASHSEED") != "0":
    os.environ["PYTHONHASHSEED"] = "0"
    os.execv(sys.executable, [sys.executable] + sys.argv)
import hashlib, copy
from prov.identifier import Identifier, QualifiedName, Namespace
from prov.model import ProvDocument, ProvBundle, NamespaceManager

lines = []
def show(r):
    if isinstance(r, QualifiedName):
        return "QN(%s|%s|%r %r)" % (r.uri, r, r.namespace.prefix, r.namespace.uri)
    if isinstance(r, Namespace):
        return "NS(%r,%r)" % (r.prefix, r.uri)
    return repr(r)
def rec(label, fn):
    try:
        lines.append("%s -> %s" % (label, show(fn())))
    except Exception as e:
        lines.append("%s !! %s: %s" % (label, type(e).__name__, e))
def dump(label, m):
    lines.append("  [%s] dict=%s default=%s parent=%s" % (label, [(k, show(v)) for k, v in m.items()], show(m._default), m.parent is not None))
    lines.append("  [%s] regs=%s uri=%s ren=%s pren=%s" % (label, [(k, show(v)) for k, v in m._namespaces.items()],
        [(k, show(v)) for k, v in m._uri_map.items()], [(show(k), show(v)) for k, v in m._rename_map.items()],
        [(k, show(v)) for k, v in m._prefix_renamed_map.items()]))
    lines.append("  [%s] vars=%s" % (label, sorted(vars(m))))

# the old call forms of everything around the new helper
doc = ProvDocument(namespaces={"ex": "http://example.org/", "é": "http://exämple.org/ü/"})
rec("doc.add_namespace(prefix, uri)", lambda: doc.add_namespace("two", "http://two/"))
rec("doc.add_namespace(ns)", lambda: doc.add_namespace(Namespace("three", "http://three/")))
rec("doc.add_namespace known uri", lambda: doc.add_namespace("alias", "http://two/"))
rec("doc.add_namespace clash", lambda: doc.add_namespace("ex", "http://clash/"))
rec("doc.set_default_namespace", lambda: doc.set_default_namespace("http://doc-default/"))
rec("doc.get_default_namespace", lambda: doc.get_default_namespace())
rec("doc.get_registered_namespaces", lambda: [show(n) for n in doc.get_registered_namespaces()])
rec("doc.namespaces", lambda: sorted(show(n) for n in doc.namespaces))
b = doc.bundle("ex:bundle")
rec("b.add_namespace same prefix other uri", lambda: b.add_namespace("ex", "http://bundle-ex/"))
rec("b.add_namespace alias of own", lambda: b.add_namespace("two", "http://bundle-ex/"))
rec("b.get_default_namespace", lambda: b.get_default_namespace())
rec("b.get_registered_namespaces", lambda: [show(n) for n in b.get_registered_namespaces()])
for v in ("ex:a", "two:a", "three:a", "alias:a", "é:ü", "prov:Entity", "xsd:int", "xsi:type", "plain", ":x", "unknown:x", "ex_1:a", "http://clash/z"):
    rec("doc.vqn %r" % v, lambda: doc.valid_qualified_name(v))
    rec("b.vqn   %r" % v, lambda: b.valid_qualified_name(v))
mgr = doc._namespaces
rec("mgr.get_namespace(uri)", lambda: mgr.get_namespace("http://two/"))
rec("mgr.get_namespace(unknown)", lambda: mgr.get_namespace("http://nope/"))
rec("mgr.get('ex')", lambda: mgr.get("ex"))
rec("mgr.get('nope')", lambda: mgr.get("nope"))
rec("mgr['nope']", lambda: mgr["nope"])
rec("len/keys", lambda: (len(mgr), list(mgr)))
rec("anon", lambda: mgr.get_anonymous_identifier())
dump("doc", mgr); dump("bundle", b._namespaces)
doc.entity("ex:e", {"alias:k": "v", "prov:label": "é"}); doc.entity("plain"); b.entity("ex:e"); b.entity("two:t"); b.entity("three:x")
for fmt in ("json", "provn", "xml"):
    rec("ser " + fmt, lambda: doc.serialize(format=fmt))
d2 = ProvDocument.deserialize(content=doc.serialize(format="json"), format="json")
rec("roundtrip", lambda: d2.get_provn())
dump("doc2", d2._namespaces)
for bb in d2.bundles:
    dump("doc2-bundle", bb._namespaces)
d3 = copy.deepcopy(doc); rec("deepcopy eq", lambda: d3 == doc); dump("doc3", d3._namespaces)
rec("flattened", lambda: doc.flattened().get_provn())
rec("standalone bundle", lambda: (lambda sb: (sb.add_namespace("s", "http://s/"), sb.valid_qualified_name("s:x"), sb.valid_qualified_name("q:x")))(ProvBundle(identifier=Namespace("ex", "http://example.org/")["sb"])))
rec("empty manager", lambda: (lambda m: (list(m), m.valid_qualified_name("a:b"), m.valid_qualified_name("a")))(NamespaceManager()))

text = "\n".join(lines)
print(text)
print("DIGEST", hashlib.sha256(text.encode("utf-8")).hexdigest())
