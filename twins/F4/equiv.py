"""Differential check for refactoring 4 (comprehensions -> explicit loops in the relation loop of prov_to_dot)."""
import hashlib
import itertools
from docs_common import all_docs
from prov.dot import prov_to_dot


def digest(s):
    return hashlib.sha256(s.encode("utf-8")).hexdigest()[:16]


combos = list(itertools.product([True, False], repeat=4))
for name, doc in all_docs():
    for show_nary, use_labels, sea, sra in combos:
        for direction in ("BT", "LR", "bogus"):
            try:
                dot = prov_to_dot(doc, show_nary=show_nary, use_labels=use_labels,
                                  direction=direction, show_element_attributes=sea,
                                  show_relation_attributes=sra)
                s = dot.to_string()
                res = "%s len=%d nodes=%d edges=%d sub=%d" % (
                    digest(s), len(s), len(dot.get_nodes()), len(dot.get_edges()),
                    len(dot.get_subgraphs()))
            except Exception as e:  # noqa
                res = "EXC %s: %s" % (type(e).__name__, e)
            print(name, int(show_nary), int(use_labels), int(sea), int(sra), direction, res)
# Full text for the edge-case documents
for name, doc in all_docs()[:3]:
    print("=====", name)
    print(prov_to_dot(doc, use_labels=True).to_string())
# bundle passed directly (not a document)
from docs_common import doc_bundles
for b in doc_bundles().bundles:
    print("=====", b.identifier)
    print(prov_to_dot(b).to_string())
# relation-heavy extras: n-ary relations with/without extra attributes, None ends,
# repeated relation, identifiers only reachable through relations
import datetime
from prov.model import ProvDocument
from docs_common import EX
x = ProvDocument()
x.add_namespace(EX)
x.wasDerivedFrom("ex:e2", "ex:e1", "ex:a", "ex:g", "ex:u", other_attributes={"ex:z": 1, "ex:a": "first", "prov:type": EX["T"]})
x.wasDerivedFrom("ex:e2", "ex:e1", "ex:a", "ex:g", "ex:u")
x.wasDerivedFrom("ex:e2", "ex:e1", None, None, "ex:u")
x.wasAssociatedWith("ex:a", None, "ex:plan", other_attributes={"prov:role": "r"})
x.wasStartedBy("ex:a", None, None, datetime.datetime(2000, 1, 1))
x.wasStartedBy("ex:a", "ex:trigger", "ex:starter", datetime.datetime(2000, 1, 1), other_attributes={"ex:d": datetime.datetime(1999, 12, 31, 23, 59)})
x.actedOnBehalfOf("ex:ag", "ex:ag", "ex:a")
x.hadMember("ex:c", "ex:c")
x.mentionOf("ex:e1", "ex:e1", "ex:b")
for opts in ({}, {"show_nary": False}, {"show_relation_attributes": False},
             {"show_nary": False, "show_relation_attributes": False}, {"use_labels": True}):
    print("===== extras", sorted(opts.items()))
    print(prov_to_dot(x, **opts).to_string())
