"""Differential check for refactoring 2 (prov.read and ProvDocument.deserialize)."""
import sys, os, io, tempfile, shutil, pathlib
sys.path.insert(0, "/tmp/twin/out/K")
from common import digest, docs, call, canon
import prov
from prov.model import ProvDocument

import logging
logging.basicConfig(stream=sys.stdout, format="LOG %(levelname)s %(message)s")
work = "/tmp/equivK2_work"
shutil.rmtree(work, ignore_errors=True)
os.mkdir(work)

def show(label, res):
    kind, val = res
    if kind == "ok":
        if isinstance(val, ProvDocument):
            t = canon(val)
            val = "Doc records=%d bundles=%d provn=%s" % (len(val.get_records()), len(list(val.bundles)), digest(t))
        print(label, "->", kind, val)
    else:
        print(label, "->", kind, val.replace(work, "<W>"))

class Spy:
    """Stream wrapper counting reads."""
    def __init__(self, inner): self.inner = inner; self.reads = 0
    def read(self, *a):
        self.reads += 1
        return self.inner.read(*a)
    def __getattr__(self, n): return getattr(self.inner, n)

class BadRead:
    def read(self, *a): raise KeyboardInterrupt("stop")

class OnlyReadAttr:
    read = None

texts = {}
for name, d in docs():
    if name not in ("empty", "custom", "Bundle1", "datatypes", "Primer"):
        continue
    for fmt, kw in (("json", {}), ("xml", {}), ("rdf", {}), ("provn", {})):
        texts[(name, fmt)] = d.serialize(format=fmt, **kw)
texts[("garbage", "txt")] = "this is <not> {valid"
texts[("emptystr", "txt")] = ""
texts[("jsonlist", "json")] = "[1, 2]"
texts[("jsonempty", "json")] = "{}"
texts[("latin", "json")] = '{"prefix": {"ex": "http://ex.org/"}, "entity": {"ex:é": {"prov:label": "café"}}}'

for (name, fmt), text in sorted(texts.items()):
    tag = "%s.%s" % (name, fmt)
    path = os.path.join(work, tag.replace(" ", "_"))
    with open(path, "w", encoding="utf-8") as f:
        f.write(text)
    raw = text.encode("utf-8")
    for f_arg in (None, fmt, fmt.upper(), "json", "xml", "rdf", "provn", "nosuch", ""):
        l = "%s fmt=%r" % (tag, f_arg)
        # prov.read
        show("read path " + l, call(prov.read, path, f_arg))
        show("read Path " + l, call(prov.read, pathlib.Path(path), f_arg))
        s = Spy(io.StringIO(text)); show("read StringIO " + l, call(prov.read, s, f_arg)); print("   reads", s.reads, "pos", s.inner.tell())
        s = Spy(io.BytesIO(raw)); show("read BytesIO " + l, call(prov.read, s, f_arg)); print("   reads", s.reads, "pos", s.inner.tell())
        with open(path, "rb") as fh:
            show("read binfile " + l, call(prov.read, fh, f_arg))
        with open(path, "r", encoding="utf-8") as fh:
            show("read textfile " + l, call(prov.read, fh, f_arg))
        show("read rawstr " + l, call(prov.read, text[:40], f_arg))
        if f_arg in (None, "", "nosuch") or f_arg != f_arg.lower():
            continue
        # ProvDocument.deserialize
        D = ProvDocument.deserialize
        show("deser content str " + l, call(D, content=text, format=f_arg))
        show("deser content bytes " + l, call(D, content=raw, format=f_arg))
        show("deser content+source " + l, call(D, "/nonexistent", text, f_arg))
        show("deser path " + l, call(D, path, format=f_arg))
        show("deser Path " + l, call(D, source=pathlib.Path(path), format=f_arg))
        s = Spy(io.StringIO(text)); show("deser StringIO " + l, call(D, s, format=f_arg)); print("   reads", s.reads)
        s = Spy(io.BytesIO(raw)); show("deser BytesIO " + l, call(D, s, format=f_arg)); print("   reads", s.reads)
        show("deser instance-call " + l, call(ProvDocument().deserialize, content=text, format=f_arg))

D = ProvDocument.deserialize
for fmt in ("json", "xml", "rdf", "provn", "nosuch", None):
    for label, kw in (("nothing", {}), ("source None", {"source": None}), ("content empty str", {"content": ""}),
                      ("content empty bytes", {"content": b""}), ("content badutf8", {"content": b"\xff\xfe{}"}),
                      ("content int0", {"content": 0}), ("content list", {"content": []}), ("content bytearray", {"content": bytearray(b"{}")}),
                      ("source missing", {"source": os.path.join(work, "missing")}), ("source dir", {"source": work}),
                      ("source empty str", {"source": ""}), ("source 0.5", {"source": 0.5}), ("source False-like []", {"source": []}),
                      ("source OnlyReadAttr", {"source": OnlyReadAttr()}), ("source BadRead", {"source": BadRead()}),
                      ("extra kwarg", {"content": "{}", "bogus": 1})):
        show("deser %s fmt=%r" % (label, fmt), call(D, format=fmt, **kw) if fmt is not None else call(D, **kw))
for label, src in (("None", None), ("missing", os.path.join(work, "missing")), ("dir", work), ("empty str", ""),
                   ("int", 12345678), ("OnlyReadAttr", OnlyReadAttr()), ("BadRead", BadRead()), ("list", [])):
    for f_arg in (None, "json", "XML", "nosuch", 0, "", 5):
        show("read %s fmt=%r" % (label, f_arg), call(prov.read, src, f_arg))
show("read kw", call(prov.read, source=io.StringIO("{}"), format=None))
print("has _ in __all__", [n for n in prov.__all__])
shutil.rmtree(work)
