# Differential script for refactoring 2 (ProvBundle.__eq__, ProvDocument.__eq__)
import hashlib, logging, io
from prov.model import ProvDocument, ProvBundle, Namespace
import prov.model as M

stream = io.StringIO()
h = logging.StreamHandler(stream)
h.setFormatter(logging.Formatter("%(levelname)s %(name)s %(message)s"))
M.logger.addHandler(h)
M.logger.setLevel(logging.DEBUG)

out = []
def show(label, fn):
    try:
        out.append("%s: OK %r" % (label, fn()))
    except Exception as e:
        out.append("%s: EXC %s %s" % (label, type(e).__name__, e))

def mk(n_e=2, extra=None, bundles=(), dup=False):
    d = ProvDocument()
    d.add_namespace("ex", "http://example.org/ex/")
    for i in range(n_e):
        d.entity("ex:e%d" % i, {"ex:v": i})
    if dup:
        d.entity("ex:e0", {"ex:v": 0})
    if extra:
        d.agent(extra)
    for bid, n in bundles:
        b = d.bundle(bid)
        for i in range(n):
            b.activity("ex:a%d" % i)
    return d

cases = {
    "empty": lambda: ProvDocument(),
    "two": lambda: mk(2),
    "two_b": lambda: mk(2),
    "three": lambda: mk(3),
    "dup": lambda: mk(2, dup=True),
    "agent": lambda: mk(2, extra="ex:ag"),
    "agent_other": lambda: mk(2, extra="ex:ag2"),
    "b1": lambda: mk(2, bundles=[("ex:b1", 1)]),
    "b1_more": lambda: mk(2, bundles=[("ex:b1", 2)]),
    "b2": lambda: mk(2, bundles=[("ex:b2", 1)]),
    "b1b2": lambda: mk(2, bundles=[("ex:b1", 1), ("ex:b2", 1)]),
    "b2b1": lambda: mk(2, bundles=[("ex:b2", 1), ("ex:b1", 1)]),
    "uni": lambda: mk(1, extra="ex:éü"),
}
names = sorted(cases)
for a in names:
    for b in names:
        show("%s == %s" % (a, b), lambda: (cases[a]() == cases[b](), cases[a]() != cases[b]()))

# bundles vs documents vs foreign objects
d = mk(2, bundles=[("ex:b1", 1)])
bun = list(d.bundles)[0]
free = ProvBundle(identifier="x")
free2 = ProvBundle(records=mk(2).get_records())
show("doc == bundle", lambda: d == bun)
show("bundle == doc", lambda: bun == d)
show("bundle == bundle", lambda: bun == list(mk(2, bundles=[("ex:b1", 1)]).bundles)[0])
show("bundle == other-id bundle", lambda: bun == list(mk(2, bundles=[("ex:b2", 1)]).bundles)[0])
show("free2 == mk2 (bundle vs doc)", lambda: (free2 == mk(2), mk(2) == free2))
show("free == empty doc", lambda: (free == ProvDocument(), ProvDocument() == free))
for other in (None, 1, "s", [], object):
    show("doc == %r" % (other,), lambda: (d == other, d != other, bun == other, bun != other))
show("self equal", lambda: (d == d, bun == bun))

class Sub(ProvDocument):
    pass
sd = Sub(); sd.add_namespace("ex", "http://example.org/ex/"); sd.entity("ex:e0", {"ex:v": 0}); sd.entity("ex:e1", {"ex:v": 1})
show("subclass", lambda: (sd == mk(2), mk(2) == sd, sd == mk(3)))

class NoInit(ProvDocument):
    def __init__(self):
        ProvBundle.__init__(self)
show("no _bundles attr", lambda: NoInit() == ProvDocument())
show("no _bundles attr rev", lambda: ProvDocument() == NoInit())
show("hash", lambda: (ProvDocument.__hash__, ProvBundle.__hash__))

out.append("LOG:\n" + stream.getvalue())
text = "\n".join(out)
print(text)
print("DIGEST", hashlib.sha256(text.encode("utf-8")).hexdigest())
