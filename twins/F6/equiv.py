"""Differential check for refactoring 6 (literals hoisted to module level in
prov.dot, prov.serializers and prov.serializers.provn)."""
import hashlib
import io
import os
import tempfile

from docs_common import all_docs, EX
from prov.model import ProvDocument
from prov.dot import prov_to_dot
import prov.serializers as serializers
from prov.serializers import get, Registry, DoNotExist
from prov.serializers.provn import ProvNSerializer


def digest(s):
    if isinstance(s, str):
        s = s.encode("utf-8")
    return hashlib.sha256(s).hexdigest()[:16]


def attempt(label, fn):
    try:
        print(label, fn())
    except BaseException as e:  # noqa
        print(label, "EXC", type(e).__name__, repr(e.args)[:200], "cause=%r ctx=%s" % (
            e.__cause__, type(e.__context__).__name__))


print("### serializers.get")
print("before first get:", Registry.serializers)
for fmt in ("json", "rdf", "provn", "xml", "JSON", "", "yaml", "50%s", "%d", None, 3, ("a", "b"), ("a",), (), [], {"x": 1}, b"json"):
    attempt("get(%r)" % (fmt,), lambda: get(fmt).__name__)
print("registry:", sorted((k, v.__name__) for k, v in Registry.serializers.items()), list(Registry.serializers))
print("__all__:", serializers.__all__)

print("### prov_to_dot directions / blank nodes")
docs = all_docs()
for name, doc in docs:
    for direction in ("BT", "TB", "LR", "RL", "bt", "", "XX", None, 5, ("BT",), frozenset(["BT"])):
        attempt("%s dir=%r" % (name, direction), lambda: (lambda s: "%s len=%d rankdir=%s" % (
            digest(s), len(s), [l.strip() for l in s.splitlines() if "rankdir" in l]))(
            prov_to_dot(doc, direction=direction).to_string()))
    for direction in (["BT"], {"BT"}, {}):
        attempt("%s dir=%r" % (name, direction), lambda: digest(prov_to_dot(doc, direction=direction).to_string()))
    attempt("%s no-attr" % name, lambda: digest(prov_to_dot(
        doc, show_element_attributes=False, show_relation_attributes=False, show_nary=False).to_string()))
for name, doc in docs[:4]:
    print("=====", name)
    print(prov_to_dot(doc).to_string())

print("### ProvNSerializer.serialize")
uni = ProvDocument()
uni.add_namespace(EX)
uni.entity("ex:café", {"prov:label": "naïve ☃ \U0001F600", "ex:s": 'q"uote\\'})
for name, doc in docs + [("unicode", uni)]:
    ser = ProvNSerializer(doc)

    def text():
        t = io.StringIO()
        r = ser.serialize(t)
        return "ret=%r len=%d %s" % (r, len(t.getvalue()), digest(t.getvalue()))

    def binary():
        b = io.BytesIO()
        r = ser.serialize(b, anything="ignored")
        return "ret=%r len=%d %s" % (r, len(b.getvalue()), digest(b.getvalue()))

    def files(mode):
        with tempfile.TemporaryDirectory() as tmp:
            path = os.path.join(tmp, "o.provn")
            kw = {"encoding": "latin-1", "errors": "replace"} if "b" not in mode else {}
            with open(path, mode, **kw) as fh:
                ser.serialize(fh)
            with open(path, "rb") as fh:
                data = fh.read()
        return "len=%d %s" % (len(data), digest(data))

    class Rec:
        def write(self, data):
            self.got = (type(data).__name__, len(data), digest(data))

    def rec():
        r = Rec()
        ser.serialize(r)
        return r.got

    attempt("%s text" % name, text)
    attempt("%s binary" % name, binary)
    attempt("%s file wb" % name, lambda: files("wb"))
    attempt("%s file w" % name, lambda: files("w"))
    attempt("%s recorder" % name, rec)
    attempt("%s None" % name, lambda: ser.serialize(None))
    attempt("%s deserialize" % name, lambda: ser.deserialize(io.StringIO("document\nendDocument")))
    attempt("%s doc.serialize" % name, lambda: digest(doc.serialize(format="provn")))
attempt("no document", lambda: ProvNSerializer().serialize(io.StringIO()))
