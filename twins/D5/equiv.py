"""Differential script for refactoring 5 (literals hoisted to module-level constants):
parse_boolean (and XSD_DATATYPE_PARSERS / parse_xsd_types through it), Literal.__init__."""
import os
import sys

if os.environ.get("PYTHONHASHSEED") != "0":
    env = dict(os.environ, PYTHONHASHSEED="0")
    os.execve(sys.executable, [sys.executable] + sys.argv, env)

import hashlib
import logging

import prov.model as model
from prov.model import (
    Literal,
    Identifier,
    Namespace,
    ProvDocument,
    PROV,
    parse_boolean,
    parse_xsd_types,
    XSD_DATATYPE_PARSERS,
)
from prov.constants import XSD_BOOLEAN, XSD_STRING, XSD_INT

out = []


def emit(tag, value):
    out.append("%s: %r" % (tag, value))


class ListHandler(logging.Handler):
    def emit(self, record):
        out.append("LOG %s %s: %s" % (record.name, record.levelname, record.getMessage()))


model.logger.setLevel(logging.DEBUG)
model.logger.addHandler(ListHandler())
model.logger.propagate = False


class Lowerable(object):
    def __init__(self, s):
        self.s = s

    def lower(self):
        out.append("lower() called on %s" % (self.s,))
        return self.s


# --- parse_boolean
for v in ["false", "False", "FALSE", "fAlSe", "0", "true", "True", "TRUE", "1", "", " ", " true",
          "true ", "00", "01", "yes", "no", "t", "f", "-1", "1.0", "٠", "１", "TRUE\n", "ﬀalse",
          "İ", Lowerable("true"), Lowerable("0"), Lowerable("x"), Lowerable(("false", "0"))]:
    tag = "parse_boolean(%r)" % (v if isinstance(v, str) else "Lowerable:%s" % (v.s,))
    try:
        r = parse_boolean(v)
        emit(tag, (type(r).__name__, r))
    except Exception as exc:  # noqa
        emit(tag + " !exc", (type(exc).__name__, str(exc)))
for v in [None, 0, 1, True, False, 1.0, b"true", ["true"]]:
    try:
        emit("parse_boolean(%r)" % (v,), parse_boolean(v))
    except Exception as exc:  # noqa
        emit("parse_boolean(%r) !exc" % (v,), (type(exc).__name__, str(exc)))
    try:
        emit("parse_xsd_types(%r, boolean)" % (v,), parse_xsd_types(v, XSD_BOOLEAN))
    except Exception as exc:  # noqa
        emit("parse_xsd_types(%r, boolean) !exc" % (v,), (type(exc).__name__, str(exc)))
emit("table entry is parse_boolean", XSD_DATATYPE_PARSERS[XSD_BOOLEAN] is parse_boolean)
emit("table keys", sorted(str(k) for k in XSD_DATATYPE_PARSERS))
emit("public names", sorted(n for n in dir(model) if not n.startswith("_") and "BOOL" in n.upper()))

# --- Literal.__init__
IS = PROV["InternationalizedString"]
other_is = Namespace("prov", "http://www.w3.org/ns/prov#")["InternationalizedString"]
same_uri_other_prefix = Namespace("p", "http://www.w3.org/ns/prov#")["InternationalizedString"]
cases = [
    ("a", None, None),
    ("a", None, "en"),
    ("a", None, "EN-gb"),
    ("a", None, ""),
    ("a", None, 0),
    ("a", None, 7),
    ("a", IS, "en"),
    ("a", IS, None),
    ("a", other_is, "en"),
    ("a", same_uri_other_prefix, "en"),
    ("a", Identifier("http://www.w3.org/ns/prov#InternationalizedString"), "en"),
    ("a", "prov:InternationalizedString", "en"),
    ("a", XSD_STRING, "en"),
    ("a", XSD_STRING, None),
    ("a", XSD_STRING, ""),
    ("a", XSD_INT, "fr"),
    ("a", 0, "fr"),
    ("a", "", "fr"),
    ("", None, "fr"),
    (None, None, "fr"),
    (12, None, "fr"),
    ('q"uote\nnl %s', None, "x-%d"),
    ("é☃", XSD_STRING, "é"),
]
lits = []
for i, (v, dt, lang) in enumerate(cases):
    out.append("-- case %d" % i)
    try:
        l = Literal(v, dt, lang)
    except Exception as exc:  # noqa
        emit("lit %d !exc" % i, (type(exc).__name__, str(exc)))
        continue
    lits.append(l)
    emit("lit %d" % i, (
        l.value, type(l.datatype).__name__, str(l.datatype), l.langtag,
        l.datatype is IS, l.datatype is dt, l.datatype == IS,
        l.provn_representation(), hash(l) == hash(Literal(v, dt, lang)), l == Literal(v, dt, lang),
    ))
emit("cache identity", PROV["InternationalizedString"] is IS)
emit("pairwise eq", ["".join(str(int(a == b)) for b in lits) for a in lits])

# through the serialisers (they compare datatype against PROV["InternationalizedString"])
d = ProvDocument()
d.add_namespace("ex", "http://example.org/")
e = d.entity("ex:e", [("ex:l%d" % i, l) for i, l in enumerate(lits) if l.langtag or l.datatype is None] +
             [("ex:b%d" % i, Literal(s, XSD_BOOLEAN)) for i, s in enumerate(["true", "0", "FALSE", "junk"])])
emit("provn", d.get_provn())
d_lang = ProvDocument()
d_lang.add_namespace("ex", "http://example.org/")
d_lang.entity("ex:e", [("ex:l%d" % i, l) for i, l in enumerate(lits)
                       if l.langtag and l.langtag.isascii() and l.langtag.replace("-", "").isalpha()] +
              [("ex:b%d" % i, Literal(s, XSD_BOOLEAN)) for i, s in enumerate(["true", "0", "FALSE"])])
for d in (d, d_lang):
  for fmt in ("json", "xml", "rdf"):
      try:
          kwargs = {"rdf_format": "nt"} if fmt == "rdf" else {}
          text = d.serialize(format=fmt, **kwargs)
          if fmt == "rdf":
              text = "\n".join(sorted(text.splitlines()))
          emit(fmt, text)
          back = ProvDocument.deserialize(content=d.serialize(format=fmt, **kwargs), format=fmt, **kwargs)
          emit(fmt + " roundtrip eq", back == d)
          emit(fmt + " roundtrip provn", sorted(back.get_provn().splitlines()))
      except Exception as exc:  # noqa
          emit(fmt + " !exc", (type(exc).__name__, str(exc)))

text = "\n".join(out)
print(text)
print("DIGEST", hashlib.sha256(text.encode("utf-8")).hexdigest())
