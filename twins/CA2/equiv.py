import os, sys
if os.environ.get("PYTHONHASHSEED") != "0":
    os.environ["PYTHONHASHSEED"] = "0"
    os.execv(sys.executable, [sys.executable] + sys.argv)
import hashlib
from prov.identifier import Identifier, QualifiedName, Namespace
from prov.model import ProvDocument, ProvBundle, NamespaceManager

lines = []
def ns_repr(n):
    if isinstance(n, Namespace):
        return "NS(%r,%r)" % (n.prefix, n.uri)
    return repr(n)

def dump(label, m):
    lines.append("  [%s] dict=%s" % (label, [(k, ns_repr(v)) for k, v in m.items()]))
    lines.append("  [%s] _namespaces=%s" % (label, [(k, ns_repr(v)) for k, v in m._namespaces.items()]))
    lines.append("  [%s] _uri_map=%s" % (label, [(k, ns_repr(v)) for k, v in m._uri_map.items()]))
    lines.append("  [%s] _rename_map=%s" % (label, [(ns_repr(k), ns_repr(v)) for k, v in m._rename_map.items()]))
    lines.append("  [%s] _prefix_renamed_map=%s" % (label, [(k, ns_repr(v)) for k, v in m._prefix_renamed_map.items()]))
    lines.append("  [%s] default=%s" % (label, ns_repr(m._default)))
    # identity relations between the maps
    ids = {}
    def i(o): return ids.setdefault(id(o), len(ids))
    lines.append("  [%s] ident=%s" % (label, [[i(v) for v in d.values()] for d in (m, m._namespaces, m._uri_map, m._rename_map, m._prefix_renamed_map)]))

def rec(label, fn):
    try:
        r = fn()
        lines.append("%s -> %s" % (label, ns_repr(r) if not isinstance(r, QualifiedName) else ("QN", r.uri, str(r), ns_repr(r.namespace))))
        return r
    except Exception as e:
        lines.append("%s !! %s: %s" % (label, type(e).__name__, e))

# ---- scenario 1: all branches of add_namespace in sequence
m = NamespaceManager()
a = Namespace("ex", "http://example.org/a/")
r1 = rec("register", lambda: m.add_namespace(a)); lines.append("same obj %r" % (r1 is a))
r2 = rec("known (same obj)", lambda: m.add_namespace(a)); lines.append("same obj %r" % (r2 is a))
a2 = Namespace("ex", "http://example.org/a/")
r3 = rec("known (equal copy)", lambda: m.add_namespace(a2)); lines.append("returns arg %r, not registered %r" % (r3 is a2, r3 is a))
b = Namespace("other", "http://example.org/a/")
r4 = rec("known uri, other prefix", lambda: m.add_namespace(b)); lines.append("is registered %r" % (r4 is a))
r5 = rec("renamed again", lambda: m.add_namespace(Namespace("other", "http://example.org/a/"))); lines.append("is registered %r" % (r5 is a))
dump("s1a", m)
c = Namespace("ex", "http://example.org/c/")
r6 = rec("conflicting prefix", lambda: m.add_namespace(c)); lines.append("new obj %r" % (r6 is not c))
r7 = rec("conflict again (rename_map)", lambda: m.add_namespace(Namespace("ex", "http://example.org/c/"))); lines.append("same as before %r" % (r7 is r6))
r8 = rec("second conflict", lambda: m.add_namespace(Namespace("ex", "http://example.org/d/")))
r9 = rec("third conflict", lambda: m.add_namespace(Namespace("ex", "http://example.org/e/")))
r10 = rec("add the renamed one directly", lambda: m.add_namespace(Namespace("ex_1", "http://example.org/c/")))
r11 = rec("ex_1 with new uri", lambda: m.add_namespace(Namespace("ex_1", "http://example.org/f/")))
r12 = rec("prov clash", lambda: m.add_namespace(Namespace("prov", "http://not-prov/")))
r13 = rec("xsd clash", lambda: m.add_namespace(Namespace("xsd", "http://not-xsd/")))
r14 = rec("prov itself", lambda: m.add_namespace(Namespace("prov", "http://www.w3.org/ns/prov#")))
r15 = rec("prov uri other prefix", lambda: m.add_namespace(Namespace("p", "http://www.w3.org/ns/prov#")))
r16 = rec("non-ascii", lambda: m.add_namespace(Namespace("é", "http://exämple.org/ü/")))
r17 = rec("non-ascii clash", lambda: m.add_namespace(Namespace("é", "http://exämple.org/ö/")))
r18 = rec("empty prefix no default", lambda: m.add_namespace(Namespace("", "http://empty/")))
r19 = rec("empty prefix clash", lambda: m.add_namespace(Namespace("", "http://empty2/")))
dump("s1b", m)
for q in ("ex:x", "other:x", "ex_1:x", "ex_2:y", "p:z", "é:ü", "_1:k", "http://example.org/d/zz", "plain"):
    rec("vqn %r" % q, lambda: m.valid_qualified_name(q))

# ---- scenario 2: pre-occupied numbered prefixes, _get_unused_prefix directly
m = NamespaceManager({"ex": "http://1/", "ex_1": "http://2/", "ex_2": "http://3/", "ex_4": "http://5/"})
for p in ("ex", "ex_1", "ex_3", "zz", "", "prov", "ex_", None, 5):
    rec("unused %r" % (p,), lambda: m._get_unused_prefix(p))
rec("clash -> ex_3", lambda: m.add_namespace(Namespace("ex", "http://6/")))
rec("clash -> ex_5", lambda: m.add_namespace(Namespace("ex", "http://7/")))
rec("clash ex_1 -> ex_1_1", lambda: m.add_namespace(Namespace("ex_1", "http://8/")))
dump("s2", m)

# ---- scenario 3: default namespace interplay
m = NamespaceManager(default="http://default/")
rec("empty prefix vs default (equal)", lambda: m.add_namespace(Namespace("", "http://default/")))
rec("empty prefix vs default (other)", lambda: m.add_namespace(Namespace("", "http://other-default/")))
rec("empty prefix vs default (other) again", lambda: m.add_namespace(Namespace("", "http://other-default/")))
rec("prefix, default uri", lambda: m.add_namespace(Namespace("d", "http://default/")))
dump("s3", m)
rec("vqn default qname", lambda: m.valid_qualified_name(Namespace("", "http://third/")["x"]))
rec("vqn default qname again", lambda: m.valid_qualified_name(Namespace("", "http://fourth/")["x"]))
dump("s3b", m)

# ---- scenario 4: odd inputs and error paths; state after a failure
m = NamespaceManager()
m.add_namespace(Namespace(5, "http://five/"))
rec("int prefix clash", lambda: m.add_namespace(Namespace(5, "http://five-b/")))
rec("None prefix", lambda: m.add_namespace(Namespace(None, "http://none/")))
rec("None prefix clash", lambda: m.add_namespace(Namespace(None, "http://none-b/")))
rec("None prefix known uri", lambda: m.add_namespace(Namespace("nn", "http://none/")))
rec("unhashable prefix", lambda: m.add_namespace(Namespace(["l"], "http://list/")))
rec("not a namespace: str", lambda: m.add_namespace("ex"))
rec("not a namespace: None", lambda: m.add_namespace(None))
rec("not a namespace: tuple", lambda: m.add_namespace(("ex", "http://t/")))
class NS2(Namespace):
    pass
rec("subclass", lambda: m.add_namespace(NS2("sub", "http://sub/")))
rec("subclass clash", lambda: type(m.add_namespace(NS2("sub", "http://sub2/"))).__name__)
dump("s4", m)

# ---- scenario 5: through bundles / documents
doc = ProvDocument(namespaces=[Namespace("ex", "http://example.org/1/")])
rec("doc.add_namespace(prefix, uri) clash", lambda: doc.add_namespace("ex", "http://example.org/2/"))
rec("doc.add_namespace(ns) known uri", lambda: doc.add_namespace(Namespace("again", "http://example.org/2/")))
e = doc.entity("ex:e"); e2 = doc.entity("again:e2"); e3 = doc.entity("ex_1:e3")
bn = doc.bundle("ex:b")
rec("bundle clash", lambda: bn.add_namespace("ex", "http://example.org/3/"))
bn.entity("ex:in-bundle"); bn.entity(Namespace("ex", "http://example.org/4/")["q"])
other = ProvDocument(); other.add_namespace("ex", "http://example.org/9/"); other.entity("ex:o"); ob = other.bundle("ex:b"); ob.entity("ex:o2")
rec("update", lambda: doc.update(other))
dump("doc", doc._namespaces); dump("bundle", bn._namespaces)
for fmt in ("json", "provn", "xml"):
    rec("ser " + fmt, lambda: repr(doc.serialize(format=fmt)))
rec("roundtrip", lambda: repr(ProvDocument.deserialize(content=doc.serialize(format="json"), format="json").get_provn()))
rec("flattened", lambda: repr(doc.flattened().get_provn()))
rec("unified", lambda: repr(doc.unified().get_provn()))

text = "\n".join(lines)
print(text)
print("DIGEST", hashlib.sha256(text.encode("utf-8")).hexdigest())
