# Differential script for refactoring 5:
# ProvRDFSerializer.encode_container / encode_document / decode_document
import io, os, sys
sys.path.insert(0, os.path.join(os.path.dirname(os.path.abspath(__file__)), ".."))
from harness import *
from rdflib.graph import ConjunctiveGraph, Graph
from rdflib.term import BNode, URIRef
from prov.constants import PROV_N_MAP
from prov.serializers.provrdf import ProvRDFSerializer


def quads(g):
    def t(x):
        return "_:B" if isinstance(x, BNode) else x.n3()
    out = []
    for s, p, o, c in g.quads((None, None, None, None)):
        cid = c.identifier if hasattr(c, "identifier") else c
        out.append(" ".join((t(s), t(p), t(o), t(cid))))
    return sorted(out)


def relations_doc():
    """every relation type, with 0/1/2/all formal attributes and with/without extras/ids"""
    d = ProvDocument()
    d.add_namespace("ex", "http://example.org/")
    makers = ["wasGeneratedBy", "used", "wasInformedBy", "wasStartedBy", "wasEndedBy", "wasInvalidatedBy",
              "wasDerivedFrom", "wasAttributedTo", "wasAssociatedWith", "actedOnBehalfOf", "wasInfluencedBy",
              "alternateOf", "specializationOf", "hadMember"]
    n = 0
    for m in makers:
        f = getattr(d, m)
        for extra in (None, {"ex:k": "v"}, {"prov:role": "r", "prov:location": "l", "prov:label": "lab", "prov:type": "ex:T"}):
            for ident in (None, "ex:id%d" % n):
                n += 1
                kw = {}
                if m not in ("alternateOf", "specializationOf", "hadMember"):
                    kw = {"identifier": ident, "other_attributes": extra}
                elif extra or ident:
                    continue
                try:
                    f("ex:x%d" % n, "ex:y%d" % n, **kw)
                except Exception as e:
                    print("maker", m, type(e).__name__)
    d.wasGeneratedBy("ex:e", None, "2011-01-01T00:00:00")
    d.wasGeneratedBy("ex:e", "ex:a", "2011-01-01T00:00:00")
    d.used("ex:a", None, "2011-01-01T00:00:00", "ex:uu")
    d.wasInvalidatedBy("ex:e", None, "2011-01-01T00:00:00", None, {"prov:location": "ex:l"})
    d.wasStartedBy("ex:a", None, "ex:starter", "2011-01-01T00:00:00")
    d.wasStartedBy("ex:a", "ex:trigger", "ex:starter", None, "ex:st1")
    d.wasEndedBy("ex:a", None, "ex:ender")
    d.wasEndedBy("ex:a", "ex:trigger", "ex:ender", "2011-01-01T00:00:00", None, {"prov:location": "here"})
    d.wasDerivedFrom("ex:e2", "ex:e1", "ex:a", "ex:g", "ex:u")
    d.wasDerivedFrom("ex:e2", None, "ex:a")
    d.wasAssociatedWith("ex:a", None, "ex:plan")
    d.wasAssociatedWith("ex:a", "ex:ag", "ex:plan")
    d.actedOnBehalfOf("ex:ag", "ex:ag2", "ex:a")
    d.mentionOf("ex:e", "ex:e1", None)
    d.mentionOf("ex:e", "ex:e1", "ex:b")
    d.activity("ex:act", "2011-01-01T00:00:00", "2011-01-02T00:00:00", {"prov:location": "x"})
    return d


docs = all_docs() + [("relations", relations_doc)]
print("== encode_document / encode_container")
for name, fn in docs:
    doc = fn()
    ser = ProvRDFSerializer(doc)
    kind, g = outcome(ser.encode_document, doc)
    if kind != "ok":
        print(name, "encode_document", kind, g); continue
    q = quads(g)
    print(name, "encode_document", len(q), dig("\n".join(q)), sorted("%s=%s" % x for x in g.namespaces())[-3:])
    if name in ("edge", "relations", "Bundle2"):
        for line in q:
            print("    ", line)
    # custom PROV_N_MAP (only used for the sub-bundles by encode_document)
    custom = dict(PROV_N_MAP)
    kind, g2 = outcome(ser.encode_document, doc, PROV_N_MAP=custom)
    print(name, "custom-map", kind, dig("\n".join(quads(g2))) if kind == "ok" else g2)
    kind, g3 = outcome(ser.encode_document, doc, PROV_N_MAP={})
    print(name, "empty-map", kind, dig("\n".join(quads(g3))) if kind == "ok" else g3[:100])
    # encode_container directly: into an existing container, with identifier
    base = ConjunctiveGraph()
    kind, g4 = outcome(ser.encode_container, doc, container=base, identifier="http://ignored.example/")
    print(name, "into-existing", kind, g4 is base, dig("\n".join(quads(base))), len(list(base.namespaces())))
    kind, g5 = outcome(ser.encode_container, doc, identifier=URIRef("http://graph.example/g"))
    print(name, "with-identifier", kind, dig("\n".join(quads(g5))) if kind == "ok" else g5)
    for b in sorted(doc.bundles, key=lambda b: str(b.identifier)):
        kind, g6 = outcome(ser.encode_container, b, PROV_N_MAP, None, b.identifier.uri)
        print(name, "bundle", b.identifier, kind, dig("\n".join(quads(g6))) if kind == "ok" else g6)
    for fmt in ("trig", "xml"):
        kind, res = outcome(doc.serialize, format="rdf", rdf_format=fmt)
        print(name, fmt, kind, rdig(res, fmt) if kind == "ok" else res[:120])

print("== decode_document")
for name, fn in docs:
    doc = fn()
    for fmt, cls in (("trig", ConjunctiveGraph), ("nquads", ConjunctiveGraph), ("turtle", ConjunctiveGraph), ("turtle", Graph)):
        text = doc.serialize(format="rdf", rdf_format=fmt)
        g = cls()
        g.parse(data=text, format=fmt)
        new = ProvDocument()
        ser = ProvRDFSerializer(new)
        kind, res = outcome(ser.decode_document, g, new)
        print(name, fmt, cls.__name__, kind, res if kind == "exc" else (res, new == doc, len(list(new.bundles)), dig(provn_sorted(new))))
        if name in ("Bundle2", "edge") and fmt == "trig":
            print(provn_sorted(new))
# named graph whose name is not a valid identifier / duplicate names / custom mappers
g = ConjunctiveGraph()
g.parse(data="""@prefix prov: <http://www.w3.org/ns/prov#> . @prefix ex: <http://example.org/> .
 ex:top a prov:Entity . ex:b1 { ex:e a prov:Entity . ex:e prov:wasGeneratedBy ex:a . } <urn:x:y z> { ex:f a prov:Agent . }""", format="trig")
new = ProvDocument(); ser = ProvRDFSerializer(new)
print("bad-name", outcome(ser.decode_document, g, new), provn_sorted(new))
import prov.serializers.provrdf as R
g = ConjunctiveGraph()
g.parse(data="""@prefix prov: <http://www.w3.org/ns/prov#> . @prefix ex: <http://example.org/> .
 ex:b1 { ex:e a prov:Entity ; prov:wasGeneratedBy ex:a ; prov:atLocation "x" . }""", format="trig")
new = ProvDocument(); ser = ProvRDFSerializer(new)
print("custom-mappers", outcome(ser.decode_document, g, new, relation_mapper={}, predicate_mapper={}), provn_sorted(new))
print("== test files")
for f in rdf_files(step=4):
    ser = ProvRDFSerializer()
    with open(f, "rb") as fh:
        kind, res = outcome(ser.deserialize, fh, rdf_format="turtle")
    if kind == "ok":
        g = ProvRDFSerializer(res).encode_document(res)
        print(os.path.basename(f), "ok", dig(provn_sorted(res)), dig("\n".join(quads(g))))
    else:
        print(os.path.basename(f), kind, res[:120])
