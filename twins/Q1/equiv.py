# Shared corpus builder (copied verbatim into every equiv.py so each is self-contained)
import datetime, hashlib, io, os, sys, tempfile, traceback, contextlib

# -- determinism: fixed string hashing (attribute sets) and counted rdflib blank nodes
if os.environ.get("PYTHONHASHSEED") != "0":
    os.environ["PYTHONHASHSEED"] = "0"
    os.execv(sys.executable, [sys.executable] + sys.argv)
import rdflib.term as _rt


class _CountedUUID:
    n = 0

    def __call__(self):
        type(self).n += 1
        return self

    @property
    def hex(self):
        return "%032x" % type(self).n


_rt.uuid4 = _CountedUUID()

from prov.model import ProvDocument, Namespace, Literal, PROV, Identifier, QualifiedName
from prov.tests import examples


def edge_doc(odd_ns=False):
    d = ProvDocument()
    d.set_default_namespace("http://default.example/")
    ex = d.add_namespace("ex", "http://example.org/")
    if odd_ns:
        d.add_namespace("odd", "http://example.org/odd path/#")
    e1 = d.entity("ex:e1", {"prov:label": "café ☃ <&> \"q\" 'a'", "ex:n": 1, "ex:f": 2.5,
                            "ex:b": True, "ex:s": "", "ex:uri": Identifier("http://x.org/a?b=c&d"),
                            "ex:q": ex["qn"], "ex:t": datetime.datetime(2020, 1, 2, 3, 4, 5, 678)})
    # repeated identifier, several values for one attribute
    d.entity("ex:e1", {"ex:n": 2, "prov:type": ex["T"]})
    d.entity("ex:e1", [("ex:tag", "a"), ("ex:tag", "b"), ("ex:tag", Literal("c", langtag="en"))])
    d.entity("noprefix")
    a = d.activity("ex:a1", datetime.datetime(2012, 3, 4, 5, 6, 7), None, {"prov:type": "ex:edit"})
    ag = d.agent("ex:ag", {"prov:type": PROV["Person"], "prov:location": "Paris",
                           "prov:value": Literal("10", datatype=ex["dt"])})
    d.wasGeneratedBy(e1, a, datetime.datetime(2012, 3, 4, 5, 6, 8), identifier="ex:g1",
                     other_attributes={"prov:role": "writer"})
    d.wasGeneratedBy(e1, a)
    d.used(a, e1)
    d.used(a, None, None, {"ex:why": "unknown"})
    d.wasAssociatedWith(a, ag, "ex:plan")
    d.actedOnBehalfOf(ag, "ex:boss", a)
    d.wasDerivedFrom("ex:e2", e1, other_attributes={"prov:type": PROV["Revision"]})
    d.alternateOf("ex:e2", e1)
    d.specializationOf("ex:e2", e1)
    d.hadMember("ex:coll", e1)
    d.hadMember("ex:coll", "ex:e2")
    d.wasStartedBy(a, e1, None, datetime.datetime(2012, 1, 1))
    d.wasEndedBy(a, None, None, None)
    d.wasInvalidatedBy(e1, a, identifier="ex:inv")
    d.wasInformedBy("ex:a2", a)
    d.wasAttributedTo(e1, ag)
    d.wasInfluencedBy(e1, ag, identifier="ex:infl")
    b = d.bundle("ex:bundle1")
    b.add_namespace("bx", "http://bundle.example/ns#")
    b.entity("bx:inner", {"prov:label": Literal("hallo", langtag="de")})
    b.entity("ex:e1")
    b.mentionOf("bx:inner", "ex:e1", "ex:bundle1") if hasattr(b, "mentionOf") else None
    d.bundle("ex:emptybundle")
    return d


def corpus():
    docs = [("empty", ProvDocument())]
    only_ns = ProvDocument()
    only_ns.add_namespace("ex", "http://example.org/")
    docs.append(("only_ns", only_ns))
    for name, fn in examples.tests:
        docs.append((name, fn()))
    docs.append(("edge", edge_doc()))
    docs.append(("edge_oddns", edge_doc(odd_ns=True)))
    return docs


def digest(data):
    if isinstance(data, str):
        data = data.encode("utf-8")
    return hashlib.sha256(data).hexdigest()[:16]


def attempt(label, fn):
    """Run fn, print a deterministic line for its result or its exception."""
    out = io.StringIO()
    try:
        with contextlib.redirect_stdout(out):
            res = fn()
        if isinstance(res, (bytes, str)):
            shown = "%s len=%d sha=%s" % (type(res).__name__, len(res), digest(res))
        else:
            shown = repr(res)
        print("%-60s OK  %s  stdout=%r" % (label, shown, out.getvalue()))
    except BaseException as exc:  # noqa
        ctx = type(exc.__context__).__name__ if exc.__context__ is not None else None
        print("%-60s EXC %s: %s  ctx=%s  stdout=%r" % (label, type(exc).__name__, exc, ctx, out.getvalue()))


# ---- refactoring 1: ProvJSONSerializer.serialize / ProvNSerializer.serialize
from prov.serializers.provjson import ProvJSONSerializer
from prov.serializers.provn import ProvNSerializer


class NoWrite:
    pass


class FailingText(io.StringIO):
    def write(self, s):
        raise IOError("disk full after %d chars" % len(s))


class Recorder:
    """binary-like sink without TextIOBase ancestry: records the type written"""

    def __init__(self):
        self.calls = []

    def write(self, data):
        self.calls.append((type(data).__name__, len(data), digest(data)))


def run(cls, doc, make_stream, **kw):
    stream = make_stream()
    res = cls(doc).serialize(stream, **kw)
    if isinstance(stream, Recorder):
        return "ret=%r calls=%r" % (res, stream.calls)
    if hasattr(stream, "getvalue"):
        v = stream.getvalue()
        return "ret=%r %s len=%d sha=%s closed=%s" % (res, type(v).__name__, len(v), digest(v), stream.closed)
    return "ret=%r" % (res,)


surrogate = ProvDocument()
surrogate.add_namespace("ex", "http://example.org/")
surrogate.entity("ex:s", {"ex:bad": "lone \ud800 surrogate"})

docs = corpus() + [("surrogate", surrogate)]
for name, doc in docs:
    for cls in (ProvJSONSerializer, ProvNSerializer):
        for sname, mk in (("StringIO", io.StringIO), ("BytesIO", io.BytesIO), ("Recorder", Recorder),
                          ("None", lambda: None), ("NoWrite", NoWrite), ("FailingText", FailingText)):
            attempt("%s %s %s" % (name, cls.__name__, sname), lambda: run(cls, doc, mk))

edge = dict(docs)["edge"]
for kw in ({"indent": 2}, {"sort_keys": True, "indent": 1}, {"ensure_ascii": False}, {"separators": (",", ":")},
           {"bogus": 1}, {"cls": None}):
    for sname, mk in (("StringIO", io.StringIO), ("BytesIO", io.BytesIO)):
        attempt("edge json kw=%r %s" % (sorted(kw), sname), lambda: run(ProvJSONSerializer, edge, mk, **kw))
        attempt("edge provn kw=%r %s" % (sorted(kw), sname), lambda: run(ProvNSerializer, edge, mk, **kw))

# real files, text and binary
tmp = tempfile.mkdtemp()
for cls, ext in ((ProvJSONSerializer, "json"), (ProvNSerializer, "provn")):
    for mode in ("w", "wb"):
        path = os.path.join(tmp, "out." + ext + mode)
        kwargs = {"encoding": "utf-8"} if mode == "w" else {}
        with open(path, mode, **kwargs) as fh:
            cls(edge).serialize(fh)
        print("file", cls.__name__, mode, digest(open(path, "rb").read()))
# through the document API
for fmt in ("json", "provn"):
    attempt("doc.serialize %s" % fmt, lambda: edge.serialize(format=fmt))
    attempt("doc.serialize %s indent" % fmt, lambda: edge.serialize(format=fmt, **({"indent": 4} if fmt == "json" else {})))
# no document at all
attempt("json no document", lambda: run(ProvJSONSerializer, None, io.StringIO))
attempt("provn no document", lambda: run(ProvNSerializer, None, io.StringIO))
