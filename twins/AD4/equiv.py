# Differential script for refactoring 4:
# ProvRDFSerializer.decode_container (+ AnonymousIDGenerator used by encode_container)
import io, os, sys
sys.path.insert(0, os.path.join(os.path.dirname(os.path.abspath(__file__)), ".."))
from harness import *
from rdflib.graph import ConjunctiveGraph, Graph
from prov.serializers.provrdf import ProvRDFSerializer, AnonymousIDGenerator

print("== AnonymousIDGenerator")
gen = AnonymousIDGenerator()
objs = ["a", "b", "a", 1, 1.0, True, (1, 2), "", None, "b"]
print([gen.get_anon_id(o) for o in objs])
print([gen.get_anon_id(o, "x") for o in ["a", "new", "", "newer"]])
print(outcome(gen.get_anon_id, []))
print(gen.get_anon_id("after-error"), sorted(k for k in vars(gen) if not k.startswith("_")))
gen2 = AnonymousIDGenerator()
print(gen2.get_anon_id("z", local_prefix="pré fix"), gen2.get_anon_id("y", local_prefix=""))

TTL = {
 "empty": "",
 "untyped": "@prefix ex: <http://example.org/> . ex:a ex:p ex:b .",
 "mention": """@prefix prov: <http://www.w3.org/ns/prov#> . @prefix ex: <http://example.org/> .
   ex:e1 a prov:Entity ; prov:mentionOf ex:e2 ; prov:asInBundle ex:b1 . ex:e3 prov:mentionOf ex:e4 .""",
 "alternate": """@prefix prov: <http://www.w3.org/ns/prov#> . @prefix ex: <http://example.org/> .
   ex:e1 prov:alternateOf ex:e2 . ex:e1 prov:specializationOf ex:e2 . ex:c prov:hadMember ex:e1, ex:e2 .""",
 "assoc": """@prefix prov: <http://www.w3.org/ns/prov#> . @prefix ex: <http://example.org/> .
   ex:a1 a prov:Activity ; prov:wasAssociatedWith ex:ag1 ; prov:qualifiedAssociation [ a prov:Association ; prov:agent ex:ag1 ; prov:hadPlan ex:plan ; prov:hadRole "r" ] .
   ex:a2 prov:wasAssociatedWith ex:ag2 .
   ex:ag1 prov:actedOnBehalfOf ex:ag2 ; prov:qualifiedDelegation ex:del1 . ex:del1 a prov:Delegation ; prov:agent ex:ag2 ; prov:hadActivity ex:a1 ; ex:k "v" .""",
 "multi": """@prefix prov: <http://www.w3.org/ns/prov#> . @prefix ex: <http://example.org/> . @prefix xsd: <http://www.w3.org/2001/XMLSchema#> .
   ex:a1 a prov:Activity ; prov:startedAtTime "2011-01-01T00:00:00"^^xsd:dateTime, "2012-01-01T00:00:00"^^xsd:dateTime ; prov:endedAtTime "2013-01-01T00:00:00"^^xsd:dateTime, "2014-01-01T00:00:00"^^xsd:dateTime ; ex:x 1, 2 .""",
 "derivs": """@prefix prov: <http://www.w3.org/ns/prov#> . @prefix ex: <http://example.org/> .
   ex:e2 prov:wasDerivedFrom ex:e1 ; prov:qualifiedRevision [ a prov:Revision ; prov:entity ex:e1 ; prov:hadActivity ex:a ; prov:hadGeneration ex:g ; prov:hadUsage ex:u ] ;
     prov:qualifiedQuotation ex:q1 . ex:q1 a prov:Quotation, prov:Derivation ; prov:entity ex:e0 .
   ex:e2 prov:qualifiedPrimarySource [ a prov:PrimarySource ; prov:entity ex:e9 ] .""",
 "startend": """@prefix prov: <http://www.w3.org/ns/prov#> . @prefix ex: <http://example.org/> . @prefix xsd: <http://www.w3.org/2001/XMLSchema#> .
   ex:a prov:wasStartedBy ex:t ; prov:qualifiedStart [ a prov:Start ; prov:entity ex:t ; prov:hadActivity ex:st ; prov:atTime "2011-01-01T00:00:00"^^xsd:dateTime ; prov:atLocation ex:loc ] ;
        prov:wasEndedBy ex:t2 ; prov:qualifiedEnd ex:end1 . ex:end1 a prov:End ; prov:entity ex:t2 ; prov:hadActivity ex:en ; prov:hadRole "x" .
   ex:a2 prov:wasInformedBy ex:a ; prov:qualifiedCommunication [ a prov:Communication ; prov:activity ex:a ; ex:k 1 ] .
   ex:e prov:wasGeneratedBy ex:a ; prov:wasInvalidatedBy ex:a ; prov:wasInfluencedBy ex:a ; prov:wasAttributedTo ex:ag . ex:a prov:used ex:e .""",
 "othertypes": """@prefix prov: <http://www.w3.org/ns/prov#> . @prefix ex: <http://example.org/> . @prefix un: <http://unknown.example/ns#> .
   ex:e a prov:Entity, prov:Plan, ex:Custom, prov:Collection ; a prov:Agent . un:thing a prov:Entity ; un:p un:o . ex:x a ex:OnlyCustom .
   [] a prov:Entity ; ex:anon "yes" .""",
 "label-loc": """@prefix prov: <http://www.w3.org/ns/prov#> . @prefix ex: <http://example.org/> . @prefix rdfs: <http://www.w3.org/2000/01/rdf-schema#> .
   ex:e a prov:Entity ; rdfs:label "l1", "l2"@fr ; prov:atLocation ex:here, "there" ; prov:value 5 ; ex:k "" .""",
 "orphan-attrs": """@prefix prov: <http://www.w3.org/ns/prov#> . @prefix ex: <http://example.org/> .
   ex:e a prov:Entity . ex:ghost a ex:Custom .""",
}
TRIG = {
 "bundles": """@prefix prov: <http://www.w3.org/ns/prov#> . @prefix ex: <http://example.org/> .
   ex:top a prov:Entity . ex:b1 a prov:Bundle .
   ex:b1 { ex:e a prov:Entity ; ex:in "b1" . ex:e prov:wasGeneratedBy ex:a . }
   ex:b2 { ex:e a prov:Entity ; ex:in "b2" . }""",
 "same-bundle-twice": """@prefix prov: <http://www.w3.org/ns/prov#> . @prefix ex: <http://example.org/> .
   ex:b1 { ex:e a prov:Entity . } ex:b1 { ex:f a prov:Agent . }""",
}


def decode(text, fmt):
    g = ConjunctiveGraph()
    g.parse(data=text, format=fmt)
    doc = ProvDocument()
    ser = ProvRDFSerializer(doc)
    ser.decode_document(g, doc)
    return doc


def decode_single(text):
    # decode_container called directly on a plain Graph, bundle == document
    g = Graph()
    g.parse(data=text, format="turtle")
    doc = ProvDocument()
    ser = ProvRDFSerializer(doc)
    ser.decode_container(g, doc)
    return doc

print("== hand written graphs")
for name, text in sorted(TTL.items()):
    kind, res = outcome(decode, text, "turtle")
    print(name, kind, provn_sorted(res) if kind == "ok" else res[:200])
    kind, res = outcome(decode_single, text)
    print(name, "single", kind, dig(provn_sorted(res)) if kind == "ok" else res[:200])
for name, text in sorted(TRIG.items()):
    kind, res = outcome(decode, text, "trig")
    print(name, kind, provn_sorted(res) if kind == "ok" else res[:200])

print("== custom mapper tables")
import prov.serializers.provrdf as R
rm = dict(R.relation_mapper); rm.pop(R.URIRef(PROV["used"].uri))
pmap = {}
g = ConjunctiveGraph(); g.parse(data=TTL["startend"], format="turtle")
doc = ProvDocument(); ser = ProvRDFSerializer(doc)
print(outcome(lambda: (ser.decode_document(g, doc, relation_mapper=rm, predicate_mapper=pmap), provn_sorted(doc))[1]))

print("== round trips")
for name, fn in all_docs():
    doc = fn()
    for fmt in ("trig", "xml"):
        text = doc.serialize(format="rdf", rdf_format=fmt)
        kind, res = outcome(ProvDocument.deserialize, content=text, format="rdf", rdf_format=fmt)
        print(name, fmt, kind, (res == doc, dig(provn_sorted(res))) if kind == "ok" else res[:150])
print("== test files")
for f in rdf_files():
    ser = ProvRDFSerializer()
    with open(f, "rb") as fh:
        kind, res = outcome(ser.deserialize, fh, rdf_format="turtle")
    print(os.path.basename(f), kind, dig(provn_sorted(res)) if kind == "ok" else res[:120])
