import os, sys
if os.environ.get("PYTHONHASHSEED") != "0":
    os.environ["PYTHONHASHSEED"] = "0"
    os.execv(sys.executable, [sys.executable] + sys.argv)
import hashlib, copy, pickle
from prov.identifier import Identifier, QualifiedName, Namespace
from prov.model import ProvDocument, NamespaceManager

lines = []
ids = {}
def oid(o):
    return ids.setdefault(id(o), len(ids))
keep = []
def show(r):
    keep.append(r)
    if isinstance(r, QualifiedName):
        return "QN#%d(%s|%s|ns#%d %r %r|%r)" % (oid(r), r.uri, r, oid(r.namespace), r.namespace.prefix, r.namespace.uri, r.localpart)
    if isinstance(r, Namespace):
        return "NS#%d(%r,%r)" % (oid(r), r.prefix, r.uri)
    return repr(r)
def rec(label, fn):
    try:
        r = fn()
        lines.append("%s -> %s" % (label, show(r)))
        return r
    except Exception as e:
        lines.append("%s !! %s: %s" % (label, type(e).__name__, e))
def dump(label, m):
    lines.append("  [%s] dict=%s default=%s" % (label, [(k, show(v)) for k, v in m.items()], show(m._default)))
    lines.append("  [%s] regs=%s uri=%s ren=%s pren=%s" % (label, [(k, show(v)) for k, v in m._namespaces.items()],
        [(k, show(v)) for k, v in m._uri_map.items()], [(show(k), show(v)) for k, v in m._rename_map.items()],
        [(k, show(v)) for k, v in m._prefix_renamed_map.items()]))

class MyStr(str):
    pass

# ---- Namespace.__getitem__
ns = Namespace("ex", "http://example.org/")
for key in ("a", "a", "", "", "é ü", "é ü", "a:b", MyStr("a"), MyStr("new"), "new", "0", "None"):
    rec("getitem %r" % (key,), lambda: ns[key])
lines.append("cache keys %r types %r" % (list(ns._cache), [type(k).__name__ for k in ns._cache]))
lines.append("cache vals %r" % [show(v) for v in ns._cache.values()])
for key in (None, 0, 5, 1.5, ("a",), ["a"], {}, b"a", ns, Identifier("x")):
    rec("getitem odd %r" % (type(key).__name__,), lambda: ns[key])
lines.append("cache keys after errors %r" % (list(ns._cache),))
dflt = Namespace("", "http://d/"); nonep = Namespace(None, "http://n/")
rec("default ns", lambda: dflt["x"]); rec("default ns again", lambda: dflt["x"]); rec("None-prefix ns", lambda: nonep["x"])
ns2 = copy.deepcopy(ns); lines.append("deepcopy cache %r same-val %r" % (list(ns2._cache), ns2["a"] is ns["a"]))
ns3 = pickle.loads(pickle.dumps(ns)); lines.append("pickle cache %r %s" % (list(ns3._cache), show(ns3["a"])))
lines.append("eq/hash %r %r" % (ns["a"] == ns3["a"], hash(ns["a"]) == hash(ns3["a"])))

# ---- valid_qualified_name, QualifiedName branch
m = NamespaceManager()
ex = Namespace("ex", "http://example.org/")
q = ex["a"]
r = rec("unknown prefix -> copy registered", lambda: m.valid_qualified_name(q)); lines.append("same obj %r same ns %r" % (r is q, r.namespace is ex))
r_again = rec("again (equal, not identical ns)", lambda: m.valid_qualified_name(q)); lines.append("cached %r" % (r_again is r))
own = m["ex"]["a"]
r = rec("identical ns -> returned as is", lambda: m.valid_qualified_name(own)); lines.append("same obj %r" % (r is own))
fresh = QualifiedName(m["ex"], "zzz")
r = rec("identical ns, uncached qname", lambda: m.valid_qualified_name(fresh)); lines.append("same obj %r cached %r" % (r is fresh, "zzz" in m["ex"]._cache))
rec("same prefix other uri -> renamed", lambda: m.valid_qualified_name(Namespace("ex", "http://other.org/")["a"]))
rec("same prefix other uri again", lambda: m.valid_qualified_name(Namespace("ex", "http://other.org/")["b"]))
rec("other prefix same uri", lambda: m.valid_qualified_name(Namespace("ex9", "http://example.org/")["a"]))
rec("prov qname", lambda: m.valid_qualified_name(Namespace("prov", "http://www.w3.org/ns/prov#")["Entity"]))
rec("fake prov", lambda: m.valid_qualified_name(Namespace("prov", "http://fake/")["Entity"]))
rec("non-ascii", lambda: m.valid_qualified_name(Namespace("é", "http://exämple.org/ü/")["naïve"]))
rec("empty localpart", lambda: m.valid_qualified_name(ex[""]))
dump("m1", m)
# mutate after the first call: the prefix now points elsewhere / to None / is removed
m["ex"] = Namespace("ex", "http://replaced/")
rec("after replacing m['ex']", lambda: m.valid_qualified_name(q))
rec("after replacing m['ex'] (new)", lambda: m.valid_qualified_name(Namespace("ex", "http://replaced/")["k"]))
m["nul"] = None
rec("prefix maps to None", lambda: m.valid_qualified_name(Namespace("nul", "http://nul/")["k"]))
del m["ex_1"]
rec("after deleting ex_1", lambda: m.valid_qualified_name(Namespace("ex_1", "http://other.org/")["k"]))
dump("m1b", m)

# default-namespace qnames
m = NamespaceManager()
rec("dflt none set", lambda: m.valid_qualified_name(Namespace("", "http://d1/")["x"]))
rec("dflt same", lambda: m.valid_qualified_name(Namespace("", "http://d1/")["y"]))
rec("dflt other", lambda: m.valid_qualified_name(Namespace("", "http://d2/")["x"]))
rec("None prefix", lambda: m.valid_qualified_name(Namespace(None, "http://d3/")["x"]))
dump("m2", m)

# ---- valid_qualified_name, string / Identifier branch
parent = NamespaceManager({"pp": "http://parent/"}, default="http://parent-default/")
m = NamespaceManager({"ex": "http://example.org/", "long": "http://example.org/long/", "u": "urn:x:"}, parent=parent)
m.add_namespace(Namespace("ren", "http://example.org/"))
for v in ("ex:a", "ex:", "ex:a:b", "ren:a", "long:q", "pp:x", "nope:x", "http://example.org/long/z", "http://example.org/z",
          "http://example.org/", "http://www.w3.org/ns/prov#Entity", "http://nowhere/x", "urn:x:y", "urn:x:", "urn:other",
          "_:b1", "plain", "é", "ex:é ü", "", ":", ":x", "xsd:string", MyStr("ex:sub"),
          Identifier("http://example.org/long/id"), Identifier("ex:a"), Identifier("plain"), Identifier("_:b"), Identifier(""),
          None, 0, 5, 3.5, ("ex", "a"), ["ex:a"], b"ex:a"):
    rec("vqn %r" % (v,), lambda: m.valid_qualified_name(v))
m.set_default_namespace("http://dd/")
for v in ("plain", "é", "http://nowhere/x", "nope:x", Identifier("plain")):
    rec("vqn(default) %r" % (v,), lambda: m.valid_qualified_name(v))
# longest/first match order after adding a more specific namespace later
m.add_namespace(Namespace("deep", "http://example.org/long/deeper/"))
rec("first match wins", lambda: m.valid_qualified_name("http://example.org/long/deeper/x"))
m["bad"] = None
rec("None value in scan", lambda: m.valid_qualified_name("http://unmatched/x"))
del m["bad"]
dump("m3", m); dump("parent", parent)

# ---- whole-library smoke
doc = ProvDocument(); doc.add_namespace("ex", "http://example.org/"); doc.set_default_namespace("http://default/")
doc.entity("ex:e", {"ex:k": ex["v"], "prov:type": Namespace("ex", "http://example.org/")["T"], "ex:é": "ü"})
doc.entity("local"); doc.activity("http://example.org/act"); doc.wasGeneratedBy("ex:e", "http://example.org/act")
b = doc.bundle("ex:b"); b.entity("ex:e"); b.entity(Namespace("ex", "http://clash/")["e"])
for fmt in ("json", "provn", "xml"):
    rec("ser " + fmt, lambda: doc.serialize(format=fmt))
rec("roundtrip eq", lambda: ProvDocument.deserialize(content=doc.serialize(format="json"), format="json") == doc)

text = "\n".join(lines)
print(text)
print("DIGEST", hashlib.sha256(text.encode("utf-8")).hexdigest())
