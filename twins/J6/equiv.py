"""Differential script for refactoring 6: private-field rename (identifier map) used by
_add_record/get_record/_unified_records, get_records, ProvDocument.flattened/unified/add_bundle/bundle."""
import os, sys
if os.environ.get("PYTHONHASHSEED") != "0":
    os.environ["PYTHONHASHSEED"] = "0"
    os.execv(sys.executable, [sys.executable] + sys.argv)

import datetime, hashlib, glob, collections, copy, pickle
import prov.model as pm
from prov.model import (ProvDocument, ProvBundle, ProvRecord, ProvEntity, ProvActivity, ProvElement,
                        ProvRelation, ProvGeneration, Literal, Identifier, ProvException, PROV_ENTITY)
from prov.identifier import Namespace
# Harness-only: make Identifier hashing reproducible between runs (it mixes in hash(cls)).
Identifier.__hash__ = lambda self: hash((self.uri, self.__class__.__name__))

out = []
def emit(*a):
    out.append(" ".join(str(x) for x in a))

EX = Namespace("ex", "http://example.org/")
t = datetime.datetime(2020, 1, 2, 3, 4, 5)

def idmap(b):
    """The bundle's private identifier -> records map, found without naming the attribute."""
    maps = [v for v in vars(b).values() if isinstance(v, collections.defaultdict)]
    assert len(maps) == 1
    return maps[0]

def ns_state(b):
    return (sorted((n.prefix, n.uri) for n in b.get_registered_namespaces()),
            getattr(b.get_default_namespace(), "uri", None))

def describe(tag, b):
    m = idmap(b)
    emit(tag, type(b).__name__, repr(b), b.identifier, "n=%d" % len(b.records),
         [(str(k), [b.records.index(r) if r in b.records else -1 for r in v]) for k, v in m.items()],
         type(m).__name__, m.default_factory.__name__, ns_state(b))
    for r in b.records:
        emit("   ", type(r).__name__, r.get_provn(), r.bundle is b)
    if b.is_document():
        for k, sub in b._bundles.items():
            describe("  sub[%s]" % k, sub)
            emit("  sub link", sub.document is b, sub._namespaces.parent is b._namespaces, sub.identifier == k)

def attempt(tag, fn):
    try:
        res = fn()
        emit(tag, "->", res)
        return res
    except Exception as ex:
        emit(tag, "EXC", type(ex).__name__, str(ex))

def sample(container, with_ns=True, suffix=""):
    if with_ns:
        container.add_namespace(EX)
    container.entity("ex:e1" + suffix, {"prov:label": "é \"q\"\n%s"})
    container.entity("ex:e1" + suffix, {"ex:k": 1})
    container.activity("ex:a1", t)
    container.generation("ex:e1" + suffix, "ex:a1", t, "ex:g")
    container.usage("ex:a1", "ex:e1" + suffix)
    return container

# ------------------------------------------------ _add_record / get_record / get_records
emit("##### records bookkeeping")
d = sample(ProvDocument())
b = sample(d.bundle("ex:b1"), False)
b.entity("ex:only_in_bundle"); d.entity("ex:only_in_doc")
describe("doc", d)
emit("attribute names", sorted(k for k in vars(d) if k not in ("_records_by_identifier", "_id_map")),
     sorted(k for k in vars(b) if k not in ("_records_by_identifier", "_id_map")), len(vars(d)), len(vars(b)))
for cname, c in (("doc", d), ("bundle", b)):
    for ident in (None, "ex:e1", EX["e1"], "ex:g", "ex:only_in_bundle", "ex:only_in_doc", "ex:missing", "nope:x", ""):
        n = len(idmap(c))
        res = attempt("%s.get_record(%r)" % (cname, ident),
                      lambda: (lambda x: None if x is None else [r.get_provn() for r in x])(c.get_record(ident)))
        emit("    map size", n, "->", len(idmap(c)))
    for flt in (None, (), ProvEntity, ProvElement, ProvRelation, (ProvActivity, ProvGeneration), ProvBundle, ProvRecord):
        res = c.get_records(flt)
        emit("%s.get_records(%s)" % (cname, getattr(flt, "__name__", flt)), type(res).__name__,
             [r.get_provn() for r in res], "fresh", res is not c._records)
    attempt("%s.get_records(bad filter)" % cname, lambda: list(c.get_records("ProvEntity")))
    lst = c.get_records(); lst.append("junk"); emit("copy semantics", len(c.get_records()), len(c.records))
# manual _add_record of a record created elsewhere
foreign = ProvBundle(); foreign.add_namespace(EX)
rec = foreign.entity("ex:foreign"); anon = foreign.usage("ex:a1", "ex:e1")
d._add_record(rec); d._add_record(rec); d._add_record(anon)
describe("after _add_record", d)
attempt("add_record result", lambda: d.add_record(rec).get_provn())

# ------------------------------------------------ bundle()
emit("##### ProvDocument.bundle")
d = ProvDocument(); d.add_namespace(EX); d.set_default_namespace("http://default.example/")
for ident in ("ex:b1", "ex:b1", EX["b1"], "ex:b2", "in_default_ns", None, "", "nope:b", 5, Identifier("http://example.org/b1"),
              Identifier("http://example.org/b9"), Namespace("other", "http://example.org/")["b2"], Namespace("new", "urn:new:")["b"]):
    n = len(d._bundles)
    nb = attempt("bundle(%r)" % (ident,), lambda: (lambda x: (repr(x), str(x.identifier), x.document is d, len(x.records)))(d.bundle(ident)))
    emit("    bundles", n, "->", len(d._bundles), [str(k) for k in d._bundles], ns_state(d))
describe("doc after bundle()", d)

# ------------------------------------------------ add_bundle()
emit("##### ProvDocument.add_bundle")
class Weird(object): pass
def target():
    x = ProvDocument(); x.add_namespace(EX); x.bundle("ex:existing").entity("ex:pre"); return x
def doc_with_sub():
    x = sample(ProvDocument()); x.bundle("ex:inner"); return x
scenarios = [
    ("free named bundle", lambda: sample(ProvBundle(identifier=EX["nb"])), {}),
    ("free named bundle, str id override", lambda: sample(ProvBundle(identifier=EX["nb"])), {"identifier": "ex:override"}),
    ("free unnamed bundle", lambda: sample(ProvBundle()), {}),
    ("free unnamed bundle + id", lambda: sample(ProvBundle()), {"identifier": "ex:given"}),
    ("free unnamed bundle + empty id", lambda: sample(ProvBundle()), {"identifier": ""}),
    ("existing id", lambda: sample(ProvBundle(identifier=EX["existing"])), {}),
    ("existing id via override", lambda: sample(ProvBundle(identifier=EX["nb"])), {"identifier": EX["existing"]}),
    ("existing id via other prefix", lambda: ProvBundle(identifier=Namespace("zz", "http://example.org/")["existing"]), {}),
    ("bundle with own ns", lambda: (lambda x: (x.add_namespace("own", "urn:own:"), x.entity("own:e"), x)[2])(ProvBundle(identifier=Namespace("own", "urn:own:")["bid"])), {}),
    ("document without bundles, no id", lambda: sample(ProvDocument()), {}),
    ("document without bundles + id", lambda: sample(ProvDocument()), {"identifier": "ex:from_doc"}),
    ("empty document + id", lambda: ProvDocument(), {"identifier": EX["from_empty_doc"]}),
    ("document with bundles", doc_with_sub, {"identifier": "ex:x"}),
    ("unresolvable str id", lambda: ProvBundle(), {"identifier": "nope:x"}),
    ("None", lambda: None, {}), ("str", lambda: "bundle", {"identifier": "ex:x"}), ("object", lambda: Weird(), {}),
    ("record", lambda: target().bundle("ex:q").entity("ex:r"), {}), ("class", lambda: ProvBundle, {}),
]
for tag, make, kw in scenarios:
    tgt = target(); other = make()
    before = None if not isinstance(other, ProvBundle) else (other.identifier, other.document, len(other.records))
    attempt("add_bundle: " + tag, lambda: tgt.add_bundle(other, **kw))
    describe("   target", tgt)
    if isinstance(other, ProvBundle):
        emit("   other after", before, "->", other.identifier, type(other.document).__name__, other.document is tgt,
             len(other.records), other._namespaces.parent is tgt._namespaces, any(v is other for v in tgt._bundles.values()))
# moving a bundle owned by another document; adding the same bundle twice
src = target(); owned = src.bundle("ex:moved"); owned.entity("ex:m")
tgt = target(); attempt("add owned bundle", lambda: tgt.add_bundle(owned)); emit("   owner", owned.document is tgt, "ex:moved" in [str(k) for k in src._bundles])
attempt("add same again", lambda: tgt.add_bundle(owned))
attempt("add same again under new id", lambda: tgt.add_bundle(owned, "ex:alias")); describe("   target", tgt)

# ------------------------------------------------ flattened() / unified()
emit("##### flattened / unified")
docs = collections.OrderedDict()
docs["empty"] = ProvDocument()
docs["no bundles"] = sample(ProvDocument())
x = sample(ProvDocument()); x.bundle("ex:e"); docs["one empty bundle"] = x
x = sample(ProvDocument()); sample(x.bundle("ex:b1"), False); sample(x.bundle("ex:b2"), False, "x"); x.set_default_namespace("urn:def:"); docs["two bundles"] = x
x = ProvDocument(); x.add_namespace(EX); sample(x.bundle("ex:b1"), False); docs["only bundle"] = x
x = ProvDocument(); sb = x.bundle(Namespace("own", "urn:own:")["b"]); sb.add_namespace("own2", "urn:own2:"); sb.entity("own2:e", {"own2:k": "v"}); sb.entity("own2:e"); docs["bundle-local ns"] = x
for name, doc in docs.items():
    f = doc.flattened()
    emit("---", name, "flattened is self", f is doc)
    describe("flattened", f)
    u = doc.unified()
    emit("unified is self", u is doc)
    describe("unified", u)
    attempt("flattened.unified", lambda: (lambda fu: (len(fu.records), hashlib.sha256(fu.get_provn().encode()).hexdigest()[:16]))(f.unified()))
    attempt("unified.flattened", lambda: (lambda uf: (len(uf.records), hashlib.sha256(uf.get_provn().encode()).hexdigest()[:16]))(u.flattened()))
    describe("source after", doc)

# copies / pickles still carry a working identifier map
d = docs["two bundles"]
for tag, clone in (("deepcopy", copy.deepcopy(d)), ("pickle", pickle.loads(pickle.dumps(d)))):
    emit(tag, clone == d, [r.get_provn() for r in clone.get_record("ex:e1")], len(idmap(clone)), clone.unified() == d.unified())

# fixtures
for path in sorted(glob.glob("src/prov/tests/json/*.json"))[:100] + sorted(glob.glob("src/prov/tests/unification/*.json")):
    try:
        doc = ProvDocument.deserialize(path)
        f = doc.flattened(); u = doc.unified()
        ids = sorted((str(k), len(v)) for k, v in idmap(doc).items())
        emit(os.path.basename(path), len(doc.records), len(f.records), len(u.records), f is doc, len(ids),
             hashlib.sha256((f.get_provn() + u.get_provn() + repr(ids)).encode("utf-8")).hexdigest()[:24])
    except Exception as ex:
        emit(os.path.basename(path), "exc", type(ex).__name__, ex)
import prov.tests.examples as examples
for name, fn in examples.tests:
    doc = fn(); f = doc.flattened(); u = doc.unified()
    emit(name, len(doc.records), len(f.records), len(u.records), [len(s.records) for s in u.bundles],
         hashlib.sha256((f.get_provn() + u.get_provn()).encode("utf-8")).hexdigest()[:24])

text = "\n".join(out)
print(text)
print("DIGEST", hashlib.sha256(text.encode("utf-8")).hexdigest())
