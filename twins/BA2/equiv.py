"""Differential script for change 2 (new helper ProvRecord.has_attribute).

Does not call the new helper: shows that the existing attribute accessors around
it (get_attribute, attributes, formal/extra_attributes, args, label, value,
get_asserted_types, add_attributes, copy, ==, hash, get_provn) are untouched.
"""
import os
import sys

if os.environ.get("PYTHONHASHSEED") != "0":
    os.environ["PYTHONHASHSEED"] = "0"
    os.execv(sys.executable, [sys.executable] + sys.argv)

import datetime
import hashlib

from prov.model import ProvDocument, ProvRecord, Literal, Namespace, PROV, PROV_TYPE
from prov.identifier import Identifier, QualifiedName

out = []


def emit(*parts):
    out.append(" | ".join(str(p) for p in parts))


def srt(values):
    return sorted(repr(v) for v in values)


def state(rec):
    return [(repr(k), srt(v)) for k, v in rec._attributes.items()]


def nsstate(b):
    nm = b._namespaces  # the NamespaceManager (a dict prefix -> Namespace)
    return (
        sorted((p, n.uri) for p, n in nm.items()),
        sorted((p, n.uri) for p, n in nm._prefix_renamed_map.items()),
        repr(nm.get_default_namespace().uri if nm.get_default_namespace() else None),
    )


def dump(tag, rec):
    emit(tag, "provn", rec.get_provn())
    emit(tag, "attributes", srt(rec.attributes))
    emit(tag, "formal", [(str(k), repr(v)) for k, v in rec.formal_attributes])
    emit(tag, "extra", srt(rec.extra_attributes))
    emit(tag, "args", [repr(a) for a in rec.args])
    emit(tag, "label", repr(rec.label), "value", srt(rec.value), "types", srt(rec.get_asserted_types()))
    emit(tag, "state", state(rec))
    emit(tag, "ns", nsstate(rec.bundle))
    cp = rec.copy()
    emit(tag, "copy", cp == rec, hash(cp) == hash(rec), cp.get_provn() == rec.get_provn())


d = ProvDocument()
d.set_default_namespace("http://default.example/")
d.add_namespace("ex", "http://example.org/")
other_ex = Namespace("ex", "http://other.example/")  # same prefix, other URI
foreign = Namespace("foreign", "http://foreign.example/")
other_default = Namespace("", "http://other-default.example/")

e = d.entity(
    "e",
    {
        "prov:label": "héllo ✓",
        "ex:k": "v",
        "plain": "in default namespace",
        other_ex["k"]: "renamed prefix",
        "ex:empty": "",
        "ex:ünï": "ü",
        "prov:value": 3,
    },
)
e.add_attributes([("ex:k", "v2"), ("ex:k", "v"), ("prov:type", PROV["Plan"]), ("ex:none", None)])
dump("e-0", e)

queries = [
    "ex:k",
    "ex:missing",
    "plain",
    "missing-plain",
    "prov:label",
    "prov:type",
    PROV_TYPE,
    "http://example.org/k",
    "http://other.example/k",
    Identifier("http://example.org/k"),
    other_ex["k"],
    other_ex["zz"],
    foreign["k"],
    other_default["plain"],
    Namespace("", "http://default.example/")["plain"],
    "ex:ünï",
    "ex:empty",
    "unknown:k",
    "_:blank",
    "",
    None,
    42,
]
for q in queries:
    try:
        r = srt(e.get_attribute(q))
    except Exception as exc:  # noqa
        r = "EXC %s %s" % (type(exc).__name__, exc)
    emit("get_attribute", repr(q), r)
    emit("   state", state(e))
    emit("   ns", nsstate(d))
dump("e-1", e)

# bundles: same identifiers, own namespaces, parent's prefixes
b = d.bundle("ex:b")
be = b.entity("e", {"ex:k": "in bundle", "q": 1})
a = b.activity("ex:a", "2020-01-01T00:00:00", None, {"ex:k": Literal("x", langtag="en")})
g = b.generation(be, a, datetime.datetime(2020, 1, 1), "ex:g", {"prov:role": "r"})
for tag, rec in (("be", be), ("a", a), ("g", g)):
    for q in ("ex:k", "q", "prov:role", "prov:time", "prov:startTime", "prov:endTime", "prov:entity", foreign["x"], ""):
        emit(tag, "get_attribute", repr(q), srt(rec.get_attribute(q)))
    dump(tag, rec)
emit("doc", d.get_provn())
emit("surface", sorted(n for n in vars(ProvRecord) if n != "has_attribute"))

text = "\n".join(out)
print(text)
print("DIGEST", hashlib.sha256(text.encode("utf-8")).hexdigest())
