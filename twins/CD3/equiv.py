"""Differential script for change 3 (f-strings in the PROV-N value encoders)."""
import os
import sys

if os.environ.get("PYTHONHASHSEED") != "0":
    os.environ["PYTHONHASHSEED"] = "0"
    os.execv(sys.executable, [sys.executable] + sys.argv)

import datetime
import decimal
import fractions
import hashlib

from prov.model import (
    ProvDocument,
    Literal,
    encoding_provn_value,
    _ensure_multiline_string_triple_quoted,
)
from prov.identifier import Namespace, Identifier
from prov.constants import PROV, XSD_INT, XSD_STRING, XSD_DOUBLE, XSD_ANYURI

OUT = []
EX = Namespace("ex", "http://example.org/")


def call(tag, fn, *args):
    try:
        r = fn(*args)
        OUT.append("%s -> %s %r" % (tag, type(r).__name__, r))
    except Exception as e:  # noqa
        OUT.append("%s -> EXC %s: %s" % (tag, type(e).__name__, e))


class StrSub(str):
    def __str__(self):
        return "strsub<" + str.__str__(self) + ">"

    def __format__(self, spec):
        return "FORMAT-HOOK"

    def __repr__(self):
        return "REPR-HOOK"


class FloatSub(float):
    def __repr__(self):
        return "floatsub-repr"

    def __str__(self):
        return "floatsub-str"

    def __format__(self, spec):
        return "floatsub-format"


class BadReprFloat(float):
    def __repr__(self):
        return 5


class DtSub(datetime.datetime):
    def isoformat(self, *a, **k):
        return StrSub("iso-from-sub")


class DtSubInt(datetime.datetime):
    def isoformat(self, *a, **k):
        return 12345


class Obj(object):
    def __str__(self):
        return 'obj "quoted" \\ back\nnewline'

    def __format__(self, spec):
        return "OBJ-FORMAT-HOOK"


class TupleLike(tuple):
    pass


STRINGS = [
    "",
    "plain",
    "ünïcode ☃ 日本語 \U0001F600",
    'with "double" quotes',
    "with 'single' quotes",
    "back\\slash",
    "trailing backslash\\",
    '\\"',
    "two\nlines",
    "\n",
    "crlf\r\nline",
    "carriage\ronly",
    "tab\there",
    'mix "q" \\ and\nnewline and """triple"""',
    "percent % %s %d %% {0} {} {s} {value!r}",
    "braces {{ }}",
    "nul\x00char",
    "  line separator",
    StrSub("sub"),
    StrSub('sub "q"\nnl'),
]
NON_STRINGS = [
    None,
    0,
    1,
    -5,
    10**30,
    True,
    False,
    1.5,
    -0.0,
    1e300,
    1e-7,
    0.1,
    float("nan"),
    float("inf"),
    float("-inf"),
    FloatSub(2.5),
    BadReprFloat(2.5),
    decimal.Decimal("1.10"),
    fractions.Fraction(1, 3),
    complex(1, 2),
    b"bytes",
    (1, 2),
    ("one",),
    (),
    TupleLike((1,)),
    [1, "a"],
    {"k": "v"},
    Obj(),
    EX["qn"],
    Identifier("http://id.example/x"),
    datetime.datetime(2020, 1, 2, 3, 4, 5),
    datetime.datetime(2020, 1, 2, 3, 4, 5, 123456),
    datetime.datetime(1, 1, 1),
    datetime.datetime(2020, 1, 2, 3, 4, 5, tzinfo=datetime.timezone.utc),
    datetime.datetime(
        2020, 1, 2, 3, 4, 5, tzinfo=datetime.timezone(datetime.timedelta(hours=-5, minutes=-30))
    ),
    DtSub(2020, 1, 1),
    DtSubInt(2020, 1, 1),
    datetime.date(2020, 1, 2),
    datetime.time(1, 2, 3),
]

for i, v in enumerate(STRINGS + NON_STRINGS):
    call("quote[%d]" % i, _ensure_multiline_string_triple_quoted, v)
    call("encode[%d]" % i, encoding_provn_value, v)

# Literal.provn_representation / __str__ / __repr__
DATATYPES = [
    None,
    XSD_INT,
    XSD_STRING,
    XSD_DOUBLE,
    XSD_ANYURI,
    PROV["InternationalizedString"],
    EX["custom"],
    Namespace("", "http://dflt/")["local"],
    "plain-string-datatype",
    StrSub("dt-sub"),
    Obj(),
    5,
    (1, 2),
    ("x",),
    "",
    0,
]
LANGTAGS = [None, "", "en", "fr-CA", "zh-Hant", StrSub("lt"), 5, 0, ("en",), ("a", "b")]
VALUES = ["", "v", 'q"uote', "nl\nnl", "ü☃", 5, 1.5, None, True, ("t",), StrSub("vs"), Obj()]
n = 0
for val in VALUES:
    for dt in DATATYPES:
        for lt in LANGTAGS:
            n += 1
            try:
                lit = Literal(val, dt, lt)
            except Exception as e:  # noqa
                OUT.append("lit[%d] ctor EXC %s: %s" % (n, type(e).__name__, e))
                continue
            call("lit[%d].provn" % n, lit.provn_representation)
            call("lit[%d].str" % n, str, lit)
            call("lit[%d].repr" % n, repr, lit)

# a literal whose private fields are set after construction to unusual objects
lit = Literal("x", XSD_INT)
for lt in [StrSub("lt"), 5, ("en",), Obj(), True]:
    lit._langtag = lt
    call("patched langtag %r" % type(lt).__name__, lit.provn_representation)
lit._langtag = None
for dt in [StrSub("dt"), ("a",), ("a", "b"), Obj(), {}]:
    lit._datatype = dt
    call("patched datatype %r" % type(dt).__name__, lit.provn_representation)
lit._value = Obj()
call("patched value", lit.provn_representation)

# a qualified name whose str() is a str-subclass instance (local part kept as given)
class PlainSub(str):
    pass


class StrOnlySub(str):
    def __str__(self):
        return "str-only<" + str.__str__(self) + ">"


for lp in [PlainSub("plain-sub"), StrOnlySub("str-only")]:
    qn = Namespace("", "http://dflt/")[lp]
    OUT.append("str(qn) type %s" % type(str(qn)).__name__)
    call("lit subclass-localpart datatype", Literal("v", qn).provn_representation)
    lit = Literal("v", XSD_INT)
    lit._langtag = lp
    call("lit subclass langtag", lit.provn_representation)

# through records and documents
d = ProvDocument()
d.add_namespace(EX)
d.set_default_namespace("http://dflt/")
e = d.entity("ex:e")
for i, v in enumerate(STRINGS):
    e.add_attributes([("ex:s%d" % i, v)])
e.add_attributes(
    [
        ("ex:f", 1.5),
        ("ex:f", float("nan")),
        ("ex:f", -0.0),
        ("ex:b", True),
        ("ex:b", False),
        ("ex:i", 7),
        ("ex:dt", datetime.datetime(2020, 1, 2, 3, 4, 5, 6)),
        ("ex:dta", datetime.datetime(2020, 1, 2, tzinfo=datetime.timezone.utc)),
        ("ex:lit", Literal("x\ny", EX["t"])),
        ("ex:lang", Literal('dit "bonjour"', langtag="fr")),
        ("ex:qn", EX["v"]),
        ("ex:uri", Identifier("http://u/")),
        ("ex:fs", FloatSub(3.5)),
        ("prov:label", Literal("étiquette", langtag="fr")),
        ("prov:value", "multi\nline"),
    ]
)
b = d.bundle("ex:bundle")
b.entity("ex:inb", {"ex:k": Literal("1", EX["odd"]), "ex:f": 2.0, "ex:t": True})
OUT.append(d.get_provn())
OUT.append(str(e))
OUT.append(repr(sorted(repr(v) for _, v in e.attributes if isinstance(v, Literal))))

text = "\n".join(OUT) + "\n"
sys.stdout.write(text)
sys.stdout.write("DIGEST %s\n" % hashlib.sha256(text.encode("utf-8", "surrogatepass")).hexdigest())
