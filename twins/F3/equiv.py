"""Differential check for refactoring 3 (elif chains -> early returns in
ProvRDFSerializer.encode_rdf_representation / decode_rdf_representation)."""
import os
import sys

# The RDF decoder iterates over rdflib's hash-ordered triple store, so results
# depend on str hashing; pin the hash seed to make the digest reproducible.
if os.environ.get("PYTHONHASHSEED") != "0":
    os.environ["PYTHONHASHSEED"] = "0"
    os.execv(sys.executable, [sys.executable] + sys.argv)

import datetime
import hashlib
import io
import logging
import warnings

warnings.simplefilter("ignore")
logging.disable(logging.CRITICAL)

# rdflib names blank nodes with uuid4(); make that deterministic for the digest
import itertools
import rdflib.term


class _FakeUUID:
    _counter = itertools.count(1)

    def __init__(self):
        self.hex = "%032x" % next(self._counter)


rdflib.term.uuid4 = _FakeUUID
from rdflib.term import URIRef, BNode
from rdflib.term import Literal as RDFLiteral
from rdflib.graph import ConjunctiveGraph
from rdflib.namespace import XSD, RDF
import prov.model as pm
from prov.model import ProvDocument
from prov.serializers.provrdf import ProvRDFSerializer
from docs_common import all_docs, EX


def show(v):
    extra = ""
    if isinstance(v, RDFLiteral):
        extra = " dt=%r lang=%r" % (v.datatype, v.language)
    elif isinstance(v, pm.Literal):
        extra = " dt=%r lang=%r val=%r" % (v.datatype, v.langtag, v.value)
    return "%s %r%s" % (type(v).__module__ + "." + type(v).__name__, v, extra)


doc = ProvDocument()
doc.add_namespace(EX)
ser = ProvRDFSerializer(doc)


class MyInt(int):
    pass


class MyStr(str):
    pass


enc_inputs = [
    URIRef("http://example.org/x"),
    pm.Literal("abc", pm.XSD_STRING),
    pm.Literal("abc", langtag="en"),
    pm.Literal("", pm.XSD_STRING),
    pm.Literal(0, pm.XSD_INT),
    pm.Literal("aGVsbG8=", pm.XSD["base64Binary"]),
    pm.Literal("ex:qn", pm.XSD_QNAME),
    datetime.datetime(2012, 1, 2, 3, 4, 5),
    datetime.datetime(2012, 1, 2, 3, 4, 5, 123, tzinfo=datetime.timezone.utc),
    EX["thing"],
    pm.Identifier("http://example.org/id"),
    1, 0, -5, 1.5, float("inf"), "", "text", 'q"uo\\te',
    True, False, None, MyInt(3), MyStr("s"), b"bytes", datetime.date(2020, 1, 1),
    BNode("b0"), RDFLiteral("already", lang="de"),
]
print("### encode")
for v in enc_inputs:
    try:
        print(repr(v), "=>", show(ser.encode_rdf_representation(v)))
    except Exception as e:  # noqa
        print(repr(v), "=> EXC", type(e).__name__, e)

g = ConjunctiveGraph()
g.bind("ex", "http://example.org/")
g.bind("other", "http://other.example/ns#")
dec_inputs = [
    RDFLiteral("plain"),
    RDFLiteral(""),
    RDFLiteral("hello", lang="fr"),
    RDFLiteral("5", datatype=XSD["int"]),
    RDFLiteral("notanint", datatype=XSD["int"]),
    RDFLiteral("1.5", datatype=XSD["double"]),
    RDFLiteral("true", datatype=XSD["boolean"]),
    RDFLiteral("<a>x</a>", datatype=RDF.XMLLiteral),
    RDFLiteral("aGVsbG8=", datatype=XSD["base64Binary"]),
    RDFLiteral("ex:qq", datatype=XSD["QName"]),
    RDFLiteral("2012-01-02T03:04:05", datatype=XSD["dateTime"]),
    RDFLiteral("2012-01-02T03:04:05.5+01:00", datatype=XSD["dateTime"]),
    RDFLiteral("garbage", datatype=XSD["dateTime"]),
    RDFLiteral("2012", datatype=XSD["gYear"]),
    RDFLiteral("2012-07", datatype=XSD["gYearMonth"]),
    RDFLiteral("http://example.org/u", datatype=XSD["anyURI"]),
    RDFLiteral("x", datatype=URIRef("http://other.example/ns#custom")),
    URIRef("http://example.org/known"),
    URIRef("http://other.example/ns#frag"),
    URIRef("http://brandnew.example/path/leaf"),
    URIRef("http://brandnew.example/path/leaf2"),
    URIRef("urn:x"),
    BNode("b1"), "plain python str", 42, None, 1.25, EX["qn"],
]
print("### decode")
for v in dec_inputs:
    try:
        print(repr(v), "=>", show(ser.decode_rdf_representation(v, g)))
    except Exception as e:  # noqa
        print(repr(v), "=> EXC", type(e).__name__, str(e)[:120])
print("namespaces after decode:", sorted((n.prefix, n.uri) for n in doc.namespaces))



def canon_value(v):
    if isinstance(v, pm.Literal):
        return "L(%r,%s,%s)" % (v.value, v.datatype, v.langtag)
    return "%s(%s)" % (type(v).__name__, v)


def canon(d):
    """Order-insensitive canonical text of a document (attribute order inside a
    record depends on set ordering, which is not stable between processes)."""
    lines = sorted("ns %s %s" % (n.prefix, n.uri) for n in d.namespaces)
    recs = []
    for r in d.get_records():
        attrs = sorted("%s=%s" % (a, canon_value(v)) for a, v in r.attributes)
        recs.append("%s %s %s" % (r.get_type(), r.identifier, attrs))
    lines.extend(sorted(recs))
    if d.is_document():
        for b in sorted(d.bundles, key=lambda b: str(b.identifier)):
            lines.append("bundle %s" % b.identifier)
            lines.append(canon(b))
    return "\n".join(lines)


print("### round trips")
for name, d in all_docs():
    for fmt in ("trig", "turtle", "xml", "nt"):
        try:
            buf = io.BytesIO()
            d.serialize(buf, format="rdf", rdf_format=fmt)
            data = buf.getvalue()
            # rdflib output order can vary for some formats; digest the sorted lines
            norm = "\n".join(sorted(data.decode("utf-8").splitlines()))
            d2 = ProvDocument.deserialize(content=data, format="rdf", rdf_format=fmt)
            provn = canon(d2)
            print(name, fmt, len(data), hashlib.sha256(norm.encode()).hexdigest()[:16],
                  hashlib.sha256(provn.encode()).hexdigest()[:16], d2 == d)
        except Exception as e:  # noqa
            print(name, fmt, "EXC", type(e).__name__, str(e)[:160])
