"""Differential script for change 3 (ProvRDFSerializer.serialize: `with` for the
intermediate buffer; docstrings of serialize / deserialize).

For every corpus document: serialize() to binary, text and "foreign" streams in
several RDF formats (what is written, in how many write() calls, of which
type), error paths (stream=None, closed stream, failing write, unknown format,
bad kwargs), deserialize() of the produced text, and the ProvDocument-level
entry points.
"""
import io
import itertools
import os
import sys
import tempfile
import warnings

warnings.simplefilter("ignore")

sys.path.insert(0, os.path.join(os.path.dirname(os.path.abspath(__file__)), ".."))
import corpus

corpus.reexec()

import rdflib
from rdflib.compare import to_isomorphic
from rdflib.term import BNode as RealBNode

import prov.model as pm
import prov.serializers.provrdf as provrdf

_counter = itertools.count(1)


class _Meta(type(RealBNode)):
    def __instancecheck__(cls, inst):
        return isinstance(inst, RealBNode)


class DetBNode(RealBNode, metaclass=_Meta):
    def __new__(cls, value=None):
        if value is None:
            value = "det%d" % next(_counter)
        return RealBNode.__new__(RealBNode, value)


provrdf.BNode = DetBNode


def reset():
    global _counter
    _counter = itertools.count(1)


class Recorder(object):
    """Neither io.TextIOBase nor BytesIO: records the write() calls."""

    def __init__(self, fail=False):
        self.calls = []
        self.fail = fail

    def write(self, data):
        self.calls.append(data)
        if self.fail:
            raise OSError("disk full")
        return len(data)


def norm(text, fmt):
    """N-Triples: sorted lines (blank node labels are predictable).  The other
    formats are written in an order that depends on random blank node labels
    inside rdflib, so they are parsed back and every named/default graph is
    reduced to its isomorphism-invariant digest; the text length is kept."""
    if isinstance(text, bytes):
        text = text.decode("utf-8")
    if fmt in ("nt", "nquads"):
        return "\n".join(sorted(text.splitlines()))
    g = rdflib.ConjunctiveGraph()
    g.parse(data=text, format=fmt)
    parts = []
    for ctx in g.contexts():
        cid = ctx.identifier.n3() if isinstance(ctx.identifier, rdflib.URIRef) else "<default>"
        parts.append("%s %d %s" % (cid, len(ctx), to_isomorphic(ctx).graph_digest()))
    parts.sort()
    ns = sorted("%s=%s" % (p, u) for p, u in g.namespaces())
    return "\n".join(["chars=%d" % len(text)] + parts + ns)


def attempt(label, fn):
    reset()
    try:
        return "%s %s" % (label, fn())
    except Exception as e:
        return "%s EXC %s %s" % (label, type(e).__name__, str(e)[:120])


def run(name, doc):
    res = []
    ser = provrdf.ProvRDFSerializer(doc)
    produced = {}

    for fmt in ("trig", "nt", "turtle", "xml"):

        def to_bytes(fmt=fmt):
            buf = io.BytesIO()
            r = ser.serialize(buf, rdf_format=fmt)
            produced[fmt] = buf.getvalue()
            return "ret=%r pos=%d closed=%s %s" % (
                r,
                buf.tell(),
                buf.closed,
                corpus.digest(norm(buf.getvalue(), fmt)),
            )

        def to_text(fmt=fmt):
            buf = io.StringIO()
            r = ser.serialize(buf, rdf_format=fmt)
            return "ret=%r closed=%s %s" % (r, buf.closed, corpus.digest(norm(buf.getvalue(), fmt)))

        res.append(attempt("bytes/%s" % fmt, to_bytes))
        res.append(attempt("text/%s" % fmt, to_text))

    def to_recorder():
        rec = Recorder()
        ser.serialize(rec, "nt")
        return "calls=%d types=%s %s" % (
            len(rec.calls),
            [type(c).__name__ for c in rec.calls],
            corpus.digest(norm(b"".join(rec.calls), "nt")),
        )

    res.append(attempt("recorder", to_recorder))

    def to_textfile():
        fd, path = tempfile.mkstemp()
        try:
            with os.fdopen(fd, "w", encoding="utf-8") as f:
                ser.serialize(f, rdf_format="nt")
            with open(path, "rb") as f:
                return corpus.digest(norm(f.read(), "nt"))
        finally:
            os.remove(path)

    res.append(attempt("textfile", to_textfile))

    def failing_write():
        rec = Recorder(fail=True)
        try:
            ser.serialize(rec, "nt")
        finally:
            res.append("    failing-write calls=%d" % len(rec.calls))

    res.append(attempt("failing", failing_write))
    res.append(attempt("none", lambda: ser.serialize()))
    res.append(attempt("none2", lambda: ser.serialize(None, "nt")))

    def closed():
        b = io.BytesIO()
        b.close()
        ser.serialize(b, "nt")

    res.append(attempt("closed", closed))
    res.append(attempt("badfmt", lambda: ser.serialize(io.BytesIO(), rdf_format="no-such-format")))
    res.append(attempt("badkw", lambda: ser.serialize(io.BytesIO(), rdf_format="nt", format="nt")))
    res.append(
        attempt(
            "kw-base",
            lambda: corpus.digest(
                (lambda b: (ser.serialize(b, rdf_format="turtle", base="http://base.example/"), b.getvalue())[1])(
                    io.BytesIO()
                )
            ),
        )
    )
    res.append(attempt("custom-map", lambda: ser.serialize(io.BytesIO(), "nt", {})))

    # ProvDocument-level entry points
    res.append(attempt("doc.serialize", lambda: corpus.digest(norm(doc.serialize(format="rdf", rdf_format="nt"), "nt"))))

    # deserialize what was produced
    for fmt in ("trig", "nt", "turtle", "xml"):
        data = produced.get(fmt)
        if data is None:
            continue

        def back(fmt=fmt, data=data):
            s2 = provrdf.ProvRDFSerializer()
            d2 = s2.deserialize(io.BytesIO(data), rdf_format=fmt)
            return "same-object=%s equal-to-source=%s %s" % (
                s2.document is d2,
                d2 == doc,
                corpus.digest(corpus.doc_state(d2, ordered=False)),
            )

        res.append(attempt("back/%s" % fmt, back))

        def back_text(fmt=fmt, data=data):
            d2 = pm.ProvDocument.deserialize(content=data.decode("utf-8"), format="rdf", rdf_format=fmt)
            return corpus.digest(corpus.doc_state(d2, ordered=False))

        res.append(attempt("back-text/%s" % fmt, back_text))

    res.append(attempt("garbage", lambda: provrdf.ProvRDFSerializer().deserialize(io.BytesIO(b"@@@ not rdf"), "turtle")))
    res.append(attempt("state", lambda: corpus.digest(corpus.doc_state(doc))))
    print(name)
    for r in res:
        print("   ", r)


def main():
    print(attempt("no-document", lambda: provrdf.ProvRDFSerializer().serialize(io.BytesIO())))
    for name, doc in corpus.all_documents():
        if doc is None:
            print(name, "BUILD-FAILED")
            continue
        if doc.is_bundle():
            continue
        run(name, doc)


main()
