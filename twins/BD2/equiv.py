"""Differential script for change 2 (new helper prov.serializers.available_formats).

Does not use the helper: checks that everything that existed before behaves the same.
"""
import os
import sys

if os.environ.get("PYTHONHASHSEED") != "0":
    os.environ["PYTHONHASHSEED"] = "0"
    os.execv(sys.executable, [sys.executable] + sys.argv)

import hashlib
import io

import prov
import prov.serializers as S
from prov.serializers import Registry, get, DoNotExist, Serializer

out = []


def attempt(label, fn):
    try:
        r = fn()
        out.append("%s -> %r" % (label, r))
    except BaseException as e:  # noqa
        out.append(
            "%s !! %s: %s | cause=%r ctx=%s"
            % (label, type(e).__name__, e, e.__cause__, type(e.__context__).__name__)
        )


out.append("__all__ = %r" % (S.__all__,))
ns = {}
exec("from prov.serializers import *", ns)
out.append("star = %r" % sorted(k for k in ns if k != "__builtins__"))

# lazy loading: nothing loaded before the first get() (prov.model imports serializers only)
from prov.model import ProvDocument  # noqa: E402

out.append("before first get: %r" % (Registry.serializers,))
attempt("get json", lambda: get("json").__name__)
out.append("after first get: %r" % ([(k, v.__name__) for k, v in Registry.serializers.items()],))
first_registry = Registry.serializers
for name in ["json", "rdf", "provn", "xml", "JSON", "", "yaml", None, 1, ("json",), ("a", "b"), "jsön"]:
    attempt("get(%r)" % (name,), lambda: get(name).__name__)
attempt("get([])", lambda: get([]))
out.append("registry object unchanged by get: %r" % (Registry.serializers is first_registry))

# explicit reload makes a new dict with the same content
Registry.load_serializers()
out.append("reload new object: %r equal: %r" % (Registry.serializers is not first_registry, Registry.serializers == first_registry))

# customised registry is honoured by get() and left alone
class Dummy(Serializer):
    pass


saved = Registry.serializers
Registry.serializers = {"dummy": Dummy, 7: Dummy}
attempt("custom get dummy", lambda: get("dummy").__name__)
attempt("custom get 7", lambda: get(7).__name__)
attempt("custom get json", lambda: get("json").__name__)
out.append("custom registry: %r" % ([(k, v.__name__) for k, v in Registry.serializers.items()],))
Registry.serializers = {}
attempt("empty registry get json", lambda: get("json").__name__)
out.append("empty registry stays empty: %r" % (Registry.serializers,))
Registry.serializers = None
attempt("None registry get xml (lazy load)", lambda: get("xml").__name__)
out.append("loaded again: %r" % (list(Registry.serializers),))
Registry.serializers = saved

# the library's users of the registry
d = ProvDocument()
d.set_default_namespace("http://example.org/d/")
d.add_namespace("ex", "http://example.org/")
d.entity("ex:é", {"ex:k": "värde"})
d.entity("ex:é")
b = d.bundle("ex:b")
b.entity("local")
for fmt in ["json", "xml", "provn", "rdf"]:
    attempt("serialize " + fmt, lambda: hashlib.sha256(d.serialize(format=fmt).encode("utf-8")).hexdigest()[:16])
attempt("serialize unknown", lambda: d.serialize(format="nope"))
for fmt in ["json", "xml"]:
    text = d.serialize(format=fmt)
    attempt("read auto " + fmt, lambda: prov.read(io.StringIO(text)) == d)
    attempt("read explicit " + fmt, lambda: prov.read(io.StringIO(text), format=fmt.upper()) == d)
attempt("read garbage", lambda: prov.read(io.StringIO("garbage")))
attempt("deserialize provn", lambda: ProvDocument.deserialize(content="document\nendDocument", format="provn"))
out.append("Serializer abstract: %r %r" % (Serializer(d).serialize(io.StringIO()), Serializer().deserialize(io.StringIO())))
out.append("DoNotExist mro: %r" % ([c.__name__ for c in DoNotExist.__mro__],))

print("\n".join(out))
print("DIGEST", hashlib.sha256("\n".join(out).encode("utf-8")).hexdigest())
