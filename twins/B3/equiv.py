"""Differential script: exercises PROV-XML (de)serialization helpers and
prov.model.sorted_attributes and prints a deterministic digest.

FOCUS selects which sections are emphasised; all sections are cheap so all
of them are always run.
"""
import datetime
import glob
import hashlib
import io
import os
import sys
import warnings

# Attribute values are kept in sets inside the model, so make hashing (and thus
# set iteration order) reproducible between runs.
if os.environ.get("PYTHONHASHSEED") != "0":
    os.environ["PYTHONHASHSEED"] = "0"
    os.execv(sys.executable, [sys.executable] + sys.argv)

from lxml import etree

import prov
import prov.model as pm
from prov.constants import *  # NOQA
from prov.identifier import Identifier, Namespace, QualifiedName
from prov.serializers import provxml
from prov.tests import examples

FOCUS = "xml_qname_to_QualifiedName (if/elif chain -> early returns, guard clause)"

LINES = []


def emit(tag, text):
    if not isinstance(text, str):
        text = repr(text)
    h = hashlib.sha256(text.encode("utf-8")).hexdigest()[:16]
    first = text.replace("\n", "\\n")
    if len(first) > 300:
        first = first[:300] + "..."
    LINES.append("%s | %s | %s" % (tag, h, first))


def guarded(tag, fn):
    """Run fn, record result or exception, and all warnings raised."""
    with warnings.catch_warnings(record=True) as w:
        warnings.simplefilter("always")
        try:
            res = fn()
            emit(tag, res)
        except Exception as e:  # noqa
            emit(tag + " EXC", "%s: %s" % (type(e).__name__, e))
    for i, x in enumerate(w):
        emit(tag + " WARN%d" % i, "%s: %s" % (x.category.__name__, x.message))


def show_value(v):
    if isinstance(v, pm.Literal):
        return "Literal(%r, %r, %r)" % (v.value, str(v.datatype), v.langtag)
    if isinstance(v, QualifiedName):
        return "QName(%s|%s|%s|%s)" % (
            v.namespace.prefix,
            v.namespace.uri,
            v.localpart,
            v.uri,
        )
    if isinstance(v, Identifier):
        return "Id(%s)" % v.uri
    return "%s(%r)" % (type(v).__name__, v)


def show_attrs(attrs):
    return "[" + ", ".join("(%s, %s)" % (show_value(k), show_value(v)) for k, v in attrs) + "]"


def show_doc(doc):
    out = []

    def one(b, indent):
        out.append("%sBUNDLE id=%s" % (indent, show_value(b.identifier) if b.identifier else None))
        out.append(
            "%s NS %s default=%s"
            % (
                indent,
                sorted((n.prefix, n.uri) for n in b.namespaces),
                b._namespaces._default.uri if b._namespaces._default else None,
            )
        )
        for r in b._records:
            out.append(
                "%s REC %s id=%s attrs=%s"
                % (
                    indent,
                    r.get_type(),
                    show_value(r.identifier) if r.identifier else None,
                    show_attrs(sorted(r.attributes, key=lambda kv: (str(kv[0]), show_value(kv[1])))),
                )
            )

    one(doc, "")
    for b in doc.bundles:
        one(b, "  ")
    return "\n".join(out)


def to_xml(doc, **kw):
    buf = io.BytesIO()
    provxml.ProvXMLSerializer(doc).serialize(buf, **kw)
    return buf.getvalue().decode("utf-8")


def from_xml(text):
    return provxml.ProvXMLSerializer().deserialize(io.BytesIO(text.encode("utf-8")))


HDR = (
    '<prov:document xmlns:prov="http://www.w3.org/ns/prov#" '
    'xmlns:xsd="http://www.w3.org/2001/XMLSchema" '
    'xmlns:xsi="http://www.w3.org/2001/XMLSchema-instance" '
    'xmlns:ex="http://example.org/" %s>'
)
FTR = "</prov:document>"

XML_CASES = {
    "empty": HDR % "" + FTR,
    "plain": HDR % ""
    + '<prov:entity prov:id="ex:e1"><prov:label>hi</prov:label>'
    '<ex:foo xsi:type="xsd:int">5</ex:foo><ex:empty/>'
    '<ex:emptytyped xsi:type="xsd:string"></ex:emptytyped></prov:entity>'
    + FTR,
    "lang_ref_qname": HDR % ""
    + '<prov:entity prov:id="ex:e1"><prov:label xml:lang="fr">bonjour</prov:label>'
    '<prov:type xsi:type="xsd:QName">ex:Thing</prov:type>'
    '<prov:type xsi:type="xsd:QName">prov:Plan</prov:type>'
    '<ex:both xsi:type="xsd:string" xml:lang="en">x</ex:both>'
    '<ex:both2 xml:lang="en" xsi:type="xsd:string">x</ex:both2>'
    "</prov:entity>"
    '<prov:activity prov:id="ex:a1"><prov:startTime>2012-03-31T09:21:00</prov:startTime></prov:activity>'
    '<prov:used><prov:activity prov:ref="ex:a1"/><prov:entity prov:ref="ex:e1"/>'
    "<prov:time>2012-03-31T09:21:00.000+01:00</prov:time></prov:used>" + FTR,
    "unknown_attr": HDR % ""
    + '<prov:entity prov:id="ex:e1"><ex:foo ex:weird="1" other="2">téxt &amp; &lt;</ex:foo>'
    '<prov:label weird="&quot;q&quot;" xml:lang="de">l</prov:label></prov:entity>'
    + FTR,
    "default_ns": HDR % 'xmlns="http://default.example/"'
    + '<prov:entity prov:id="e1"><attr>v</attr><prov:type xsi:type="xsd:QName">T</prov:type>'
    '<ex:q xsi:type="xsd:QName">unknownpfx:zzz</ex:q>'
    '<ex:r xsi:type="unknownpfx:zzz">val</ex:r></prov:entity>'
    '<prov:entity prov:id="e1"><attr>v2</attr></prov:entity>' + FTR,
    "no_default_unprefixed_id": HDR % ""
    + '<prov:entity prov:id="e1"/>' + FTR,
    "no_default_unknown_prefix": HDR % ""
    + '<prov:entity prov:id="zz:e1"/>' + FTR,
    "no_default_unknown_type": HDR % ""
    + '<prov:entity prov:id="ex:e1"><ex:a xsi:type="zz:t">1</ex:a></prov:entity>' + FTR,
    "colons": HDR % ""
    + '<prov:entity prov:id="ex:a:b:c"><ex:a prov:ref="ex::x"/><ex:b prov:ref="ex:"/></prov:entity>'
    + FTR,
    "non_prov": HDR % "" + '<prov:entity prov:id="ex:e0"/><ex:entity prov:id="ex:e1"/>' + FTR,
    "other": HDR % ""
    + '<prov:other><ex:foo>bar</ex:foo></prov:other><prov:entity prov:id="ex:e1"/>'
    + FTR,
    "unknown_record": HDR % "" + '<prov:nonsense prov:id="ex:e1"/>' + FTR,
    "subtypes": HDR % ""
    + '<prov:person prov:id="ex:p"/><prov:softwareAgent prov:id="ex:s"/>'
    '<prov:organization prov:id="ex:o"><prov:type xsi:type="xsd:QName">ex:Org</prov:type></prov:organization>'
    '<prov:plan prov:id="ex:pl"/><prov:collection prov:id="ex:c"/><prov:emptyCollection prov:id="ex:ec"/>'
    '<prov:bundle prov:id="ex:bb"/>'
    '<prov:wasRevisionOf><prov:generatedEntity prov:ref="ex:c"/><prov:usedEntity prov:ref="ex:pl"/></prov:wasRevisionOf>'
    '<prov:wasQuotedFrom prov:id="ex:q"><prov:generatedEntity prov:ref="ex:c"/><prov:usedEntity prov:ref="ex:pl"/></prov:wasQuotedFrom>'
    '<prov:hadPrimarySource><prov:generatedEntity prov:ref="ex:c"/><prov:usedEntity prov:ref="ex:pl"/></prov:hadPrimarySource>'
    '<prov:entity prov:id="ex:typed" xsi:type="ex:Special"><prov:label>x</prov:label></prov:entity>'
    '<prov:hadMember><prov:collection prov:ref="ex:c"/><prov:entity prov:ref="ex:pl"/></prov:hadMember>'
    + FTR,
    "bundles": HDR % ""
    + '<prov:entity prov:id="ex:e1"/>'
    '<prov:bundleContent prov:id="ex:b1" xmlns:in="http://inner.example/">'
    '<prov:entity prov:id="in:e1"><in:x xsi:type="xsd:QName">in:y</in:x></prov:entity>'
    '<prov:entity prov:id="ex:e1"/><prov:entity prov:id="ex:e1"><prov:value xsi:type="xsd:double">1.5</prov:value></prov:entity>'
    "</prov:bundleContent>"
    '<prov:bundleContent prov:id="ex:b2"/>'
    "<!-- comment -->"
    + FTR,
    "bundles_dup": HDR % ""
    + '<prov:bundleContent prov:id="ex:b1"><prov:entity prov:id="ex:one"/></prov:bundleContent>'
    '<prov:bundleContent prov:id="ex:b1"><prov:entity prov:id="ex:dup"/></prov:bundleContent>'
    + FTR,
    "bundle_no_id": HDR % "" + "<prov:bundleContent><prov:entity prov:id=\"ex:x\"/></prov:bundleContent>" + FTR,
    "xsd_prov_by_other_prefix": '<p:document xmlns:p="http://www.w3.org/ns/prov#" '
    'xmlns:xs="http://www.w3.org/2001/XMLSchema" '
    'xmlns:xsi="http://www.w3.org/2001/XMLSchema-instance" xmlns:ex="http://example.org/">'
    '<p:entity p:id="ex:e1"><p:type xsi:type="xs:QName">p:Plan</p:type>'
    '<ex:n xsi:type="xs:int">4</ex:n><ex:u xsi:type="xs:anyURI">http://x/</ex:u>'
    '<ex:b xsi:type="xs:boolean">true</ex:b><ex:d xsi:type="xs:dateTime">2012-03-31T09:21:00</ex:d>'
    "</p:entity></p:document>",
    "whitespace_text": HDR % ""
    + '<prov:entity prov:id="ex:e1"><ex:a>  spaced\n text </ex:a><ex:b xsi:type="xsd:QName">ex:q</ex:b>'
    "<ex:nested><ex:inner>z</ex:inner></ex:nested></prov:entity>" + FTR,
}


def section_deserialize():
    for name in sorted(XML_CASES):
        text = XML_CASES[name]
        guarded("deser:" + name, lambda: show_doc(from_xml(text)))
        # and back to XML again
        guarded("deser-reser:" + name, lambda: to_xml(from_xml(text)))
        guarded("deser-reser-forced:" + name, lambda: to_xml(from_xml(text), force_types=True))
    # text stream input
    guarded(
        "deser:textio",
        lambda: show_doc(
            provxml.ProvXMLSerializer().deserialize(io.StringIO(XML_CASES["bundles"]))
        ),
    )


def section_subtree_direct():
    ser = provxml.ProvXMLSerializer()
    for name in sorted(XML_CASES):
        root = etree.fromstring(XML_CASES[name].encode("utf-8"))

        def f():
            doc = pm.ProvDocument()
            doc.add_namespace("pre", "http://pre.example/")
            doc.entity("pre:existing", {"pre:k": "v"})
            ret = ser.deserialize_subtree(root, doc)
            return "returns_same=%s\n%s" % (ret is doc, show_doc(doc))

        guarded("subtree:%s" % name, f)

        def g():
            doc = pm.ProvDocument()
            b = doc.bundle(QualifiedName(Namespace("pre", "http://pre.example/"), "target"))
            ret = ser.deserialize_subtree(root, b)
            return "returns_same=%s nrec=%d\n%s" % (ret is b, len(b._records), show_doc(doc))

        guarded("subtree-into-bundle:%s" % name, g)


def section_extract_attributes():
    for name in sorted(XML_CASES):
        root = etree.fromstring(XML_CASES[name].encode("utf-8"))
        for i, el in enumerate(root.iter()):
            if not isinstance(el.tag, str):
                continue
            guarded(
                "extract:%s:%d" % (name, i),
                lambda: show_attrs(provxml._extract_attributes(el)),
            )


def section_qname():
    root = etree.fromstring(
        b'<a xmlns="http://d.example/" xmlns:ex="http://example.org/" '
        b'xmlns:p="http://www.w3.org/ns/prov#" xmlns:xs="http://www.w3.org/2001/XMLSchema" '
        b'xmlns:xsh="http://www.w3.org/2001/XMLSchema#"><b xmlns:in="http://in/"/></a>'
    )
    nodefault = etree.fromstring(
        b'<ex:a xmlns:ex="http://example.org/" xmlns:p="http://www.w3.org/ns/prov#"/>'
    )
    strs = [
        "ex:foo", "ex:", "ex:a:b", ":x", "x:", "", "foo", "zz:foo", "p:Entity",
        "xs:int", "xsh:int", "in:q", "ex:sp ace", "ex:ü", "p:", "xs:", "::", "ex::",
    ]
    rebound = etree.fromstring(
        b'<a xmlns="http://www.w3.org/ns/prov#" xmlns:ex="http://www.w3.org/2001/XMLSchema" '
        b'xmlns:xs="http://www.w3.org/ns/prov#" xmlns:p="http://example.org/">'
        b'<b xmlns="http://www.w3.org/2001/XMLSchema" xmlns:ex="http://example.org/x#"/></a>'
    )
    guarded(
        "qname:cache-identity",
        lambda: repr(
            [
                provxml.xml_qname_to_QualifiedName(root, "xs:int") is XSD["int"],
                provxml.xml_qname_to_QualifiedName(root, "p:Entity") is PROV_ENTITY,
                provxml.xml_qname_to_QualifiedName(root, "ex:a") is provxml.xml_qname_to_QualifiedName(root, "ex:a"),
                provxml.xml_qname_to_QualifiedName(root, "ex:a") == provxml.xml_qname_to_QualifiedName(root, "ex:a"),
                provxml.xml_qname_to_QualifiedName(root, "a") == provxml.xml_qname_to_QualifiedName(root[0], "a"),
            ]
        ),
    )
    for elname, el in (
        ("root", root),
        ("child", root[0]),
        ("nodefault", nodefault),
        ("rebound", rebound),
        ("rebound-child", rebound[0]),
    ):
        for s in strs:
            def f():
                q = provxml.xml_qname_to_QualifiedName(el, s)
                return show_value(q) + " same_xsd_ns=%s same_prov_ns=%s" % (
                    q.namespace is XSD,
                    q.namespace is PROV,
                )
            guarded("qname:%s:%r" % (elname, s), f)


class Weird(object):
    def __str__(self):
        return "prov:weird"

    def __repr__(self):
        return "<Weird>"

    def __hash__(self):
        return 12345

    def __eq__(self, other):
        return isinstance(other, Weird)


def build_docs():
    docs = {}

    d = pm.ProvDocument()
    docs["empty"] = d

    d = pm.ProvDocument()
    ex = d.add_namespace("ex", "http://example.org/")
    d.add_namespace("other", "http://other.example/#")
    now = datetime.datetime(2014, 7, 8, 9, 10, 11, 123456)
    e1 = d.entity(
        "ex:e1",
        [
            (PROV_TYPE, ex["Thing"]),
            (PROV_TYPE, PROV["Plan"]),
            (PROV_TYPE, "a string type"),
            (PROV_TYPE, "prov:looksLikeProv"),
            (PROV_TYPE, 5),
            (PROV_TYPE, True),
            (PROV_TYPE, 1.5),
            (PROV_TYPE, now),
            (PROV_TYPE, Identifier("http://example.org/uri")),
            (PROV_TYPE, pm.Literal("lit", XSD_STRING)),
            (PROV_TYPE, pm.Literal("lit", datatype=XSD["token"])),
            (PROV_LABEL, "label"),
            (PROV_LABEL, pm.Literal("Etikett", langtag="de")),
            (PROV_LABEL, pm.Literal("bonjour", PROV["InternationalizedString"], "fr")),
            (PROV_LOCATION, "somewhere"),
            (PROV_LOCATION, ex["place"]),
            (PROV_LOCATION, 3),
            (PROV_VALUE, 42),
            ("ex:bool_t", True),
            ("ex:bool_f", False),
            ("ex:int", 0),
            ("ex:neg", -12),
            ("ex:float", 2.0),
            ("ex:bigfloat", 1e300),
            ("ex:dt", now),
            ("ex:id", Identifier("http://example.org/ü?x=1&y=<2>")),
            ("ex:str", "plain <&> \"quoted\" ☃"),
            ("ex:empty", ""),
            ("ex:provish", "prov:foo"),
            ("ex:qn", ex["qn"]),
            ("ex:provqn", PROV["Entity"]),
            ("ex:lit_int", pm.Literal("7", XSD_INT)),
            ("ex:lit_lang", pm.Literal("hello", langtag="en-GB")),
            ("ex:lit_qname", pm.Literal("ex:x", XSD_QNAME)),
            ("ex:time_like", now),
            ("other:attr", "b"),
            ("other:attr", "a"),
            ("other:attr", 10),
            ("other:attr", 9),
        ],
    )
    a1 = d.activity("ex:a1", now, None, {PROV_TYPE: ex["Act"], "ex:startTimeish": now})
    d.activity("ex:a2", None, now + datetime.timedelta(days=1))
    d.activity("ex:a1", other_attributes={"ex:again": 1})
    ag = d.agent("ex:ag", {PROV_TYPE: PROV["Person"], "ex:name": "Bob"})
    d.agent("ex:ag2", [(PROV_TYPE, PROV["Person"]), (PROV_TYPE, PROV["Organization"])])
    d.agent("ex:ag3", {PROV_TYPE: pm.Literal(PROV["SoftwareAgent"], XSD_QNAME)})
    d.agent("ex:ag4", {PROV_TYPE: PROV["Plan"]})
    d.entity("ex:plan", {PROV_TYPE: PROV["Plan"]})
    d.entity("ex:coll", [(PROV_TYPE, PROV["Collection"]), (PROV_TYPE, PROV["EmptyCollection"])])
    d.entity("ex:agent_typed_entity", {PROV_TYPE: PROV["Person"]})
    d.entity("ex:bundle_typed", {PROV_TYPE: PROV["Bundle"]})
    d.used(a1, e1, now, "ex:u1", {PROV_ROLE: ex["role"], "ex:x": 1})
    d.used(a1, None)
    d.used("ex:a1", "ex:e1", identifier=None, other_attributes={PROV_ROLE: "strrole"})
    d.wasGeneratedBy(e1, a1, now)
    d.wasGeneratedBy(e1, None, None, other_attributes={PROV_ROLE: 5})
    d.wasDerivedFrom("ex:e2", e1, a1, None, None, "ex:d1", {PROV_TYPE: PROV["Revision"]})
    d.wasDerivedFrom("ex:e2", e1, other_attributes=[(PROV_TYPE, PROV["Quotation"]), (PROV_TYPE, PROV["PrimarySource"])])
    d.wasDerivedFrom("ex:e2", e1, other_attributes={PROV_TYPE: ex["NotSpecial"]})
    d.wasAssociatedWith(a1, ag, "ex:plan", None, {PROV_ROLE: ex["r"]})
    d.actedOnBehalfOf(ag, "ex:ag2", a1)
    d.wasAttributedTo(e1, ag)
    d.wasInformedBy("ex:a2", a1)
    d.wasStartedBy(a1, e1, "ex:a2", now)
    d.wasEndedBy(a1, None, None, now)
    d.wasInvalidatedBy(e1, a1, now)
    d.wasInfluencedBy(e1, ag)
    d.alternateOf(e1, "ex:e2")
    d.specializationOf(e1, "ex:e2")
    d.mentionOf(e1, "ex:e2", "ex:b1")
    d.hadMember("ex:coll", e1)
    d.entity("ex:weird", {"ex:w": Weird(), PROV_TYPE: Weird()})
    d.entity("ex:none_like", {"ex:d": datetime.date(2001, 2, 3)})
    docs["kitchen_sink"] = d

    d = pm.ProvDocument()
    d.set_default_namespace("http://default.example/")
    d.add_namespace("ex", "http://example.org/")
    d.entity("e1", {"attr": "v", PROV_TYPE: "x"})
    d.entity("e1", {"attr": "v"})
    d.entity("ex:e1")
    b = d.bundle("ex:b1")
    b.add_namespace("in", "http://inner.example/")
    b.add_namespace("ex", "http://example.org/")
    b.entity("in:e1", {"in:a": 1})
    b.entity("e1")
    b.entity("e1")
    b2 = d.bundle("b2")
    b2.add_namespace("ex", "http://different.example/")
    b2.entity("ex:e1", {"ex:t": True})
    b2.activity("ex:a", datetime.datetime(2000, 1, 1), datetime.datetime(2000, 1, 2))
    docs["default_ns_bundles"] = d

    d = pm.ProvDocument()
    d.add_namespace("xsd2", "http://www.w3.org/2001/XMLSchema")
    d.add_namespace("ex", "http://example.org/")
    d.entity("ex:e", {"ex:v": pm.Literal("1", pm.Namespace("xsd2", "http://www.w3.org/2001/XMLSchema")["int"])})
    docs["extra_xsd"] = d
    return docs


def section_serialize():
    docs = build_docs()
    for name in sorted(docs):
        d = docs[name]
        for force in (False, True):
            guarded("ser:%s:force=%s" % (name, force), lambda: to_xml(d, force_types=force))
        guarded("ser-deser:%s" % name, lambda: show_doc(from_xml(to_xml(d))))
        guarded(
            "ser-textio:%s" % name,
            lambda: (lambda s: (provxml.ProvXMLSerializer(d).serialize(s), s.getvalue())[1])(io.StringIO()),
        )
        # serialize_bundle directly, with and without a parent element
        ser = provxml.ProvXMLSerializer(d)

        def direct():
            root = ser.serialize_bundle(d)
            out = [etree.tostring(root).decode("utf-8"), repr(sorted((str(k), v) for k, v in root.nsmap.items()))]
            for b in d.bundles:
                sub = ser.serialize_bundle(b, element=root, force_types=True)
                out.append(sub.tag)
                out.append(repr(sorted((str(k), v) for k, v in sub.nsmap.items())))
            out.append(etree.tostring(root).decode("utf-8"))
            return "\n".join(out)

        guarded("serialize_bundle:%s" % name, direct)
        # the record attribute lists must not be mutated by serialization
        guarded("post-ser-state:%s" % name, lambda: show_doc(d))
    for i, (ename, fn) in enumerate(examples.tests):
        guarded("example:%s" % ename, lambda: to_xml(fn()))
        guarded("example-forced:%s" % ename, lambda: to_xml(fn(), force_types=True))
        guarded("example-rt:%s" % ename, lambda: show_doc(from_xml(to_xml(fn()))))


def section_fixture_files():
    base = os.path.join(os.path.dirname(examples.__file__), "xml")
    for path in sorted(glob.glob(os.path.join(base, "*.xml"))):
        name = os.path.basename(path)

        def f():
            with open(path, "rb") as fh:
                doc = provxml.ProvXMLSerializer().deserialize(fh)
            return show_doc(doc) + "\n" + to_xml(doc) + "\n" + to_xml(doc, force_types=True)

        guarded("fixture:" + name, f)


def section_label_and_sort():
    ex = Namespace("ex", "http://example.org/")
    ser = provxml.ProvXMLSerializer(pm.ProvDocument())
    attr_sets = {
        "none": [],
        "person": [(PROV_TYPE, PROV["Person"]), (ex["a"], 1)],
        "two_special": [(PROV_TYPE, ex["T"]), (PROV_TYPE, PROV["Organization"]), (PROV_TYPE, PROV["Person"])],
        "dup_special": [(PROV_TYPE, PROV["Person"]), (PROV_TYPE, PROV["Person"])],
        "literal_special": [(PROV_TYPE, pm.Literal(PROV["Plan"], XSD_QNAME)), (PROV_TYPE, PROV["Plan"])],
        "literal_only": [(PROV_TYPE, pm.Literal(PROV["Plan"], XSD_QNAME))],
        "base_type": [(PROV_TYPE, PROV_ENTITY), (PROV_TYPE, PROV_AGENT)],
        "string_type": [(PROV_TYPE, "prov:Person"), (PROV_TYPE, 5), (PROV_LABEL, PROV["Person"])],
        "revision": [(PROV_TYPE, PROV["Revision"]), (PROV_TYPE, PROV["Quotation"])],
        "unhashable": [(PROV_TYPE, ["x"])],
    }
    for rec_type in (PROV_ENTITY, PROV_AGENT, PROV_DERIVATION, PROV_ACTIVITY, PROV["Nope"]):
        for name in sorted(attr_sets):
            attrs = list(attr_sets[name])

            def f():
                label = ser._derive_record_label(rec_type, attrs)
                return "%s -> %s" % (label, show_attrs(attrs))

            guarded("label:%s:%s" % (rec_type, name), f)

    now = datetime.datetime(2014, 7, 8, 9, 10, 11)
    sort_sets = {
        "empty": [],
        "mixed": [
            (ex["b"], 2), (ex["a"], "z"), (ex["a"], "a"), (ex["a"], 10), (ex["a"], 9),
            (PROV_VALUE, 1), (PROV_TYPE, ex["T"]), (PROV_TYPE, "T"), (PROV_ROLE, "r"),
            (PROV_LOCATION, pm.Literal("loc", langtag="en")), (PROV_LABEL, "l2"), (PROV_LABEL, "l1"),
            (PROV_ATTR_ENTITY, ex["e"]), (PROV_ATTR_ACTIVITY, ex["act"]), (PROV_ATTR_TIME, now),
            (PROV_ATTR_STARTTIME, now), (PROV_ATTR_ENDTIME, now), (PROV_ATTR_AGENT, ex["ag"]),
            (PROV_ATTR_GENERATED_ENTITY, ex["g"]), (PROV_ATTR_USED_ENTITY, ex["u"]),
            (ex["a"], "a"), (PROV_LABEL, "l1"),
        ],
        "generator": ((ex[c], c) for c in "cab"),
        "dupes": [(PROV_TYPE, "x")] * 3 + [(ex["x"], 1)] * 2,
        "literals": [(ex["l"], pm.Literal("b", XSD_STRING)), (ex["l"], pm.Literal("a", langtag="x")), (ex["l"], "ab")],
    }
    for rec_type in sorted(pm.PROV_REC_CLS, key=str) + [PROV["Nope"]]:
        for name in sorted(sort_sets):
            src = sort_sets[name]
            if name == "generator":
                src = ((ex[c], c) for c in "cab")
            else:
                src = list(src)
            keep = src

            def f():
                res = pm.sorted_attributes(rec_type, keep)
                extra = "" if name == "generator" else " input_after=%s" % show_attrs(keep)
                return show_attrs(res) + extra

            guarded("sorted:%s:%s" % (rec_type, name), f)


def section_tables():
    emit("FULL_NAMES_MAP", repr([(str(k), v) for k, v in provxml.FULL_NAMES_MAP.items()]))
    emit(
        "FULL_PROV_RECORD_IDS_MAP",
        repr([(k, str(v)) for k, v in provxml.FULL_PROV_RECORD_IDS_MAP.items()]),
    )
    emit("types", "%s %s" % (type(provxml.FULL_NAMES_MAP).__name__, type(provxml.FULL_PROV_RECORD_IDS_MAP).__name__))
    emit("ns helpers", repr([provxml._ns("a", "b"), provxml._ns_prov("x"), provxml._ns_xsi("type"), provxml._ns_xml("lang")]))
    emit("XML_XSD_URI", provxml.XML_XSD_URI)


def main():
    section_tables()
    section_qname()
    section_extract_attributes()
    section_deserialize()
    section_subtree_direct()
    section_serialize()
    section_fixture_files()
    section_label_and_sort()
    print("FOCUS: " + FOCUS)
    print("lines: %d" % len(LINES))
    for line in LINES:
        print(line)
    print("TOTAL " + hashlib.sha256("\n".join(LINES).encode("utf-8")).hexdigest())


if __name__ == "__main__":
    main()
