"""Differential script: NamespaceManager / Identifier / QualifiedName / Namespace.

Prints one line per observation plus a sha256 digest of all lines.  Object
identities are reported only as relations (``is`` checks), never as addresses.
"""
import hashlib
import io

from prov.identifier import Identifier, QualifiedName, Namespace
from prov.model import NamespaceManager, ProvDocument, DEFAULT_NAMESPACES

LINES = []


def emit(*parts):
    line = " | ".join(str(p) for p in parts)
    LINES.append(line)
    print(line)


def call(fn, *args, **kwargs):
    """Return a printable description of the result or of the exception."""
    try:
        return ("ok", fn(*args, **kwargs))
    except Exception as e:  # noqa
        return ("exc", type(e).__name__, str(e))


def desc(obj):
    if isinstance(obj, QualifiedName):
        ns = obj.namespace
        return "QN(%r,%r,%r,str=%r,uri=%r)" % (
            ns.prefix, ns.uri, obj.localpart, str(obj), obj.uri)
    if isinstance(obj, Identifier):
        return "ID(%r)" % obj.uri
    if isinstance(obj, Namespace):
        return "NS(%r,%r)" % (obj.prefix, obj.uri)
    if isinstance(obj, tuple):
        return "(" + ", ".join(desc(o) for o in obj) + ")"
    return repr(obj)


def dump_manager(tag, nm):
    emit(tag, "keys", [(k, desc(v)) for k, v in nm.items()])
    emit(tag, "registered", [desc(v) for v in nm.get_registered_namespaces()])
    emit(tag, "default", desc(nm.get_default_namespace()))
    emit(tag, "parent-is-none", nm.parent is None)
    # public view of every mapping kept by the manager, independent of the
    # private attribute names: sorted attribute *values* rendered structurally
    state = []
    for name, value in sorted(vars(nm).items()):
        if isinstance(value, dict):
            state.append(sorted((desc(k), desc(v)) for k, v in value.items()))
        else:
            state.append(desc(value))
    emit(tag, "state-values", sorted(map(repr, state)))
    emit(tag, "n-attrs", len(vars(nm)))


class Weird(object):
    uri = "http://example.org/thing"
    prefix = "ex"

    def __repr__(self):
        return "Weird()"


# ---------------------------------------------------------------- identifier
def identifier_section():
    ex = Namespace("ex", "http://example.org/")
    ex_same = Namespace("ex", "http://example.org/")
    ex_other_prefix = Namespace("other", "http://example.org/")
    ex_other_uri = Namespace("ex", "http://example.org/2/")
    empty_prefix = Namespace("", "http://example.org/")
    none_prefix = Namespace(None, "http://example.org/")
    uni = Namespace("ünï", "http://example.org/ü/")
    all_ns = [ex, ex_same, ex_other_prefix, ex_other_uri, empty_prefix,
              none_prefix, uni]
    others = [None, 0, "", "ex", "http://example.org/", Weird(), Weird,
              ("ex", "http://example.org/"), Identifier("http://example.org/")]

    for bad in ["", " ", "\t\n", None, 0]:
        emit("Namespace-ctor", repr(bad), desc(call(Namespace, "p", bad)))

    for i, a in enumerate(all_ns):
        for j, b in enumerate(all_ns):
            emit("ns-cmp", i, j, a == b, a != b, hash(a) == hash(b),
                 a.__eq__(b), a.__ne__(b))
        for k, o in enumerate(others):
            emit("ns-cmp-other", i, k, a == o, a != o, o == a, o != a,
                 a.__eq__(o), a.__ne__(o))
        emit("ns-hash", i, hash(a) == hash((a.uri, a.prefix)), repr(a))
    emit("ns-set", len(set(all_ns)), len({n: 1 for n in all_ns}))

    # __getitem__ and its cache
    for ns in (ex, empty_prefix, none_prefix, uni):
        for lp in ["a", "", "a b", "a:b", "ü", "a/b#c", "%41", "0", "a" * 50]:
            q1 = ns[lp]
            q2 = ns[lp]
            emit("getitem", desc(q1), q1 is q2, q1 == q2, repr(q1),
                 q1.provn_representation(), q1.namespace is ns)
        emit("getitem-cache-size", desc(ns),
             sorted(len(v) for v in vars(ns).values() if isinstance(v, dict)))
        emit("getitem-vars", len(vars(ns)))
    for bad in [None, 1, [], {}, b"a", ("a",)]:
        emit("getitem-bad", repr(bad), desc(call(ex.__getitem__, bad)))
    emit("getitem-bad-again", desc(call(ex.__getitem__, ("a",))))

    # qname / contains
    probes = ["http://example.org/a", "http://example.org/", "http://example.org",
              "", "http://example.org/ü/x", "HTTP://EXAMPLE.ORG/a", "ex:a", None, 0,
              1.5, [], b"http://example.org/a", Identifier("http://example.org/id"),
              Identifier(""), Identifier("urn:x"), ex["q"], uni["q"], Weird(),
              QualifiedName(ex, ""), ex]
    for ns in (ex, ex_other_uri, uni, empty_prefix):
        for p in probes:
            r = call(ns.qname, p)
            emit("qname", desc(ns), desc(p), desc(r))
            emit("contains", desc(ns), desc(p), desc(call(ns.contains, p)))
            if r[0] == "ok" and r[1] is not None:
                emit("qname-fresh", r[1].namespace is ns,
                     r[1] is ns[r[1].localpart], r[1] == ns[r[1].localpart])

    # Identifier / QualifiedName equality and hashing
    ids = [Identifier("http://example.org/a"), Identifier("http://example.org/a"),
           Identifier("http://example.org/b"), Identifier(""), Identifier(5),
           ex["a"], ex_same["a"], ex_other_prefix["a"], empty_prefix["a"],
           ex_other_uri["a"], ex["b"], uni["a"], QualifiedName(ex, "a"),
           Namespace("e", "http://example.org/a")[""]]
    for i, a in enumerate(ids):
        for j, b in enumerate(ids):
            emit("id-cmp", i, j, a == b, a != b, hash(a) == hash(b), a.__eq__(b))
        for k, o in enumerate(others + [ex]):
            emit("id-cmp-other", i, k, a == o, a != o, o == a, o != a, a.__eq__(o))
        emit("id-hash", i, hash(a) == hash(a.uri),
             hash(a) == hash((a.uri, a.__class__)), str(a), repr(a),
             a.provn_representation())
    emit("id-set", len(set(ids)), sorted(desc(x) for x in set(ids)))
    emit("id-dict", sorted((desc(k), v) for k, v in {x: i for i, x in enumerate(ids)}.items()))
    emit("has-ne", "__ne__" in vars(Identifier), "__ne__" in vars(QualifiedName),
         "__ne__" in vars(Namespace), "__eq__" in vars(QualifiedName))


# ---------------------------------------------------------- NamespaceManager
def manager_section():
    emit("DEFAULT_NAMESPACES", [(k, desc(v)) for k, v in DEFAULT_NAMESPACES.items()])
    dump_manager("nm-empty", NamespaceManager())
    dump_manager("nm-none", NamespaceManager(None, None, None))
    dump_manager("nm-default", NamespaceManager(default="http://d.example/"))
    emit("nm-default-empty", desc(call(NamespaceManager, default="")))
    emit("nm-default-blank", desc(call(NamespaceManager, default="  ")))
    emit("nm-default-zero", desc(call(NamespaceManager, default=0)))
    emit("nm-bad-ns-dict", desc(call(NamespaceManager, {"a": "http://a/", "b": " "})))
    emit("nm-bad-ns-list", desc(call(NamespaceManager, [1, 2])))
    emit("nm-bad-ns-str", desc(call(NamespaceManager, "abc")))
    dump_manager("nm-empty-list", NamespaceManager([]))
    dump_manager("nm-empty-dict", NamespaceManager({}))
    dump_manager("nm-tuple", NamespaceManager((Namespace("t", "http://t/"),)))
    dump_manager("nm-gen", NamespaceManager(Namespace(p, "http://g/%s/" % p) for p in "abc"))

    parent = NamespaceManager({"p": "http://parent.example/"}, default="http://pd.example/")
    nm = NamespaceManager(
        {"ex": "http://example.org/", "prov": "http://not-prov.example/",
         "ex2": "http://example.org/", "": "http://empty-prefix.example/"},
        default="http://d.example/", parent=parent)
    dump_manager("nm-full", nm)
    emit("nm-parent", nm.parent is parent)

    # add_namespace: every branch, repeated identifiers, conflicts
    ex = Namespace("ex", "http://example.org/")
    seq = [
        ex, ex, Namespace("ex", "http://example.org/"),        # already there
        Namespace("ex", "http://other.example/"),                # prefix conflict
        Namespace("ex", "http://other.example/"),                # renamed already
        Namespace("ex", "http://third.example/"),                # conflict -> ex_2
        Namespace("ex_1", "http://fourth.example/"),             # conflict with minted
        Namespace("zz", "http://example.org/"),                  # uri known
        Namespace("zz", "http://zz.example/"),                   # zz was renamed-prefix
        Namespace("prov", "http://www.w3.org/ns/prov#"),         # default ns
        Namespace("prov", "http://fake-prov/"),
        Namespace("provx", "http://www.w3.org/ns/prov#"),
        Namespace("", "http://d.example/"),
        Namespace("", "http://another-default.example/"),
        Namespace("", "http://another-default.example/"),
        Namespace("_", "http://underscore.example/"),
        Namespace("_", "http://underscore2.example/"),
        Namespace("ünï", "http://uni.example/ü#"),
        Namespace("ünï", "http://uni2.example/ü#"),
        Namespace("a b", "http://space.example/"),
        Namespace(None, "http://none-prefix.example/"),
        Namespace(None, "http://none-prefix2.example/"),
    ]
    for i, ns in enumerate(seq):
        r = call(nm.add_namespace, ns)
        emit("add_namespace", i, desc(ns), desc(r),
             r[0] == "ok" and r[1] is ns,
             r[0] == "ok" and any(r[1] is v for v in nm.values()))
    dump_manager("nm-after-add", nm)
    for bad in [None, "ex", 5, ("ex", "http://x/"), [], Identifier("http://x/")]:
        emit("add_namespace-bad", repr(bad) if not isinstance(bad, Identifier) else desc(bad),
             desc(call(nm.add_namespace, bad)))
    dump_manager("nm-after-bad", nm)

    # _get_unused_prefix
    for p in ["ex", "new", "", "prov", "xsd", "_", "ex_1", "ex_2", "ünï", "zz", "a b"]:
        emit("_get_unused_prefix", repr(p), desc(call(nm._get_unused_prefix, p)))
    for bad in [None, 5, [], ("a",)]:
        emit("_get_unused_prefix-bad", repr(bad), desc(call(nm._get_unused_prefix, bad)))
    crowded = NamespaceManager()
    for i in range(1, 13):
        crowded.add_namespace(Namespace("c", "http://c.example/%d/" % i))
    emit("crowded", sorted(crowded.keys()), crowded._get_unused_prefix("c"),
         crowded._get_unused_prefix("c_3"))
    crowded["gap_1"] = Namespace("gap_1", "http://gap/")
    crowded["gap_3"] = Namespace("gap_3", "http://gap3/")
    crowded["gap"] = Namespace("gap", "http://gap0/")
    emit("crowded-gap", crowded._get_unused_prefix("gap"))
    dump_manager("nm-crowded", crowded)

    # set_default_namespace
    for uri in ["http://new-default.example/", "http://d.example/", "x", "ü"]:
        emit("set_default", repr(uri), desc(call(nm.set_default_namespace, uri)),
             desc(nm.get_default_namespace()), desc(nm[""]),
             nm[""] is nm.get_default_namespace())
    for bad in ["", " ", None, 0, 5, []]:
        emit("set_default-bad", repr(bad), desc(call(nm.set_default_namespace, bad)),
             desc(nm.get_default_namespace()), desc(nm.get("")))
    dump_manager("nm-after-default", nm)

    # valid_qualified_name: every branch
    def vq(tag, manager, value):
        r = call(manager.valid_qualified_name, value)
        emit("valid_qname", tag, desc(value), desc(r),
             r[0] == "ok" and r[1] is value)
        return r[1] if r[0] == "ok" else None

    registered_ex = nm["ex"]
    inputs = [
        None, "", 0, [], (), Identifier(""),
        registered_ex["same-object"],
        Namespace("ex", "http://example.org/")["equal-ns"],
        Namespace("ex", "http://different.example/")["conflict"],
        Namespace("ex", "http://different.example/")["conflict"],
        Namespace("fresh", "http://fresh.example/")["n"],
        Namespace("fresh", "http://fresh.example/")[""],
        Namespace("", "http://new-default.example/")["in-default"],
        Namespace("", "ü")["in-default2"],
        Namespace("", "http://foreign-default.example/")["dn1"],
        Namespace("", "http://foreign-default2.example/")["dn2"],
        Namespace("", "http://foreign-default.example/")["dn1-again"],
        Namespace(None, "http://none.example/")["none-prefix"],
        Namespace("dn", "http://dn-literal.example/")["dnlit"],
        "ex:local", "ex:", ":x", "ex:a:b", "zz:renamed", "unknown:thing", "_:blank",
        "_:", "_", "plain", "plain with space", "ünï:ü", "p:from-parent",
        "http://example.org/compact/me", "http://www.w3.org/ns/prov#Entity",
        "http://nowhere.example/x", "urn:uuid:1234", "prov:Entity", "xsd:string",
        "dn:x", "dn_1:x",
        Identifier("http://example.org/from-identifier"), Identifier("ex:viaid"),
        Identifier("_:b1"), Identifier("noscheme"), Identifier("http://nowhere.example/y"),
        1.5, 42, True, b"ex:bytes", ("ex", "a"), ["ex:a"], {"ex": "a"}, object,
    ]
    for v in inputs:
        vq("nm", nm, v)
    dump_manager("nm-after-vq", nm)

    # no default namespace defined: adopt / fail / delegate to parent
    nodef = NamespaceManager({"ex": "http://example.org/"})
    vq("nodef", nodef, "plain")
    vq("nodef", nodef, Identifier("plain2"))
    q = Namespace("", "http://adopted.example/")["x"]
    vq("nodef", nodef, q)
    dump_manager("nodef-after-adopt", nodef)
    vq("nodef", nodef, "plain")
    vq("nodef", nodef, Namespace("", "http://adopted.example/")["y"])
    vq("nodef", nodef, Namespace("", "http://not-adopted.example/")["z"])
    dump_manager("nodef-final", nodef)

    child = NamespaceManager({"c": "http://child.example/"}, parent=parent)
    for v in ["plain", "p:x", "c:x", "q:x", "http://parent.example/zzz",
              "http://pd.example/k", Identifier("plain"), "_:b", 7,
              Namespace("p", "http://parent.example/")["viaqn"]]:
        vq("child", child, v)
    dump_manager("child-final", child)
    dump_manager("parent-final", parent)
    grandchild = NamespaceManager(parent=child)
    for v in ["plain", "p:x", "c:x", "nope:x"]:
        vq("grandchild", grandchild, v)

    # anonymous ids (counter kept by the manager)
    emit("anon", desc(nm.get_anonymous_identifier()), desc(nm.get_anonymous_identifier("x")),
         desc(NamespaceManager().get_anonymous_identifier("")))
    emit("get_namespace", desc(nm.get_namespace("http://example.org/")),
         desc(nm.get_namespace("http://nope/")))


# ----------------------------------------------------- through the public API
def document_section():
    doc = ProvDocument()
    doc.set_default_namespace("http://default.example/")
    doc.add_namespace("ex", "http://example.org/")
    doc.add_namespace("ex", "http://example.org/2/")
    doc.add_namespace(Namespace("ex", "http://example.org/3/"))
    doc.add_namespace("üx", "http://example.org/ü/")
    e1 = doc.entity("ex:e1", {"ex:attr": "v", "prov:label": "l"})
    e2 = doc.entity("e-default")
    e3 = doc.entity(Namespace("ex", "http://example.org/2/")["e3"])
    e4 = doc.entity("http://example.org/3/e4")
    doc.entity("ex:e1", {"üx:ä": Identifier("http://example.org/ü/id")})
    a = doc.activity(Namespace("", "http://foreign.example/")["act"])
    doc.wasGeneratedBy(e1, a)
    doc.wasDerivedFrom(e3, "ex:e1")
    b = doc.bundle("ex:bundle1")
    b.add_namespace("ex", "http://bundle-ex.example/")
    b.set_default_namespace("http://bundle-default.example/")
    b.entity("ex:e1")
    b.entity("inbundle")
    b.entity(Namespace("other", "http://example.org/")["from-doc-ns"])
    b.wasAttributedTo("ex:e1", b.agent("üx:agent"))
    b2 = doc.bundle(Namespace("", "http://foreign.example/")["bundle2"])
    b2.entity("ex:e1")
    emit("doc-ns", [desc(n) for n in doc.get_registered_namespaces()],
         desc(doc.get_default_namespace()))
    emit("bundle-ns", [desc(n) for n in b.get_registered_namespaces()],
         desc(b.get_default_namespace()))
    for r in doc.get_records():
        emit("doc-rec", desc(r.identifier), r.get_provn())
    for bundle in doc.bundles:
        emit("bundle", desc(bundle.identifier))
        for r in bundle.get_records():
            emit("bundle-rec", desc(r.identifier), r.get_provn())
    emit("provn", doc.get_provn())
    js = doc.serialize(format="json", indent=1, sort_keys=True)
    emit("json", js)
    emit("xml", desc(call(doc.serialize, format="xml")))
    r = call(doc.serialize, format="rdf", rdf_format="nt")
    emit("rdf", r[0], sorted(r[1].splitlines()) if r[0] == "ok" else r)
    back = ProvDocument.deserialize(content=js, format="json")
    emit("roundtrip", back == doc, back.get_provn())
    un = doc.unified()
    emit("unified", sorted(un.get_provn().splitlines()))
    fl = doc.flattened()
    emit("flattened", sorted(fl.get_provn().splitlines()))
    dump_manager("doc-nm", doc._namespaces)
    dump_manager("bundle-nm", b._namespaces)
    emit("doc-valid", desc(doc.valid_qualified_name("ex:x")),
         desc(doc.valid_qualified_name("ex_1:x")), desc(doc.valid_qualified_name("nope:x")),
         desc(b.valid_qualified_name("ex:x")), desc(b.valid_qualified_name("ex_1:x")),
         desc(b.valid_qualified_name("üx:x")), desc(b.valid_qualified_name("plain")))


if __name__ == "__main__":
    identifier_section()
    manager_section()
    document_section()
    emit("LINES", len(LINES))
    print("sha256", hashlib.sha256("\n".join(LINES).encode("utf-8")).hexdigest())
