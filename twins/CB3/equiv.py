"""Differential script: PROV-XML reading (qualified names, attributes, streams).

Prints a deterministic digest of what the PROV-XML reader produces for the
bundled example files and for a set of hand-written edge cases, through every
entry point (bytes stream, text stream, path, content str/bytes, prov.read).
"""
import os
import sys

if os.environ.get("PYTHONHASHSEED") != "0":
    os.environ["PYTHONHASHSEED"] = "0"
    os.execv(sys.executable, [sys.executable] + sys.argv)

import glob
import logging
import hashlib
import io
import tempfile
import warnings

from lxml import etree

import prov
from prov.model import ProvDocument
from prov.serializers import provxml
from prov.serializers.provxml import (
    ProvXMLSerializer,
    _extract_attributes,
    xml_qname_to_QualifiedName,
)

logging.disable(logging.CRITICAL)
HERE = "/tmp/twin7/CB/src/prov/tests/xml"

P = 'xmlns:prov="http://www.w3.org/ns/prov#"'
XSI = 'xmlns:xsi="http://www.w3.org/2001/XMLSchema-instance"'
XSD = 'xmlns:xsd="http://www.w3.org/2001/XMLSchema"'
EX = 'xmlns:ex="http://example.org/"'

CASES = {
    "empty_doc": "<prov:document %s/>" % P,
    "empty_doc_decl": '<?xml version="1.0" encoding="UTF-8"?>\n<prov:document %s></prov:document>'
    % P,
    "default_ns": """<prov:document %s %s xmlns="http://default.example/">
  <prov:entity prov:id="e1"><prov:type xsi:type="xsd:QName" %s>plain</prov:type><tag>v</tag></prov:entity>
  <prov:entity prov:id="unk:e2"/>
</prov:document>"""
    % (P, XSI, XSD),
    "no_default_unprefixed": '<prov:document %s><prov:entity prov:id="e1"/></prov:document>'
    % P,
    "unknown_prefix_no_default": '<prov:document %s><prov:entity prov:id="zz:e1"/></prov:document>'
    % P,
    "colon_in_local": """<prov:document %s %s xmlns="http://d/">
  <prov:entity prov:id="ex:a:b"/><prov:entity prov:id="q:a:b"/><prov:entity prov:id=":x"/><prov:entity prov:id="ex:"/>
</prov:document>"""
    % (P, EX),
    "xsd_and_prov_prefixes": """<prov:document %s %s %s %s xmlns:p2="http://www.w3.org/ns/prov#" xmlns:x2="http://www.w3.org/2001/XMLSchema">
  <prov:entity prov:id="ex:e">
    <prov:type xsi:type="xsd:QName">p2:Plan</prov:type>
    <prov:type xsi:type="x2:QName">x2:string</prov:type>
    <ex:a xsi:type="x2:int">5</ex:a>
    <ex:b xsi:type="p2:InternationalizedString" xml:lang="fr">caf\u00e9</ex:b>
    <p2:label>l\u00e4bel \u4e2d\u6587</p2:label>
  </prov:entity>
  <p2:activity p2:id="ex:a1"/>
</prov:document>"""
    % (P, XSI, XSD, EX),
    "attrs_mix": """<prov:document %s %s %s %s>
  <prov:entity prov:id="ex:e">
    <ex:empty/>
    <ex:emptytyped xsi:type="xsd:string"/>
    <ex:lang xml:lang="en">hi</ex:lang>
    <ex:langempty xml:lang="en"/>
    <ex:ref prov:ref="ex:other">ignored text</ex:ref>
    <ex:reftyped prov:ref="ex:other" xsi:type="xsd:int">7</ex:reftyped>
    <ex:odd ex:foo="bar" other="x">text</ex:odd>
    <ex:odd2 ex:foo="b\u00e4r" xsi:type="xsd:QName">ex:q</ex:odd2>
    <ex:rep>1</ex:rep><ex:rep>1</ex:rep><ex:rep>2</ex:rep>
    <ex:nested><ex:child>c</ex:child>tail</ex:nested>
  </prov:entity>
  <prov:used><prov:activity prov:ref="ex:a"/><prov:entity prov:ref="ex:e"/><prov:time>2012-01-02T03:04:05</prov:time></prov:used>
  <prov:wasGeneratedBy prov:id="ex:g"><prov:entity prov:ref="ex:e"/></prov:wasGeneratedBy>
</prov:document>"""
    % (P, XSI, XSD, EX),
    "empty_formal": '<prov:document %s %s><prov:wasGeneratedBy prov:id="ex:g"><prov:entity prov:ref="ex:e"/><prov:activity/></prov:wasGeneratedBy></prov:document>'
    % (P, EX),
    "attr_orders": """<prov:document %s %s %s %s>
  <prov:entity prov:id="ex:e">
    <ex:a xsi:type="xsd:int" prov:ref="ex:r" xml:lang="en">1</ex:a>
    <ex:a xml:lang="en" prov:ref="ex:r" xsi:type="xsd:int">1</ex:a>
    <ex:a prov:ref="ex:r" xml:lang="en">1</ex:a>
    <ex:b xml:lang="de" xsi:type="xsd:string">zw\u00f6lf</ex:b>
    <ex:b xsi:type="xsd:QName" xml:lang="de">ex:q</ex:b>
    <ex:d xml:lang=""/>
    <ex:e type="xsd:int" ref="ex:r" lang="en" ex:type="t" ex:ref="r" ex:lang="l">plain</ex:e>
    <ex:f xsi:type="prov:InternationalizedString">s</ex:f>
    <ex:g xsi:type="xsd:dateTime">2012-01-02T03:04:05+01:00</ex:g>
    <ex:g xsi:type="xsd:boolean">true</ex:g>
    <ex:g xsi:type="xsd:double">1e3</ex:g>
    <ex:g xsi:type="xsd:anyURI">http://x/\u00e9</ex:g>
  </prov:entity>
</prov:document>"""
    % (P, XSI, XSD, EX),
    "attr_empty_qname": '<prov:document %s %s %s %s><prov:entity prov:id="ex:e"><ex:c xsi:type="xsd:QName"/></prov:entity></prov:document>'
    % (P, XSI, XSD, EX),
    "attr_unknown_type_prefix": '<prov:document %s %s %s %s><prov:entity prov:id="ex:e"><ex:h xsi:type="zz:unknown">x</ex:h></prov:entity></prov:document>'
    % (P, XSI, XSD, EX),
    "attr_bad_type_no_default": '<prov:document %s %s %s><prov:entity prov:id="ex:e"><ex:h xsi:type="nocolon">x</ex:h></prov:entity></prov:document>'
    % (P, XSI, EX),
    "attr_on_relation": """<prov:document %s %s %s %s>
  <prov:wasDerivedFrom prov:id="ex:d"><prov:generatedEntity prov:ref="ex:e2"/><prov:usedEntity prov:ref="ex:e1"/>
    <prov:type xsi:type="xsd:QName">prov:Revision</prov:type><ex:k xml:lang="fr">d\u00e9riv\u00e9</ex:k></prov:wasDerivedFrom>
  <prov:wasAssociatedWith><prov:activity prov:ref="ex:a"/><prov:agent prov:ref="ex:ag"/><prov:plan prov:ref="ex:p"/><prov:role xsi:type="xsd:QName">ex:r</prov:role></prov:wasAssociatedWith>
  <prov:entity prov:id="ex:many">%s</prov:entity>
</prov:document>"""
    % (P, XSI, XSD, EX, "".join('<ex:k%d xsi:type="xsd:int">%d</ex:k%d>' % (i, i, i) for i in range(40))),
    "bundles": """<prov:document %s %s %s>
  <prov:entity prov:id="ex:e"/>
  <prov:bundleContent prov:id="ex:b1" xmlns:in="http://inner/" xmlns="http://innerdefault/">
    <prov:entity prov:id="in:e"/><prov:entity prov:id="plain"/><prov:entity prov:id="ex:e"/>
    <prov:entity prov:id="ex:e"><in:k>v</in:k></prov:entity>
  </prov:bundleContent>
  <prov:bundleContent prov:id="ex:b2"/>
</prov:document>"""
    % (P, XSI, EX),
    "bundle_no_id": '<prov:document %s><prov:bundleContent/></prov:document>' % P,
    "bundle_dup": '<prov:document %s %s><prov:bundleContent prov:id="ex:b"/><prov:bundleContent prov:id="ex:b"/></prov:document>'
    % (P, EX),
    "comments": """<?xml version="1.0"?>
<!-- before root -->
<prov:document %s %s><!-- inside -->
  <prov:entity prov:id="ex:e"><!-- in entity --><ex:k>a<!-- mid -->b</ex:k></prov:entity>
  <!-- between -->text-tail
  <prov:bundleContent prov:id="ex:b"><!-- in bundle --><prov:agent prov:id="ex:ag"/></prov:bundleContent>
</prov:document>
<!-- after root -->"""
    % (P, EX),
    "pi": '<?xml version="1.0"?><?pi data?><prov:document %s %s><?pi2 x?><prov:entity prov:id="ex:e"/></prov:document>'
    % (P, EX),
    "other": '<prov:document %s %s><prov:other><ex:x/></prov:other><prov:entity prov:id="ex:e"/></prov:document>'
    % (P, EX),
    "non_prov": '<prov:document %s %s><ex:thing/></prov:document>' % (P, EX),
    "unknown_prov_elem": '<prov:document %s %s><prov:nonsense prov:id="ex:e"/></prov:document>'
    % (P, EX),
    "xsi_type_on_record": '<prov:document %s %s %s><prov:entity prov:id="ex:e" xsi:type="prov:Plan"/><prov:plan prov:id="ex:p"/><prov:entity prov:id="ex:f" xsi:type="ex:T"/></prov:document>'
    % (P, XSI, EX),
    "members": """<prov:document %s %s>
  <prov:hadMember><prov:collection prov:ref="ex:c"/><prov:entity prov:ref="ex:e1"/><prov:entity prov:ref="ex:e2"/><prov:entity prov:ref="ex:e1"/></prov:hadMember>
  <prov:hadMember><prov:entity prov:ref="ex:e1"/><prov:entity prov:ref="ex:e2"/></prov:hadMember>
  <prov:hadMember><prov:collection prov:ref="ex:c"/></prov:hadMember>
</prov:document>"""
    % (P, EX),
    "malformed": "<prov:document %s><prov:entity></prov:document>" % P,
    "not_xml": '{"entity": {"ex:e": {}}}',
    "blank": "",
    "latin1_decl": '<?xml version="1.0" encoding="ISO-8859-1"?><prov:document %s %s><prov:entity prov:id="ex:e"><prov:label>caf\u00e9</prov:label></prov:entity></prov:document>'
    % (P, EX),
    "non_ascii_names": '<prov:document %s xmlns:\u00e9x="http://ex/%%C3%%A9#" xmlns="http://d/u/"><prov:entity prov:id="\u00e9x:\u00e9nt"/><prov:entity prov:id="\u00fcnt"><\u00e9x:cl\u00e9>v\u00e4l</\u00e9x:cl\u00e9></prov:entity></prov:document>'
    % P,
}

out = []


def emit(*parts):
    out.append(" | ".join(str(p) for p in parts))


def describe(doc):
    if doc is None:
        return "None"
    lines = [doc.get_provn()]
    for ns in sorted(doc.get_registered_namespaces(), key=lambda n: (n.prefix, n.uri)):
        lines.append("ns %s=%s" % (ns.prefix, ns.uri))
    lines.append("default=%r" % (doc.get_default_namespace(),))
    for b in sorted(doc.bundles, key=lambda b: str(b.identifier)):
        lines.append("bundle %s: %d records" % (b.identifier, len(b.get_records())))
        for ns in sorted(b.namespaces, key=lambda n: (n.prefix, n.uri)):
            lines.append("  bns %s=%s" % (ns.prefix, ns.uri))
    for rec in doc.flattened().get_records():
        for k, v in rec.attributes:
            lines.append(
                "  %s %r %s %r %r"
                % (
                    rec.identifier,
                    k.uri,
                    type(v).__name__,
                    getattr(v, "uri", None) or str(v),
                    (getattr(v, "datatype", None), getattr(v, "langtag", None)),
                )
            )
    try:
        lines.append(doc.serialize(format="xml"))
        lines.append(doc.serialize(format="json"))
    except Exception as e:  # noqa
        lines.append("reserialize failed: %s: %s" % (type(e).__name__, e))
    return "\n".join(lines)


def run(label, fn):
    with warnings.catch_warnings(record=True) as w:
        warnings.simplefilter("always")
        try:
            res = describe(fn())
        except BaseException as e:  # noqa
            msg = str(e)
            res = "EXC %s: %s" % (type(e).__name__, msg.replace("\n", "\\n"))
    ws = sorted("%s: %s" % (x.category.__name__, x.message) for x in w)
    digest = hashlib.sha256(res.encode("utf-8")).hexdigest()[:16]
    emit(label, digest, "warnings=%d" % len(ws))
    if res.startswith("EXC"):
        emit("   ", res[:300])
    for x in ws:
        emit("    W", x)
    return res


class NoSeek(io.RawIOBase):
    """A readable byte stream that cannot seek (like a socket file)."""

    def __init__(self, data):
        self._b = io.BytesIO(data)

    def readable(self):
        return True

    def readinto(self, b):
        return self._b.readinto(b)


tmpdir = "/tmp/twin7/out/CB/equiv_tmp"
if os.path.isdir(tmpdir):
    import shutil as _sh

    _sh.rmtree(tmpdir)
os.mkdir(tmpdir)


def all_entry_points(name, text):
    data = text.encode("utf-8")
    path = os.path.join(tmpdir, name + ".xml")
    with open(path, "wb") as f:
        f.write(data)
    r = []
    r.append(run(name + "/bytes", lambda: ProvXMLSerializer().deserialize(io.BytesIO(data))))
    r.append(run(name + "/text", lambda: ProvXMLSerializer().deserialize(io.StringIO(text))))
    r.append(run(name + "/noseek", lambda: ProvXMLSerializer().deserialize(NoSeek(data))))
    r.append(run(name + "/buffered", lambda: ProvXMLSerializer().deserialize(io.BufferedReader(NoSeek(data)))))
    r.append(run(name + "/path", lambda: ProvDocument.deserialize(path, format="xml")))
    r.append(run(name + "/path-direct", lambda: ProvXMLSerializer().deserialize(path)))
    r.append(run(name + "/content-str", lambda: ProvDocument.deserialize(content=text, format="xml")))
    r.append(run(name + "/content-bytes", lambda: ProvDocument.deserialize(content=data, format="xml")))
    r.append(run(name + "/kwargs", lambda: ProvDocument.deserialize(content=text, format="xml", foo=1)))

    def textfile():
        with open(path, "r", encoding="utf-8") as f:
            return ProvDocument.deserialize(f, format="xml")

    r.append(run(name + "/textfile", textfile))
    r.append(run(name + "/read-path", lambda: prov.read(path)))
    r.append(run(name + "/read-path-fmt", lambda: prov.read(path, format="XML")))
    r.append(run(name + "/read-stream", lambda: prov.read(io.BytesIO(data))))
    r.append(run(name + "/read-textstream", lambda: prov.read(io.StringIO(text))))
    emit("   distinct results", len(set(r)))

    # partially consumed streams: the reader starts where the stream stands
    s = io.BytesIO(b"   " + data)
    s.read(3)
    run(name + "/offset-bytes", lambda: ProvXMLSerializer().deserialize(s))
    emit("   pos after", s.tell(), s.closed)
    t = io.StringIO("   " + text)
    t.read(3)
    run(name + "/offset-text", lambda: ProvXMLSerializer().deserialize(t))
    emit("   pos after", t.tell(), t.closed)


for name in sorted(CASES):
    all_entry_points(name, CASES[name])

# a latin-1 encoded byte stream with a matching declaration
lat = CASES["latin1_decl"].encode("latin-1")
run("latin1/bytes", lambda: ProvXMLSerializer().deserialize(io.BytesIO(lat)))
run("latin1/content-bytes", lambda: ProvDocument.deserialize(content=lat, format="xml"))

# the example files of the test-suite
for path in sorted(glob.glob(os.path.join(HERE, "*.xml"))):
    base = os.path.basename(path)
    with open(path, "rb") as f:
        data = f.read()
    run("file/" + base + "/path", lambda: ProvDocument.deserialize(path, format="xml"))
    run("file/" + base + "/bytes", lambda: ProvXMLSerializer().deserialize(io.BytesIO(data)))
    run("file/" + base + "/text", lambda: ProvXMLSerializer().deserialize(io.StringIO(data.decode("utf-8"))))
    run("file/" + base + "/read", lambda: prov.read(path))

# deserialize_subtree / _extract_attributes / xml_qname_to_QualifiedName directly
for name in sorted(CASES):
    try:
        root = etree.fromstring(CASES[name].encode("utf-8"))
    except Exception as e:  # noqa
        emit("direct", name, "unparsable", type(e).__name__)
        continue

    def subtree():
        d = ProvDocument()
        res = ProvXMLSerializer().deserialize_subtree(root, d)
        assert res is d
        return d

    run("subtree/" + name, subtree)
    for el in root.iter():
        if not isinstance(el.tag, str):
            continue
        with warnings.catch_warnings(record=True) as w:
            warnings.simplefilter("always")
            try:
                attrs = _extract_attributes(el)
                desc = [
                    (k.uri, k.namespace.prefix, type(v).__name__, repr(v), getattr(v, "uri", None))
                    for k, v in attrs
                ]
            except Exception as e:  # noqa
                desc = "EXC %s: %s" % (type(e).__name__, e)
        emit("attrs", name, el.tag, desc, sorted(str(x.message) for x in w))
        for q in (
            "prov:x", "xsd:string", "ex:a", "ex:a:b", "zz:a", "plain", "", ":", ":x", "x:",
            "in:e", "p2:Plan", "x2:int", "xml:lang", "\u00e9x:\u00e9", "a b", "ex: a",
        ):
            try:
                qn = xml_qname_to_QualifiedName(el, q)
                d = (
                    type(qn).__name__, qn.uri, qn.namespace.prefix, qn.namespace.uri,
                    qn.localpart, str(qn),
                    qn.namespace is provxml.XSD, qn.namespace is provxml.PROV,
                )
            except Exception as e:  # noqa
                d = "EXC %s: %s" % (type(e).__name__, e)
            emit("qname", name, el.tag, repr(q), d)

# unusual arguments to xml_qname_to_QualifiedName
el = etree.fromstring(("<prov:document %s xmlns='http://d/'/>" % P).encode())
el2 = etree.fromstring(("<prov:document %s/>" % P).encode())
for q in (None, 5, b"prov:x", ("a",), ("a:b",), ["prov:x"]):
    for e in (el, el2):
        try:
            qn = xml_qname_to_QualifiedName(e, q)
            d = (type(qn).__name__, repr(qn))
        except Exception as ex:  # noqa
            d = "EXC %s: %s" % (type(ex).__name__, ex)
        emit("qname-odd", repr(q), len(e.nsmap), d)

# writing: the documents that could be read are written to every kind of stream
warnings.simplefilter("ignore")
for name in ("attrs_mix", "bundles", "default_ns", "non_ascii_names", "xsd_and_prov_prefixes", "members"):
    try:
        doc = ProvDocument.deserialize(content=CASES[name], format="xml")
    except Exception as e:  # noqa
        emit("write", name, "unreadable", type(e).__name__)
        continue
    for force in (False, True):
        b = io.BytesIO()
        ProvXMLSerializer(doc).serialize(b, force_types=force)
        t = io.StringIO()
        ProvXMLSerializer(doc).serialize(t, force_types=force)
        p = os.path.join(tmpdir, "w_%s_%s.xml" % (name, force))
        doc.serialize(p, format="xml", force_types=force)
        with open(p, "rb") as f:
            filed = f.read()
        emit(
            "write", name, force,
            hashlib.sha256(b.getvalue()).hexdigest()[:16],
            hashlib.sha256(t.getvalue().encode("utf-8")).hexdigest()[:16],
            b.getvalue() == filed, b.getvalue().decode("utf-8") == t.getvalue(),
            b.closed, t.closed,
        )


# warnings turned into errors: the first unknown XML attribute stops the reading
for name in ("attr_orders", "attrs_mix"):
    root = etree.fromstring(CASES[name].encode("utf-8"))
    with warnings.catch_warnings():
        warnings.simplefilter("error")
        for el in root.iter():
            try:
                r = [(k.uri, repr(v)) for k, v in _extract_attributes(el)]
            except Exception as e:  # noqa
                r = "EXC %s: %s" % (type(e).__name__, e)
            emit("attrs-werror", name, el.tag, r)
        try:
            r = describe(ProvDocument.deserialize(content=CASES[name], format="xml"))
        except Exception as e:  # noqa
            r = "EXC %s: %s" % (type(e).__name__, e)
        emit("doc-werror", name, r[:300])
# an element without children, called repeatedly; results are fresh lists
leaf = etree.fromstring(("<prov:entity %s/>" % P).encode())
a1 = _extract_attributes(leaf)
a2 = _extract_attributes(leaf)
emit("leaf", a1, a2, a1 is a2)
root = etree.fromstring(CASES["attr_orders"].encode("utf-8"))
a1 = _extract_attributes(root[0])
a1.append("x")
a2 = _extract_attributes(root[0])
emit("fresh", len(a1), len(a2), a1[:-1] == a2)

import shutil

shutil.rmtree(tmpdir)
print("\n".join(out))
print("TOTAL", len(out), hashlib.sha256("\n".join(out).encode("utf-8")).hexdigest())
