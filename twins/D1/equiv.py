"""Differential script for refactoring 1 (ProvRecord.get_provn: extract helper)."""
import os
import sys

if os.environ.get("PYTHONHASHSEED") != "0":
    # set iteration order of attribute values must be reproducible
    env = dict(os.environ, PYTHONHASHSEED="0")
    os.execve(sys.executable, [sys.executable] + sys.argv, env)

import datetime
import hashlib

from prov.model import ProvDocument, Literal, Identifier, PROV, XSD_INT, XSD_ANYURI
from prov.tests import examples

out = []


def emit(tag, value):
    out.append("%s: %r" % (tag, value))


d = ProvDocument()
d.add_namespace("ex", "http://example.org/")
d.set_default_namespace("http://default.example/")

e0 = d.entity("ex:e0")  # no attributes at all
e1 = d.entity(
    "ex:e1",
    {
        "prov:label": "simple",
        "ex:str": 'quote " and backslash \\ here',
        "ex:multi": "line one\nline two",
        "ex:empty": "",
        "ex:int": 42,
        "ex:float": 1.5,
        "ex:bool": True,
        "ex:boolF": False,
        "ex:dt": datetime.datetime(2020, 2, 29, 12, 30, 1, 500),
        "ex:uri": Identifier("http://example.org/some uri?x=1&y='2'"),
        "ex:qn": PROV["Person"],
        "ex:lit": Literal("10", XSD_INT),
        "ex:lang": Literal("bonjour", langtag="fr"),
        "ex:weird": Literal("abc", "ex:customType"),
        "ex:unicode": "café ☃ \U0001f600",
    },
)
e2 = d.entity(
    "ex:e2",
    [
        ("prov:type", "ex:T1"),
        ("prov:type", PROV["Plan"]),
        ("prov:type", "plain string type"),
        ("ex:rep", 1),
        ("ex:rep", 2),
        ("ex:rep", 1),
        ("prov:value", 3.0),
        ("prov:location", "somewhere, [else]"),
    ],
)
a1 = d.activity("ex:a1")
a2 = d.activity("ex:a2", "2011-11-16T16:05:00", None, {"ex:k": "v"})
a3 = d.activity(
    "a3", datetime.datetime(2000, 1, 1), datetime.datetime(2000, 1, 2, 3, 4, 5)
)
ag = d.agent("ex:ag", {"prov:type": PROV["Person"], "ex:name": "Al\tice"})

rels = [
    d.generation(e1),
    d.generation(e1, a1),
    d.generation(e1, a1, "2012-01-01T00:00:00", "ex:gen1", {"ex:role": "out"}),
    d.usage(a1, e0, identifier="ex:use1"),
    d.usage(a1),
    d.communication(a2, a1),
    d.start(a1, e0, a2, datetime.datetime(1999, 12, 31, 23, 59, 59)),
    d.end(a1, other_attributes=[("ex:x", "1"), ("ex:x", "2")]),
    d.invalidation(e1, time="2013-03-03"),
    d.attribution(e1, ag),
    d.association(a1, ag, e2, "ex:assoc", {"prov:role": "boss"}),
    d.association(a1),
    d.delegation(ag, "ex:other", a1),
    d.influence(e1, e2),
    d.derivation(e1, e2, a1, "ex:gen1", "ex:use1", "ex:der", {"ex:w": 0.5}),
    d.revision(e1, e2),
    d.quotation(e1, e2, identifier="ex:q"),
    d.primary_source(e1, e2),
    d.specialization(e1, e2),
    d.alternate(e1, e2),
    d.membership(e2, e1),
]
b = d.bundle("ex:bundle1")
b.add_namespace("other", "http://other.example/#")
be = b.entity("other:inner", {"other:a": "b", "prov:label": Literal("lbl", langtag="en")})
rels.append(b.specialization(be, "ex:e1"))
rels.append(d.mention("ex:e1", "ex:inner", "ex:bundle1"))

for rec in [e0, e1, e2, a1, a2, a3, ag, be] + rels:
    emit("provn", rec.get_provn())
    emit("str", str(rec))
    # get_provn must not mutate the record
    emit("attrs-after", sorted(repr(x) for x in rec.attributes))
    emit("keys-after", [str(k) for k in rec._attributes])

emit("doc", d.get_provn())
emit("bundle", b.get_provn())

# the library's own example documents
for name, fn in sorted(examples.tests):
    doc = fn()
    emit("example " + name, doc.get_provn())
    for rec in doc.get_records():
        emit("example-rec " + name, rec.get_provn())


# a value whose provn_representation raises AttributeError internally and one
# raising a different exception
class Odd(object):
    def __init__(self, mode):
        self.mode = mode

    def provn_representation(self):
        if self.mode == "attr":
            raise AttributeError("inner")
        raise RuntimeError("boom")

    def __str__(self):
        return "Odd<%s>" % self.mode

    def __hash__(self):
        return hash(self.mode)

    def __eq__(self, other):
        return isinstance(other, Odd) and other.mode == self.mode


o1 = d.entity("ex:odd1", {"ex:o": Odd("attr")})
emit("odd attr", o1.get_provn())
o2 = d.entity("ex:odd2", {"ex:o": Odd("rt")})
try:
    emit("odd rt", o2.get_provn())
except Exception as exc:
    emit("odd rt exc", (type(exc).__name__, str(exc)))

text = "\n".join(out)
print(text)
print("DIGEST", hashlib.sha256(text.encode("utf-8")).hexdigest())
