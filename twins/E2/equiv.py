import datetime
import hashlib
import io
import logging
import os
import sys
import tempfile
import traceback

# attribute sets iterate in hash order: pin the hash seed so that the
# order-sensitive dumps below are reproducible from run to run
if os.environ.get("PYTHONHASHSEED") != "0":
    os.environ["PYTHONHASHSEED"] = "0"
    os.execv(sys.executable, [sys.executable] + sys.argv)

import prov
from prov.model import (
    ProvBundle,
    ProvDocument,
    ProvException,
    ProvEntity,
    ProvActivity,
    ProvAgent,
    ProvRelation,
    ProvElement,
    Namespace,
    Literal,
    PROV_ENTITY,
    PROV_ACTIVITY,
    PROV_GENERATION,
    PROV_TYPE,
    PROV_LABEL,
)
from prov.tests import examples

logging.disable(logging.NOTSET)

_LINES = []


def emit(tag, value):
    text = "%s: %s" % (tag, value)
    _LINES.append(text)
    print(text)


def digest():
    h = hashlib.sha256("\n".join(_LINES).encode("utf-8")).hexdigest()
    print("DIGEST %s (%d lines)" % (h, len(_LINES)))


def attempt(tag, fn):
    """Run fn, emit result or exception type+message deterministically."""
    try:
        res = fn()
    except BaseException as e:  # noqa
        emit(tag, "EXC %s: %s" % (type(e).__name__, e))
        return None
    emit(tag, "OK %s" % (describe(res),))
    return res


def rec_key(r):
    return r.get_provn()


def describe(x):
    if isinstance(x, ProvDocument):
        return "DOC[%s]" % hashlib.sha256(x.get_provn().encode("utf-8")).hexdigest()[:16]
    if isinstance(x, ProvBundle):
        return "BUNDLE[%s|%s]" % (
            x.identifier,
            hashlib.sha256(x.get_provn().encode("utf-8")).hexdigest()[:16],
        )
    if isinstance(x, (list, tuple)):
        return "%s(%s)" % (type(x).__name__, ", ".join(describe(i) for i in x))
    if hasattr(x, "get_provn"):
        return "REC<%s>" % x.get_provn()
    if isinstance(x, (str, bytes, int, float, bool, type(None))):
        return repr(x)
    return "%s:%r" % (type(x).__name__, x)


def dump_bundle(tag, b):
    """Full structural dump of a bundle/document (order sensitive)."""
    emit(tag + ".repr", repr(b))
    emit(tag + ".identifier", repr(b.identifier))
    emit(tag + ".is_doc", (b.is_document(), b.is_bundle(), b.has_bundles()))
    emit(tag + ".default_ns", repr(b.default_ns_uri))
    emit(
        tag + ".registered_ns",
        [(n.prefix, n.uri) for n in b.get_registered_namespaces()],
    )
    emit(tag + ".namespaces_sorted", sorted((n.prefix, n.uri) for n in b.namespaces))
    emit(tag + ".records", [rec_key(r) for r in b.records])
    emit(tag + ".get_records", [rec_key(r) for r in b.get_records()])
    emit(
        tag + ".record_attrs",
        [
            (r.get_type().localpart, str(r.identifier), [(str(k), repr(v)) for k, v in r.attributes])
            for r in b._records
        ],
    )
    emit(
        tag + ".id_map",
        [(str(k), [rec_key(r) for r in v]) for k, v in b._id_map.items()],
    )
    emit(tag + ".record_bundle_is_self", all(r.bundle is b for r in b._records))
    emit(tag + ".provn", b.get_provn())
    if b.is_document():
        emit(tag + ".bundle_ids", [str(k) for k in b._bundles.keys()])
        for i, sub in enumerate(b.bundles):
            emit(tag + ".sub%d.doc_is_parent" % i, sub.document is b)
            emit(tag + ".sub%d.ns_parent" % i, sub._namespaces.parent is b._namespaces)
            dump_bundle(tag + ".sub%d" % i, sub)


EX = Namespace("ex", "http://example.org/")
OTHER = Namespace("other", "http://other.example/ns#")
WEIRD = Namespace("w", "http://weird.example/a b/é?x=1&y=<2>#")


def doc_empty():
    return ProvDocument()


def doc_simple():
    d = ProvDocument()
    d.add_namespace(EX)
    d.entity("ex:e1", {"prov:label": "hello", "ex:n": 1})
    d.activity("ex:a1", datetime.datetime(2020, 1, 2, 3, 4, 5), None, {"prov:type": EX["T"]})
    d.wasGeneratedBy("ex:e1", "ex:a1", datetime.datetime(2020, 1, 2, 3, 4, 6))
    d.agent("ex:ag", [("prov:type", PROV_TYPE), ("ex:s", "x"), ("ex:s", "y")])
    d.wasAssociatedWith("ex:a1", "ex:ag", identifier="ex:assoc1")
    return d


def doc_repeated_ids():
    d = ProvDocument()
    d.set_default_namespace("http://default.example/")
    d.add_namespace(EX)
    d.add_namespace(OTHER)
    d.entity("ex:e1", {"ex:a": 1})
    d.entity("ex:e1", {"ex:b": 2, "ex:a": 1})
    d.entity("ex:e1")
    d.activity("ex:e1")  # same identifier, different type
    d.entity("e-default", {"prov:label": Literal("bonjour", langtag="fr")})
    d.entity("e-default", {"prov:label": Literal("hello", langtag="en")})
    d.wasDerivedFrom("ex:e1", "e-default", identifier="ex:d1", other_attributes={"ex:x": "1"})
    d.wasDerivedFrom("ex:e1", "e-default", identifier="ex:d1", other_attributes={"ex:y": "2"})
    d.wasDerivedFrom("ex:e1", "e-default")
    d.wasDerivedFrom("ex:e1", "e-default")
    d.entity("other:z", {"other:q": "ünïcode \"quoted\" \\ back\nnewline"})
    return d


def doc_bundles():
    d = ProvDocument()
    d.add_namespace(EX)
    d.entity("ex:top", {"ex:v": 1.5})
    b1 = d.bundle("ex:b1")
    b1.add_namespace(OTHER)
    b1.entity("ex:e1", {"other:p": True})
    b1.entity("ex:e1", {"other:p": False})
    b1.activity("other:act")
    b1.used("other:act", "ex:e1")
    b2 = d.bundle("ex:b2")
    b2.set_default_namespace("http://b2.default/")
    b2.entity("in-default")
    b2.entity("ex:top", {"ex:v": 2})
    b3 = d.bundle("ex:empty")
    d.entity("ex:b1", {"prov:type": PROV["Bundle"]})
    return d


def doc_unusual():
    d = ProvDocument()
    d.add_namespace(WEIRD)
    d.add_namespace("ex", "http://example.org/")
    d.entity("w:a-b.c", {"w:k": "", "w:l": Literal("", langtag="en"), "w:m": "  spaces  "})
    d.entity("ex:e/with/slash")
    try:
        d.entity("http://full.uri.example/thing#frag")
    except ProvException as e:
        pass
    d.activity("ex:act", "2011-11-16T16:05:00", "2011-11-16T16:06:00.123456")
    d.specializationOf("w:a-b.c", "ex:e/with/slash")
    d.hadMember("ex:e/with/slash", "w:a-b.c")
    return d


PROV = Namespace("prov", "http://www.w3.org/ns/prov#")


def standalone_bundle():
    b = ProvBundle(identifier=EX["sb"], namespaces=[EX, OTHER])
    b.entity("ex:x", {"other:k": 3})
    b.entity("ex:x", {"other:k": 4})
    b.agent("other:ag")
    return b


def anonymous_bundle():
    b = ProvBundle()
    b.add_namespace(EX)
    b.entity("ex:anon")
    return b


BUILDERS = [
    ("empty", doc_empty),
    ("simple", doc_simple),
    ("repeated", doc_repeated_ids),
    ("bundles", doc_bundles),
    ("unusual", doc_unusual),
    ("primer", examples.primer_example),
    ("primer_alt", examples.primer_example_alternate),
    ("w3c_publication_1", examples.w3c_publication_1),
    ("w3c_publication_2", examples.w3c_publication_2),
    ("bundles1", examples.bundles1),
    ("bundles2", examples.bundles2),
    ("collections", examples.collections),
    ("datatypes", examples.datatypes),
    ("long_literals", examples.long_literals),
]

# ---------------------------------------------------------------------------
# Refactoring 2: ProvBundle.new_record - attribute collection extracted into
# a helper
# ---------------------------------------------------------------------------
def gen_attrs():
    yield ("ex:g1", 1)
    yield ("ex:g2", "two")


class Weird(object):
    """Truthy, not a dict, iterable."""

    def __iter__(self):
        return iter([("ex:w", "weird")])


class DictSub(dict):
    pass


ATTR_CASES = [
    ("none", None),
    ("empty_dict", {}),
    ("empty_list", []),
    ("empty_tuple", ()),
    ("dict", {"ex:a": 1, "ex:b": "b"}),
    ("dict_sub", DictSub({"ex:a": 1})),
    ("list", [("ex:a", 1), ("ex:a", 2), ("ex:a", 1)]),
    ("tuple", (("ex:t", EX["v"]),)),
    ("gen", "GEN"),
    ("weird", Weird()),
    ("set", {("ex:s", 1)}),
    ("int", 5),
    ("string", "ab"),
    ("bad_pairs", [("ex:a",)]),
    ("none_value", {"ex:n": None}),
    ("literal", {"prov:label": Literal("x", langtag="en"), "prov:type": "T"}),
    ("formal", {"prov:startTime": "2020-01-01T00:00:00"}),
    ("qn_keys", {EX["k"]: "v", PROV_LABEL: "lab"}),
    ("unknown_prefix", {"nope:a": 1}),
]
TYPES = [PROV_ENTITY, PROV_ACTIVITY, PROV_GENERATION]


def resolve(v):
    return gen_attrs() if isinstance(v, str) and v == "GEN" else v


for tname, rtype in [(t.localpart, t) for t in TYPES]:
    for an, av in ATTR_CASES:
        for on, ov in ATTR_CASES:
            b = ProvBundle(identifier=EX["nb"], namespaces=[EX])
            tag = "new_record.%s.%s.%s" % (tname, an, on)
            r = attempt(
                tag,
                lambda: b.new_record(rtype, "ex:id", resolve(av), resolve(ov)),
            )
            if r is not None:
                emit(tag + ".attrs", [(str(k), repr(v)) for k, v in r.attributes])
                emit(tag + ".same_obj", b._records[-1] is r and r.bundle is b)
            emit(tag + ".state", ([rec_key(x) for x in b._records], [(str(k), len(v)) for k, v in b._id_map.items()]))

b = ProvBundle(namespaces=[EX])
attempt("new_record.bad_type", lambda: b.new_record(EX["NoSuchType"], "ex:x"))
attempt("new_record.none_type", lambda: b.new_record(None, "ex:x"))
attempt("new_record.none_id_entity", lambda: b.new_record(PROV_ENTITY, None))
attempt("new_record.none_id_relation", lambda: b.new_record(PROV_GENERATION, None, {"prov:entity": "ex:e"}))
attempt("new_record.unknown_prefix_id", lambda: b.new_record(PROV_ENTITY, "zzz:x"))
attempt("new_record.empty_id", lambda: b.new_record(PROV_ENTITY, ""))
attempt("new_record.kw", lambda: b.new_record(record_type=PROV_ENTITY, identifier="ex:kw", other_attributes={"ex:o": 1}))
attempt("new_record.kw_attrs", lambda: b.new_record(PROV_ACTIVITY, "ex:kw2", attributes=[("prov:startTime", "2001-02-03")]))
dump_bundle("new_record.final", b)

# the callers of new_record
for name, fn in BUILDERS:
    d = fn()
    dump_bundle("built." + name, d)
    c = ProvDocument()
    for r in d.get_records():
        c.add_record(r)
    dump_bundle("copied." + name, c)
digest()
