"""Differential script for prov.graph: prov_to_graph / graph_to_prov."""
import os
import sys

if os.environ.get("PYTHONHASHSEED") != "0":
    os.environ["PYTHONHASHSEED"] = "0"
    os.execv(sys.executable, [sys.executable] + sys.argv)

import datetime
import hashlib

import networkx as nx

import prov.graph as pg
from prov.graph import prov_to_graph, graph_to_prov
from prov.model import ProvDocument, Namespace, PROV, PROV_ATTR_AGENT, ProvEntity
from prov.tests import examples

EX = Namespace("ex", "http://example.org/")


def custom_doc(with_bundles=True):
    d = ProvDocument()
    d.add_namespace(EX)
    e1 = d.entity("ex:e1", {"prov:label": "one", "ex:n": 1})
    d.entity("ex:e1", {"ex:n": 2})  # repeated identifier
    a1 = d.activity("ex:a1", datetime.datetime(2011, 1, 1))
    ag = d.agent("ex:ag")
    d.wasGeneratedBy(e1, a1, None, "ex:g1")
    d.wasGeneratedBy("ex:e2", None)  # one end missing
    d.used(a1, "ex:unknownEntity")  # inferred node
    d.used("ex:unknownActivity", "ex:unknownEntity")  # both inferred, one reused
    d.wasAttributedTo("ex:ghost", "ex:ghostAgent")
    d.wasAttributedTo("ex:ghost", ag)
    d.wasInfluencedBy(e1, ag)  # known ends, attributes that cannot be inferred
    d.wasInfluencedBy("ex:nowhere", ag)  # KeyError on first end
    d.wasInfluencedBy(e1, "ex:nowhere2")  # KeyError on second end
    d.wasAssociatedWith(a1, None, "ex:plan")
    d.wasAssociatedWith(a1, ag, "ex:plan")
    d.actedOnBehalfOf("ex:ag2", ag, a1)
    d.wasStartedBy(a1, "ex:trigger", "ex:starter")
    d.wasEndedBy(a1, None, "ex:ender")
    d.wasDerivedFrom("ex:e3", e1, a1)
    d.specializationOf("ex:e3", e1)
    d.alternateOf(e1, e1)  # self loop
    d.alternateOf(e1, e1)  # duplicate
    d.mentionOf("ex:e3", e1, "ex:b1")
    d.hadMember("ex:coll", e1)
    d.wasInformedBy(a1, "ex:a0")
    d.wasInvalidatedBy(e1, a1)
    if with_bundles:
        b = d.bundle("ex:b1")
        b.entity("ex:e1")
        b.wasGeneratedBy("ex:e1", "ex:inbundle")
    return d


def rec_str(r):
    return "%s|%s|bundle=%s" % (type(r).__name__, r.get_provn(), r.bundle is not None)


def describe(g):
    lines = []
    for n in g.nodes():
        lines.append("N " + rec_str(n))
    for u, v, k, data in g.edges(keys=True, data=True):
        lines.append(
            "E %s -> %s [%s] %s"
            % (u.identifier, v.identifier, k, sorted((kk, rec_str(vv)) for kk, vv in data.items()))
        )
    # identity checks: every edge end is one of the graph nodes (same object)
    ids = {id(n) for n in g.nodes()}
    lines.append("ends-are-nodes %s" % all(id(u) in ids and id(v) in ids for u, v in g.edges()))
    return lines


def show(name, lines):
    text = "\n".join(lines)
    print("==", name, len(lines), hashlib.sha256(text.encode()).hexdigest())
    return text


docs = [("custom", custom_doc()), ("custom-nobundle", custom_doc(False)), ("empty", ProvDocument())]
docs += [(name, fn()) for name, fn in examples.tests]
docs.append(("primer_alt", examples.primer_example_alternate()))

for name, doc in docs:
    g = prov_to_graph(doc)
    text = show(name + " graph", describe(g))
    if name.startswith("custom"):
        print(text)
    back = graph_to_prov(g)
    provn = back.get_provn()
    print("   back", len(back.get_records()), hashlib.sha256(provn.encode()).hexdigest(),
          "roundtrip-equal", back == doc)
    if name.startswith("custom"):
        print(provn)

print("== patched table: agent class cannot be inferred")
saved = pg.INFERRED_ELEMENT_CLASS.pop(PROV_ATTR_AGENT)
try:
    g = prov_to_graph(custom_doc(False))
    print(show("patched graph", describe(g)))
finally:
    pg.INFERRED_ELEMENT_CLASS[PROV_ATTR_AGENT] = saved

print("== bundle input")
try:
    g = prov_to_graph(list(custom_doc().bundles)[0])
    print(show("bundle graph", describe(g)))
except Exception as exc:
    print(type(exc).__name__, exc)

print("== graph_to_prov on hand-made graphs")
d = custom_doc(False)
recs = list(d.get_records())
g = nx.MultiDiGraph()
g.add_node("just a string")
g.add_node(42)
g.add_node(recs[0])
orphan = ProvEntity(None, EX["orphan"])
g.add_node(orphan)
g.add_edge(recs[0], orphan)  # no relation key
g.add_edge(recs[0], orphan, relation="not a record")
g.add_edge(recs[0], orphan, relation=recs[4])
g.add_edge("just a string", 42, relation=recs[5], other=1)
g.add_edge(orphan, orphan, relation=orphan)
back = graph_to_prov(g)
print(back.get_provn())
print(graph_to_prov(nx.MultiDiGraph()).get_provn())
print(graph_to_prov(g=nx.DiGraph()).get_provn())
for bad in (None, "x"):
    try:
        graph_to_prov(bad)
    except Exception as exc:
        print(type(exc).__name__, exc)
    try:
        prov_to_graph(bad)
    except Exception as exc:
        print(type(exc).__name__, exc)
