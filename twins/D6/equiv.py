"""Differential script for refactoring 6 (positional -> keyword arguments at call sites):
convenience methods of ProvEntity / ProvActivity / ProvAgent that forward to the
ProvBundle factory methods (generation, invalidation, derivation, attribution, usage,
communication, start, end, association, delegation)."""
import os
import sys

if os.environ.get("PYTHONHASHSEED") != "0":
    env = dict(os.environ, PYTHONHASHSEED="0")
    os.execve(sys.executable, [sys.executable] + sys.argv, env)

import datetime
import hashlib

from prov.model import ProvDocument, ProvBundle, Literal, PROV
from prov.constants import XSD_INT

out = []


def emit(tag, value):
    out.append("%s: %r" % (tag, value))


def show(v):
    return (type(v).__name__, str(v))


def snapshot(bundle):
    res = []
    for rec in bundle.get_records():
        res.append((
            type(rec).__name__,
            str(rec.identifier),
            [(str(k), sorted(show(v) for v in vs)) for k, vs in rec._attributes.items()],
            rec.get_provn(),
        ))
    return res


def call(tag, bundle, fn, *args, **kwargs):
    before = len(bundle.get_records())
    try:
        res = fn(*args, **kwargs)
        emit(tag, ("returns self", res is fn.__self__, "new records", len(bundle.get_records()) - before))
    except Exception as exc:  # noqa
        emit(tag + " !exc", (type(exc).__name__, str(exc), "new records", len(bundle.get_records()) - before))
    for item in snapshot(bundle)[before:]:
        emit(tag + " ->", item)


T1 = datetime.datetime(2012, 3, 4, 5, 6, 7)
T2 = "2013-01-01T00:00:00+01:00"


def exercise(bundle, label):
    e1 = bundle.entity("ex:e1")
    e2 = bundle.entity("ex:e2", {"prov:label": "second"})
    a1 = bundle.activity("ex:a1")
    a2 = bundle.activity("ex:a2", T1, T2)
    ag1 = bundle.agent("ex:ag1")
    ag2 = bundle.agent("ex:ag2", {"prov:type": PROV["Person"]})
    attrs_dict = {"ex:role": "r", "prov:label": Literal("lbl", langtag="en"), "ex:n": Literal("5", XSD_INT)}
    attrs_list = [("ex:k", "v1"), ("ex:k", "v2"), ("prov:type", "ex:T"), ("ex:none", None)]
    t = label + " "

    # ProvEntity
    call(t + "wasGeneratedBy(a1)", bundle, e1.wasGeneratedBy, a1)
    call(t + "wasGeneratedBy(str, T1, dict)", bundle, e1.wasGeneratedBy, "ex:a1", T1, attrs_dict)
    call(t + "wasGeneratedBy(None, T2)", bundle, e1.wasGeneratedBy, None, T2)
    call(t + "wasGeneratedBy(kw)", bundle, e1.wasGeneratedBy, attributes=attrs_list, time=T1, activity=a2)
    call(t + "wasGeneratedBy(bad time)", bundle, e1.wasGeneratedBy, a1, "not a time")
    call(t + "wasGeneratedBy(bad qname)", bundle, e1.wasGeneratedBy, "zz:unknown")
    call(t + "wasGeneratedBy(bad attrs)", bundle, e1.wasGeneratedBy, a1, None, {"zz:bad": 1})
    call(t + "wasInvalidatedBy(a1)", bundle, e1.wasInvalidatedBy, a1)
    call(t + "wasInvalidatedBy(str, T2, list)", bundle, e1.wasInvalidatedBy, "ex:a2", T2, attrs_list)
    call(t + "wasInvalidatedBy(None)", bundle, e1.wasInvalidatedBy, None)
    call(t + "wasDerivedFrom(e2)", bundle, e1.wasDerivedFrom, e2)
    call(t + "wasDerivedFrom(all)", bundle, e1.wasDerivedFrom, "ex:e2", a1, "ex:g", "ex:u", attrs_dict)
    call(t + "wasDerivedFrom(kw)", bundle, e1.wasDerivedFrom, usedEntity=e2, usage="ex:u", attributes=attrs_list)
    call(t + "wasDerivedFrom(self)", bundle, e1.wasDerivedFrom, e1, None, None, None, None)
    call(t + "wasAttributedTo(ag1)", bundle, e1.wasAttributedTo, ag1)
    call(t + "wasAttributedTo(str, dict)", bundle, e1.wasAttributedTo, "ex:ag2", attrs_dict)
    call(t + "wasAttributedTo(None)", bundle, e1.wasAttributedTo, None)
    call(t + "alternateOf", bundle, e1.alternateOf, e2)
    call(t + "specializationOf", bundle, e1.specializationOf, "ex:e2")
    call(t + "hadMember", bundle, e1.hadMember, e2)

    # ProvActivity
    call(t + "used(e1)", bundle, a1.used, e1)
    call(t + "used(str, T1, dict)", bundle, a1.used, "ex:e2", T1, attrs_dict)
    call(t + "used(None, None, list)", bundle, a1.used, None, None, attrs_list)
    call(t + "used(kw)", bundle, a1.used, time=T2, entity=e2)
    call(t + "wasInformedBy(a2)", bundle, a1.wasInformedBy, a2)
    call(t + "wasInformedBy(str, list)", bundle, a1.wasInformedBy, "ex:a2", attrs_list)
    call(t + "wasInformedBy(None)", bundle, a1.wasInformedBy, None)
    call(t + "wasStartedBy(e1)", bundle, a1.wasStartedBy, e1)
    call(t + "wasStartedBy(all)", bundle, a1.wasStartedBy, "ex:e1", a2, T1, attrs_dict)
    call(t + "wasStartedBy(kw)", bundle, a1.wasStartedBy, None, time=T2, starter="ex:a2")
    call(t + "wasEndedBy(e1)", bundle, a1.wasEndedBy, e1)
    call(t + "wasEndedBy(all)", bundle, a1.wasEndedBy, "ex:e2", a2, T2, attrs_list)
    call(t + "wasEndedBy(kw)", bundle, a1.wasEndedBy, None, ender=a2, attributes={"ex:x": 1.5})
    call(t + "wasAssociatedWith(ag1)", bundle, a1.wasAssociatedWith, ag1)
    call(t + "wasAssociatedWith(all)", bundle, a1.wasAssociatedWith, "ex:ag2", e2, attrs_dict)
    call(t + "wasAssociatedWith(None, plan)", bundle, a1.wasAssociatedWith, None, "ex:plan")

    # ProvAgent
    call(t + "actedOnBehalfOf(ag2)", bundle, ag1.actedOnBehalfOf, ag2)
    call(t + "actedOnBehalfOf(all)", bundle, ag1.actedOnBehalfOf, "ex:ag2", a1, attrs_dict)
    call(t + "actedOnBehalfOf(kw)", bundle, ag1.actedOnBehalfOf, attributes=attrs_list, responsible=ag1)
    call(t + "actedOnBehalfOf(None)", bundle, ag1.actedOnBehalfOf, None)

    # chaining
    chained = e2.wasGeneratedBy(a2).wasAttributedTo(ag2).wasDerivedFrom(e1)
    emit(t + "chained is e2", chained is e2)
    chained = a2.used(e1).wasAssociatedWith(ag1).wasInformedBy(a1).wasStartedBy(e1).wasEndedBy(e2)
    emit(t + "chained is a2", chained is a2)

    # wrong arity / unknown keywords still fail the same way
    call(t + "too many args", bundle, e1.wasAttributedTo, ag1, None, None)
    call(t + "unknown kw", bundle, a1.used, e1, identifier="ex:id")
    call(t + "missing arg", bundle, e1.wasGeneratedBy)


d = ProvDocument()
d.add_namespace("ex", "http://example.org/")
exercise(d, "doc")
b = d.bundle("ex:bundle")
b.add_namespace("ex", "http://example.org/")
exercise(b, "bundle")
standalone = ProvBundle(identifier=None)
standalone.add_namespace("ex", "http://other.example/")
exercise(standalone, "standalone")

# an element living in one bundle creates the relation in its own bundle
e_in_b = b.get_record("ex:e1")[0]
n_doc, n_b = len(d.get_records()), len(b.get_records())
e_in_b.wasGeneratedBy("ex:a1")
emit("created in own bundle", (len(d.get_records()) - n_doc, len(b.get_records()) - n_b))

emit("doc provn", d.get_provn())
emit("standalone provn", standalone.get_provn())
emit("json", d.serialize(format="json", sort_keys=True))
emit("xml", d.serialize(format="xml"))

text = "\n".join(out)
print(text)
print("DIGEST", hashlib.sha256(text.encode("utf-8")).hexdigest())
