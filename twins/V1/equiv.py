# Differential script for refactoring 1 (ProvBundle.get_provn)
import hashlib
from prov.model import ProvDocument, ProvBundle, Namespace
import datetime

out = []
def show(label, fn):
    try:
        r = fn()
        out.append("%s: OK %r" % (label, r))
    except Exception as e:
        out.append("%s: EXC %s %s" % (label, type(e).__name__, e))

def doc_empty():
    return ProvDocument()

def doc_default_only():
    d = ProvDocument()
    d.set_default_namespace("http://example.org/default#")
    d.entity("e1")
    return d

def doc_full():
    d = ProvDocument()
    d.set_default_namespace("http://example.org/d/")
    d.add_namespace("ex", "http://example.org/ex/")
    d.add_namespace("üñí", "http://example.org/uni/é/")
    e = d.entity("ex:e1", {"ex:label": "he said \"hi\"\n", "ex:n": 1})
    a = d.activity("ex:a1", datetime.datetime(2020, 1, 2, 3, 4, 5), None, {"prov:type": "x"})
    d.wasGeneratedBy(e, a)
    d.entity("ex:e1", {"ex:other": 2.5})
    b = d.bundle("ex:b1")
    b.add_namespace("in", "http://example.org/inner/")
    b.entity("in:x")
    b.agent("ex:ag")
    b2 = d.bundle("ex:b2")
    b2.set_default_namespace("http://example.org/b2/")
    b2.entity("y")
    d.bundle("ex:empty")
    return d

show("empty doc", lambda: doc_empty().get_provn())
show("empty doc lvl2", lambda: doc_empty().get_provn(2))
show("default only", lambda: doc_default_only().get_provn())
show("full", lambda: doc_full().get_provn())
show("full lvl1", lambda: doc_full().get_provn(1))
show("bundles each", lambda: [b.get_provn() for b in doc_full().bundles])
show("bundles each lvl3", lambda: [b.get_provn(3) for b in doc_full().bundles])
show("free bundle no id", lambda: ProvBundle().get_provn())
show("free bundle str id", lambda: ProvBundle(identifier="abc").get_provn())
show("free bundle tuple id", lambda: ProvBundle(identifier=("a",)).get_provn())
show("free bundle 2-tuple id", lambda: ProvBundle(identifier=("a", "b")).get_provn())
show("free bundle ns", lambda: ProvBundle(identifier="x", namespaces=[Namespace("p", "http://p/"), Namespace("q q", "urn:q")]).get_provn())
show("odd prefix tuple", lambda: ProvBundle(namespaces=[Namespace(("t", 1), "http://t/")]).get_provn())
show("bytes uri", lambda: ProvBundle(namespaces=[Namespace("by", b"http://by/")]).get_provn())
show("bad indent str", lambda: ProvBundle().get_provn("x"))
show("bad indent float", lambda: doc_full().get_provn(1.5))
show("neg indent", lambda: doc_full().get_provn(-1))
show("bool indent", lambda: doc_full().get_provn(True))
show("str(doc)", lambda: str(doc_full().get_provn()) )
show("serialize provn", lambda: doc_full().serialize(format="provn"))

class Sub(ProvDocument):
    calls = 0
    def is_document(self):
        Sub.calls += 1
        return Sub.calls % 2 == 1
s = Sub(); s.add_namespace("ex", "http://example.org/ex/"); s.entity("ex:e"); s.bundle("ex:b").entity("ex:z")
show("flaky is_document", lambda: (s.get_provn(), Sub.calls))
show("flaky is_document again", lambda: (s.get_provn(1), Sub.calls))

text = "\n".join(out)
print(text)
print("DIGEST", hashlib.sha256(text.encode("utf-8")).hexdigest())
