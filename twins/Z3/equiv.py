"""Differential script for the PROV-XML serializer (prov.serializers.provxml).

Exercises serialize / serialize_bundle / deserialize / deserialize_subtree /
_extract_attributes / _derive_record_label / xml_qname_to_QualifiedName on a
set of representative documents and XML snippets and prints a deterministic
digest (plus the texts themselves) of every result, warning and exception.
"""
import os
import sys

# Record attributes live in sets inside the model, so a few library results
# (which of two specialising prov:type values names the XML element) depend on
# the string hash seed.  Pin it so the digest is reproducible.
if os.environ.get("PYTHONHASHSEED") != "0":
    os.environ["PYTHONHASHSEED"] = "0"
    os.execv(sys.executable, [sys.executable] + sys.argv)

import datetime
import hashlib
import io
import warnings

from lxml import etree

import prov.model as pm
from prov.constants import (
    PROV,
    PROV_TYPE,
    PROV_VALUE,
    PROV_LOCATION,
    PROV_LABEL,
    PROV_ROLE,
    PROV_ENTITY,
    PROV_ACTIVITY,
    PROV_AGENT,
    PROV_MEMBERSHIP,
    PROV_DERIVATION,
    XSD_QNAME,
)
from prov.identifier import Identifier, Namespace, QualifiedName
from prov.serializers import provxml
from prov.serializers.provxml import ProvXMLSerializer

LINES = []


def emit(label, text):
    if isinstance(text, bytes):
        text = text.decode("utf-8")
    digest = hashlib.sha256(text.encode("utf-8")).hexdigest()[:16]
    LINES.append("== %s [%s]" % (label, digest))
    LINES.append(text)


def guarded(label, fn):
    """Run fn, record its result / exception and the warnings it emitted."""
    with warnings.catch_warnings(record=True) as caught:
        warnings.simplefilter("always")
        try:
            res = fn()
            out = "OK " + res
        except Exception as exc:  # noqa
            out = "EXC %s: %s" % (type(exc).__name__, exc)
    for w in caught:
        out += "\nWARN %s: %s" % (w.category.__name__, w.message)
    emit(label, out)


def describe_value(v):
    if isinstance(v, pm.Literal):
        return "Literal(%r, %s, %r)" % (v.value, describe_value(v.datatype), v.langtag)
    if isinstance(v, QualifiedName):
        return "QName(%s|%s|%s)" % (v.namespace.prefix, v.namespace.uri, v.localpart)
    if isinstance(v, Identifier):
        return "Identifier(%s)" % v.uri
    return "%s(%r)" % (type(v).__name__, v)


def describe_bundle(b, indent=""):
    rows = ["%sBUNDLE id=%s" % (indent, describe_value(b.identifier))]
    rows.append(
        "%s namespaces=%s"
        % (indent, sorted((n.prefix, n.uri) for n in b.namespaces))
    )
    dflt = b.get_default_namespace()
    rows.append("%s default=%s" % (indent, dflt.uri if dflt else None))
    for rec in b.get_records():
        rows.append(
            "%s REC %s id=%s"
            % (indent, rec.get_type().localpart, describe_value(rec.identifier))
        )
        # attributes are kept in sets inside the model: sort them for a
        # hash-seed independent listing.
        for row in sorted(
            "%s   %s = %s" % (indent, describe_value(k), describe_value(v))
            for k, v in rec.attributes
        ):
            rows.append(row)
    if isinstance(b, pm.ProvDocument):
        for sub in b.bundles:
            rows.extend(describe_bundle(sub, indent + "    "))
    return rows


# --------------------------------------------------------------------------
# documents to serialize
# --------------------------------------------------------------------------
def doc_empty():
    return pm.ProvDocument()


def doc_rich():
    d = pm.ProvDocument()
    d.set_default_namespace("http://example.org/default/")
    ex = d.add_namespace("ex", "http://example.org/ns#")
    d.add_namespace("o-t.h_er", "urn:other:")
    e1 = d.entity(
        "ex:e1",
        [
            (PROV_TYPE, "a plain string"),
            (PROV_TYPE, ex["Thing"]),
            (PROV_TYPE, PROV["Plan"]),
            (PROV_TYPE, pm.Literal("lit", ex["dt"])),
            (PROV_TYPE, 5),
            (PROV_TYPE, 2.5),
            (PROV_TYPE, True),
            (PROV_TYPE, False),
            (PROV_LABEL, "label"),
            (PROV_LABEL, pm.Literal("Etikett", None, "de")),
            (PROV_LOCATION, "somewhere <&> \u00e9\u4e2d"),
            (PROV_LOCATION, Identifier("http://example.org/loc")),
            (PROV_VALUE, datetime.datetime(2012, 3, 4, 5, 6, 7)),
            (PROV_VALUE, ""),
            (ex["n"], 10),
            (ex["f"], 1.0),
            (ex["b"], True),
            (ex["s"], "prov:startsWithProv"),
            (ex["s2"], ""),
            (ex["q"], ex["qn"]),
            (ex["u"], Identifier("urn:x:y")),
            (ex["t"], datetime.datetime(2001, 1, 1, 0, 0, 0, 123)),
            (ex["time"], datetime.datetime(2001, 1, 1)),
            (ex["big"], 2 ** 40),
            (ex["l"], pm.Literal("5", pm.XSD_INT if hasattr(pm, "XSD_INT") else None)),
            (ex["il"], pm.Literal("chat", PROV["InternationalizedString"], "fr")),
        ],
    )
    d.entity("e_default")
    a1 = d.activity(
        "ex:a1",
        datetime.datetime(2011, 11, 16, 16, 5),
        datetime.datetime(2011, 11, 16, 16, 6, 0, 500),
        {ex["x"]: "y", PROV_TYPE: ex["Edit"]},
    )
    d.activity("ex:a2")
    ag = d.agent("ex:ag", {PROV_TYPE: PROV["Person"], ex["name"]: "Bob"})
    d.agent("ex:org", {PROV_TYPE: PROV["Organization"]})
    d.agent("ex:sw", [(PROV_TYPE, PROV["SoftwareAgent"]), (PROV_TYPE, PROV["Person"])])
    d.entity("ex:coll", {PROV_TYPE: PROV["Collection"]})
    d.entity("ex:empty", {PROV_TYPE: PROV["EmptyCollection"]})
    d.entity("ex:plan", {PROV_TYPE: pm.Literal(PROV["Plan"], XSD_QNAME)})
    d.entity("ex:bundleent", {PROV_TYPE: PROV["Bundle"]})
    d.wasGeneratedBy(e1, a1, datetime.datetime(2012, 1, 1), "ex:gen1", {PROV_ROLE: "r"})
    d.wasGeneratedBy(e1, None, None)
    d.used(a1, e1, None, None, {PROV_ROLE: ex["role"], PROV_LOCATION: "L"})
    d.wasAssociatedWith(a1, ag, "ex:plan", "ex:assoc")
    d.wasAttributedTo(e1, ag)
    d.actedOnBehalfOf(ag, "ex:org", a1)
    d.wasDerivedFrom("ex:e2", e1, a1, None, None, "ex:d1", {PROV_TYPE: PROV["Revision"]})
    d.wasDerivedFrom("ex:e3", e1, other_attributes={PROV_TYPE: PROV["Quotation"]})
    d.wasDerivedFrom("ex:e4", e1, other_attributes={PROV_TYPE: PROV["PrimarySource"]})
    d.wasDerivedFrom(
        "ex:e5",
        e1,
        other_attributes=[(PROV_TYPE, "x"), (PROV_TYPE, PROV["Revision"]), (PROV_TYPE, PROV["Quotation"])],
    )
    d.specializationOf("ex:e2", e1)
    d.alternateOf("ex:e2", e1)
    d.mentionOf("ex:e2", e1, "ex:b1")
    d.hadMember("ex:coll", e1)
    d.hadMember("ex:coll", "ex:e2")
    d.wasInformedBy("ex:a2", a1)
    d.wasStartedBy(a1, e1, "ex:a2", datetime.datetime(2011, 1, 1))
    d.wasEndedBy(a1, None, None, None, "ex:end")
    d.wasInvalidatedBy(e1, a1)
    d.wasInfluencedBy("ex:e2", e1)
    b1 = d.bundle("ex:b1")
    b1.add_namespace("bn", "http://example.org/bundle-ns/")
    b1.entity("bn:inside", {"bn:attr": "v", PROV_TYPE: "T"})
    b1.entity("ex:e1")
    b1.wasDerivedFrom("bn:inside", "ex:e1")
    d.bundle("ex:b2")
    return d


def doc_no_default():
    d = pm.ProvDocument()
    d.add_namespace("ex", "http://example.org/")
    d.entity("ex:e", {"ex:k": "v", "prov:type": "ex:NotAQName"})
    d.entity("ex:e", {"ex:k": "v2"})
    b = d.bundle("ex:b")
    b.set_default_namespace("http://example.org/bdefault/")
    b.entity("inb")
    return d


DOCS = [("empty", doc_empty), ("rich", doc_rich), ("nodefault", doc_no_default)]


def ser_bytes(doc, **kw):
    buf = io.BytesIO()
    ProvXMLSerializer(doc).serialize(buf, **kw)
    return buf.getvalue().decode("utf-8")


def ser_text(doc, **kw):
    buf = io.StringIO()
    ProvXMLSerializer(doc).serialize(buf, **kw)
    return buf.getvalue()


def roundtrip(doc):
    buf = io.BytesIO()
    ProvXMLSerializer(doc).serialize(buf)
    buf.seek(0)
    back = ProvXMLSerializer().deserialize(buf)
    return "\n".join(describe_bundle(back)) + "\nEQUAL=%s" % (back == doc)


for name, mk in DOCS:
    guarded("serialize/bytes/%s" % name, lambda: ser_bytes(mk()))
    guarded("serialize/bytes/force/%s" % name, lambda: ser_bytes(mk(), force_types=True))
    guarded("serialize/text/%s" % name, lambda: ser_text(mk()))
    guarded("serialize/text/force/%s" % name, lambda: ser_text(mk(), force_types=True, extra="ignored"))
    guarded("roundtrip/%s" % name, lambda: roundtrip(mk()))
    guarded(
        "doc.serialize/%s" % name,
        lambda: mk().serialize(format="xml"),
    )


def ser_bundle_only():
    d = doc_rich()
    s = ProvXMLSerializer(d)
    out = []
    root = s.serialize_bundle(d)
    out.append(root.tag + " n=%d" % len(root))
    for b in d.bundles:
        el = s.serialize_bundle(b, force_types=True)
        out.append(etree.tostring(el, pretty_print=True).decode("utf-8"))
        parent = etree.Element("parent")
        el2 = s.serialize_bundle(b, parent, False)
        out.append(etree.tostring(parent, pretty_print=True).decode("utf-8"))
        out.append(str(el2.getparent() is parent))
    return "\n".join(out)


guarded("serialize_bundle", ser_bundle_only)
guarded("serialize/bad-stream", lambda: str(ProvXMLSerializer(doc_rich()).serialize(None)))
guarded("serialize/no-document", lambda: str(ProvXMLSerializer().serialize(io.BytesIO())))


# --------------------------------------------------------------------------
# _derive_record_label
# --------------------------------------------------------------------------
def label_cases():
    s = ProvXMLSerializer()
    ex = Namespace("ex", "http://example.org/")
    cases = [
        (PROV_ENTITY, []),
        (PROV_ENTITY, [(PROV_TYPE, PROV["Plan"])]),
        (PROV_ENTITY, [(PROV_TYPE, "x"), (PROV_TYPE, PROV["Collection"]), (PROV_TYPE, PROV["Plan"])]),
        (PROV_ENTITY, [(PROV_TYPE, PROV["Person"])]),
        (PROV_ENTITY, [(PROV_TYPE, PROV["Entity"])]),
        (PROV_AGENT, [(ex["k"], PROV["Person"]), (PROV_TYPE, PROV["Person"]), (PROV_TYPE, PROV["Person"])]),
        (PROV_AGENT, [(PROV_TYPE, pm.Literal(PROV["Organization"], XSD_QNAME))]),
        (PROV_AGENT, [(PROV_TYPE, pm.Literal("prov:Person", None, "en"))]),
        (PROV_DERIVATION, [(PROV_TYPE, PROV["Revision"]), (PROV_TYPE, PROV["Quotation"])]),
        (PROV_ACTIVITY, [(PROV_TYPE, PROV["Revision"]), (PROV_TYPE, 5), (PROV_TYPE, 2.5)]),
        (PROV_MEMBERSHIP, [(PROV_LABEL, "l")]),
        (ex["unknown"], []),
    ]
    out = []
    for rec_type, attrs in cases:
        attrs = list(attrs)
        try:
            label = s._derive_record_label(rec_type, attrs)
            out.append("%s -> %s ; left=%s" % (rec_type, label, [(str(k), describe_value(v)) for k, v in attrs]))
        except Exception as exc:  # noqa
            out.append("%s -> EXC %s: %s ; left=%s" % (rec_type, type(exc).__name__, exc, [(str(k), describe_value(v)) for k, v in attrs]))
    return "\n".join(out)


guarded("_derive_record_label", label_cases)

# --------------------------------------------------------------------------
# XML snippets to deserialize
# --------------------------------------------------------------------------
HEAD = (
    '<prov:document xmlns:prov="http://www.w3.org/ns/prov#" '
    'xmlns:xsi="http://www.w3.org/2001/XMLSchema-instance" '
    'xmlns:xsd="http://www.w3.org/2001/XMLSchema" '
    'xmlns:ex="http://example.org/" %s>'
)
TAIL = "</prov:document>"

SNIPPETS = {
    "empty": HEAD % "" + TAIL,
    "comments": HEAD % "" + "<!-- c --><prov:entity prov:id='ex:e'><!-- inner --><ex:a>1</ex:a><!-- x --></prov:entity><!-- d -->" + TAIL,
    "other": HEAD % "" + "<prov:other><ex:foo/></prov:other><prov:entity prov:id='ex:e'/><prov:other/>" + TAIL,
    "nonprov": HEAD % "" + "<prov:entity prov:id='ex:e'/><ex:foo/>" + TAIL,
    "noprefix-nodefault": HEAD % "" + "<prov:entity prov:id='e'/>" + TAIL,
    "noprefix-default": HEAD % 'xmlns="http://example.org/d/"' + "<prov:entity prov:id='e'><k>v</k><prov:label/></prov:entity>" + TAIL,
    "unknownprefix-default": HEAD % 'xmlns="http://example.org/d/"' + "<prov:entity prov:id='zz:e:f'/>" + TAIL,
    "unknownprefix-nodefault": HEAD % "" + "<prov:entity prov:id='zz:e'/>" + TAIL,
    "colons": HEAD % "" + "<prov:entity prov:id='ex:a:b:c'><ex:k xsi:type='xsd:QName'>ex:x:y</ex:k></prov:entity>" + TAIL,
    "bundles": HEAD % "" + (
        "<prov:bundleContent prov:id='ex:b1' xmlns:bn='urn:bn:'><prov:entity prov:id='bn:e'/>"
        "<prov:bundleContent prov:id='ex:nested'/></prov:bundleContent>"
    ) + TAIL,
    "bundle-noid": HEAD % "" + "<prov:bundleContent><prov:entity prov:id='ex:e'/></prov:bundleContent>" + TAIL,
    "bundle-dup": HEAD % "" + "<prov:bundleContent prov:id='ex:b'/><prov:bundleContent prov:id='ex:b'/>" + TAIL,
    "unknown-element": HEAD % "" + "<prov:noSuchThing prov:id='ex:e'/>" + TAIL,
    "unknown-element-badattr": HEAD % "" + "<prov:noSuchThing prov:id='ex:e'><zz:k xmlns:zz='urn:z'/><q>1</q></prov:noSuchThing>" + TAIL,
    "subtypes": HEAD % "" + (
        "<prov:person prov:id='ex:p'/><prov:organization prov:id='ex:o'/><prov:softwareAgent prov:id='ex:s'/>"
        "<prov:plan prov:id='ex:pl'/><prov:collection prov:id='ex:c'/><prov:emptyCollection prov:id='ex:ec'/>"
        "<prov:bundle prov:id='ex:be'/>"
        "<prov:wasRevisionOf><prov:generatedEntity prov:ref='ex:e2'/><prov:usedEntity prov:ref='ex:e1'/></prov:wasRevisionOf>"
        "<prov:wasQuotedFrom prov:id='ex:q'><prov:generatedEntity prov:ref='ex:e2'/><prov:usedEntity prov:ref='ex:e1'/></prov:wasQuotedFrom>"
        "<prov:hadPrimarySource><prov:generatedEntity prov:ref='ex:e2'/><prov:usedEntity prov:ref='ex:e1'/></prov:hadPrimarySource>"
    ) + TAIL,
    "xsitype-on-element": HEAD % "" + "<prov:entity prov:id='ex:e' xsi:type='ex:Special'><prov:type xsi:type='xsd:QName'>ex:T</prov:type></prov:entity>" + TAIL,
    "xsitype-on-element-bad": HEAD % "" + "<prov:entity prov:id='ex:e' xsi:type='NoPrefix'/>" + TAIL,
    "members": HEAD % "" + (
        "<prov:hadMember><prov:collection prov:ref='ex:c'/><prov:entity prov:ref='ex:e1'/><prov:entity prov:ref='ex:e2'/></prov:hadMember>"
        "<prov:hadMember><prov:collection prov:ref='ex:c'/></prov:hadMember>"
        "<prov:hadMember prov:id='ex:m'><prov:collection prov:ref='ex:c'/><prov:entity prov:ref='ex:e1'/><ex:k>v</ex:k></prov:hadMember>"
    ) + TAIL,
    "values": HEAD % "" + (
        "<prov:entity prov:id='ex:e'>"
        "<prov:type xsi:type='xsd:string'>s</prov:type>"
        "<prov:type xsi:type='xsd:int'>5</prov:type>"
        "<prov:type xsi:type='xsd:QName'>prov:Plan</prov:type>"
        "<prov:label xml:lang='en'>hello</prov:label>"
        "<prov:label xml:lang=''/>"
        "<prov:label xml:lang='fr' xsi:type='prov:InternationalizedString'>salut</prov:label>"
        "<prov:value xsi:type='xsd:double'>1.5</prov:value>"
        "<prov:value xsi:type='xsd:boolean'>true</prov:value>"
        "<prov:value xsi:type='xsd:dateTime'>2012-01-01T00:00:00</prov:value>"
        "<prov:value xsi:type='xsd:anyURI'>http://x/</prov:value>"
        "<prov:location/>"
        "<ex:empty></ex:empty>"
        "<ex:ws>  </ex:ws>"
        "<ex:uni>\u00e9\u4e2d &lt;&amp;</ex:uni>"
        "<ex:strange ex:foo='bar' other='1'>t</ex:strange>"
        "<ex:both xsi:type='xsd:string' prov:ref='ex:r' xml:lang='x'>t</ex:both>"
        "<ex:ref prov:ref='ex:r'>ignored text</ex:ref>"
        "</prov:entity>"
    ) + TAIL,
    "values-emptyqname": HEAD % "" + "<prov:entity prov:id='ex:e'><prov:type xsi:type='xsd:QName'></prov:type></prov:entity>" + TAIL,
    "values-emptyqname-default": HEAD % 'xmlns="urn:d:"' + "<prov:entity prov:id='ex:e'><prov:type xsi:type='xsd:QName'></prov:type><k xsi:type='xsd:QName'>unknown:x</k></prov:entity>" + TAIL,
    "values-badtype": HEAD % "" + "<prov:entity prov:id='ex:e'><ex:badtype xsi:type='nope'>t</ex:badtype></prov:entity>" + TAIL,
    "values-warn-then-fail": HEAD % "" + "<prov:entity prov:id='ex:e'><ex:k foo='1' prov:ref='nope'>t</ex:k></prov:entity>" + TAIL,
    "relations": HEAD % "" + (
        "<prov:wasGeneratedBy prov:id='ex:g'><prov:entity prov:ref='ex:e'/><prov:activity prov:ref='ex:a'/>"
        "<prov:time>2012-01-01T01:02:03</prov:time><prov:role>r</prov:role></prov:wasGeneratedBy>"
        "<prov:used><prov:activity prov:ref='ex:a'/><prov:entity prov:ref='ex:e'/></prov:used>"
        "<prov:activity prov:id='ex:a'><prov:startTime>2011-11-16T16:05:00</prov:startTime><prov:endTime>bad time</prov:endTime></prov:activity>"
    ) + TAIL,
    "emptyref": HEAD % "" + "<prov:used><prov:activity prov:ref='ex:a'/><prov:entity prov:ref=''/></prov:used>" + TAIL,
    "repeated": HEAD % "" + "<prov:entity prov:id='ex:e'><ex:k>1</ex:k></prov:entity><prov:entity prov:id='ex:e'><ex:k>1</ex:k><ex:k>1</ex:k></prov:entity>" + TAIL,
    "not-xml": "this is not xml",
    "other-root": "<root xmlns:prov='http://www.w3.org/ns/prov#'><prov:entity prov:id='prov:e'/></root>",
}


def deser_bytes(text):
    doc = ProvXMLSerializer().deserialize(io.BytesIO(text.encode("utf-8")))
    return "\n".join(describe_bundle(doc))


def deser_text(text):
    doc = ProvXMLSerializer().deserialize(io.StringIO(text), ignored=1)
    return "\n".join(describe_bundle(doc))


def deser_subtree(text):
    root = etree.fromstring(text.encode("utf-8"))
    target = pm.ProvDocument()
    res = ProvXMLSerializer().deserialize_subtree(root, target)
    return "same=%s\n" % (res is target) + "\n".join(describe_bundle(target))


def tag_of(el):
    return el.tag if isinstance(el.tag, str) else "<non-element node>"


def extract(text):
    root = etree.fromstring(text.encode("utf-8"))
    out = []
    for el in root:
        try:
            attrs = provxml._extract_attributes(el)
            out.append("%s: %s" % (tag_of(el), [(describe_value(k), describe_value(v)) for k, v in attrs]))
        except Exception as exc:  # noqa
            out.append("%s: EXC %s: %s" % (tag_of(el), type(exc).__name__, exc))
    return "\n".join(out)


for name in sorted(SNIPPETS):
    text = SNIPPETS[name]
    guarded("deserialize/bytes/%s" % name, lambda: deser_bytes(text))
    guarded("deserialize/text/%s" % name, lambda: deser_text(text))
    guarded("deserialize_subtree/%s" % name, lambda: deser_subtree(text))
    guarded("_extract_attributes/%s" % name, lambda: extract(text))
    guarded(
        "ProvDocument.deserialize/%s" % name,
        lambda: "\n".join(describe_bundle(pm.ProvDocument.deserialize(content=text, format="xml"))),
    )


# --------------------------------------------------------------------------
# xml_qname_to_QualifiedName
# --------------------------------------------------------------------------
def qname_cases():
    el_default = etree.fromstring(
        "<a xmlns='http://d/' xmlns:prov='http://www.w3.org/ns/prov#' "
        "xmlns:xsd='http://www.w3.org/2001/XMLSchema' xmlns:x2='http://www.w3.org/2001/XMLSchema#' "
        "xmlns:p2='http://www.w3.org/ns/prov#' xmlns:ex='http://example.org/'><b xmlns:in='urn:in'/></a>"
    )
    el_nodefault = etree.fromstring(
        "<ex:a xmlns:ex='http://example.org/' xmlns:xsd='http://www.w3.org/2001/XMLSchema'/>"
    )
    out = []
    for elname, el in (("default", el_default), ("child", el_default[0]), ("nodefault", el_nodefault)):
        for s in ["ex:a", "ex:a:b", "ex:", ":a", "a", "", "zz:a", "xsd:int", "x2:int", "prov:Plan", "p2:Plan", "in:x", "e x:\u00e9", "prov:", "::"]:
            try:
                q = provxml.xml_qname_to_QualifiedName(el, s)
                out.append("%s %r -> %s ns_is_PROV=%s ns_is_XSD=%s" % (elname, s, describe_value(q), q.namespace is PROV, q.namespace is pm.XSD))
            except Exception as exc:  # noqa
                out.append("%s %r -> EXC %s: %s" % (elname, s, type(exc).__name__, exc))
    return "\n".join(out)


guarded("xml_qname_to_QualifiedName", qname_cases)

# module tables (by content, independent of their names)
tables = []
for tname in sorted(vars(provxml)):
    val = getattr(provxml, tname)
    if isinstance(val, dict) and tname.isupper() and val and all(
        isinstance(k, (str, QualifiedName)) for k in val
    ):
        tables.append(sorted("%s=%s" % (k, v) for k, v in val.items()))
tables.sort()
emit("module dict tables (content only)", "\n".join(repr(t) for t in tables if len(t) > 20))

print("\n".join(LINES))
print("TOTAL", hashlib.sha256("\n".join(LINES).encode("utf-8")).hexdigest())
