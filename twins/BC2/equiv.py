# Differential script for change 2 (new helper ProvDocument.get_bundle): the existing
# bundle API must behave exactly as before. The new helper itself is NOT used here.
import os, sys
if os.environ.get("PYTHONHASHSEED") != "0":
    os.environ["PYTHONHASHSEED"] = "0"
    os.execv(sys.executable, [sys.executable] + sys.argv)

from prov.model import ProvDocument, ProvBundle, ProvException, Namespace
from prov.identifier import Identifier


def ns_state(b):
    m = b._namespaces
    return ([(n.prefix, n.uri) for n in m.get_registered_namespaces()],
            m.get_default_namespace().uri if m.get_default_namespace() else None,
            sorted(m.keys()),
            sorted((k.prefix, k.uri, v.prefix, v.uri) for k, v in m._rename_map.items()),
            sorted((k, v.prefix, v.uri) for k, v in m._prefix_renamed_map.items()))


def attempt(label, fn):
    try:
        r = fn()
        print(label, "->", type(r).__name__, repr(r))
        return r
    except Exception as e:
        print(label, "raised", type(e).__name__, str(e))


def dump(label, d):
    print("-----", label)
    print(" has_bundles", d.has_bundles(), "n", len(list(d.bundles)))
    print(" keys", [(str(k), k.uri, type(k).__name__) for k in d._bundles])
    print(" ns", ns_state(d))
    for b in d.bundles:
        print("  bundle", repr(b), b.identifier.uri, b.document is d, ns_state(b), len(b.records))
    print(d.get_provn())


EX = Namespace("ex", "http://example.org/")
d = ProvDocument()
dump("empty", d)
attempt("bundle(None)", lambda: d.bundle(None))
attempt("bundle('')", lambda: d.bundle(""))
attempt("bundle('ex:b1') unknown prefix", lambda: d.bundle("ex:b1"))
attempt("bundle(5)", lambda: d.bundle(5))
attempt("bundle(('a',))", lambda: d.bundle(("a",)))
attempt("bundle(('a','b'))", lambda: d.bundle(("a", "b")))
d.add_namespace(EX)
d.set_default_namespace("http://default.org/")
b1 = attempt("bundle('ex:b1')", lambda: d.bundle("ex:b1"))
attempt("bundle('ex:b1') again", lambda: d.bundle("ex:b1"))
attempt("bundle(EX['b1']) again", lambda: d.bundle(EX["b1"]))
attempt("bundle(full uri) again", lambda: d.bundle("http://example.org/b1"))
b2 = attempt("bundle('b2') default ns", lambda: d.bundle("b2"))
b3 = attempt("bundle non-ascii", lambda: d.bundle("ex:büñdle-中"))
b1.entity("ex:e1", {"ex:v": "é"})
b2.entity("e2")
dump("three bundles", d)

fb = ProvBundle(identifier=Namespace("foreign", "http://foreign.org/")["fb"])
fb.add_namespace("foreign", "http://foreign.org/")
fb.entity("foreign:e")
attempt("add_bundle(foreign)", lambda: d.add_bundle(fb))
cb = ProvBundle(identifier=Namespace("ex", "http://clash.org/")["b1"])
attempt("add_bundle(clash)", lambda: d.add_bundle(cb))
attempt("add_bundle(clash) again", lambda: d.add_bundle(cb))
attempt("add_bundle(no id)", lambda: d.add_bundle(ProvBundle()))
attempt("add_bundle(not a bundle)", lambda: d.add_bundle("ex:b1"))
attempt("add_bundle(with identifier)", lambda: d.add_bundle(ProvBundle(), "ex:named"))
attempt("add_bundle(with tuple identifier)", lambda: d.add_bundle(ProvBundle(), ("x", "y")))
attempt("add_bundle(with blank identifier)", lambda: d.add_bundle(ProvBundle(), "_:blank"))
inner = ProvDocument(); inner.add_namespace(EX); inner.entity("ex:in")
attempt("add_bundle(document)", lambda: d.add_bundle(inner, "ex:fromdoc"))
nested = ProvDocument(); nested.add_namespace(EX); nested.bundle("ex:n")
attempt("add_bundle(nested document)", lambda: d.add_bundle(nested, "ex:nested"))
dump("after add_bundle", d)

# attribute surface of the classes: only additions are allowed on the changed tree
print("ProvBundle has get_record:", hasattr(ProvBundle, "get_record"), "bundles:", hasattr(ProvBundle, "bundles"))
print("bundles of a plain bundle:", ProvBundle().bundles, ProvBundle().has_bundles())

# update / unified / flattened / equality / serialisation with bundles
other = ProvDocument(); other.add_namespace(EX)
ob = other.bundle("ex:b1"); ob.entity("ex:added")
other.bundle("ex:other").activity("ex:act")
attempt("update", lambda: d.update(other))
dump("after update", d)
u = d.unified()
dump("unified", u)
f = d.flattened()
dump("flattened", f)
print("eq self-copy", d == ProvDocument.deserialize(content=d.serialize(format="json"), format="json"))
print("eq unified", d == u, "eq flattened", d == f, "ne other", d != other)
for fmt in ("json", "xml", "provn"):
    print(d.serialize(format=fmt))
