# Differential script for change 1 (ProvBundle._unified_records fast path).
import os, sys
if os.environ.get("PYTHONHASHSEED") != "0":
    os.environ["PYTHONHASHSEED"] = "0"
    os.execv(sys.executable, [sys.executable] + sys.argv)

import datetime
from prov.model import ProvDocument, ProvBundle, ProvException, Namespace, Literal
from prov.identifier import QualifiedName, Identifier
from prov.constants import PROV_TYPE, PROV_LABEL


def ns_state(b):
    m = b._namespaces
    return (
        [(n.prefix, n.uri) for n in m.get_registered_namespaces()],
        m.get_default_namespace().uri if m.get_default_namespace() else None,
        sorted(m.keys()),
        sorted((k.prefix, k.uri, v.prefix, v.uri) for k, v in m._rename_map.items()),
        sorted((k, v.prefix, v.uri) for k, v in m._prefix_renamed_map.items()),
    )


def rec_desc(r):
    return (
        type(r).__name__,
        str(r.identifier),
        r.identifier.uri if r.identifier is not None else None,
        sorted((str(k), repr(v)) for k, v in r.attributes),
        r.get_provn(),
    )


def describe(label, bundle):
    print("=" * 10, label)
    before_ns = ns_state(bundle)
    before_recs = list(bundle._records)
    before_idmap = [(str(k), [id(x) for x in v]) for k, v in bundle._id_map.items()]
    try:
        recs = bundle._unified_records()
    except Exception as e:
        print("  _unified_records raised", type(e).__name__, e)
        recs = None
    if recs is not None:
        print("  count", len(recs))
        originals = {id(r) for r in before_recs}
        scratch_ids = []
        for r in recs:
            is_orig = id(r) in originals
            if not is_orig and id(r.bundle) not in scratch_ids:
                scratch_ids.append(id(r.bundle))
            print("  ", "orig" if is_orig else "merged", rec_desc(r),
                  "own-bundle" if r.bundle is bundle else "other-bundle")
        print("  distinct scratch bundles:", len(scratch_ids))
        for r in recs:
            if id(r) not in originals:
                print("  scratch ns", ns_state(r.bundle), "records in scratch", len(r.bundle._records),
                      type(r.bundle).__name__, r.bundle.identifier, r.bundle.document)
                break
        print("  result is new list:", recs is not bundle._records)
        # a second call gives the same answer and independent lists
        recs2 = bundle._unified_records()
        print("  second call same shape:", [rec_desc(r) for r in recs2] == [rec_desc(r) for r in recs],
              recs2 is not recs)
    print("  ns unchanged:", ns_state(bundle) == before_ns)
    print("  records unchanged:", [id(r) for r in bundle._records] == [id(r) for r in before_recs])
    print("  idmap unchanged:", [(str(k), [id(x) for x in v]) for k, v in bundle._id_map.items()] == before_idmap)
    try:
        u = bundle.unified()
        print("  unified type", type(u).__name__, u.identifier)
        print(u.get_provn())
        print("  unified ns", ns_state(u))
        if u.is_document():
            for b in u.bundles:
                print("  sub", b.identifier, ns_state(b), b.document is u)
    except Exception as e:
        print("  unified raised", type(e).__name__, e)
    print("  ns unchanged after unified:", ns_state(bundle) == before_ns)


EX = Namespace("ex", "http://example.org/")
EX2 = Namespace("ex", "http://example.org/2/")
OTHER = Namespace("other", "http://other.org/")

# 1. empty document
describe("empty", ProvDocument())

# 2. no duplicates
d = ProvDocument()
d.add_namespace(EX)
d.entity("ex:e1", {"ex:a": 1})
d.activity("ex:a1")
d.wasGeneratedBy("ex:e1", "ex:a1")
describe("no duplicates", d)

# 3. duplicates of one type, interleaved with others
d = ProvDocument()
d.add_namespace(EX)
d.entity("ex:e1", {"ex:a": 1})
d.entity("ex:e2", {"ex:a": "café"})
d.entity("ex:e1", {"ex:b": 2, PROV_LABEL: Literal("über", langtag="de")})
d.activity("ex:a1", "2020-01-01T00:00:00")
d.entity("ex:e1", {"ex:a": 1})
d.activity("ex:a1", None, "2021-01-01T00:00:00")
d.wasGeneratedBy("ex:e1", "ex:a1")
d.wasGeneratedBy("ex:e1", "ex:a1")
describe("duplicates", d)

# 4. same identifier, different types (list >= 2 in _id_map but no merge)
d = ProvDocument()
d.add_namespace(EX)
d.entity("ex:x")
d.activity("ex:x")
d.agent("ex:x")
describe("same id different types", d)

# 5. same id, different types, plus a real duplicate
d = ProvDocument()
d.add_namespace(EX)
d.entity("ex:x", {"ex:k": 1})
d.activity("ex:x")
d.entity("ex:x", {"ex:k": 2})
d.entity("ex:y")
describe("mixed", d)

# 6. get_record() on unknown ids leaves empty lists in _id_map first
d = ProvDocument()
d.add_namespace(EX)
d.entity("ex:e1")
print("get_record unknown:", d.get_record("ex:nothing"), d.get_record("ex:e1"))
d.entity("ex:e2")
describe("after get_record (no dup)", d)
d.entity("ex:e2", {"ex:z": 3})
print("get_record unknown:", d.get_record("ex:nothing2"))
describe("after get_record (dup)", d)

# 7. relations with identifiers, conflicting formal attributes
d = ProvDocument()
d.add_namespace(EX)
d.entity("ex:e1"); d.entity("ex:e2"); d.activity("ex:a1")
d.wasGeneratedBy("ex:e1", "ex:a1", identifier="ex:g1")
d.wasGeneratedBy("ex:e1", None, time="2020-02-02T00:00:00", identifier="ex:g1", other_attributes={"ex:r": "x"})
describe("relation dup compatible", d)
d.wasGeneratedBy("ex:e2", "ex:a1", identifier="ex:g1")
describe("relation dup conflicting", d)

# 8. conflicting prefixes among merged records: order of scratch registration
d = ProvDocument()
q1 = EX["t1"]
q2 = EX2["t2"]
d.entity(EX["e1"], {PROV_TYPE: q1})
d.entity(EX2["f1"], {PROV_TYPE: q2})
d.entity(EX2["f1"], {"other:attr": OTHER["v"]}) if False else d.entity(EX2["f1"], {OTHER["attr"]: OTHER["v"]})
d.entity(EX["e1"], {PROV_TYPE: q2})
d.entity(OTHER["o"])
describe("prefix conflicts", d)

# 9. default namespace and bundles
d = ProvDocument()
d.set_default_namespace("http://default.org/")
d.add_namespace(EX)
d.entity("e1", {"ex:a": 1})
d.entity("e1", {"ex:a": 2})
b = d.bundle("ex:b1")
b.set_default_namespace("http://bundle-default.org/")
b.entity("e1", {"ex:c": 1})
b.entity("e1", {"ex:c": 2})
b.entity("ex:only")
b2 = d.bundle("b2")
b2.entity("ex:z")
b3 = d.bundle("ex:b3")
describe("doc with bundles", d)
describe("bundle b1", b)
describe("bundle b2 (no dup)", b2)
describe("bundle b3 (empty)", b3)

# 10. a stand-alone bundle with records given to the constructor
sb = ProvBundle(records=list(d._records), identifier=EX["standalone"])
describe("standalone bundle", sb)

# 11. mutate after the first call and call again
d = ProvDocument()
d.add_namespace(EX)
d.entity("ex:e1", {"ex:n": 1})
describe("mutation step 1", d)
d.entity("ex:e1", {"ex:n": 2})
describe("mutation step 2", d)
d.entity("ex:e1", {"ex:n": 3})
d.activity("ex:e1")
describe("mutation step 3", d)

# 12. blank / None identifiers
d = ProvDocument()
d.add_namespace(EX)
d.entity("ex:e1"); d.entity("ex:e2")
d.wasDerivedFrom("ex:e2", "ex:e1")
d.wasDerivedFrom("ex:e2", "ex:e1")
d.specializationOf("ex:e2", "ex:e1")
describe("relations without identifiers", d)

# 13. round trip through the serializers of a unified doc
d = ProvDocument()
d.add_namespace(EX)
d.entity("ex:e1", {"ex:n": 1}); d.entity("ex:e1", {"ex:m": "中文"})
u = d.unified()
print(u.serialize(format="json"))
print(u.serialize(format="provn"))
print(u == ProvDocument.deserialize(content=u.serialize(format="xml"), format="xml"))
