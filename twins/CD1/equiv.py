"""Differential script for change 1 (ProvBundle.get_provn: namespace lines helper).

Prints the PROV-N text of documents / bundles with every combination of
default namespace, registered prefixes, records and nested bundles.
"""
import os
import sys

if os.environ.get("PYTHONHASHSEED") != "0":
    os.environ["PYTHONHASHSEED"] = "0"
    os.execv(sys.executable, [sys.executable] + sys.argv)

import datetime
import hashlib
import io

from prov.model import ProvDocument, ProvBundle, Literal, Namespace
from prov.constants import XSD_INT, PROV

OUT = []


def show(tag, text):
    OUT.append("=== %s" % tag)
    OUT.append(text)


def provn_all(tag, doc):
    show(tag + " get_provn()", doc.get_provn())
    show(tag + " get_provn(2)", doc.get_provn(2))
    show(tag + " str", str(doc.get_provn(_indent_level=1)))
    buf = io.StringIO()
    doc.serialize(buf, format="provn")
    show(tag + " serialize", buf.getvalue())
    for b in sorted(doc.bundles, key=lambda b: str(b.identifier)):
        show(tag + " bundle %s" % b.identifier, b.get_provn())
        show(tag + " bundle %s indent 3" % b.identifier, b.get_provn(3))


# 1. empty document: no default, no prefixes -> no blank line
d = ProvDocument()
provn_all("empty", d)

# 2. only a default namespace
d = ProvDocument()
d.set_default_namespace("http://example.org/default#")
provn_all("default only, no records", d)
d.entity("e1")
provn_all("default only", d)

# 3. only registered prefixes
d = ProvDocument()
d.add_namespace("ex", "http://example.org/")
d.add_namespace("café", "http://example.org/café/")
d.entity("ex:e1", {"ex:label": "ünïcode ☃", "ex:n": 1})
d.entity("café:crème")
provn_all("prefixes only", d)

# 4. both, records, relations, times, literals
d = ProvDocument()
d.set_default_namespace("http://example.org/0/")
ex = d.add_namespace("ex", "http://example.org/1/")
d.add_namespace("ex", "http://example.org/2/")  # same prefix, other uri -> renamed
d.add_namespace("other", "http://example.org/1/")  # same uri, other prefix
e = d.entity("e", {"prov:type": ex["T"], "ex:v": Literal("5", XSD_INT)})
e2 = d.entity("e")  # repeated identifier
a = d.activity(
    "ex:a", datetime.datetime(2020, 1, 2, 3, 4, 5), "2021-01-01T00:00:00+01:00"
)
d.wasGeneratedBy(e, a, time="2020-06-01T00:00:00")
d.used(a, e, identifier="ex:u1")
d.agent("ex:ag", {"prov:label": Literal("bonjour", langtag="fr")})
d.wasAssociatedWith(a, "ex:ag")
provn_all("both", d)

# 5. bundles: own prefixes / default, empty bundle, bundle without namespaces
b1 = d.bundle("ex:b1")
b1.set_default_namespace("http://example.org/b1/")
b1.add_namespace("bx", "http://example.org/bx/")
b1.entity("bx:e", {"bx:multi": "line one\nline \"two\" \\ end"})
b1.entity("inb1")
b2 = d.bundle("ex:b2")
b3 = d.bundle("ex:b3")
b3.entity("ex:only")
b4 = d.bundle("b4default")
b4.add_namespace("ex", "http://example.org/elsewhere/")
b4.entity("ex:clash")
provn_all("bundles", d)

# 6. a document whose only content is bundles, no namespaces at document level
d = ProvDocument()
b = d.bundle(Namespace("u", "urn:x:")["b"])
b.set_default_namespace("urn:x:")
b.entity("e")
provn_all("bundle-only", d)

# 7. a free-standing bundle (no document)
fb = ProvBundle(identifier=None)
show("free bundle no id", fb.get_provn())
fb = ProvBundle(namespaces=[Namespace("ex", "http://example.org/")])
fb.entity("ex:e")
show("free bundle", fb.get_provn())
show("free bundle indent", fb.get_provn(1))
fb = ProvBundle(namespaces={"zz": "http://zz/", "": "http://dflt/"})
show("free bundle ns dict", fb.get_provn())

# 8. unified / flattened / round trip through PROV-N text structure
d = ProvDocument()
d.set_default_namespace("http://d/")
d.add_namespace("ex", "http://example.org/")
bb = d.bundle("ex:b")
bb.entity("ex:e", {"ex:a": 1})
bb.entity("ex:e", {"ex:a": 2})
provn_all("pre-unify", d)
provn_all("unified", d.unified())
provn_all("flattened", d.flattened())

# 9. state is not modified by get_provn: namespaces / records before and after
before = (
    sorted((n.prefix, n.uri) for n in d.get_registered_namespaces()),
    d.get_default_namespace().uri,
    len(d.get_records()),
)
d.get_provn()
after = (
    sorted((n.prefix, n.uri) for n in d.get_registered_namespaces()),
    d.get_default_namespace().uri,
    len(d.get_records()),
)
show("state unchanged", repr(before == after) + " " + repr(after))

text = "\n".join(OUT) + "\n"
sys.stdout.write(text)
sys.stdout.write("DIGEST %s\n" % hashlib.sha256(text.encode("utf-8")).hexdigest())
