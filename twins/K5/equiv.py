"""Differential check for refactoring 5 (ProvXMLSerializer.serialize / deserialize)."""
import sys, os, io, glob, shutil, logging, warnings
sys.path.insert(0, "/tmp/twin/out/K")
from common import digest, docs, call, canon
logging.basicConfig(stream=sys.stdout, format="LOG %(levelname)s %(message)s")
warnings.simplefilter("ignore")
from prov.model import ProvDocument
from prov.serializers.provxml import ProvXMLSerializer

work = "/tmp/equivK5_work"
shutil.rmtree(work, ignore_errors=True); os.mkdir(work)

class Sink:
    def __init__(self): self.got = []
    def write(self, x): self.got.append(x); return 3
class TextSink(io.TextIOBase):
    def __init__(self): self.got = []
    def write(self, x): self.got.append(x); return len(x)
class BadSink:
    def write(self, x): raise OSError("full " + type(x).__name__)
class Src:
    def __init__(self, data): self.data = data; self.reads = 0
    def read(self, *a):
        self.reads += 1
        d, self.data = self.data, self.data[:0]
        return d

def show(label, res):
    kind, val = res
    if kind == "ok" and isinstance(val, ProvDocument):
        val = "Doc records=%d bundles=%d %s" % (len(val.get_records()), len(list(val.bundles)), digest(canon(val)))
    elif kind == "exc":
        val = val.replace(work, "<W>")
    print(label, "->", kind, val)

for name, d in docs():
    ser = ProvXMLSerializer(d)
    for kw in ({}, {"force_types": True}, {"force_types": 0, "ignored": "x"}):
        l = "ser %s %s" % (name, sorted(kw))
        s = io.StringIO(); show(l + " StringIO", call(ser.serialize, s, **kw)); print("    ", len(s.getvalue()), digest(s.getvalue()))
        b = io.BytesIO(); show(l + " BytesIO", call(ser.serialize, b, **kw)); print("    ", len(b.getvalue()), digest(b.getvalue()))
        k = Sink(); show(l + " Sink", call(ser.serialize, k, **kw)); print("    ", len(k.got), digest(b"".join(k.got)) if k.got and isinstance(k.got[0], bytes) else k.got)
        k = TextSink(); show(l + " TextSink", call(ser.serialize, k, **kw)); print("    ", [(type(x).__name__, len(x), digest(x)) for x in k.got])
        show(l + " BadSink", call(ser.serialize, BadSink(), **kw))
        show(l + " None", call(ser.serialize, None, **kw))
        p = os.path.join(work, "o.xml")
        show(l + " filename", call(ser.serialize, p, **kw)); print("    ", digest(open(p, "rb").read())); os.remove(p)
        with open(p, "w", encoding="utf-8") as f: show(l + " textfile", call(ser.serialize, f, **kw))
        print("    ", digest(open(p, "rb").read()))
        with open(p, "wb") as f: show(l + " binfile", call(ser.serialize, f, **kw))
        print("    ", digest(open(p, "rb").read()))
        w = io.TextIOWrapper(io.BytesIO(), encoding="utf-16"); show(l + " utf16 wrapper", call(ser.serialize, w, **kw)); w.flush(); print("    ", digest(w.buffer.getvalue()))
    text = d.serialize(format="xml")
    raw = text.encode("utf-8")
    D = lambda *a, **k: ProvXMLSerializer().deserialize(*a, **k)
    show("deser %s StringIO" % name, call(D, io.StringIO(text)))
    show("deser %s BytesIO" % name, call(D, io.BytesIO(raw), ignored=1))
    s = Src(raw); show("deser %s Src" % name, call(D, s)); print("     reads", s.reads)
    w = io.TextIOWrapper(io.BytesIO(raw), encoding="utf-8"); show("deser %s wrapper" % name, call(D, w))
show("ser no document", call(ProvXMLSerializer().serialize, io.StringIO()))

NS = 'xmlns:prov="http://www.w3.org/ns/prov#" xmlns:ex="http://example.org/" xmlns:xsd="http://www.w3.org/2001/XMLSchema" xmlns:xsi="http://www.w3.org/2001/XMLSchema-instance"'
cases = {
 "comments inside": '<?xml version="1.0"?>\n<prov:document %s><!-- c1 --><prov:entity prov:id="ex:e1"><!-- c2 --><prov:label>a<!-- mid -->b</prov:label><!-- c3 --></prov:entity><!-- c4 --></prov:document>' % NS,
 "comment tail text": '<prov:document %s><prov:entity prov:id="ex:e1"><prov:label>x</prov:label><!-- c -->tail text</prov:entity></prov:document>' % NS,
 "comment before root": '<?xml version="1.0"?>\n<!-- top --><prov:document %s><prov:entity prov:id="ex:e1"/></prov:document>' % NS,
 "comment after root": '<prov:document %s><prov:entity prov:id="ex:e1"/></prov:document><!-- end -->' % NS,
 "pi inside": '<prov:document %s><?pi data?><prov:entity prov:id="ex:e1"/></prov:document>' % NS,
 "bundle with comments": '<prov:document %s><prov:bundleContent prov:id="ex:b"><!-- c --><prov:entity prov:id="ex:e1"><ex:a xsi:type="xsd:int">1</ex:a><!-- c --></prov:entity></prov:bundleContent><prov:entity prov:id="ex:e1"/></prov:document>' % NS,
 "only comment child": '<prov:document %s><prov:entity prov:id="ex:e1"><prov:label><!-- only --></prov:label></prov:entity></prov:document>' % NS,
 "no declaration unicode": '<prov:document %s><prov:entity prov:id="ex:é"><prov:label>café ☃</prov:label></prov:entity></prov:document>' % NS,
 "latin1 declared": '<?xml version="1.0" encoding="ISO-8859-1"?><prov:document %s><prov:entity prov:id="ex:e"><prov:label>café</prov:label></prov:entity></prov:document>' % NS,
 "empty": "", "whitespace": "  \n", "garbage": "not xml <", "unclosed": "<a><b></a>", "other root": "<root><!-- c --><x/></root>",
 "empty doc": '<prov:document %s/>' % NS,
 "cdata": '<prov:document %s><prov:entity prov:id="ex:e1"><prov:label><![CDATA[<!-- not a comment -->]]></prov:label></prov:entity></prov:document>' % NS,
}
for label, text in cases.items():
    for enc in ("utf-8", "latin-1", "utf-16"):
        try:
            raw = text.encode(enc)
        except UnicodeEncodeError:
            continue
        show("case %s StringIO" % label, call(ProvXMLSerializer().deserialize, io.StringIO(text))) if enc == "utf-8" else None
        show("case %s BytesIO[%s]" % (label, enc), call(ProvXMLSerializer().deserialize, io.BytesIO(raw)))
        p = os.path.join(work, "c.xml")
        with open(p, "wb") as f: f.write(raw)
        show("case %s filename[%s]" % (label, enc), call(ProvXMLSerializer().deserialize, p))
        with open(p, "r", encoding=enc) as f:
            show("case %s textfile[%s]" % (label, enc), call(ProvXMLSerializer().deserialize, f))
        show("case %s via document[%s]" % (label, enc), call(ProvDocument.deserialize, content=raw, format="xml"))
for label, src in (("None", None), ("int", 3), ("missing file", os.path.join(work, "nope.xml")), ("Src str", Src("<a/>")), ("object", object())):
    show("deser %s" % label, call(ProvXMLSerializer().deserialize, src))
for path in sorted(glob.glob("/tmp/twin/K/src/prov/tests/xml/*.xml")):
    n = os.path.basename(path)
    with open(path, "rb") as f: r1 = call(ProvXMLSerializer().deserialize, f)
    show("fixture %s bin" % n, r1)
    with open(path, "r", encoding="utf-8") as f: show("fixture %s text" % n, call(ProvXMLSerializer().deserialize, f))
    if r1[0] == "ok":
        print("     roundtrip", digest(r1[1].serialize(format="xml")), digest(r1[1].serialize(format="xml", force_types=True)))
shutil.rmtree(work)
