"""Differential script for change 4 (modernised spellings in
ProvRDFSerializer.decode_rdf_representation / decode_container).

1. decode_rdf_representation called directly on many RDF terms.
2. decode_document run directly on the graph produced by encode_document for
   every corpus document (no parser in between), and deserialize() of the
   N-Triples text of the same graph.
3. deserialize() of all 402 PROV-O fixture files of the repository.
4. hand-written Turtle/TriG snippets for the unusual paths (several rdf:type
   per subject, typed blank nodes, non-PROV types, gYear/gYearMonth/dateTime/
   QName/XMLLiteral/base64/lang literals, URIs without a known namespace,
   qualified* link to an entity (IndexError), repeated formal attribute values,
   mentionOf/asInBundle, alternateOf, named graphs).
"""
import glob
import io
import os
import sys
import warnings

warnings.simplefilter("ignore")

sys.path.insert(0, os.path.join(os.path.dirname(os.path.abspath(__file__)), ".."))
import corpus

corpus.reexec()

import rdflib
from rdflib.namespace import XSD, RDF
from rdflib.term import BNode as RealBNode, Literal as RDFLiteral, URIRef

import prov
import prov.model as pm
import prov.serializers.provrdf as provrdf

# all blank node labels (library, parsers, graph identifiers) become predictable
reset = corpus.deterministic_bnodes()


def show(v):
    if isinstance(v, pm.Literal):
        return "pm.Literal(%r:%s, %s, %s)" % (
            v.value,
            type(v.value).__name__,
            show(v.datatype),
            v.langtag,
        )
    if isinstance(v, pm.Identifier):
        return "%s<%s>" % (type(v).__name__, v.uri)
    return "%s:%r" % (type(v).__name__, v)


def attempt(label, fn):
    reset()
    try:
        return "%s %s" % (label, fn())
    except Exception as e:
        return "%s EXC %s %s" % (label, type(e).__name__, str(e)[:160])


def part1():
    print("== decode_rdf_representation")
    doc = pm.ProvDocument()
    doc.add_namespace("ex", "http://example.org/")
    ser = provrdf.ProvRDFSerializer(doc)
    g = rdflib.ConjunctiveGraph()
    g.bind("ex", "http://example.org/")
    g.bind("other", "http://other.example.org/ns#")
    terms = [
        RDFLiteral("plain"),
        RDFLiteral(""),
        RDFLiteral("café 中文"),
        RDFLiteral("hello", lang="en"),
        RDFLiteral("", lang="fr-CA"),
        RDFLiteral("1", datatype=XSD.int),
        RDFLiteral("x1", datatype=XSD.int),  # ill-formed: value is None
        RDFLiteral(12),
        RDFLiteral(1.5),
        RDFLiteral(True),
        RDFLiteral("2.50", datatype=XSD.decimal),
        RDFLiteral("s", datatype=XSD.string),
        RDFLiteral("2012-03-04T05:06:07", datatype=XSD.dateTime),
        RDFLiteral("2012-03-04T05:06:07.5+01:00", datatype=XSD.dateTime),
        RDFLiteral("not a date", datatype=XSD.dateTime),
        RDFLiteral("2002", datatype=XSD.gYear),
        RDFLiteral("0987", datatype=XSD.gYear),
        RDFLiteral("bad", datatype=XSD.gYear),
        RDFLiteral("2002-07", datatype=XSD.gYearMonth),
        RDFLiteral("2002-12", datatype=XSD.gYearMonth),
        RDFLiteral("0950-01", datatype=XSD.gYearMonth),
        RDFLiteral("12002-03", datatype=XSD.gYearMonth),
        RDFLiteral("bad", datatype=XSD.gYearMonth),
        RDFLiteral("2002-07-08", datatype=XSD.date),
        RDFLiteral("ex:thing", datatype=XSD.QName),
        RDFLiteral("aGVsbG8=", datatype=XSD.base64Binary),
        RDFLiteral("<b>x</b>", datatype=RDF.XMLLiteral),
        RDFLiteral("http://a.example/x", datatype=XSD.anyURI),
        RDFLiteral("v", datatype=URIRef("http://example.org/dt")),
        RDFLiteral("v", datatype=URIRef("http://unknown.example.org/dt")),
        URIRef("http://example.org/known"),
        URIRef("http://www.w3.org/ns/prov#Person"),
        URIRef("http://other.example.org/ns#local"),
        URIRef("http://nowhere.example.org/path/leaf"),
        URIRef("http://nowhere.example.org/path/"),
        URIRef("urn:x"),
        RealBNode("b0"),
        "a python str",
        42,
        None,
    ]
    for t in terms:
        print("   ", attempt(repr(t), lambda: show(ser.decode_rdf_representation(t, g))))
    print("    namespaces-after", sorted((n.prefix, n.uri) for n in doc.get_registered_namespaces()))


def decode_direct(doc):
    reset()
    src = provrdf.ProvRDFSerializer(doc)
    container = src.encode_document(doc)
    target = pm.ProvDocument()
    ser = provrdf.ProvRDFSerializer(target)
    ret = ser.decode_document(container, target)
    return "ret=%r equal=%s %s | %s" % (
        ret,
        target == doc,
        corpus.digest(corpus.doc_state(target, ordered=False)),
        corpus.digest(corpus.doc_state(target, ordered=True)),
    )


def via_nt(doc):
    reset()
    buf = io.BytesIO()
    provrdf.ProvRDFSerializer(doc).serialize(buf, rdf_format="nt")
    text = "\n".join(sorted(buf.getvalue().decode("utf-8").splitlines())) + "\n"
    d2 = pm.ProvDocument.deserialize(content=text, format="rdf", rdf_format="nt")
    return "equal=%s %s" % (d2 == doc, corpus.digest(corpus.doc_state(d2, ordered=False)))


def part2():
    print("== corpus through encode -> decode")
    for name, doc in corpus.all_documents():
        if doc is None or doc.is_bundle():
            continue
        print(name)
        print("   ", attempt("direct", lambda: decode_direct(doc)))
        print("   ", attempt("nt", lambda: via_nt(doc)))


def part3():
    print("== repository fixtures")
    base = os.path.join(os.path.dirname(prov.__file__), "tests", "rdf")
    files = sorted(glob.glob(os.path.join(base, "*.ttl")) + glob.glob(os.path.join(base, "*.trig")))
    print("    files", len(files))
    for path in files:
        fmt = "trig" if path.endswith(".trig") else "turtle"

        def load():
            with open(path, "rb") as f:
                d = pm.ProvDocument.deserialize(source=f, format="rdf", rdf_format=fmt)
            return corpus.digest(corpus.doc_state(d, ordered=False))

        print("   ", attempt(os.path.basename(path), load))


PREFIXES = """
@prefix prov: <http://www.w3.org/ns/prov#> .
@prefix ex: <http://example.org/> .
@prefix xsd: <http://www.w3.org/2001/XMLSchema#> .
@prefix rdfs: <http://www.w3.org/2000/01/rdf-schema#> .
@prefix rdf: <http://www.w3.org/1999/02/22-rdf-syntax-ns#> .
"""

SNIPPETS = [
    ("empty", "turtle", ""),
    ("only-prefixes", "turtle", PREFIXES),
    (
        "multi-type",
        "turtle",
        PREFIXES
        + """
ex:e1 a prov:Entity, prov:Plan, ex:Custom, prov:Collection ; rdfs:label "é"@fr, "plain" ; ex:p "" .
ex:ag a prov:Agent, prov:Person, prov:SoftwareAgent .
ex:x a ex:NotProv ; ex:p 1 .
""",
    ),
    (
        "literals",
        "turtle",
        PREFIXES
        + """
ex:e1 a prov:Entity ;
  ex:year "2002"^^xsd:gYear ; ex:ym "2002-07"^^xsd:gYearMonth ; ex:dt "2012-01-02T03:04:05Z"^^xsd:dateTime ;
  ex:qn "ex:thing"^^xsd:QName ; ex:b64 "aGVsbG8="^^xsd:base64Binary ; ex:xml "<a/>"^^rdf:XMLLiteral ;
  ex:i 5 ; ex:d 5.5e0 ; ex:b true ; ex:dec 1.25 ; ex:uri "http://x.example/"^^xsd:anyURI ;
  ex:ref ex:other ; ex:far <http://nowhere.example.org/a/b#c> ; prov:value "v" ; prov:atLocation ex:place, "txt" .
""",
    ),
    (
        "qualified",
        "turtle",
        PREFIXES
        + """
ex:e1 a prov:Entity ; prov:wasGeneratedBy ex:a1 ;
  prov:qualifiedGeneration [ a prov:Generation ; prov:activity ex:a1 ; prov:atTime "2012-01-02T03:04:05"^^xsd:dateTime ; prov:hadRole "r" ; ex:k "v" ] .
ex:a1 a prov:Activity ; prov:startedAtTime "2012-01-01T00:00:00"^^xsd:dateTime ; prov:used ex:e0 ;
  prov:qualifiedUsage ex:u1 ; prov:wasAssociatedWith ex:ag ;
  prov:qualifiedAssociation [ a prov:Association ; prov:agent ex:ag ; prov:hadPlan ex:plan ; prov:hadRole "op" ] .
ex:u1 a prov:Usage ; prov:entity ex:e0 ; prov:atTime "2012-01-01T01:00:00"^^xsd:dateTime .
ex:ag a prov:Agent ; prov:actedOnBehalfOf ex:boss ;
  prov:qualifiedDelegation [ a prov:Delegation ; prov:agent ex:boss ; prov:hadActivity ex:a1 ] .
ex:e2 a prov:Entity ; prov:wasDerivedFrom ex:e1 ;
  prov:qualifiedRevision [ a prov:Revision ; prov:entity ex:e1 ; prov:hadActivity ex:a1 ] ;
  prov:qualifiedDerivation ex:d1 .
ex:d1 a prov:Derivation, prov:Quotation ; prov:entity ex:e1 .
""",
    ),
    (
        "repeated-formal",
        "turtle",
        PREFIXES
        + """
ex:a1 a prov:Activity ; prov:qualifiedStart ex:s1 .
ex:s1 a prov:Start ; prov:entity ex:t1, ex:t2 ; prov:hadActivity ex:st1, ex:st2 ; prov:atTime "2012-01-01T00:00:00"^^xsd:dateTime .
""",
    ),
    (
        "qualified-to-entity",
        "turtle",
        PREFIXES
        + """
ex:e1 a prov:Entity .
ex:a1 a prov:Activity ; prov:qualifiedUsage ex:e1 .
""",
    ),
    (
        "binary-relations",
        "turtle",
        PREFIXES
        + """
ex:e1 prov:alternateOf ex:e2 ; prov:specializationOf ex:e3 ; prov:mentionOf ex:e4 ; prov:asInBundle ex:b ;
  prov:wasAttributedTo ex:ag ; prov:wasInfluencedBy ex:x ; prov:wasInvalidatedBy ex:a ; prov:hadMember ex:m1, ex:m2 .
ex:a prov:wasInformedBy ex:a0 ; prov:wasStartedBy ex:e1 ; prov:wasEndedBy ex:e2 ; prov:wasAssociatedWith ex:ag .
ex:e5 prov:mentionOf ex:e6 .
""",
    ),
    (
        "unknown-namespace-subject",
        "turtle",
        PREFIXES + "<http://nowhere.example.org/deep/path/thing> a prov:Entity ; <http://nowhere2.example.org/p> 1 .\n",
    ),
    (
        "named-graphs",
        "trig",
        PREFIXES
        + """
ex:top a prov:Entity .
ex:b1 a prov:Bundle, prov:Entity .
ex:b1 { ex:e a prov:Entity ; rdfs:label "ïn" . ex:a a prov:Activity . ex:e prov:wasGeneratedBy ex:a . }
<http://other.example.org/b2> { ex:e a prov:Entity ; ex:p "two" . }
""",
    ),
    (
        "multi-type-ok",
        "turtle",
        PREFIXES
        + """
ex:e1 a prov:Entity, prov:Plan, ex:Custom, prov:Collection ; rdfs:label "é"@fr, "plain" ; ex:p "" .
ex:ag a prov:Agent, prov:Person, prov:SoftwareAgent ; ex:n 1, 1.0e0, true .
ex:a a prov:Activity ; a ex:Special ; prov:endedAtTime "2012-01-01T00:00:00"^^xsd:dateTime .
""",
    ),
    ("anonymous-entity", "turtle", PREFIXES + '[] a prov:Entity ; ex:p "anonymous" .\n'),
    (
        "unknown-namespace-ok",
        "turtle",
        PREFIXES + "<http://nowhere.example.org/deep/path/thing> a prov:Entity ; ex:p <http://nowhere3.example.org/v#x> .\n",
    ),
    (
        "named-graphs-ok",
        "trig",
        PREFIXES
        + """
ex:top a prov:Entity .
ex:b1 a prov:Bundle, prov:Entity .
ex:b1 { ex:e a prov:Entity ; rdfs:label "ïn" . ex:a a prov:Activity . ex:e prov:wasGeneratedBy ex:a ; prov:mentionOf ex:top ; prov:asInBundle ex:b2 . }
ex:b2 { ex:e a prov:Entity ; ex:p "two" . ex:e prov:qualifiedInvalidation [ a prov:Invalidation ; prov:activity ex:gone ] . }
""",
    ),
    ("garbage", "turtle", "@@@ nope"),
]


def part4():
    print("== snippets")
    for name, fmt, text in SNIPPETS:

        def load():
            ser = provrdf.ProvRDFSerializer()
            d = ser.deserialize(io.BytesIO(text.encode("utf-8")), rdf_format=fmt)
            state = corpus.doc_state(d, ordered=False)
            return "same=%s records=%d %s" % (
                ser.document is d,
                len(d.get_records()) + sum(len(b.get_records()) for b in d.bundles),
                corpus.digest(state),
            )

        print("   ", attempt(name, load))
        # custom mappers (old keyword form): empty mappers
        print(
            "   ",
            attempt(
                name + "/empty-mappers",
                lambda: corpus.digest(
                    corpus.doc_state(
                        provrdf.ProvRDFSerializer().deserialize(
                            io.BytesIO(text.encode("utf-8")),
                            rdf_format=fmt,
                            relation_mapper={},
                            predicate_mapper={},
                        ),
                        ordered=False,
                    )
                ),
            ),
        )


part1()
part2()
part3()
part4()
