# The library keeps attribute values in sets, so output order depends on string
# hashing: the script re-runs itself under fixed PYTHONHASHSEED values (0, 1, 2).
import os, subprocess, sys
if "--child" not in sys.argv:
    for seed in ("0", "1", "2"):
        env = dict(os.environ, PYTHONHASHSEED=seed)
        r = subprocess.run([sys.executable, os.path.abspath(__file__), "--child"], env=env,
                           stdout=subprocess.PIPE, stderr=subprocess.STDOUT)
        sys.stdout.write("==== PYTHONHASHSEED=%s rc=%d\n" % (seed, r.returncode))
        sys.stdout.write(r.stdout.decode("utf-8"))
    sys.exit(0)
# shared fixture builders / digest helpers (copied verbatim into each equiv.py)
import datetime, hashlib, sys
from prov.model import (ProvDocument, ProvBundle, ProvException, ProvEntity, ProvActivity,
                        ProvAgent, ProvElement, ProvRelation, ProvRecord, Namespace,
                        PROV_ENTITY, PROV_ACTIVITY, PROV_GENERATION, PROV, Literal,
                        PROV_ATTR_ENTITY, PROV_ATTR_ACTIVITY, PROV_TYPE, PROV_LABEL)
from prov.identifier import QualifiedName, Identifier

EX = Namespace("ex", "http://example.org/")
OT = Namespace("other", "http://other.example/ns#")
LINES = []


def out(*parts):
    LINES.append(" ".join(str(p) for p in parts))


def attempt(label, fn):
    try:
        res = fn()
    except BaseException as e:  # noqa
        out(label, "RAISED", type(e).__name__, str(e))
        return None
    out(label, "OK", describe(res))
    return res


def describe(x):
    if isinstance(x, ProvDocument):
        return "DOC<<\n%s\n>> ns=%s default=%s bundles=%s" % (
            x.get_provn(), sorted((n.prefix, n.uri) for n in x.namespaces), x.default_ns_uri,
            [str(b.identifier) for b in x.bundles])
    if isinstance(x, ProvBundle):
        return "BUNDLE<<\n%s\n>> ns=%s default=%s doc=%s" % (
            x.get_provn(), sorted((n.prefix, n.uri) for n in x.namespaces), x.default_ns_uri,
            type(x.document).__name__)
    if isinstance(x, ProvRecord):
        return "REC %s | %s | bundle=%r | attrs=%r" % (type(x).__name__, x.get_provn(), x.bundle, x.attributes)
    if isinstance(x, (list, tuple)):
        return type(x).__name__ + "[" + "; ".join(describe(i) for i in x) + "]"
    return "%s:%r" % (type(x).__name__, x)


def doc_plain():
    d = ProvDocument()
    d.add_namespace(EX)
    d.entity("ex:e1", {"ex:k": "v1"})
    d.activity("ex:a1", datetime.datetime(2020, 1, 2, 3, 4, 5))
    d.wasGeneratedBy("ex:e1", "ex:a1", identifier="ex:g1")
    d.agent("ex:ag1")
    d.wasAttributedTo("ex:e1", "ex:ag1")
    return d


def doc_repeated():
    d = ProvDocument()
    d.add_namespace(EX)
    d.add_namespace(OT)
    d.set_default_namespace("http://default.example/")
    d.entity("ex:e1", {"ex:k": "v1", PROV_TYPE: EX["T1"]})
    d.entity("ex:e1", {"ex:k": "v2", "other:z": 3})
    d.entity("ex:e1", {"ex:k": "v1"})
    d.entity("ex:e1", {"ex:k": "v1"})  # equal to the previous one
    d.activity("ex:e1")  # same id, other type
    d.activity("ex:a1", datetime.datetime(2020, 1, 2, 3, 4, 5))
    d.activity("ex:a1", None, datetime.datetime(2021, 1, 2, 3, 4, 5), {"ex:x": 1.5})
    d.entity("plain")
    d.entity("plain", {PROV_LABEL: Literal("café \"q\" \\ \n", langtag="fr")})
    d.wasGeneratedBy("ex:e1", "ex:a1", identifier="ex:g1")
    d.wasGeneratedBy("ex:e1", "ex:a1", time=datetime.datetime(2019, 5, 5), identifier="ex:g1")
    d.wasGeneratedBy("ex:e1", "ex:a1")
    d.used("ex:a1", "ex:e1")
    d.used("ex:a1", None)
    d.wasDerivedFrom("ex:e2", "ex:e1", "ex:a1")
    d.specializationOf("ex:e2", "ex:e1")
    d.hadMember("ex:c", "ex:e1")
    d.mentionOf("ex:e3", "ex:e1", "ex:b1")
    d.actedOnBehalfOf("ex:ag2", "ex:ag1", "ex:a1")
    d.wasAssociatedWith("ex:a1", "ex:ag1", "ex:plan")
    d.wasStartedBy("ex:a1", "ex:trig", "ex:starter")
    d.wasEndedBy("ex:a1", None, "ex:ender")
    d.wasInformedBy("ex:a2", "ex:a1")
    d.wasInfluencedBy("ex:x", "ex:y")
    d.alternateOf("ex:e4", "ex:e1")
    return d


def doc_bundles():
    d = doc_repeated()
    b1 = d.bundle("ex:b1")
    b1.add_namespace("bns", "http://bundle.example/")
    b1.entity("bns:e", {"bns:p": 1})
    b1.entity("bns:e", {"bns:p": 2})
    b1.entity("ex:e1")
    b1.wasDerivedFrom("bns:e", "ex:e1")
    b2 = d.bundle("ex:b2")
    b2.set_default_namespace("http://b2.default/")
    b2.activity("act")
    b2.activity("act", datetime.datetime(2000, 1, 1))
    d.bundle("ex:empty")
    return d


def doc_empty():
    return ProvDocument()


def all_docs():
    return [("plain", doc_plain), ("repeated", doc_repeated), ("bundles", doc_bundles), ("empty", doc_empty)]


def finish():
    text = "\n".join(LINES) + "\n"
    sys.stdout.write(text)
    sys.stdout.write("DIGEST " + hashlib.sha256(text.encode("utf-8")).hexdigest() + "\n")

# ---- refactoring 5: generator/list comprehension -> loops, conditional expression -> if/else
# in ProvBundle.new_record and ProvDocument.flattened
from collections import OrderedDict
from prov.model import PROV_USAGE, PROV_DERIVATION, PROV_MEMBERSHIP, PROV_ATTR_TIME, PROV_ATTR_GENERATED_ENTITY, PROV_ATTR_USED_ENTITY, PROV_VALUE


class WeirdDict(dict):
    def items(self):
        return iter([("ex:w1", 1), ("ex:w2", 2)])


class BadItemsDict(dict):
    def items(self):
        return iter([("ex:ok", 1), ("ex:a", "b", "c")])


def gen(pairs):
    for p in pairs:
        yield p


def attr_cases():
    t = datetime.datetime(2012, 12, 12, 12, 12, 12)
    return [
        ("none", lambda: None),
        ("empty dict", lambda: {}),
        ("empty list", lambda: []),
        ("dict", lambda: {"ex:p": 1, "ex:q": "two", PROV_TYPE: EX["T"]}),
        ("ordered", lambda: OrderedDict([("ex:z", 1), ("ex:a", 2), ("ex:z2", 1)])),
        ("list", lambda: [("ex:p", 1), ("ex:p", 2), ("ex:p", 1), (PROV_LABEL, "l")]),
        ("tuple", lambda: (("ex:p", 1.5), ("ex:q", True))),
        ("generator", lambda: gen([("ex:g", "x"), ("ex:h", Literal("y", langtag="en"))])),
        ("items view", lambda: {"ex:v": 1}.items()),
        ("weird dict", lambda: WeirdDict(a=1)),
        ("bad items dict", lambda: BadItemsDict(a=1)),
        ("list with triple", lambda: [("ex:a", 1, 2)]),
        ("list of strings", lambda: ["ab", "cd"]),
        ("int", lambda: 7),
        ("string", lambda: "ex:p"),
        ("set", lambda: {("ex:s", 1)}),
        ("unusual chars", lambda: {"ex:p": "café \"q\" \\ \n\t", EX["a.b-c"]: "\U0001F600"}),
        ("formal in dict", lambda: {PROV_ATTR_TIME: t, PROV_ATTR_ACTIVITY: "ex:a1"}),
    ]


def target():
    d = ProvDocument()
    d.add_namespace(EX)
    return d


for an, mka in attr_cases():
    for on, mko in attr_cases():
        d = target()
        attempt("entity attrs=%s other=%s" % (an, on), lambda: d.new_record(PROV_ENTITY, "ex:e", mka(), mko()))
        out("   doc", d.get_provn().replace("\n", "|"))
    d = target()
    attempt("generation attrs=%s" % an, lambda: d.new_record(PROV_GENERATION, None, mka(), {"ex:o": 1}))
    attempt("generation with id attrs=%s" % an, lambda: d.new_record(PROV_GENERATION, "ex:g", {PROV_ATTR_ENTITY: "ex:e"}, mka()))
    attempt("keyword call %s" % an, lambda: d.new_record(record_type=PROV_ACTIVITY, identifier=EX["act"], other_attributes=mka()))
    out("   doc", d.get_provn().replace("\n", "|"))

d = target()
attempt("bad record type", lambda: d.new_record("nonsense", "ex:e"))
attempt("none record type", lambda: d.new_record(None, "ex:e", {"ex:p": 1}))
attempt("entity without id", lambda: d.new_record(PROV_ENTITY, None, {"ex:p": 1}))
attempt("entity undeclared prefix", lambda: d.new_record(PROV_ENTITY, "zz:e", None, {"zz:p": 1}))
attempt("relation missing ends", lambda: d.new_record(PROV_DERIVATION, None, None, None))
attempt("repeat id", lambda: [d.new_record(PROV_ENTITY, "ex:same", [("ex:i", i)]) for i in range(3)])
attempt("returned is stored", lambda: d.new_record(PROV_ENTITY, "ex:last") is d.get_records()[-1])
b = d.bundle("ex:bun")
attempt("in bundle", lambda: b.new_record(PROV_USAGE, "ex:u", {PROV_ATTR_ACTIVITY: "ex:a"}, gen([("ex:k", 1)])))
out("   doc", d.get_provn().replace("\n", "|"))

# flattened
for name, mk in all_docs():
    d = mk()
    before = d.get_provn()
    f = attempt(name + ".flattened", d.flattened)
    out(name, "same object", f is d, "type", type(f).__name__)
    out(name, "source unchanged", before == d.get_provn())
    if f is not None:
        attempt(name + ".flattened twice", lambda: f.flattened() is f)
        out(name, "records", [r.get_provn() for r in f.get_records()])
        out(name, "record bundles", sorted(set(repr(r.bundle) for r in f.get_records())))
d = ProvDocument()
d.add_namespace(EX)
for i in (3, 1, 2):
    bb = d.bundle("ex:b%d" % i)
    for j in range(2):
        bb.entity("ex:e%d_%d" % (i, j), {"ex:i": i})
    bb.entity("ex:shared", {"ex:from": i})
d.bundle("ex:void")
attempt("ordered bundles flattened", d.flattened)
d2 = ProvDocument()
d2.bundle(EX["only-empty"])
attempt("only empty bundle flattened", lambda: (d2.flattened() is d2, describe(d2.flattened())))
attempt("flattened of unified", lambda: doc_bundles().unified().flattened())
finish()
